import Drv.Loop
import Drv.Render

def main : IO Unit := Drv.runDriver Drv.Render.handle
