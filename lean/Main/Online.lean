import Drv.Loop
import Drv.Online

def main : IO Unit := Drv.runDriver Drv.Online.handle
