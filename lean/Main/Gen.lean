import Drv.Loop
import Drv.Gen

def main : IO Unit := Drv.runDriver Drv.Gen.handle
