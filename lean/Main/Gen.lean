import Drv.Loop

/-- stub: replaced by the workstream handler -/
def main : IO Unit := Drv.runDriver (fun _ _ => none)
