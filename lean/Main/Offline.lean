import Drv.Loop
import Drv.Offline

def main : IO Unit := Drv.runDriver Drv.Offline.handle
