import Drv.Loop
import Drv.Files

def main : IO Unit := Drv.runDriver Drv.Files.handle
