import Drv.Loop
import Drv.Filter

def main : IO Unit := Drv.runDriver Drv.Filter.handle
