import Drv.Loop
import Drv.Batch

def main : IO Unit := Drv.runDriver Drv.Batch.handle
