import Drv.Loop
import Drv.Rev

def main : IO Unit := Drv.runDriver Drv.Rev.handle
