import Drv.Loop
import Drv.Txn

def main : IO Unit := Drv.runDriver Drv.Txn.handle
