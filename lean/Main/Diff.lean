import Drv.Loop
import Drv.Diff

def main : IO Unit := Drv.runDriver Drv.Diff.handle
