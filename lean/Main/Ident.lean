import Drv.Loop
import Drv.Ident

def main : IO Unit := Drv.runDriver Drv.Ident.handle
