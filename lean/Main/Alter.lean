import Drv.Loop
import Drv.Alter

def main : IO Unit := Drv.runDriver Drv.Alter.handle
