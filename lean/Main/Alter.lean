import Drv.Loop

/-- stub: replaced by the workstream's handler -/
def main : IO Unit := Drv.runDriver (fun _ _ => none)
