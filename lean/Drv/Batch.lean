import Drv.Json
import Spec.Batch
/-! Driver ops of the batch workstream: `batch.run` (model), `batch.spec10`, `batch.spec11` (Lean spec
checkers applied to an observation of the implementation). -/
namespace Drv.Batch
open Lean Model.Batch

/-! ## decoding -/

def optStr (j : Json) (k : String) : Option String := getStr j k

partial def valueOfJson : Json → Value
  | .null => .null
  | j =>
    match j.getObjVal? "c" with
    | .ok (.str ty) => .conv ty (getBoolD j "cast") (valueOfJson (getObj j "v"))
    | _ =>
      match j.getObjValAs? Int "i" with
      | .ok n => .int n
      | _ =>
        match getStr j "r" with
        | some r => .real r ((j.getObjValAs? Int "fl").toOption.getD 0) (getBoolD j "fr")
        | none =>
          match getStr j "t" with
          | some t => .text t
          | none =>
            match getStr j "b" with
            | some b => .blob b
            | none => .null

partial def valueToJson : Value → Json
  | .null => Json.null
  | .int n => obj [("i", toJson n)]
  | .real r _ _ => obj [("r", Json.str r)]
  | .text s => obj [("t", Json.str s)]
  | .blob b => obj [("b", Json.str b)]
  | .conv ty c v => obj [("c", Json.str ty), ("cast", Json.bool c), ("v", valueToJson v)]

def nameJ : Option String → Json
  | some n => Json.str n
  | none => Json.null

def colOfJson (j : Json) : ColDef :=
  { name := getStrD j "name", ty := getStrD j "ty", aff := getStrD j "aff", nullable := getBoolD j "nullable" true,
    default := optStr j "default", dval := valueOfJson (getObj j "dval"), pk := getBoolD j "pk",
    index := getBoolD j "index", unique := getBoolD j "unique",
    computed := optStr j "computed", persisted := getBoolD j "persisted", computedMentions := getStrList j "computed_mentions" }

def colToJson (c : ColDef) : Json :=
  obj [("name", Json.str c.name), ("ty", Json.str c.ty), ("aff", Json.str c.aff), ("nullable", Json.bool c.nullable),
       ("default", match c.default with
                   | some d => Json.str d
                   | none => Json.null),
       ("pk", Json.bool c.pk), ("computed", nameJ c.computed), ("persisted", Json.bool c.persisted)]

def cmpOfString : String → Option CmpOp
  | ">" => some .gt | ">=" => some .ge | "<" => some .lt | "<=" => some .le | "=" => some .eq | "!=" => some .ne
  | _ => none

def predOfJson (j : Json) : Option Pred :=
  match getStr j "col", (getStr j "op").bind cmpOfString, (j.getObjValAs? Int "k").toOption with
  | some c, some o, some k => some { col := c, op := o, k := k }
  | _, _, _ => none

def constOfJson (kind : ConstKind) (j : Json) : Const :=
  { kind := kind, name := optStr j "name", cols := getStrList j "cols", text := getStrD j "text",
    mentions := getStrList j "mentions", pred := predOfJson (getObj j "pred"),
    rtable := getStrD j "rtable", rcols := getStrList j "rcols", unresolvedReferent := getBoolD j "unresolved" }


def constToJson (c : Const) : Json :=
  obj [("name", nameJ c.name), ("cols", strs c.cols), ("text", Json.str c.text),
       ("rtable", Json.str c.rtable), ("rcols", strs c.rcols)]

def indexOfJson (j : Json) : Index :=
  { name := getStrD j "name", cols := getStrList j "cols", unique := getBoolD j "unique",
    where_ := optStr j "where", whereMentions := getStrList j "where_mentions", wherePred := predOfJson (getObj j "where_pred") }
def indexToJson (i : Index) : Json :=
  obj [("name", Json.str i.name), ("cols", strs i.cols), ("unique", Json.bool i.unique), ("where", nameJ i.where_)]

def rowsOfJson (j : Json) : List Row :=
  (getArr j "rows").map (fun r => match r with
    | .arr a => a.toList.map valueOfJson
    | _ => [])

def schemaOfJson (j : Json) : Schema :=
  { cols := (getArr j "cols").map colOfJson,
    pk := match getObj j "pk" with
          | .null => none
          | p => some (constOfJson .pk p),
    uniques := (getArr j "uniques").map (constOfJson .unique),
    checks := (getArr j "checks").map (constOfJson .check),
    fks := (getArr j "fks").map (constOfJson .fk),
    indexes := (getArr j "indexes").map indexOfJson }

def tblOfJson : Json → Option Tbl
  | .null => none
  | j => some { schema := schemaOfJson j, rows := rowsOfJson j }

def tblToJson : Option Tbl → Json
  | none => Json.null
  | some t =>
    obj [("cols", Json.arr (t.schema.cols.map colToJson).toArray),
         ("pk", match t.schema.pk with
                | some p => constToJson p
                | none => Json.null),
         ("uniques", Json.arr (t.schema.uniques.map constToJson).toArray),
         ("checks", Json.arr (t.schema.checks.map constToJson).toArray),
         ("fks", Json.arr (t.schema.fks.map constToJson).toArray),
         ("indexes", Json.arr (t.schema.indexes.map indexToJson).toArray),
         ("rows", Json.arr (t.rows.map (fun r => Json.arr (r.map valueToJson).toArray)).toArray)]

def dbOfJson (j : Json) : Db := { orig := tblOfJson (getObj j "orig"), tmp := tblOfJson (getObj j "tmp") }
def dbToJson (d : Db) : Json := obj [("orig", tblToJson d.orig), ("tmp", tblToJson d.tmp)]

def opOfJson1 (j : Json) : Option BatchOp :=
  match getStrD j "op" with
  | "add_column" => some (.addColumn (colOfJson (getObj j "col")) (optStr j "before") (optStr j "after") (getBoolD j "clause"))
  | "drop_column" => some (.dropColumn (getStrD j "name"))
  | "alter_column" =>
    let ty := match getObj j "type" with
      | .null => none
      | t => some (getStrD t "ty", getStrD t "aff")
    let d := match getObj j "default" with
      | .null => DefaultChange.keep
      | d => match getStr d "set" with
        | some s => .set s (valueOfJson (getObj d "dval"))
        | none => .drop
    some (.alterColumn (getStrD j "name") (optStr j "new_name") ty (getBool j "nullable") d)
  | "add_unique" => some (.addConstraint (constOfJson .unique j))
  | "add_check" => some (.addConstraint (constOfJson .check j))
  | "add_fk" => some (.addConstraint (constOfJson .fk j))
  | "add_pk" => some (.addConstraint (constOfJson .pk j))
  | "drop_constraint" => some (.dropConstraint (getStrD j "name"))
  | "create_index" => some (.createIndex (indexOfJson j))
  | "drop_index" => some (.dropIndex (getStrD j "name"))
  | "table_comment" => some .tableComment
  | _ => none

/-- an `existing_type_const` on alter_column / drop_column becomes the marker op in front of it -/
def opOfJson (j : Json) : Option (List BatchOp) :=
  match opOfJson1 j with
  | none => none
  | some o =>
    match getStr j "existing_type_const" with
    | none =>
      -- add_column(Column(..., ForeignKey(..., name=...))): toimpl.add_column forwards the column's FK constraint to add_constraint
      match getObj j "fk" with
      | .null => some [o]
      | f => some [o, .addConstraint (constOfJson .fk f)]
    | some n =>
      let renames := match getStr j "new_name" with
        | some nn => nn != getStrD j "name"
        | none => false
      let retypes := match getObj j "type" with
        | .null => false
        | _ => true
      some [.existingTypeConst n renames retypes (getStrD j "op" == "drop_column"), o]

def opsOfJson (j : Json) : Option (List BatchOp) := ((getArr j "ops").mapM opOfJson).map List.flatten

def modeOfJson (j : Json) : ConnMode :=
  match getStrD j "mode" with
  | "autocommit" => .autocommit
  | "begin" => .explicitBegin
  | _ => .pysqliteLegacy

def failKindOfJson (j : Json) : FailKind :=
  match getStrD j "fault_kind" with
  | "keyboard" => .keyboardInterrupt
  | "systemexit" => .systemExit
  | "base" => .baseException
  | _ => .exception

def prOfJson (j : Json) : List (List String) := (getArr j "partial_reordering").map asStrList

def convOfJson (j : Json) : ConvTable :=
  (getArr j "convs").map (fun e => (getStrD e "ty", getBoolD e "cast", valueOfJson (getObj e "v"), valueOfJson (getObj e "out")))

/-! ## encoding of the trace -/

partial def exprTok : Expr → String
  | .col k => k
  | .cast e ty => "cast:" ++ ty ++ ":" ++ exprTok e

def stmtTok : Stmt → String
  | .createTmp _ => "createTmp"
  | .createTmpIndex ix => "createTmpIndex:" ++ ix.name
  | .insertSelect feeds =>
    let fed := feeds.filterMap (fun f => f.2.map (fun e => (f.1.name, e)))
    "insert:" ++ ",".intercalate (fed.map (·.1)) ++ "<-" ++ ",".intercalate (fed.map (fun p => exprTok p.2))
  | .dropOld => "dropOld"
  | .dropTmp => "dropTmp"
  | .renameTmp => "renameTmp"
  | .createIndex ix => "createIndex:" ++ ix.name ++ ":" ++ ",".intercalate ix.cols ++ ":" ++ (if ix.unique then "u" else "n") ++
      (match ix.where_ with
       | some w => ":where=" ++ w
       | none => "")
  | .alterAdd c => "alterAdd:" ++ c.name
  | .dropIndex n => "dropIndex:" ++ n

def errJson : Option Err → Json
  | some e => Json.str e.toString
  | none => Json.null

def handle (op : String) (j : Json) : Option Json :=
  match op with
  | "noop" => some (obj [])
  | "batch.run" =>
    match opsOfJson j with
    | none => some (errJ "bad-op")
    | some ops =>
      let out := runBatch (convOfJson j) (getStrD j "table") (getBoolD j "reflected" true) (getBoolD j "always" true) ops
        (getNat j "fault") (getBoolD j "commitOnError") (dbOfJson (getObj j "db")) (modeOfJson j) (getBoolD j "tddl")
        (match getObj j "copy_from_schema" with
         | .null => none
         | cf => some (schemaOfJson cf))
        (failKindOfJson j) (prOfJson j)
        (match getStr j "schema" with
         | some sc => sc ++ "_"
         | none => "")
      let sl := match getStr j "schema" with
        | some sc => sc ++ "_"
        | none => ""
      some (obj [("recreated", Json.bool out.recreated),
                 ("recreates", Json.bool (recreates (sl ++ getStrD j "table") (getBoolD j "always" true) ops)), ("stmts", strs (out.trace.map stmtTok)),
                 ("outcome", errJson out.err), ("final", dbToJson out.final)])
  | "batch.spec10" =>
    match opsOfJson j with
    | none => some (errJ "bad-op")
    | some ops =>
      match tblOfJson (getObj j "before"), tblOfJson (getObj j "after") with
      | some b, some a =>
        let r := Spec.Batch.check10 (convOfJson j) (getStrD j "table") b ops a (getStrList j "tmp_like") (prOfJson j)
        some (obj [("holds", Json.bool r.isEmpty), ("why", strs r)])
      | _, _ => some (obj [("holds", Json.bool false), ("why", strs ["schema: table missing after the batch"])])
  | "batch.spec11" =>
    match opsOfJson j with
    | none => some (errJ "bad-op")
    | some ops =>
      match tblOfJson (getObj j "before") with
      | some b =>
        let r := Spec.Batch.check11 (convOfJson j) b ops (getBoolD j "early") (dbOfJson (getObj j "after"))
        some (obj [("holds", Json.bool r.isEmpty), ("why", strs r)])
      | none => some (errJ "bad-op")
  | _ => none

end Drv.Batch
