import Drv.Json
import Model.Rev.Heads
import Model.Rev.Memo
import Spec.Rev
namespace Drv.Rev
open Lean Model.Rev

def revOfJson (j : Json) : Rev :=
  { id := getStrD j "id", down := getStrList j "down", deps := getStrList j "deps", labels := getStrList j "labels" }

def histOfJson (j : Json) : Hist := (getArr j "revs").map revOfJson

def optsOfJson (j : Json) : LoadOpts :=
  { normOrder := (getArr j "normOrder").map (fun e => (getStrD e "id", getStrList e "order")) }

def errJ (e : Err) : Json := obj [("err", Json.str e.name)]

def lmapJson (m : LMap) : Json :=
  obj [("heads", strs m.heads), ("realHeads", strs m.realHeads), ("bases", strs m.bases),
       ("realBases", strs m.realBases),
       ("labels", obj (m.revs.map (fun r => (r.id, strs r.labels)))),
       ("ndeps", obj (m.revs.map (fun r => (r.id, strs r.ndeps)))),
       ("rdeps", obj (m.revs.map (fun r => (r.id, strs r.rdeps)))),
       ("nextrev", obj (m.revs.map (fun r => (r.id, strs (m.nextrev r.id))))),
       ("allNextrev", obj (m.revs.map (fun r => (r.id, strs (m.allNextrev r.id)))))]

def stmtJson : Stmt → Json
  | .ins v => Json.arr #["ins", v]
  | .del v => Json.arr #["del", v]
  | .upd a b => Json.arr #["upd", a, b]

def stepJson : Step → Json
  | .rev i up => obj [("rev", i), ("up", Json.bool up)]
  | .stamp f t up bm => obj [("from", strs f), ("to", strs t), ("up", Json.bool up), ("branchMove", Json.bool bm)]

/-- run steps, collecting rows and statements after each step; stops at the first error -/
def traceSteps (m : LMap) : List Id → List Step → List Json × Option Err
  | _, [] => ([], none)
  | rows, s :: rest =>
    match updateToStep m rows s with
    | .error e => ([], some e)
    | .ok (rows', st) =>
      let (tr, e) := traceSteps m rows' rest
      (obj [("rows", strs rows'), ("stmts", Json.arr (st.map stmtJson).toArray)] :: tr, e)

def handle (op : String) (j : Json) : Option Json :=
  match op with
  | "rev.load" =>
    match load (histOfJson j) (optsOfJson j) with
    | .error e => some (errJ e)
    | .ok m => some (obj [("ok", lmapJson m)])
  | "rev.memo" =>
    -- a sequence of reads on one RevisionMap object
    let acc (s : String) : Accessor :=
      if s == "heads" then .heads else if s == "bases" then .bases else if s == "realHeads" then .realHeads
      else if s == "realBases" then .realBases else .revisionMap
    let rs := Memo.run (histOfJson j) (optsOfJson j) {} ((getStrList j "reads").map acc)
    some (Json.arr (rs.map (fun r => match r with | .ok l => obj [("ok", strs l)] | .error e => errJ e)).toArray)
  | "rev.cmd" =>
    match load (histOfJson j) (optsOfJson j) with
    | .error e => some (obj [("loadErr", Json.str e.name)])
    | .ok m =>
      let rows := getStrList j "rows"
      let cmd := getStrD j "cmd"
      let plan : Except Err (List Step) :=
        if cmd == "upgrade" then (upgradeRevs m rows (getStrD j "target")).map (·.map (Step.rev · true))
        else if cmd == "downgrade" then (downgradeRevs m rows (getStrD j "target")).map (·.map (Step.rev · false))
        else stampRevs m (getStrList j "targets") rows
      match plan with
      | .error e => some (errJ e)
      | .ok steps =>
        let (tr, e) := traceSteps m rows steps
        some (obj ([("steps", Json.arr (steps.map stepJson).toArray), ("trace", Json.arr tr.toArray)] ++
          (match e with | some e => [("stepErr", Json.str e.name)] | none => [])))
  | "rev.resolve" =>
    match load (histOfJson j) (optsOfJson j) with
    | .error e => some (obj [("loadErr", Json.str e.name)])
    | .ok m =>
      let ident := getStrD j "ident"
      let r := if getBoolD j "single" then (getRevision m ident).map (fun x => [x]) else getRevisions m ident
      match r with
      | .error e => some (errJ e)
      | .ok rs => some (obj [("revs", Json.arr (rs.map (fun x => match x with | some i => Json.str i | none => Json.null)).toArray)])
  | "rev.parse" =>
    match load (histOfJson j) (optsOfJson j) with
    | .error e => some (obj [("loadErr", Json.str e.name)])
    | .ok m =>
      let rows := getStrList j "rows"
      let t := getStrD j "target"
      if getBoolD j "up" then
        match parseUpgradeTarget m rows t with
        | .error e => some (errJ e)
        | .ok ts => some (obj [("targets", strs ts)])
      else
        match parseDowngradeTarget m rows t with
        | .error e => some (errJ e)
        | .ok (b, r) => some (obj [("branch", match b with | some x => Json.str x | none => Json.null),
                                   ("target", match r with | some x => Json.str x | none => Json.null)])
  | "rev.spec.plain" =>
    let h := histOfJson j
    some (obj [("holds", Json.bool (Spec.Rev.plainResolveOk h (getStrD j "ident") (getStrD j "result")))])
  | "rev.spec.branchprefix" =>
    let h := histOfJson j
    some (obj [("holds", Json.bool (Spec.Rev.branchPrefixOk h (getStrD j "label") (getStrD j "ident") (getStrD j "result")))])
  | "rev.spec.inbranch" =>
    let h := histOfJson j
    match Spec.Rev.branchRev h (getStrD j "label") with
    | none => some (obj [("undefined", Json.bool true)])
    | some br => some (obj [("holds", Json.bool (Spec.Rev.downLineage h br (getStrD j "rev")))])
  | "rev.spec.belowheads" =>
    let h := histOfJson j
    let rs := (getStrList j "results").map (fun x => if x == "base" then none else some x)
    some (obj [("holds", Json.bool (Spec.Rev.belowHeadsOk h (getStr j "label") (getNatD j "n") rs))])
  | "rev.spec.relup" =>
    let h := histOfJson j
    match Spec.Rev.relUpOk h (getStrList j "rows") (getStr j "label") (getNatD j "n") (getStrD j "result") with
    | none => some (obj [("undefined", Json.bool true)])
    | some b => some (obj [("holds", Json.bool b)])
  | "rev.spec.steps" =>
    let h := histOfJson j
    some (obj [("holds", Json.bool (Spec.Rev.stepsDown h (getNatD j "n") (getStrD j "from") (getStr j "to")))])
  | "rev.spec.upgrade" =>
    let h := histOfJson j
    some (obj [("holds", Json.bool (Spec.Rev.upgradeOk h (getStrList j "rows") (getStrList j "targets") (getStrList j "plan")))])
  | "rev.spec.downgrade" =>
    let h := histOfJson j
    some (obj [("holds", Json.bool (Spec.Rev.downgradeOk h (getStrList j "rows") (getStr j "target") (getStr j "branch") (getStrList j "plan")))])
  | "rev.spec.rows" =>
    let h := histOfJson j
    some (obj [("holds", Json.bool (Spec.Rev.rowsOk h (getStrList j "applied") (getStrList j "rows"))),
               ("maximal", strs (Spec.Rev.maximal h (getStrList j "applied")))])
  | "rev.spec.stamp" =>
    let h := histOfJson j
    some (obj [("holds", Json.bool (Spec.Rev.stampOk h (getStrList j "rows") (getStrList j "dests") (getStrList j "rows2")))])
  | "rev.spec.load" =>
    let h := histOfJson j
    some (obj [("hasCycle", Json.bool (Spec.Rev.hasCycle h)), ("hasDownCycle", Json.bool (Spec.Rev.hasDownCycle h)),
               ("heads", strs (Spec.Rev.headsOf h)), ("realHeads", strs (Spec.Rev.realHeadsOf h)),
               ("bases", strs (Spec.Rev.basesOf h)), ("realBases", strs (Spec.Rev.realBasesOf h))])
  | "rev.spec.targets" =>
    let h := histOfJson j
    match Spec.Rev.refTargets h (getStrD j "ident") with
    | some t => some (obj [("targets", strs t)])
    | none => some (obj [("undefined", Json.bool true)])
  | "rev.spec.refuse" =>
    let h := histOfJson j
    some (obj [("mustRefuse", Json.bool (Spec.Rev.mustRefuse h (getStrList j "rows") (getStr j "target") (getStr j "branch")))])
  | "rev.spec.trace" =>
    let h := histOfJson j
    let rows := getStrList j "rows"
    let steps := (getArr j "steps").map (fun s => (getStrD s "rev", getBoolD s "up"))
    let tr := (getArr j "trace").map asStrList
    some (obj [("holds", Json.bool (Spec.Rev.traceOk h (Spec.Rev.ancSet h rows) steps tr)),
               ("startOk", Json.bool (Spec.Rev.antichain h rows))])
  | "rev.spec.antichain" =>
    let h := histOfJson j
    some (obj [("holds", Json.bool (Spec.Rev.antichain h (getStrList j "rows")))])
  | "rev.spec.anc" =>
    let h := histOfJson j
    some (obj [("anc", strs (Spec.Rev.ancSet h (getStrList j "roots")))])
  | _ => none

end Drv.Rev
