import Drv.Json
import Spec.Py
import Spec.Render
namespace Drv.Render
open Lean Model.Py Model.Render

/-- strings travel as arrays of code points (no dependence on JSON escaping of astral / control characters) -/
def charsOf (j : Json) : List Char :=
  match j with
  | .arr a => a.toList.filterMap (fun x => match x.getNat? with | .ok n => some (Char.ofNat n) | _ => none)
  | .str s => s.toList
  | _ => []
def getChars (j : Json) (k : String) : List Char := charsOf (getObj j k)
def getOptChars (j : Json) (k : String) : Option (List Char) :=
  match getObj j k with
  | .null => none
  | v => some (charsOf v)
def charsJ (l : List Char) : Json := nats (l.map Char.toNat)
def getOptBool (j : Json) (k : String) : Option Bool := getBool j k

/-- printability oracle: the harness lists the non-printable non-ASCII code points (per `str.isprintable`) -/
def isPOf (j : Json) : Char → Bool :=
  let np := getNatList j "nonprintable"
  fun c => !(np.contains c.toNat)

instance : Inhabited PyAst := ⟨.name []⟩

partial def astOfJson (j : Json) : PyAst :=
  match getStrD j "t" with
  | "str" => .str (getChars j "s")
  | "sq" => .sq (getChars j "s")
  | "name" => .name (getChars j "n")
  | "call" => .call (getChars j "fn") ⟨[], [' '], [], getBoolD j "trail"⟩ ((getArr j "items").map fun x => (getOptChars x "k", astOfJson (getObj x "v")))
  | "list" => .list ((getArr j "items").map fun x => (none, astOfJson x))
  | _ => .name []

def getOptAst (j : Json) (k : String) : Option PyAst :=
  match getObj j k with
  | .null => none
  | v => some (astOfJson v)

def kwOf (j : Json) (k : String) : Kw := (getArr j k).map fun x => (getChars x "k", astOfJson (getObj x "v"))
def strsOf (j : Json) (k : String) : List Str := (getArr j k).map charsOf

def genNameOf (j : Json) (k : String) : GenName :=
  let g := getObj j k
  match getStrD g "g" with
  | "plain" => .plain (getChars g "s")
  | "conv" => .conv (getChars g "s")
  | _ => .none

def colOf (j : Json) : Col :=
  { name := getChars j "name", type := astOfJson (getObj j "type"), sdefault := getOptAst j "sdefault",
    sdPositional := getBoolD j "sdPositional", autoinc := getOptAst j "autoinc", nullable := getOptBool j "nullable",
    system := getBoolD j "system", comment := getOptChars j "comment", kwargs := kwOf j "kwargs" }

def consOf (j : Json) : Cons :=
  match getStrD j "c" with
  | "pk" => .pk (genNameOf j "name") (strsOf j "cols")
  | "fk" => .fk (genNameOf j "name") (strsOf j "cols") (strsOf j "refcols") (kwOf j "opts")
  | "uq" => .uq (genNameOf j "name") (strsOf j "cols") (getOptAst j "deferrable") (getOptAst j "initially") (kwOf j "kwargs")
  | _ => .ck (genNameOf j "name") (getChars j "sqltext")

def optOptAst (j : Json) (k : String) : Option (Option PyAst) :=
  -- {"set": false} | {"set": true, "v": null | ast}
  let o := getObj j k
  if getBoolD o "set" then some (getOptAst o "v") else none

def optOptChars (j : Json) (k : String) : Option (Option Str) :=
  let o := getObj j k
  if getBoolD o "set" then some (getOptChars o "v") else none

def idxElemOf (j : Json) : IdxElem :=
  match getObj j "col" with
  | .null => .expr (astOfJson (getObj j "expr"))
  | v => .col (charsOf v)

def opOf (j : Json) : Option Op :=
  let table := getChars j "table"
  let schema := getOptChars j "schema"
  match getStrD j "kind" with
  | "create_table" => some (.createTable table schema ((getArr j "cols").map colOf) ((getArr j "cons").map consOf)
      (getOptChars j "comment") (kwOf j "kws") (getOptBool j "if_not_exists"))
  | "drop_table" => some (.dropTable table schema (getOptBool j "if_exists"))
  | "add_column" => some (.addColumn table schema (colOf (getObj j "col")))
  | "drop_column" => some (.dropColumn table schema (getChars j "column"))
  | "alter_column" => some (.alterColumn
      { table := table, column := getChars j "column", schema := schema, existingType := getOptAst j "existing_type",
        serverDefault := optOptAst j "server_default", newName := getOptChars j "new_column_name",
        type_ := getOptAst j "type_", nullable := getOptBool j "nullable", comment := optOptChars j "comment",
        existingComment := getOptChars j "existing_comment", existingNullable := getOptBool j "existing_nullable",
        autoinc := getOptAst j "autoincrement", existingServerDefault := getOptAst j "existing_server_default" })
  | "create_index" => some (.createIndex (genNameOf j "name") table schema ((getArr j "elems").map idxElemOf)
      (getBoolD j "unique") (kwOf j "kws") (getOptBool j "if_not_exists"))
  | "drop_index" => some (.dropIndex (genNameOf j "name") table schema (kwOf j "kws") (getOptBool j "if_exists"))
  | "create_unique" => some (.createUnique (genNameOf j "name") table schema (strsOf j "cols")
      (getOptAst j "deferrable") (getOptAst j "initially") (kwOf j "kws"))
  | "create_fk" => some (.createFK (genNameOf j "name") table (getChars j "referent") (strsOf j "lcols") (strsOf j "rcols")
      { sourceSchema := getOptAst j "source_schema", referentSchema := getOptAst j "referent_schema",
        onupdate := getOptAst j "onupdate", ondelete := getOptAst j "ondelete", initially := getOptAst j "initially",
        deferrable := getOptAst j "deferrable", useAlter := getOptAst j "use_alter", match_ := getOptAst j "match" })
  | "drop_constraint" => some (.dropConstraint (genNameOf j "name") table schema (getOptChars j "type_"))
  | "create_table_comment" => some (.createTableComment table (getOptChars j "comment") (getOptChars j "existing_comment") schema)
  | "drop_table_comment" => some (.dropTableComment table (getOptChars j "existing_comment") schema)
  | _ => none

def topOf (j : Json) : Option Top :=
  match getStrD j "top" with
  | "single" => (opOf (getObj j "o")).map .single
  | "modify" => ((getArr j "ops").mapM opOf).map (.modify (getChars j "table") (getOptChars j "schema"))
  | _ => none

def ctxOf (j : Json) : Ctx := { batch := false, opPrefix := S "op.", saPrefix := S "sa.", isP := isPOf j }

def handlePy (op : String) (j : Json) : Option Json :=
  match op with
  | "py.repr" => some (obj [("text", charsJ (pyRepr (isPOf j) (getChars j "s")))])
  | "py.parse" =>
    match pyParseStr (getChars j "text") with
    | some s => some (obj [("ok", charsJ s)])
    | none => some (obj [("none", Json.bool true)])
  | "py.spec" => some (obj [("holds", Json.bool (Spec.Py.denotesB (getChars j "text") (getChars j "s")))])
  | "py.naive" => some (obj [("text", charsJ (naiveQuote (getChars j "s")))])
  | _ => none

def handleRender (op : String) (j : Json) : Option Json :=
  match op with
  | "render.text" =>
    match topOf (getObj j "case") with
    | none => some (errJ "bad-op")
    | some t =>
      let c := ctxOf j
      let lines := renderTop c (getBoolD j "asBatch") t
      let asts := lineAsts lines
      some (obj [("text", charsJ (renderText c (getBoolD j "asBatch") t)),
                 ("wf", Json.bool (asts.all (wf false))),
                 ("plain", Json.bool (asts.all (wf true))),
                 ("selfparse", Json.bool (Spec.Render.selfParseOk c.isP asts))])
  | "render.spec" =>
    match topOf (getObj j "case") with
    | none => some (errJ "bad-op")
    | some t =>
      let c := ctxOf j
      let asts := lineAsts (renderTop c (getBoolD j "asBatch") t)
      let r := Spec.Render.textDenotes c.isP (getChars j "impl") asts
      some (obj [("holds", Json.bool r)])
  | "render.eval" =>
    match topOf (getObj j "case") with
    | none => some (errJ "bad-op")
    | some t =>
      let r := Spec.Render.evalTop (ctxOf j) (getBoolD j "asBatch") (getChars j "impl") t
      some (obj [("holds", Json.bool r.1), ("checked", r.2)])
  | "ast.parse" =>
    match parse (getChars j "text") with
    | some e => some (obj [("ok", charsJ (pp (isPOf j) e))])
    | none => some (obj [("none", Json.bool true)])
  | _ => none

def handle (op : String) (j : Json) : Option Json :=
  match handlePy op j with
  | some r => some r
  | none => handleRender op j

end Drv.Render
