import Drv.Json
import Spec.Py
namespace Drv.Render
open Lean Model.Py

/-- strings travel as arrays of code points (no dependence on JSON escaping of astral / control characters) -/
def getChars (j : Json) (k : String) : List Char := (getNatList j k).map Char.ofNat
def charsJ (l : List Char) : Json := nats (l.map Char.toNat)

/-- printability oracle: the harness lists the non-printable non-ASCII code points (per `str.isprintable`) -/
def isPOf (j : Json) : Char → Bool :=
  let np := getNatList j "nonprintable"
  fun c => !(np.contains c.toNat)

def handlePy (op : String) (j : Json) : Option Json :=
  match op with
  | "py.repr" => some (obj [("text", charsJ (pyRepr (isPOf j) (getChars j "s")))])
  | "py.parse" =>
    match pyParseStr (getChars j "text") with
    | some s => some (obj [("ok", charsJ s)])
    | none => some (obj [("none", Json.bool true)])
  | "py.spec" => some (obj [("holds", Json.bool (Spec.Py.denotesB (getChars j "text") (getChars j "s")))])
  | "py.naive" => some (obj [("text", charsJ (naiveQuote (getChars j "s")))])
  | _ => none

def handle (op : String) (j : Json) : Option Json := handlePy op j

end Drv.Render
