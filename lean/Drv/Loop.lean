import Drv.Json
/-! The line-protocol loop shared by all driver executables. -/
namespace Drv
open Lean

partial def loop (handle : String → Json → Option Json) (h : IO.FS.Stream) (out : IO.FS.Stream) : IO Unit := do
  let line ← h.getLine
  if line.isEmpty then return ()
  let t := line.trimAscii.toString
  if t.isEmpty then
    loop handle h out
  else
    let ans := match Json.parse t with
      | .ok j =>
        let op := getStrD j "op"
        match handle op j with
        | some r => r
        | none => errJ s!"unknown-op:{op}"
      | .error e => errJ s!"bad-json:{e}"
    out.putStrLn ans.compress
    loop handle h out

def runDriver (handle : String → Json → Option Json) : IO Unit := do
  let i ← IO.getStdin
  let o ← IO.getStdout
  loop handle i o
  o.flush

end Drv
