import Drv.Json
import Spec.Online
namespace Drv.Online
open Lean Model.Online

def natOf (j : Json) : Option Nat :=
  match j.getNat? with
  | .ok n => some n
  | _ => none

def actOfJson (j : Json) : Option Act :=
  match j with
  | .arr a =>
    match a.toList with
    | [.str "add", e] => (natOf e).map .add
    | [.str "del", e] => (natOf e).map .del
    | [.str "cvt"] => some .createVT
    | [.str "read"] => some .read
    | [.str "vins", r] => (natOf r).map .vins
    | [.str "vdel", r] => (natOf r).map .vdel
    | [.str "vupd", x, y] => do pure (.vupd (← natOf x) (← natOf y))
    | _ => none
  | _ => none

def stmtOfJson (j : Json) : Option (Stmt Act) := do
  let a ← actOfJson (getObj j "a")
  match getStr j "k" with
  | some "ddl" => pure ⟨.ddl, a⟩
  | some "dml" => pure ⟨.dml, a⟩
  | _ => none

def segOfJson (j : Json) : Option (Seg Act) := do
  let ss ← (getArr j "stmts").mapM stmtOfJson
  pure (if getBoolD j "auto" then .auto ss else .plain ss)

def migOfJson (j : Json) : Option (Mig Act) := do
  let segs ← (getArr j "segs").mapM segOfJson
  let vs ← (getArr j "vstmts").mapM actOfJson
  pure { rev := getNatD j "rev", segs := segs, vstmts := vs }

def modeOfString : String → Option Mode
  | "transactional" => some .transactional
  | "autocommitDDL" => some .autocommitDDL
  | "pysqlite" => some .pysqlite
  | _ => none

def cfgOfJson (j : Json) : Option Cfg := do
  let m ← modeOfString (getStrD j "mode")
  pure { mode := m, tddl := getBoolD j "tddl", perMig := getBoolD j "perMig", external := getBoolD j "external",
         orphan := getBoolD j "orphan" }

def dbOfJson (j : Json) : Db :=
  { objs := getNatList j "objs", rows := getNatList j "rows", vt := getBoolD j "vt" }

def dbToJson (d : Db) : Json := obj [("objs", nats d.objs), ("rows", nats d.rows), ("vt", Json.bool d.vt)]

def parentsOfJson (j : Json) : List (Nat × List Nat) :=
  (getArr j "parents").filterMap (fun p =>
    match p with
    | .arr a =>
      match a.toList with
      | [r, .arr ps] => (natOf r).map (fun r => (r, ps.toList.filterMap natOf))
      | _ => none
    | _ => none)

def kindOfString : String → FailKind
  | "keyboardInterrupt" => .keyboardInterrupt
  | "systemExit" => .systemExit
  | "baseException" => .baseException
  | _ => .exception

structure Case where
  kind : FailKind
  c : Cfg
  pre : List (Stmt Act)
  plan : List (Mig Act)
  fail : Option (Nat × Nat)
  db : Db

def caseOfJson (j : Json) : Option Case := do
  let c ← cfgOfJson j
  let pre ← (getArr j "pre").mapM stmtOfJson
  let plan ← (getArr j "plan").mapM migOfJson
  let fail := match getNat (getObj j "fail") "k", getNat (getObj j "fail") "pos" with
    | some k, some p => some (k, p)
    | _, _ => none
  pure { kind := kindOfString (getStrD (getObj j "fail") "kind" "exception"), c := c, pre := pre, plan := plan, fail := fail, db := dbOfJson (getObj j "db") }

def progsOf (cs : Case) : List (List (Atom Act)) :=
  match cs.fail with
  | some (k, p) => oracle cs.kind cs.plan k p
  | none => cs.plan.map migAtoms

def handle (op : String) (j : Json) : Option Json :=
  match op with
  | "online.run" =>
    match caseOfJson j with
    | some cs =>
      let progs := progsOf cs
      let sh : Shape := match getStrD j "shape" "stock" with
        | "preStmt" => .preStmt
        | "noOuter" => .noOuter
        | _ => .stock
      let r := runShape applyAct sh cs.c cs.pre progs cs.db
      some (obj [("final", dbToJson r.1), ("raised", Json.bool r.2)])
    | none => some (errJ "bad-op")
  | "online.spec" =>
    match caseOfJson j with
    | some cs =>
      match cs.fail with
      | some (k, p) =>
        let v := Spec.Online.check cs.c (getBoolD j "upgrade") (parentsOfJson j) cs.pre cs.plan k p cs.db
          (dbOfJson (getObj j "final"))
        some (obj [("holds", Json.bool v.holds), ("boundary", Json.bool v.boundary),
                   ("failedOk", Json.bool v.failedOk), ("singleOk", Json.bool v.singleOk),
                   ("perMigOk", Json.bool v.perMigOk), ("nonTxnOk", Json.bool v.nonTxnOk),
                   ("hyp", Json.bool (Spec.Online.wfPlan cs.pre cs.plan &&
                      Spec.Online.namesHyp (parentsOfJson j) cs.pre cs.plan cs.db
                        (match cs.plan[k]? with | some m => m.rev | none => 0) (getBoolD j "upgrade") k))])
      | none =>
        -- no failure: everything applied and recorded
        let fin := dbOfJson (getObj j "final")
        let want := Spec.Online.stateAt applyAct cs.pre cs.plan cs.plan.length cs.db
        some (obj [("holds", Json.bool (fin == want || (cs.plan.isEmpty && fin == cs.db)))])
    | none => some (errJ "bad-op")
  | "online.configure" =>
    -- calls: [[tddl|null, perMig], ...] -> the flags of the context each call creates
    let calls : List ConfigureArgs := (getArr j "calls").map (fun c =>
      match c with
      | .arr a =>
        { tddl := (match a.toList with | Json.bool b :: _ => some b | _ => none),
          perMig := (match a.toList with | _ :: Json.bool b :: _ => b | _ => false) }
      | _ => { tddl := none, perMig := false })
    let dflt := getBoolD j "dialectDefault"
    let rec go (o : CtxOpts) : List ConfigureArgs → List Json
      | [] => []
      | a :: r =>
        let o' := configureCall o a
        let e := effective dflt o'
        Json.arr #[Json.bool e.1, Json.bool e.2] :: go o' r
    some (obj [("effective", Json.arr (go {} calls).toArray)])
  | "online.boundaries" =>
    -- rows at every migration boundary (used by the harness to check the hypotheses of
    -- never_names_failed on the generated plans)
    match caseOfJson j with
    | some cs =>
      some (obj [("rows", Json.arr ((List.range (cs.plan.length + 1)).map (fun i =>
        nats (Spec.Online.stateAt applyAct cs.pre cs.plan i cs.db).rows)).toArray)])
    | none => some (errJ "bad-op")
  | _ => none

end Drv.Online
