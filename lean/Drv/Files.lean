import Drv.Json
import Spec.Files
/-! Driver ops of the `files` workstream (C19). -/
namespace Drv.Files
open Lean Model.Files

abbrev FName := Model.Files.Name
instance : Inhabited Dir := ⟨⟨[], [], .nil⟩⟩
instance : Inhabited Forest := ⟨.nil⟩

def nm (s : String) : FName := s.toList
def str (n : FName) : Json := Json.str (String.ofList n)

def contentOfJson (j : Json) : Content :=
  match j with
  | .str "noRev" => .noRev
  | .str "broken" => .broken
  | _ => match getStr j "rev" with
    | some r => .rev (nm r)
    | none => .broken

def nodeOfJson (j : Json) : FileNode :=
  { dir := getNatD j "dir", name := nm (getStrD j "name"), content := contentOfJson (getObj j "content") }

def lookupNode (tbl : Array FileNode) (i : Nat) : FileNode :=
  tbl.getD i { dir := 0, name := [], content := .broken }

def fsOfJson (j : Json) : FS :=
  let nodes := ((getArr j "nodes").map nodeOfJson).toArray
  let ex : List (Nat × List FName) := (getArr j "exists").map (fun p =>
    (getNatD p "dir", (getStrList p "names").map nm))
  { node := lookupNode nodes
    exists_ := fun d n => ex.any (fun (d', names) => d' == d && names.contains n) }

def entryOfJson (j : Json) : Entry := { name := nm (getStrD j "name"), node := getNatD j "node" }

mutual
partial def dirOfJson (j : Json) : Dir :=
  { name := nm (getStrD j "name"), files := (getArr j "files").map entryOfJson,
    children := forestOfJson (getArr j "subs") }
partial def forestOfJson : List Json → Forest
  | [] => .nil
  | j :: r =>
    let d := dirOfJson j
    .cons d.name d.files d.children (forestOfJson r)
end

def cfgOfJson (j : Json) : Cfg :=
  { sourceless := getBoolD j "sourceless", recursive := getBoolD j "recursive" }

/-- `null` entries = configured locations that do not exist (`os.path.exists(vers)` false) -/
def locsOfJson (j : Json) : List Dir :=
  (getArr j "locs").filterMap (fun l => match l with | .null => none | d => some (dirOfJson d))

def loadedJ (l : List Loaded) : Json := Json.arr (l.map (fun s => Json.arr #[Lean.toJson s.node, str s.rev])).toArray
def names (l : List FName) : Json := Json.arr (l.map str).toArray

def pairsOfJson (j : Json) (k : String) : List (Nat × FName) :=
  (getArr j k).filterMap (fun p =>
    match p with
    | .arr #[a, .str s] => match a.getNat? with | .ok n => some (n, nm s) | _ => none
    | _ => none)

def kindStr : Kind → String
  | .py => "" | .pyc => "c" | .pyo => "o"

def handle (op : String) (j : Json) : Option Json :=
  match op with
  | "files.load" =>
    let fs := fsOfJson (getObj j "fs")
    let cfg := cfgOfJson (getObj j "cfg")
    let locs := locsOfJson j
    some (match load fs cfg locs with
      | .error (.loadFailed n) => obj [("err", "loadFailed"), ("node", Lean.toJson n)]
      | .error (.noRevisionId n) => obj [("err", "noRevisionId"), ("node", Lean.toJson n)]
      | .ok r => obj [("loaded", loadedJ r.loaded), ("twice", nats r.twice), ("keys", names r.keys),
                      ("dupWarn", names r.dupWarn),
                      ("listed", Json.arr ((allListed cfg locs).map (fun e => Json.arr #[str e.name, Lean.toJson e.node])).toArray)])
  | "files.spec" =>
    let fs := fsOfJson (getObj j "fs")
    let cfg := cfgOfJson (getObj j "cfg")
    let locs := locsOfJson j
    let exp := Spec.Files.expectedNodes fs cfg locs
    let base := [("expected", nats exp), ("rootsOk", Json.bool (Spec.Files.rootsOk locs))]
    let impl := getObj j "impl"
    some (if getBoolD impl "err" then
      let ok := Spec.Files.errorJustified fs cfg locs
      obj (base ++ [("holds", Json.bool ok), ("errorJustified", Json.bool ok)])
    else
      let v := Spec.Files.judge fs cfg locs (pairsOfJson impl "loaded")
        ((getStrList impl "keys").map nm) ((getStrList impl "dupWarn").map nm)
      obj (base ++ [("holds", Json.bool v.holds), ("once", Json.bool v.once), ("onlyExpected", Json.bool v.onlyExpected),
        ("allExpected", Json.bool v.allExpected), ("idsRight", Json.bool v.idsRight),
        ("keysRight", Json.bool v.keysRight), ("dupReported", Json.bool v.dupReported)]))
  | "files.split" =>
    let ps := ((getStrD j "pathsep" ":").toList.headD ':')
    some (match configLocations ps (getStr j "sep") ((getStr j "s").map nm) with
      | none => errJ "ValueError"
      | some none => obj [("locations", Json.null)]
      | some (some l) => obj [("locations", names l)])
  | "files.match" =>
    let n := nm (getStrD j "name")
    let m := match matchRevFile (getBoolD j "sourceless") n with
      | none => Json.null
      | some (g, k) => Json.arr #[str g, Json.str (kindStr k)]
    some (obj [("match", m),
               ("specName", Json.bool (Spec.Files.isRevName (getBoolD j "sourceless") n)),
               ("legacy", match legacyRev n with | none => Json.null | some g => str g),
               ("stem", str (stem n)),
               ("cacheDir", Json.bool (isCacheDir n)),
               ("strip", str (pyStrip n))])
  | "files.prepend" =>
    some (obj [("entries", names (prependSplit (nm (getStrD j "s"))))])
  | "files.loadfile" =>
    let ext := match getStrD j "ext" with
      | "py" => Ext.py
      | "compiled" => Ext.compiled
      | _ => Ext.other
    let r := loadPythonFile ext (getBoolD j "self") (getBoolD j "cache") (getBoolD j "legacy")
    some (obj [("from", Json.str (match r with
      | .self => "self" | .cache => "cache" | .legacy => "legacy"
      | .importError => "importError" | .assertFalse => "assertFalse"))])
  | "files.fromPath" =>
    let fs := fsOfJson (getObj j "fs")
    let cfg := cfgOfJson (getObj j "cfg")
    some (obj [("results", Json.arr ((getNatList j "nodes").map (fun n =>
      match fromFilename fs cfg n with
      | .ok none => Json.null
      | .ok (some s) => Json.arr #[Json.str "ok", str s.rev]
      | .error (.loadFailed _) => Json.arr #[Json.str "err", Json.str "loadFailed"]
      | .error (.noRevisionId _) => Json.arr #[Json.str "err", Json.str "noRevisionId"])).toArray),
      -- the specification's view of each file taken alone: a revision file defining an id / one that cannot be loaded / not a revision file
      ("spec", Json.arr ((getNatList j "nodes").map (fun n =>
        if Spec.Files.isRevFile fs cfg n then
          match Spec.Files.definesId fs n with
          | some id => Json.arr #[Json.str "ok", str id]
          | none => Json.arr #[Json.str "err"]
        else Json.null)).toArray)])
  | _ => none

end Drv.Files
