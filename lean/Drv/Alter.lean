import Drv.Json
import Spec.Alter
/-! Line-protocol ops of the `alter` workstream (C13):

* `alter.run`  `{dialect, req}`                        -> `{stmts:[..], err:null|"..."}`   (the model)
* `alter.spec` `{dialect, req, init, stmts, err}`      -> verdicts of the Lean spec checkers on a
                                                         statement list (the implementation's)
-/
namespace Drv.Alter
open Lean Model.Alter Spec.Alter

def dialectOf : String → Option Dialect
  | "default" => some .default
  | "sqlite" => some .sqlite
  | "postgresql" => some .postgresql
  | "mysql" => some .mysql
  | "mariadb" => some .mariadb
  | "mssql" => some .mssql
  | "oracle" => some .oracle
  | _ => none

def errName : Err → String
  | .commandError => "CommandError"
  | .notImplemented => "NotImplementedError"
  | .compileError => "CompileError"
  | .unsupportedCompilation => "UnsupportedCompilationError"
  | .assertion => "AssertionError"
  | .attributeError => "AttributeError"

def errOf : String → Option Err
  | "CommandError" => some .commandError
  | "NotImplementedError" => some .notImplemented
  | "CompileError" => some .compileError
  | "UnsupportedCompilationError" => some .unsupportedCompilation
  | "AssertionError" => some .assertion
  | "AttributeError" => some .attributeError
  | _ => none

def isNull (j : Json) (k : String) : Bool :=
  match j.getObjVal? k with
  | .ok .null => true
  | .ok _ => false
  | .error _ => true

def tyOf (j : Json) : Option Ty := do
  let name ← getStr j "name"
  let ck : Option (Option String) := if isNull j "ck" then none else some (getStr (getObj j "ck") "name")
  pure { name := name, dt := getBoolD j "dt", ck := ck }

def optTy (j : Json) (k : String) : Option (Option Ty) :=
  if isNull j k then some none else (tyOf (getObj j k)).map some

def extraOf (j : Json) (k : String) : List (String × String) :=
  (getArr j k).filterMap (fun p => match asStrList p with
    | [a, b] => some (a, b)
    | _ => none)

def extraJ (e : List (String × String)) : Json :=
  Json.arr (e.map (fun kv => strs [kv.1, kv.2])).toArray

def defValOf (j : Json) : Option DefVal :=
  match getStr j "kind" with
  | some "plain" => (getStr j "text").map .plain
  | some "computed" => (getStr j "text").map .computed
  | some "identity" => some (.identity (getBoolD j "always") (getNat j "start") (extraOf j "extra"))
  | _ => none

def triDef (j : Json) (k : String) : Option (Tri DefVal) :=
  let o := getObj j k
  match getStr o "k" with
  | some "unset" => some .unset
  | some "drop" => some .drop
  | some "set" => (defValOf (getObj o "v")).map .set
  | _ => none

def triStr (j : Json) (k : String) : Option (Tri String) :=
  let o := getObj j k
  match getStr o "k" with
  | some "unset" => some .unset
  | some "drop" => some .drop
  | some "set" => (getStr o "v").map .set
  | _ => none

def reqOf (j : Json) : Option Req := do
  let table ← getStr j "table"
  let column ← getStr j "column"
  let type_ ← optTy j "type"
  let exType ← optTy j "ex_type"
  let sd ← triDef j "server_default"
  let exd ← triDef j "ex_default"
  let cm ← triStr j "comment"
  pure {
    table := table, column := column, schema := getStr j "schema",
    type_ := type_, nullable := getBool j "nullable", serverDefault := sd,
    newName := getStr j "new_name", comment := cm, autoinc := getBool j "autoinc",
    exType := exType, exNullable := getBool j "ex_nullable", exDefault := exd,
    exComment := getStr j "ex_comment", exAutoinc := getBool j "ex_autoinc",
    usingE := getStr j "using" }

def optS : Option String → Json
  | some s => Json.str s
  | none => Json.null

def optB : Option Bool → Json
  | some b => Json.bool b
  | none => Json.null

def optN : Option Nat → Json
  | some n => Lean.toJson n
  | none => Json.null

def stmtJ (k : String) (t : TRef) (rest : List (String × Json)) : Json :=
  obj ([("k", Json.str k), ("schema", optS t.schema), ("table", Json.str t.table)] ++ rest)

def stmtToJson : Stmt → Json
  | .nullable t c n => stmtJ "nullable" t [("col", c), ("n", n)]
  | .type_ t c ty u => stmtJ "type" t [("col", c), ("ty", ty), ("using", optS u)]
  | .default t c d => stmtJ "default" t [("col", c), ("d", optS d)]
  | .rename t c n => stmtJ "rename" t [("col", c), ("new", n)]
  | .comment t c cm => stmtJ "comment" t [("col", c), ("c", optS cm)]
  | .mysqlChange t c new ty n ai d cm =>
    stmtJ "mysqlChange" t [("col", c), ("new", new), ("ty", ty), ("n", n), ("ai", ai), ("d", optS d), ("c", optS cm)]
  | .mysqlModify t c ty n ai d cm =>
    stmtJ "mysqlModify" t [("col", c), ("ty", ty), ("n", n), ("ai", ai), ("d", optS d), ("c", optS cm)]
  | .mssqlAlter t c ty n => stmtJ "mssqlAlter" t [("col", c), ("ty", ty), ("n", optB n)]
  | .mssqlAddDefault t c d => stmtJ "mssqlAddDefault" t [("col", c), ("d", d)]
  | .mssqlDropDefault t o c => stmtJ "mssqlDropDefault" t [("col", c), ("objSchema", optS o.schema), ("objTable", o.table)]
  | .identityAdd t c a s e => stmtJ "identityAdd" t [("col", c), ("always", a), ("start", optN s), ("extra", extraJ e)]
  | .identityDrop t c => stmtJ "identityDrop" t [("col", c)]
  | .identityAlter t c a s e => stmtJ "identityAlter" t [("col", c), ("always", optB a), ("start", optN s), ("extra", extraJ e)]
  | .identitySet t c a s e => stmtJ "identitySet" t [("col", c), ("always", a), ("start", optN s), ("extra", extraJ e)]
  | .dropConstraint t n => stmtJ "dropConstraint" t [("name", n)]
  | .addConstraint t n c => stmtJ "addConstraint" t [("name", optS n), ("col", c)]

def stmtOf (j : Json) : Option Stmt := do
  let k ← getStr j "k"
  let table ← getStr j "table"
  let t : TRef := ⟨getStr j "schema", table⟩
  let col := getStrD j "col"
  match k with
  | "nullable" => (getBool j "n").map (.nullable t col)
  | "type" => (getStr j "ty").map (fun ty => .type_ t col ty (getStr j "using"))
  | "default" => some (.default t col (getStr j "d"))
  | "rename" => (getStr j "new").map (.rename t col)
  | "comment" => some (.comment t col (getStr j "c"))
  | "mysqlChange" => do
    let new ← getStr j "new"
    let ty ← getStr j "ty"
    let n ← getBool j "n"
    let ai ← getBool j "ai"
    pure (.mysqlChange t col new ty n ai (getStr j "d") (getStr j "c"))
  | "mysqlModify" => do
    let ty ← getStr j "ty"
    let n ← getBool j "n"
    let ai ← getBool j "ai"
    pure (.mysqlModify t col ty n ai (getStr j "d") (getStr j "c"))
  | "mssqlAlter" => (getStr j "ty").map (fun ty => .mssqlAlter t col ty (getBool j "n"))
  | "mssqlAddDefault" => (getStr j "d").map (.mssqlAddDefault t col)
  | "mssqlDropDefault" => (getStr j "objTable").map (fun ot => .mssqlDropDefault t ⟨getStr j "objSchema", ot⟩ col)
  | "identityAdd" => (getBool j "always").map (fun a => .identityAdd t col a (getNat j "start") (extraOf j "extra"))
  | "identityDrop" => some (.identityDrop t col)
  | "identityAlter" => some (.identityAlter t col (getBool j "always") (getNat j "start") (extraOf j "extra"))
  | "identitySet" => (getBool j "always").map (fun a => .identitySet t col a (getNat j "start") (extraOf j "extra"))
  | "dropConstraint" => (getStr j "name").map (.dropConstraint t)
  | "addConstraint" => some (.addConstraint t (getStr j "name") col)
  | _ => none

def outToJson (o : Out) : Json :=
  obj [("stmts", Json.arr (o.stmts.map stmtToJson).toArray),
       ("err", match o.err with | some e => Json.str (errName e) | none => Json.null)]

def stateOf (j : Json) : Option ColState := do
  let name ← getStr j "name"
  let ty ← getStr j "ty"
  let nullable ← getBool j "nullable"
  let autoinc ← getBool j "autoinc"
  let default : Option (Option DefVal) :=
    if isNull j "default" then some none else (defValOf (getObj j "default")).map some
  let default ← default
  pure { name := name, ty := ty, nullable := nullable, default := default,
         comment := getStr j "comment", autoinc := autoinc }

def defValToJson : DefVal → Json
  | .plain s => obj [("kind", "plain"), ("text", s)]
  | .computed s => obj [("kind", "computed"), ("text", s)]
  | .identity a s e => obj [("kind", "identity"), ("always", a), ("start", optN s), ("extra", extraJ e)]

def stateToJson (s : ColState) : Json :=
  obj [("name", s.name), ("ty", s.ty), ("nullable", s.nullable),
       ("default", match s.default with | some v => defValToJson v | none => Json.null),
       ("comment", optS s.comment), ("autoinc", s.autoinc)]

def handle (op : String) (j : Json) : Option Json :=
  match op with
  | "alter.run" =>
    match dialectOf (getStrD j "dialect"), reqOf (getObj j "req") with
    | some d, some r => some (outToJson (alterColumn d r))
    | _, _ => some (errJ "bad-op")
  | "alter.spec" =>
    match dialectOf (getStrD j "dialect"), reqOf (getObj j "req"), stateOf (getObj j "init"),
          (getArr j "stmts").mapM stmtOf with
    | some d, some r, some init, some stmts =>
      let err : Option Err := (getStr j "err").bind errOf
      -- an exception class the model does not know still counts as "raised"
      let err := if err.isNone && !(isNull j "err") then some Err.assertion else err
      let o : Out := ⟨stmts, err⟩
      let fin := final init stmts
      some (obj [("agrees", agrees r init),
                 ("exact", exactOk d r init o),
                 -- the same verdict with the server-default request taken out: true iff a failing `exact` is about the
                 -- default attribute only (used by the harness to keep the PG-identity known finding narrow)
                 ("exactNoDefault", keepOk r init fin stmts &&
                    (o.err.isSome || requestedOk d { r with serverDefault := .unset } fin)),
                 ("keep", keepOk r init fin stmts),
                 ("requested", requestedOk d r fin),
                 ("schema", schemaOk r o),
                 ("address", addressOk r.column stmts),
                 ("constraints", constraintOk r stmts),
                 ("mustSucceed", mustSucceed d r),
                 ("complete", constraintComplete d r o),
                 ("plain", plainDefaults r),
                 ("final", stateToJson fin)])
    | _, _, _, _ => some (errJ "bad-op")
  | _ => none

end Drv.Alter
