import Drv.Json
import Spec.Ident
namespace Drv.Ident
open Lean Model.Ident Spec.Ident

def kindOf : String → Option Kind
  | "sqlite" => some .sqlite
  | "postgresql" => some .postgresql
  | "mysql" => some .mysql
  | "mariadb" => some .mariadb
  | "mssql" => some .mssql
  | "oracle" => some .oracle
  | _ => none

/-- strings in answers: plain JSON strings when printable ASCII, else the array of code points
    (the shared line protocol splits answers with Python's `splitlines`, which also splits at
    U+0085/U+2028/...) -/
def S (s : Str) : Json :=
  if s.all (fun c => 0x20 ≤ c.val && c.val < 0x7f) then Json.str (String.ofList s)
  else Json.arr (s.map (fun c => Lean.toJson c.val.toNat)).toArray

/-- a name is a JSON string (plain `str`) or `{"s": …, "q": true|false|null}` (`quoted_name`) -/
def nameOf (j : Json) : Option Model.Ident.Name :=
  match j with
  | .str s => some { s := s.toList }
  | .obj _ =>
    match getStr j "s" with
    | some s =>
      match j.getObjVal? "q" with
      | .ok (.bool b) => some { s := s.toList, qn := some (some b) }
      | _ => some { s := s.toList, qn := some none }
    | none => none
  | _ => none

def getName (j : Json) (k : String) : Option Model.Ident.Name := nameOf (getObj j k)

def optName (j : Json) (k : String) : Option (Option Model.Ident.Name) :=
  match getObj j k with
  | .null => some none
  | v => (nameOf v).map some

def optStr (j : Json) (k : String) : Option Str := (getStr j k).map String.toList

def tgtOf (j : Json) : Option Tgt := do
  let t ← getName j "t"
  let s ← optName j "schema"
  pure { t := t, schema := s }

def colspecOf (j : Json) : Option ColSpec := do
  let ty ← getStr j "ty"
  pure { ty := ty.toList, nullable := getBoolD j "nullable", autoinc := getBoolD j "autoinc",
         default := optStr j "default", comment := optStr j "comment" }

def dropKindOf : String → Option DropKind
  | "check" => some .check
  | "fk" => some .fk
  | "pk" => some .pk
  | "unique" => some .unique
  | _ => none

def constructOf (j : Json) : Option Construct := do
  let g ← tgtOf j
  match getStrD j "c" with
  | "renameTable" => pure (.renameTable g (← getName j "new"))
  | "addColumn" => pure (.addColumn g (← getName j "col") (← optStr j "spec"))
  | "dropColumn" => pure (.dropColumn g (← getName j "col"))
  | "columnNullable" => pure (.columnNullable g (← getName j "col") (getBoolD j "nullable") ((optStr j "ety").getD []))
  | "columnType" => pure (.columnType g (← getName j "col") (← optStr j "ty") (optStr j "using"))
  | "columnName" => pure (.columnName g (← getName j "col") (← getName j "new"))
  | "columnDefault" => pure (.columnDefault g (← getName j "col") (optStr j "default"))
  | "columnComment" => pure (.columnComment g (← getName j "col") (optStr j "comment"))
  | "identity" => pure (.identity g (← getName j "col") (← optStr j "tail"))
  | "mysqlAlterDefault" => pure (.mysqlAlterDefault g (← getName j "col") (optStr j "default"))
  | "mysqlModify" => pure (.mysqlModify g (← getName j "col") (← colspecOf (getObj j "cs")))
  | "mysqlChange" => pure (.mysqlChange g (← getName j "col") (← getName j "new") (← colspecOf (getObj j "cs")))
  | "mysqlDropConstraint" => pure (.mysqlDropConstraint g (← getName j "cname") (← dropKindOf (getStrD j "dkind")))
  | "mssqlDropConstraint" => pure (.mssqlDropConstraint g (← optStr j "rawcol") (← optStr j "type_"))
  | "mssqlDropFK" => pure (.mssqlDropFK g (← optStr j "rawcol"))
  | _ => none

def tokJ : Tok → Json
  | .word w => obj [("word", S w)]
  | .num w => obj [("num", S w)]
  | .qid n => obj [("qid", S n)]
  | .str s => obj [("str", S s)]
  | .sym c => obj [("sym", S [c])]
  | .bad => Json.str "bad"

/-- every name the construct mentions (to reject the empty name, which raises in Python) -/
def namesOf : Construct → List Model.Ident.Name
  | .renameTable g n => [g.t, n]
  | .addColumn g c _ => [g.t, c]
  | .dropColumn g c => [g.t, c]
  | .columnNullable g c _ _ => [g.t, c]
  | .columnType g c _ _ => [g.t, c]
  | .columnName g c n => [g.t, c, n]
  | .columnDefault g c _ => [g.t, c]
  | .columnComment g c _ => [g.t, c]
  | .identity g c _ => [g.t, c]
  | .mysqlAlterDefault g c _ => [g.t, c]
  | .mysqlModify g c _ => [g.t, c]
  | .mysqlChange g c n _ => [g.t, c, n]
  | .mysqlDropConstraint g n _ => [g.t, n]
  | .mssqlDropConstraint g _ _ => [g.t]
  | .mssqlDropFK g _ => [g.t]

def opaquesOf : Construct → List Str
  | .addColumn _ _ s => [s]
  | .columnNullable _ _ _ e => if e.isEmpty then [] else [e]
  | .columnType _ _ t u => t :: (match u with | some u => if u.isEmpty then [] else [u] | none => [])
  | .columnDefault _ _ (some d) => [d]
  | .columnComment _ _ (some c) => [c]
  | .identity _ _ t => [t]
  | .mysqlAlterDefault _ _ (some d) => [d]
  | .mysqlModify _ _ cs => cs.ty :: (cs.default.toList ++ cs.comment.toList)
  | .mysqlChange _ _ _ cs => cs.ty :: (cs.default.toList ++ cs.comment.toList)
  | .mssqlDropConstraint _ _ ty => [ty]
  | _ => []

def handle (op : String) (j : Json) : Option Json :=
  match op with
  | "ident.params" =>
    match kindOf (getStrD j "kind") with
    | some k =>
      some (obj [("open", S [openQ k]), ("close", S [closeQ k]), ("dblPercent", Json.bool (dblPercent k)),
                 ("illegalInitial", S ((getStrD j "probe").toList.filter (illegalInitial k))),
                 ("terminator", S (terminator k))])
    | none => some (errJ "bad-kind")
  | "ident.quote" =>
    match kindOf (getStrD j "kind") with
    | some k =>
      let res := (getStrList j "reserved").map String.toList
      let r : Str → Bool := fun n => res.contains n
      let names := (getStrList j "names").map String.toList
      some (obj [("req", Json.arr (names.map (fun n => Json.bool (requiresQuotes k r n))).toArray),
                 ("quoted", Json.arr (names.map (fun n => S (quote k r n))).toArray),
                 ("forced", Json.arr (names.map (fun n => S (quoteIdent k n))).toArray),
                 -- round trip through the specification's lexer
                 ("lexed", Json.arr (names.map (fun n => Json.arr ((lex k (quote k r n)).map tokJ).toArray)).toArray),
                 ("denotes", Json.arr (names.map (fun n =>
                    Json.bool (match lex k (quote k r n) with
                               | [t] => denote r t == some n
                               | _ => false))).toArray)])
    | none => some (errJ "bad-kind")
  | "ident.stmt" =>
    match kindOf (getStrD j "kind"), constructOf (getObj j "construct") with
    | some k, some c =>
      let res := (getStrList j "reserved").map String.toList
      let r : Str → Bool := fun n => res.contains n
      if (namesOf c).any (fun n => n.s.isEmpty) then some (errJ "IndexError") else
      let m := render k r c
      let impl := optStr j "emitted"
      some (obj [("model", match m with | some s => S s | none => Json.null),
                 ("emit", match m with | some s => S (emit k s) | none => Json.null),
                 ("supported", Json.bool (shape k c).isSome),
                 ("okTexts", Json.bool ((opaquesOf c).all (okText k))),
                 ("modelSpec", match m with | some s => Json.bool (c14Ok k r c (emit k s)) | none => Json.null),
                 -- the specification is judged against what the OPERATION asked for (`specConstruct`: table, schema,
                 -- column names of the op), which may differ from what the construct object carries
                 ("spec", match impl with
                          | some s => Json.bool (c14Ok k r ((constructOf (getObj j "specConstruct")).getD c) s)
                          | none => Json.null),
                 ("toks", match impl with | some s => Json.arr ((lex k s).map tokJ).toArray | none => Json.null)])
    | none, _ => some (errJ "bad-kind")
    | _, none => some (errJ "bad-construct")
  | "ident.mentions" =>
    match kindOf (getStrD j "kind") with
    | some k =>
      let res := (getStrList j "reserved").map String.toList
      let r : Str → Bool := fun n => res.contains n
      let schema := match optStr j "schema" with
        | some s => if s.isEmpty then none else some s
        | none => none
      let alts := (getArr j "alts").map (fun a => (asStrList a).map String.toList)
      let e := (getStrD j "emitted").toList
      some (obj [("holds", Json.bool (alts.any (fun names => mentionsRef k r schema names e))),
                 ("toks", Json.arr ((lex k e).map tokJ).toArray)])
    | none => some (errJ "bad-kind")
  | "ident.lex" =>
    match kindOf (getStrD j "kind") with
    | some k => some (obj [("toks", Json.arr ((lex k (getStrD j "s").toList).map tokJ).toArray)])
    | none => some (errJ "bad-kind")
  | _ => none

end Drv.Ident
