import Lean.Data.Json
/-! Small JSON helpers shared by the per-engine driver handlers. -/
namespace Drv
open Lean

def getStr (j : Json) (k : String) : Option String :=
  match j.getObjVal? k with
  | .ok (.str s) => some s
  | _ => none

def getStrD (j : Json) (k : String) (d : String := "") : String := (getStr j k).getD d

def getNat (j : Json) (k : String) : Option Nat :=
  match j.getObjValAs? Nat k with
  | .ok n => some n
  | _ => none

def getNatD (j : Json) (k : String) (d : Nat := 0) : Nat := (getNat j k).getD d

def getBool (j : Json) (k : String) : Option Bool :=
  match j.getObjVal? k with
  | .ok (.bool b) => some b
  | _ => none

def getBoolD (j : Json) (k : String) (d : Bool := false) : Bool := (getBool j k).getD d

def getArr (j : Json) (k : String) : List Json :=
  match j.getObjVal? k with
  | .ok (.arr a) => a.toList
  | _ => []

def getObj (j : Json) (k : String) : Json :=
  match j.getObjVal? k with
  | .ok v => v
  | _ => Json.null

def asStr? : Json → Option String
  | .str s => some s
  | _ => none

def asStrList (j : Json) : List String :=
  match j with
  | .arr a => a.toList.filterMap asStr?
  | _ => []

def getStrList (j : Json) (k : String) : List String := asStrList (getObj j k)

def getNatList (j : Json) (k : String) : List Nat :=
  match j.getObjValAs? (List Nat) k with
  | .ok l => l
  | _ => []

def strs (l : List String) : Json := Json.arr (l.map Json.str).toArray
def nats (l : List Nat) : Json := Json.arr (l.map (fun (n : Nat) => Lean.toJson n)).toArray
def obj (kvs : List (String × Json)) : Json := Json.mkObj kvs
def errJ (e : String) : Json := obj [("err", Json.str e)]

end Drv
