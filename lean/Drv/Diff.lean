import Drv.Json
import Spec.Diff
import Model.Diff.DiffV
import Model.Diff.Batch
namespace Drv.Diff
open Lean Model.Diff Spec.Diff

def chars (s : String) : List Char := s.toList
def str (l : List Char) : String := String.ofList l

def tyOfJson (j : Json) : Option MdTy := do
  let fam ← Fam.ofString (← getStr j "fam")
  pure { fam := fam, args := getNatList j "args", coll := (getStr j "coll").bind W.ofString }

def dfltOfJson (j : Json) : Option (Option Dflt) :=
  match j with
  | .null => some none
  | _ =>
    match getStr j "kind", getStr j "v" with
    | some "str", some v => some (some (.str (chars v)))
    | some "expr", some v => some (some (.expr (chars v)))
    | _, _ => none

def colOfJson (j : Json) : Option Col := do
  let name ← getStr j "name"
  let ty ← tyOfJson (getObj j "ty")
  let nullable ← getBool j "nullable"
  let d ← dfltOfJson (getObj j "default")
  pure { name := name, ty := ty, nullable := nullable, dflt := d, pk := getBoolD j "pk" }

def uqOfJson (j : Json) : Option Uq := do
  pure { name := ← getStr j "name", cols := getStrList j "cols" }

def ixOfJson (j : Json) : Option Ix := do
  pure { name := ← getStr j "name", cols := getStrList j "cols", unique := getBoolD j "unique" }

def fkOfJson (j : Json) : Option Fk := do
  pure { name := ← getStr j "name", cols := getStrList j "cols", reftable := ← getStr j "reftable",
         refcols := getStrList j "refcols", ondelete := getStr j "ondelete", onupdate := getStr j "onupdate",
         deferrable := getBool j "deferrable", initially := getStr j "initially" }

def tableOfJson (j : Json) : Option Table := do
  let name ← getStr j "name"
  let cols ← (getArr j "cols").mapM colOfJson
  let uqs ← (getArr j "uqs").mapM uqOfJson
  let ixs ← (getArr j "ixs").mapM ixOfJson
  let fks ← (getArr j "fks").mapM fkOfJson
  pure { name := name, cols := cols, uqs := uqs, ixs := ixs, fks := fks }

def schemaOfJson (j : Json) : Option Schema := (getArr j "tables").mapM tableOfJson

def dfltToJson : Option Dflt → Json
  | none => Json.null
  | some (.str v) => obj [("kind", "str"), ("v", Json.str (str v))]
  | some (.expr v) => obj [("kind", "expr"), ("v", Json.str (str v))]

def optStr : Option String → Json
  | none => Json.null
  | some s => Json.str s

def opToJson : Op → Json
  | .addTable t => obj [("k", "add_table"), ("t", t.name), ("cols", strs (t.cols.map (·.name)))]
  | .removeTable t => obj [("k", "remove_table"), ("t", t)]
  | .addColumn t c => obj [("k", "add_column"), ("t", t), ("c", c.name)]
  | .removeColumn t c => obj [("k", "remove_column"), ("t", t), ("c", c)]
  | .modifyType t c ty => obj [("k", "modify_type"), ("t", t), ("c", c), ("to", (ddlTy ty).render)]
  | .modifyNullable t c b => obj [("k", "modify_nullable"), ("t", t), ("c", c), ("to", Json.bool b)]
  | .modifyDefault t c d => obj [("k", "modify_default"), ("t", t), ("c", c), ("to", dfltToJson d)]
  | .addIndex t ix => obj [("k", "add_index"), ("t", t), ("n", ix.name), ("cols", strs ix.cols), ("unique", Json.bool ix.unique)]
  | .removeIndex t ix => obj [("k", "remove_index"), ("t", t), ("n", ix.name), ("cols", strs ix.cols), ("unique", Json.bool ix.unique)]
  | .addUq t u => obj [("k", "add_constraint"), ("t", t), ("n", u.name), ("cols", strs u.cols)]
  | .removeUq t u => obj [("k", "remove_constraint"), ("t", t), ("n", u.name), ("cols", strs u.cols)]
  | .addFk t f => obj [("k", "add_fk"), ("t", t), ("cols", strs f.cols), ("reftable", f.reftable), ("refcols", strs f.refcols)]
  | .removeFk t f => obj [("k", "remove_fk"), ("t", t), ("cols", strs f.cols), ("reftable", f.reftable), ("refcols", strs f.refcols)]

def opsToJson (l : List Op) : Json := Json.arr (l.map opToJson).toArray

/-- canonical op (harness vocabulary) -> spec-level summary -/
def opSOfJson (j : Json) : Option OpS := do
  let k ← getStr j "k"
  let t ← getStr j "t"
  match k with
  | "add_table" => pure ⟨.addTable, .table t⟩
  | "remove_table" => pure ⟨.removeTable, .table t⟩
  | "add_column" => pure ⟨.addColumn, .column t (← getStr j "c")⟩
  | "remove_column" => pure ⟨.removeColumn, .column t (← getStr j "c")⟩
  | "modify_type" => pure ⟨.modifyType, .column t (← getStr j "c")⟩
  | "modify_nullable" => pure ⟨.modifyNullable, .column t (← getStr j "c")⟩
  | "modify_default" => pure ⟨.modifyDefault, .column t (← getStr j "c")⟩
  | "add_index" => pure ⟨.addIndex, .named t (← getStr j "n")⟩
  | "remove_index" => pure ⟨.removeIndex, .named t (← getStr j "n")⟩
  | "add_constraint" => pure ⟨.addUq, .named t (← getStr j "n")⟩
  | "remove_constraint" => pure ⟨.removeUq, .named t (← getStr j "n")⟩
  | "add_fk" => pure ⟨.addFk, .fk t (getStrList j "cols") (← getStr j "reftable") (getStrList j "refcols")⟩
  | "remove_fk" => pure ⟨.removeFk, .fk t (getStrList j "cols") (← getStr j "reftable") (getStrList j "refcols")⟩
  | _ =>
    -- an op the model never emits (comment ops, ...): it still counts for quiet / converge and names its object
    match getStr j "c" with
    | some c => pure ⟨.other, .column t c⟩
    | none => pure ⟨.other, .table t⟩

def mutationOfJson (j : Json) : Option Mutation := do
  let m ← getStr j "m"
  let t ← getStr j "t"
  match m with
  | "addTable" => pure (.addTable (← tableOfJson (getObj j "table")))
  | "dropTable" => pure (.dropTable t)
  | "addColumn" => pure (.addColumn t (← colOfJson (getObj j "col")))
  | "dropColumn" => pure (.dropColumn t (← getStr j "c"))
  | "flipNullable" => pure (.flipNullable t (← getStr j "c"))
  | "changeType" => pure (.changeType t (← getStr j "c") (← tyOfJson (getObj j "ty")))
  | "changeDefault" => pure (.changeDefault t (← getStr j "c") (← dfltOfJson (getObj j "default")))
  | "addIndex" => pure (.addIndex t (← ixOfJson (getObj j "ix")))
  | "dropIndex" => pure (.dropIndex t (← getStr j "n"))
  | "changeIndex" => pure (.changeIndex t (← getStr j "n") (getStrList j "cols") (getBoolD j "unique"))
  | "addUnique" => pure (.addUnique t (← uqOfJson (getObj j "uq")))
  | "dropUnique" => pure (.dropUnique t (← getStr j "n"))
  | "changeUnique" => pure (.changeUnique t (← getStr j "n") (getStrList j "cols"))
  | "addFK" => pure (.addFk t (← fkOfJson (getObj j "fk")))
  | "dropFK" => pure (.dropFk t (← getStr j "n"))
  | "dropTableRefs" => pure (.dropTableRefs t (getBoolD j "dropCols"))
  | _ => none

def verdictsOfJson (j : Json) (k : String) : Verdicts :=
  (getArr j k).filterMap (fun e =>
    match e with
    | .arr a =>
      match a[0]?.bind asStr?, a[1]?.bind asStr?, a[2]? with
      | some t, some c, some (Json.bool b) => some (t, c, b)
      | _, _, _ => none
    | _ => none)

/-- verdicts of the comparison callables (absent = the callable answers None / no callable) -/
def overridesOfJson (j : Json) : Overrides := { ty := verdictsOfJson j "ctOver", dflt := verdictsOfJson j "cdOver" }

def cfgOfJson (j : Json) : Cfg := { compareType := getBoolD j "ct" true, compareDefault := getBoolD j "cd" true }

def dcolToJson (c : DCol) : Json :=
  obj [("name", c.name), ("type", c.ty.render), ("nullable", Json.bool c.nullable),
       ("default", match c.dflt with | none => Json.null | some d => Json.str (str d))]

def dtableToJson (t : DTable) : Json :=
  obj [("name", t.name), ("cols", Json.arr (t.cols.map dcolToJson).toArray),
       ("uqs", Json.arr (t.uqs.map (fun u => obj [("name", u.name), ("cols", strs u.cols)])).toArray),
       ("ixs", Json.arr (t.ixs.map (fun i => obj [("name", i.name), ("cols", strs i.cols), ("unique", Json.bool i.unique)])).toArray),
       ("fks", Json.arr (t.fks.map (fun f => obj [("name", f.name), ("cols", strs f.cols), ("reftable", f.reftable),
            ("refcols", strs f.refcols), ("ondelete", optStr (normAct f.ondelete)), ("onupdate", optStr (normAct f.onupdate))])).toArray)]

def paramsToJson (p : G.Params) : Json :=
  obj [("token0", p.token0), ("tokens", strs p.tokens), ("args", strs p.args),
       ("kwargs", Json.arr (p.kwargs.map (fun kv => strs [kv.1, kv.2])).toArray)]

def extOfJson (j : Json) : Option String × Option String :=
  match j with
  | .arr a => (a[0]?.bind asStr?, a[1]?.bind asStr?)
  | _ => (none, none)

def handle (op : String) (j : Json) : Option Json :=
  match op with
  | "diff.cmptype_g" =>
    match getStr j "insp", getStr j "meta" with
    | some it, some mt =>
      let syn := (getArr j "syn").map asStrList
      let ext := (getArr j "ext").map extOfJson
      let ip := G.tokenize it
      let mp := G.tokenize mt
      some (obj [("itok", paramsToJson ip), ("mtok", paramsToJson mp),
                 ("cmp", Json.bool (G.compareType syn ext ip mp)),
                 ("must", Json.bool (mustDiffer syn ip mp)), ("same", Json.bool (mustMatch syn ext ip mp))])
    | _, _ => some (errJ "bad-input")
  | "diff.type" =>
    match tyOfJson j with
    | some t =>
      let d := declTy t
      some (obj [("ddl", (ddlTy t).render), ("refl", (reflTy d).render), ("known", Json.bool (known d)),
                 ("cmp", Json.bool (compareType (reflTy d) (ddlTy t))), ("family", (family d).toString)])
    | none => some (errJ "bad-type")
  | "diff.cmptype" =>
    match tyOfJson (getObj j "a"), tyOfJson (getObj j "b") with
    | some a, some b => some (obj [("cmp", Json.bool (compareType (reflTy (declTy a)) (ddlTy b)))])
    | _, _ => some (errJ "bad-type")
  | "diff.default" =>
    match dfltOfJson (getObj j "d") with
    | some (some d) =>
      some (obj [("ddl", str (ddlDefault d)), ("stored", str (sqliteStore (ddlDefault d))),
                 ("insp", str (reflectDefault d)),
                 ("cmp", Json.bool (compareDefault (some (reflectDefault d)) (some d))),
                 ("value", match defaultValue (some d) with | some v => Json.str (str v) | none => Json.null)])
    | _ => some (errJ "bad-default")
  | "diff.diff" =>
    match schemaOfJson (getObj j "a"), schemaOfJson (getObj j "b") with
    | some a, some b => some (obj [("ops", opsToJson (diffV (overridesOfJson j) (cfgOfJson j) (reflect (createAll a)) b)),
                                   ("pkStable", Json.bool (pkStableB a b))])
    | _, _ => some (errJ "bad-schema")
  | "diff.converge" =>
    match schemaOfJson (getObj j "a"), schemaOfJson (getObj j "b") with
    | some a, some b =>
      let cfg := cfgOfJson j
      let ov := overridesOfJson j
      let ops := diffV ov cfg (reflect (createAll a)) b
      let db := applyAll (createAll a) ops
      some (obj [("ops", opsToJson ops), ("second", opsToJson (diffV ov cfg (reflect db) b)),
                 ("recreates", strs (recreatedTables ops)), ("pkStable", Json.bool (pkStableB a b)),
                 ("db", Json.arr (db.map dtableToJson).toArray)])
    | _, _ => some (errJ "bad-schema")
  | "diff.spec_quiet" =>
    match (getArr j "ops").mapM opSOfJson with
    | some ops => some (obj [("holds", Json.bool (quietOk ops))])
    | none => some (errJ "bad-ops")
  | "diff.spec_detect" =>
    match schemaOfJson (getObj j "a"), mutationOfJson (getObj j "m"), (getArr j "ops").mapM opSOfJson with
    | some a, some m, some ops =>
      some (obj [("holds", Json.bool (detectOk a m ops)),
                 ("reported", Json.bool ((expected a m).all (fun e => ops.contains e))),
                 ("local", Json.bool (ops.all (fun o => touches a m o.obj))),
                 ("unrelated", nats ((List.range ops.length).filter (fun i => !(touches a m (ops.getD i default).obj))))])
    | _, _, _ => some (errJ "bad-input")
  | "diff.mutate" =>
    match schemaOfJson (getObj j "a"), mutationOfJson (getObj j "m") with
    | some a, some m =>
      let cfg := cfgOfJson j
      some (obj [("ops", opsToJson (diff cfg (reflect (createAll a)) (m.apply a)))])
    | _, _ => some (errJ "bad-input")
  | _ => none

end Drv.Diff
