import Drv.Json
import Spec.Gen
namespace Drv.Gen
open Lean Model.Rev Model.Gen

def revOfJson (j : Json) : Rev :=
  { id := getStrD j "id", down := getStrList j "down", deps := getStrList j "deps", labels := getStrList j "labels" }

def revJson (r : Rev) : Json :=
  obj [("id", Json.str r.id), ("down", strs r.down), ("deps", strs r.deps), ("labels", strs r.labels)]

def histOfJson (j : Json) : Hist := (getArr j "revs").map revOfJson

def optsOfJson (j : Json) : LoadOpts :=
  { normOrder := (getArr j "normOrder").map (fun e => (getStrD e "id", getStrList e "order")) }

def errJ (e : Err) : Json := obj [("err", Json.str e.name)]

def revViewJson (r : RevView) : Json :=
  obj [("id", Json.str r.id), ("down", strs r.down), ("rdeps", strs r.rdeps), ("ndeps", strs r.ndeps),
       ("labels", strs r.labels), ("nextrev", strs r.nextrev), ("allNextrev", strs r.allNextrev)]

def viewJson (v : View) : Json :=
  obj [("revs", Json.arr (v.revs.map revViewJson).toArray),
       ("labelKeys", Json.arr (v.labelKeys.map (fun p => Json.arr #[Json.str p.1, Json.str p.2])).toArray),
       ("heads", strs v.heads), ("realHeads", strs v.realHeads), ("bases", strs v.bases),
       ("realBases", strs v.realBases)]

def revViewOfJson (j : Json) : RevView :=
  { id := getStrD j "id", down := getStrList j "down", rdeps := getStrList j "rdeps", ndeps := getStrList j "ndeps",
    labels := getStrList j "labels", nextrev := getStrList j "nextrev", allNextrev := getStrList j "allNextrev" }

def viewOfJson (j : Json) : View :=
  { revs := (getArr j "revs").map revViewOfJson,
    labelKeys := (getArr j "labelKeys").filterMap (fun p => match asStrList p with
      | [a, b] => some (a, b) | _ => none),
    heads := getStrList j "heads", realHeads := getStrList j "realHeads", bases := getStrList j "bases",
    realBases := getStrList j "realBases" }

def argsOfJson (j : Json) : GenArgs :=
  { revid := getStrD j "revid", heads := getStrList j "heads", splice := getBoolD j "splice",
    labels := getStrList j "labels", deps := getStrList j "deps",
    versionPath := getStr j "versionPath", locations := getStrList j "locations",
    sqlNoEnv := getBoolD j "sqlNoEnv", tzOk := (getBool j "tzOk").getD true,
    encodable := (getBool j "encodable").getD true,
    fileTaken := (getBool j "fileTaken").getD false,
    file := getStr j "file" }

/-- fold of `generate_revision` calls over the incrementally updated map; an error leaves the map as it was -/
def runCalls : LMap → List GenArgs → List Json
  | _, [] => []
  | m, a :: rest =>
    match genCall m a with
    | .error e => errJ e :: runCalls m rest
    | .ok (r, m') => obj [("ok", obj [("rev", revJson r), ("view", viewJson (view m'))])] :: runCalls m' rest

/-- the same over the directory state (`Model.Gen.stepCallF`): the files present decide whether a call's own
    path is taken; the answer of each call is what `genCall` says for the call as seen in that directory -/
def runCallsF : DirState → List GenArgs → List Json
  | _, [] => []
  | st, a :: rest =>
    let ans := match genCall st.map (a.inDir st.files) with
      | .error e => errJ e
      | .ok (r, m') => obj [("ok", obj [("rev", revJson r), ("view", viewJson (view m'))])]
    ans :: runCallsF (stepCallF st a) rest

def runAdds : LMap → List Rev → List Json
  | _, [] => []
  | m, r :: rest =>
    match addRevision m r with
    | .error e => errJ e :: runAdds m rest
    | .ok m' => obj [("ok", viewJson (view m'))] :: runAdds m' rest

/-! strings as arrays of code points (astral characters, lone escapes) -/
def charsOfJson (j : Json) : List Char :=
  match j with
  | .arr a => a.toList.filterMap (fun x => match x.getNat? with | .ok n => some (Char.ofNat n) | _ => none)
  | _ => []

def getChars (j : Json) (k : String) : List Char := charsOfJson (getObj j k)

def charsJson (s : List Char) : Json := nats (s.map Char.toNat)

def valOfJson (j : Json) : PyVal :=
  match j with
  | .null => .none
  | .arr a =>
    match a.toList with
    | [Json.str "str", s] => .str (charsOfJson s)
    | [Json.str "tuple", Json.arr xs] => .tuple (xs.toList.map charsOfJson)
    | [Json.str "list", Json.arr xs] => .list (xs.toList.map charsOfJson)
    | _ => .none
  | _ => .none

def valJson : PyVal → Json
  | .none => Json.null
  | .str s => Json.arr #[Json.str "str", charsJson s]
  | .tuple xs => Json.arr #[Json.str "tuple", Json.arr (xs.map charsJson).toArray]
  | .list xs => Json.arr #[Json.str "list", Json.arr (xs.map charsJson).toArray]

def isPOf (j : Json) : Char → Bool :=
  let np := getNatList j "nonprintable"
  fun c => !(np.contains c.toNat)

def asciiWord (c : Char) : Bool := c.isAlphanum || c == '_'

def handle (op : String) (j : Json) : Option Json :=
  match op with
  | "gen.seq" =>
    match load (histOfJson j) (optsOfJson j) with
    | .error e => some (obj [("loadErr", Json.str e.name)])
    | .ok m => some (obj [("results", Json.arr (runCallsF { hist := histOfJson j, map := m, files := getStrList j "files" }
        ((getArr j "calls").map argsOfJson)).toArray)])
  | "gen.add" =>
    match load (histOfJson j) (optsOfJson j) with
    | .error e => some (obj [("loadErr", Json.str e.name)])
    | .ok m => some (obj [("results", Json.arr (runAdds m ((getArr j "adds").map revOfJson)).toArray)])
  | "gen.fresh" =>
    match load (histOfJson j) (optsOfJson j) with
    | .error e => some (errJ e)
    | .ok m => some (obj [("ok", viewJson (view m))])
  | "gen.spec.view" =>
    let a := viewOfJson (getObj j "a")
    let b := viewOfJson (getObj j "b")
    some (obj [("holds", Json.bool (Spec.Gen.sameViewB a b)), ("differ", strs (Spec.Gen.viewDiff a b)),
               ("holdsNoLabels", Json.bool (Spec.Gen.sameViewB a.noLabels b.noLabels))])
  | "gen.repr" =>
    some (obj [("text", charsJson (reprVal (isPOf j) (valOfJson (getObj j "val"))))])
  | "gen.parse" =>
    match parseVal (getChars j "text") with
    | some v => some (obj [("ok", valJson v)])
    | none => some (obj [("none", Json.bool true)])
  | "gen.spec.denotes" =>
    some (obj [("holds", Json.bool (Spec.Gen.denotesB (getChars j "text") (valOfJson (getObj j "val"))))])
  | "gen.spec.denotesSeq" =>
    some (obj [("holds", Json.bool (Spec.Gen.denotesSeqB (getChars j "text") ((getArr j "seq").map charsOfJson)))])
  | "gen.path" =>
    let extra := getNatList j "extraWord"
    let lowerTab := (getArr j "lower").filterMap (fun e => match e with
      | .arr #[a, b] => match a.getNat? with
        | .ok n => some (n, charsOfJson b)
        | _ => none
      | _ => none)
    let isWord := fun (c : Char) => asciiWord c || extra.contains c.toNat
    let lower := fun (c : Char) => match lowerTab.find? (·.1 == c.toNat) with
      | some (_, l) => l
      | none => [c.toLower]
    let slug := slugOf isWord lower (getNatD j "trunc" 40) (getChars j "message")
    let f : Fields := { rev := getChars j "rev", slug := slug, epoch := getNatD j "epoch", year := getNatD j "year",
                        month := getNatD j "month", day := getNatD j "day", hour := getNatD j "hour",
                        minute := getNatD j "minute", second := getNatD j "second" }
    match fileName (getChars j "template") f with
    | some n => some (obj [("name", charsJson n), ("slug", charsJson slug), ("isRevFile", Json.bool (isRevFile n))])
    | none => some (obj [("none", Json.bool true)])
  | "gen.spec.name" =>
    some (obj [("holds", Json.bool (isRevFile (getChars j "name")))])
  | "gen.doc" =>
    some (obj [("ok", Json.bool (docOk (getChars j "message") (getChars j "revid")
      ((getArr j "down").map charsOfJson) (getChars j "date")))])
  | _ => none

end Drv.Gen
