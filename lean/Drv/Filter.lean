import Drv.Json
import Spec.Filter
import Spec.Reverse
/-! Driver handlers of the `filter` workstream: C20 (`filter.*`) and C09 (`rev.*`). -/
namespace Drv.Filter
open Lean

/-! ## C20 -/
section C20
open Model.Filter Spec.Filter

def optStr (j : Json) (k : String) : Option String := getStr j k

def optStrJ : Option String → Json
  | some s => Json.str s
  | none => Json.null

def tyOfString : String → Option Ty
  | "schema" => some .schema
  | "table" => some .table
  | "column" => some .column
  | "index" => some .index
  | "unique_constraint" => some .uniqueConstraint
  | "foreign_key_constraint" => some .foreignKey
  | _ => none

def kindOfString : String → Option OpKind
  | "createTable" => some .createTable
  | "dropTable" => some .dropTable
  | "addColumn" => some .addColumn
  | "dropColumn" => some .dropColumn
  | "alterColumn" => some .alterColumn
  | "createIndex" => some .createIndex
  | "dropIndex" => some .dropIndex
  | "addUq" => some .addUq
  | "dropUq" => some .dropUq
  | "addFk" => some .addFk
  | "dropFk" => some .dropFk
  | "tableComment" => some .tableComment
  | _ => none

def kindToString : OpKind → String
  | .createTable => "createTable"
  | .dropTable => "dropTable"
  | .addColumn => "addColumn"
  | .dropColumn => "dropColumn"
  | .alterColumn => "alterColumn"
  | .createIndex => "createIndex"
  | .dropIndex => "dropIndex"
  | .addUq => "addUq"
  | .dropUq => "dropUq"
  | .addFk => "addFk"
  | .dropFk => "dropFk"
  | .tableComment => "tableComment"

def tblOfJson (j : Json) : Tbl :=
  { schema := optStr j "schema"
    name := getStrD j "name"
    cols := getStrList j "cols"
    idxs := (getArr j "idxs").map (fun i => ⟨getStrD i "name", getBoolD i "unique", getStrD i "sig"⟩)
    uqs := (getArr j "uqs").map (fun u => ⟨optStr u "name", getStrD u "sig"⟩)
    fks := (getArr j "fks").map (fun f => ⟨optStr f "name", getStrD f "sig"⟩) }

def opToJson (o : Op) : Json :=
  obj [("kind", Json.str (kindToString o.kind)), ("schema", optStrJ o.schema), ("table", Json.str o.table),
       ("name", optStrJ o.name), ("sig", Json.str o.sig)]

def opOfJson (j : Json) : Option Op := do
  let k ← kindOfString (getStrD j "kind")
  pure ⟨k, optStr j "schema", getStrD j "table", optStr j "name", getStrD j "sig"⟩

/-- one rule of a decision list: every stated field must match -/
structure Rule where
  ty : Option Ty
  name : Option String
  nameIsNone : Bool
  pfx : Option String
  reflected : Option Bool
  hasCompareTo : Option Bool
  table : Option String
  tableIsNone : Bool
  schema : Option String
  schemaIsNone : Bool
  qualified : Option String
  verdict : Bool

def ruleOfJson (j : Json) : Rule :=
  { ty := (getStr j "ty").bind tyOfString
    name := getStr j "name"
    nameIsNone := getBoolD j "nameIsNone"
    pfx := getStr j "prefix"
    reflected := getBool j "reflected"
    hasCompareTo := getBool j "hasCompareTo"
    table := getStr j "table"
    tableIsNone := getBoolD j "tableIsNone"
    schema := getStr j "schema"
    schemaIsNone := getBoolD j "schemaIsNone"
    qualified := getStr j "qualified"
    verdict := getBoolD j "verdict" }

def optMatch {α : Type} [BEq α] (want : Option α) (got : α) : Bool :=
  match want with
  | some w => w == got
  | none => true

def prefixMatch (p : Option String) (n : Option String) : Bool :=
  match p, n with
  | none, _ => true
  | some p, some n => p.isPrefixOf n
  | some _, none => false

/-- `parent_names["schema_qualified_table_name"]` as `run_name_filters` computes it for the hook -/
def qualifiedName (d : NameDesc) : Option String :=
  match d.ty with
  | .schema => none
  | _ =>
    let t := if d.ty == .table then d.name else d.table
    match t with
    | some t => if t.isEmpty then none else
      some (match d.schema with
        | some s => if s.isEmpty then t else s ++ "." ++ t
        | none => t)
    | none => none

def Rule.matchesCommon (r : Rule) (name : Option String) (ty : Ty) (schema : Option String)
    (table : Option String) (qualified : Option String := none) : Bool :=
  (match r.qualified with | some q => qualified == some q | none => true) &&
  optMatch r.ty ty &&
  (match r.name with | some n => name == some n | none => true) &&
  (!r.nameIsNone || name.isNone) &&
  prefixMatch r.pfx name &&
  (match r.table with | some t => table == some t | none => true) &&
  (!r.tableIsNone || table.isNone) &&
  (match r.schema with | some s => schema == some s | none => true) &&
  (!r.schemaIsNone || schema.isNone)

def evalObj (rules : List Rule) (dflt : Bool) (d : ObjDesc) : Bool :=
  match rules.find? (fun r => r.matchesCommon d.name d.ty d.schema (some d.table) &&
      optMatch r.reflected d.reflected && optMatch r.hasCompareTo d.hasCompareTo) with
  | some r => r.verdict
  | none => dflt

def evalName (rules : List Rule) (dflt : Bool) (d : NameDesc) : Bool :=
  match rules.find? (fun r => r.matchesCommon d.name d.ty d.schema d.table (qualifiedName d)) with
  | some r => r.verdict
  | none => dflt

structure Case where
  P : Cmp
  objF : ObjDesc → Bool
  nameF : NameDesc → Bool
  schemas : List (Option String)
  conn : List Tbl
  md : List Tbl

def caseOfJson (j : Json) : Case :=
  let differ : List (Option String × String × String) :=
    (getArr j "colDiffer").map (fun e => (optStr e "schema", getStrD e "table", getStrD e "col"))
  let tcomm : List (Option String × String) :=
    (getArr j "tableCommentDiffer").map (fun e => (optStr e "schema", getStrD e "table"))
  let pj := getObj j "objPred"
  let nj := getObj j "namePred"
  { P := { colDiffer := fun k c => differ.contains (k.1, k.2, c)
           idxDiffer := fun c m => c.sig != m.sig || c.unique != m.unique
           uqDiffer := fun c m => c.sig != m.sig
           supportsUq := getBoolD j "supportsUq" true
           tableCommentDiffer := fun k => tcomm.contains (k.1, k.2) }
    objF := evalObj ((getArr pj "rules").map ruleOfJson) (getBoolD pj "default" true)
    nameF := evalName ((getArr nj "rules").map ruleOfJson) (getBoolD nj "default" true)
    schemas := (getArr j "schemas").map asStr?
    conn := (getArr j "conn").map tblOfJson
    md := (getArr j "meta").map tblOfJson }

def opsJ (l : List Op) : Json := Json.arr (l.map opToJson).toArray

def handleC20 (op : String) (j : Json) : Option Json :=
  match op with
  | "filter.diff" =>
    let c := caseOfJson j
    some (obj [("ops", opsJ (diffF c.P c.objF c.nameF c.schemas c.conn c.md)),
               ("unfiltered", opsJ (diffF c.P (fun _ => true) (fun _ => true) c.schemas c.conn c.md))])
  | "filter.spec" =>
    let c := caseOfJson j
    match (getArr j "filtered").mapM opOfJson, (getArr j "unfilteredOps").mapM opOfJson with
    | some f, some u =>
      let A' := visible c.nameF c.schemas c.conn
      let A := visible (fun _ => true) c.schemas c.conn
      let o := objectOk c.objF A' c.md f
      let n := nameOk c.nameF f
      let cons := conservativeOk c.objF c.nameF A c.md f u
      let badObj := f.filter (fun x => !objAccepts c.objF A' c.md x)
      let badName := f.filter (fun x => x.kind.touchesDb && !nameAccepts c.nameF x)
      some (obj [("holds", Json.bool (o && n && cons)), ("object", Json.bool o), ("name", Json.bool n),
                 ("conservative", Json.bool cons), ("badObject", opsJ badObj), ("badName", opsJ badName),
                 ("accFiltered", opsJ (f.filter (acceptedByBoth c.objF c.nameF A c.md))),
                 ("accUnfiltered", opsJ (u.filter (acceptedByBoth c.objF c.nameF A c.md)))])
    | _, _ => some (errJ "bad-op")
  | _ => none

end C20

/-! ## C09 -/
section C09
open Model.Reverse Spec.Reverse

def kwOfJson (j : Json) (k : String) : List (String × String) :=
  (getArr j k).filterMap (fun e =>
    match e with
    | .arr a => match a.toList with
      | [.str x, .str y] => some (x, y)
      | _ => none
    | _ => none)

def kwJ (l : List (String × String)) : Json :=
  Json.arr (l.map (fun p => Json.arr #[Json.str p.1, Json.str p.2])).toArray

def optBoolJ : Option Bool → Json
  | some b => Json.bool b
  | none => Json.null

def colOfJson (j : Json) : Col :=
  { name := getStrD j "name", ty := getStrD j "ty", nullable := getBoolD j "nullable" true,
    default := getStr j "default", comment := getStr j "comment" }

def colJ (c : Col) : Json :=
  obj [("name", Json.str c.name), ("ty", Json.str c.ty), ("nullable", Json.bool c.nullable),
       ("default", optStrJ c.default), ("comment", optStrJ c.comment)]

def consKindOfString : String → Option ConsKind
  | "unique" => some .unique
  | "foreignkey" => some .foreignKey
  | "check" => some .check
  | "primary" => some .primaryKey
  | _ => none

def consKindToString : ConsKind → String
  | .unique => "unique"
  | .foreignKey => "foreignkey"
  | .check => "check"
  | .primaryKey => "primary"

def consOfJson (j : Json) : ConsDef :=
  { kind := ((getStr j "kind").bind consKindOfString).getD .check
    name := getStr j "name", table := getStrD j "table", schema := getStr j "schema"
    body := getStrD j "body", deferrable := getBool j "deferrable", initially := getStr j "initially",
    refSchema := getStr j "refSchema" }

def consJ (c : ConsDef) : Json :=
  obj [("kind", Json.str (consKindToString c.kind)), ("name", optStrJ c.name), ("table", Json.str c.table),
       ("schema", optStrJ c.schema), ("body", Json.str c.body), ("deferrable", optBoolJ c.deferrable),
       ("initially", optStrJ c.initially), ("refSchema", optStrJ c.refSchema)]

def ixOfJson (j : Json) : IndexDef :=
  { name := getStr j "name", table := getStrD j "table", schema := getStr j "schema",
    cols := getStrList j "cols", unique := getBoolD j "unique", kw := kwOfJson j "kw" }

def ixJ (i : IndexDef) : Json :=
  obj [("name", optStrJ i.name), ("table", Json.str i.table), ("schema", optStrJ i.schema),
       ("cols", strs i.cols), ("unique", Json.bool i.unique), ("kw", kwJ i.kw)]

def tdOfJson (j : Json) : TableDef :=
  { name := getStrD j "name", schema := getStr j "schema", cols := (getArr j "cols").map colOfJson,
    cons := (getArr j "cons").map consOfJson, comment := getStr j "comment", extra := getStrD j "extra",
    ixs := getStrList j "ixs" }

def tdJ (t : TableDef) : Json :=
  obj [("name", Json.str t.name), ("schema", optStrJ t.schema), ("cols", Json.arr (t.cols.map colJ).toArray),
       ("cons", Json.arr (t.cons.map consJ).toArray), ("comment", optStrJ t.comment), ("extra", Json.str t.extra),
       ("ixs", strs t.ixs)]

def triOfJson (j : Json) (k : String) : Tri :=
  match j.getObjVal? k with
  | .ok (.str s) => .val s
  | .ok .null => .null
  | _ => .unset

def triJ : Tri → Json
  | .unset => Json.bool false
  | .null => Json.null
  | .val s => Json.str s

def alterOfJson (j : Json) : Alter :=
  { table := getStrD j "table", column := getStrD j "column", schema := getStr j "schema"
    existingType := getStr j "eT", existingNullable := getBool j "eN", existingDefault := triOfJson j "eD"
    existingComment := getStr j "eC", modifyType := getStr j "mT", modifyNullable := getBool j "mN"
    modifyDefault := triOfJson j "mD", modifyComment := triOfJson j "mC", modifyName := getStr j "mName"
    kw := kwOfJson j "kw" }

def alterJ (a : Alter) : Json :=
  obj [("table", Json.str a.table), ("column", Json.str a.column), ("schema", optStrJ a.schema),
       ("eT", optStrJ a.existingType), ("eN", optBoolJ a.existingNullable), ("eD", triJ a.existingDefault),
       ("eC", optStrJ a.existingComment), ("mT", optStrJ a.modifyType), ("mN", optBoolJ a.modifyNullable),
       ("mD", triJ a.modifyDefault), ("mC", triJ a.modifyComment), ("mName", optStrJ a.modifyName),
       ("kw", kwJ a.kw)]

def optJ {α : Type} (f : α → Json) : Option α → Json
  | some a => f a
  | none => Json.null

def optOf {α : Type} (f : Json → α) (j : Json) (k : String) : Option α :=
  match j.getObjVal? k with
  | .ok .null => none
  | .ok v => some (f v)
  | _ => none

partial def rOpOfJson (j : Json) : Option Op :=
  match getStrD j "k" with
  | "createTable" => some (.createTable (tdOfJson (getObj j "t")) (getBool j "ine"))
  | "dropTable" => some (.dropTable (getStrD j "name") (getStr j "schema") (getBool j "ie") (getStr j "comment")
      (getStrD j "extra") (optOf tdOfJson j "rev"))
  | "addColumn" => some (.addColumn (getStrD j "table") (getStr j "schema") (colOfJson (getObj j "col")) (kwOfJson j "kw"))
  | "dropColumn" => some (.dropColumn (getStrD j "table") (getStr j "schema") (getStrD j "column") (kwOfJson j "kw")
      (optOf colOfJson j "rev"))
  | "createIndex" => some (.createIndex (ixOfJson (getObj j "ix")) (getBool j "ine"))
  | "dropIndex" => some (.dropIndex (getStr j "name") (getStrD j "table") (getStr j "schema") (getBool j "ie")
      (kwOfJson j "kw") (optOf ixOfJson j "rev"))
  | "addConstraint" => some (.addConstraint (consOfJson (getObj j "c")))
  | "dropConstraint" => some (.dropConstraint (getStr j "name") (getStrD j "table") (getStr j "schema")
      ((getStr j "ty").bind consKindOfString) (optOf consOfJson j "rev"))
  | "alterColumn" => some (.alterColumn (alterOfJson (getObj j "a")))
  | "createTableComment" => some (.createTableComment (getStrD j "table") (getStr j "schema") (getStr j "comment")
      (getStr j "existing"))
  | "dropTableComment" => some (.dropTableComment (getStrD j "table") (getStr j "schema") (getStr j "existing"))
  | "modifyTable" =>
    match (getArr j "ops").mapM rOpOfJson with
    | some ops => some (.modifyTable (getStrD j "table") (getStr j "schema") ops)
    | none => none
  | _ => none

partial def rOpJ : Op → Json
  | .createTable t f => obj [("k", "createTable"), ("t", tdJ t), ("ine", optBoolJ f)]
  | .dropTable n s f c e r => obj [("k", "dropTable"), ("name", Json.str n), ("schema", optStrJ s), ("ie", optBoolJ f),
      ("comment", optStrJ c), ("extra", Json.str e), ("rev", optJ tdJ r)]
  | .addColumn t s c kw => obj [("k", "addColumn"), ("table", Json.str t), ("schema", optStrJ s), ("col", colJ c), ("kw", kwJ kw)]
  | .dropColumn t s c kw r => obj [("k", "dropColumn"), ("table", Json.str t), ("schema", optStrJ s), ("column", Json.str c),
      ("kw", kwJ kw), ("rev", optJ colJ r)]
  | .createIndex ix f => obj [("k", "createIndex"), ("ix", ixJ ix), ("ine", optBoolJ f)]
  | .dropIndex n t s f kw r => obj [("k", "dropIndex"), ("name", optStrJ n), ("table", Json.str t), ("schema", optStrJ s),
      ("ie", optBoolJ f), ("kw", kwJ kw), ("rev", optJ ixJ r)]
  | .addConstraint c => obj [("k", "addConstraint"), ("c", consJ c)]
  | .dropConstraint n t s ty r => obj [("k", "dropConstraint"), ("name", optStrJ n), ("table", Json.str t),
      ("schema", optStrJ s), ("ty", optJ (fun k => Json.str (consKindToString k)) ty), ("rev", optJ consJ r)]
  | .alterColumn a => obj [("k", "alterColumn"), ("a", alterJ a)]
  | .createTableComment t s c e => obj [("k", "createTableComment"), ("table", Json.str t), ("schema", optStrJ s),
      ("comment", optStrJ c), ("existing", optStrJ e)]
  | .dropTableComment t s e => obj [("k", "dropTableComment"), ("table", Json.str t), ("schema", optStrJ s),
      ("existing", optStrJ e)]
  | .modifyTable t s ops => obj [("k", "modifyTable"), ("table", Json.str t), ("schema", optStrJ s),
      ("ops", Json.arr (ops.map rOpJ).toArray)]

def kindToStr : Kind → String
  | .createTable => "createTable"
  | .dropTable => "dropTable"
  | .addColumn => "addColumn"
  | .dropColumn => "dropColumn"
  | .createIndex => "createIndex"
  | .dropIndex => "dropIndex"
  | .addConstraint => "addConstraint"
  | .dropConstraint => "dropConstraint"
  | .alterColumn => "alterColumn"
  | .createTableComment => "createTableComment"
  | .dropTableComment => "dropTableComment"

def kindOfStr : String → Option Kind
  | "createTable" => some .createTable
  | "dropTable" => some .dropTable
  | "addColumn" => some .addColumn
  | "dropColumn" => some .dropColumn
  | "createIndex" => some .createIndex
  | "dropIndex" => some .dropIndex
  | "addConstraint" => some .addConstraint
  | "dropConstraint" => some .dropConstraint
  | "alterColumn" => some .alterColumn
  | "createTableComment" => some .createTableComment
  | "dropTableComment" => some .dropTableComment
  | _ => none

def handleC09 (op : String) (j : Json) : Option Json :=
  match op with
  | "rev.rr" =>
    match rOpOfJson (getObj j "o") with
    | none => some (errJ "bad-op")
    | some o =>
      let flags := [("reversible", Json.bool (reversible o)), ("clean", Json.bool (clean o)),
                    ("viewO", rOpJ (view o))]
      match o.reverse with
      | none => some (obj (("err", Json.str "ValueError") :: flags))
      | some r =>
        match r.reverse with
        | none => some (obj ([("r", rOpJ r), ("viewR", rOpJ (view r)), ("err2", Json.str "ValueError")] ++ flags))
        | some rr =>
          some (obj ([("r", rOpJ r), ("viewR", rOpJ (view r)), ("rr", rOpJ rr), ("viewRR", rOpJ (view rr)),
            ("involutive", Json.bool ((rOpJ (view rr)).compress == (rOpJ (view o)).compress))] ++ flags))
  | "rev.tree" =>
    match (getArr j "ops").mapM rOpOfJson with
    | none => some (errJ "bad-op")
    | some ops =>
      match populate ops with
      | none => some (obj [("err", Json.str "ValueError"), ("reversible", Json.bool (reversibleL ops))])
      | some ds =>
        some (obj [("down", Json.arr (ds.map (fun d => rOpJ (view d))).toArray),
                   ("reversible", Json.bool (reversibleL ops)),
                   ("up2", match populate ds with
                     | some u2 => Json.arr (u2.map (fun d => rOpJ (view d))).toArray
                     | none => Json.str "ValueError"),
                   ("kinds", strs ((kindsL ds).map kindToStr)),
                   ("expected", strs ((expectedDown (tagsL ops)).map kindToStr))])
  | "rev.viewEq" =>
    match rOpOfJson (getObj j "a"), rOpOfJson (getObj j "b") with
    | some a, some b =>
      some (obj [("holds", Json.bool ((rOpJ (view a)).compress == (rOpJ (view b)).compress)),
                 ("reversible", Json.bool (reversible a)), ("clean", Json.bool (clean a))])
    | _, _ => some (errJ "bad-op")
  | "rev.shape" =>
    match rOpOfJson (getObj j "o"), rOpOfJson (getObj j "r") with
    | some o, some r => some (obj [("holds", Json.bool (undoesShape o r))])
    | _, _ => some (errJ "bad-op")
  | "rev.order" =>
    let ups := (getArr j "ups").mapM (fun e =>
      match e with
      | .arr a => match a.toList with
        | [.str k, .bool b] => (kindOfStr k).map (fun k => (k, b))
        | _ => none
      | _ => none)
    match ups, (getStrList j "downs").mapM kindOfStr with
    | some ups, some downs =>
      some (obj [("holds", Json.bool (reverseOrderOk ups downs)),
                 ("expected", strs ((expectedDown ups).map kindToStr))])
    | _, _ => some (errJ "bad-op")
  | _ => none

end C09

def handle (op : String) (j : Json) : Option Json :=
  match handleC20 op j with
  | some r => some r
  | none => handleC09 op j

end Drv.Filter
