import Drv.Json
import Spec.Txn
namespace Drv.Txn
open Lean Model.Txn

def tokToJson : Tok → Json
  | .begin => "begin"
  | .commit => "commit"
  | .createVT => "createVT"
  | .dropVT => "dropVT"
  | .running i => Json.str s!"running:{i}"
  | .stmt i => Json.str s!"stmt:{i}"
  | .auto i => Json.str s!"auto:{i}"
  | .version i => Json.str s!"version:{i}"

def tokOfString (s : String) : Option Tok :=
  match s.splitOn ":" with
  | ["begin"] => some .begin
  | ["commit"] => some .commit
  | ["createVT"] => some .createVT
  | ["dropVT"] => some .dropVT
  | ["running", n] => n.toNat?.map .running
  | ["stmt", n] => n.toNat?.map .stmt
  | ["auto", n] => n.toNat?.map .auto
  | ["version", n] => n.toNat?.map .version
  | _ => none

def segOfJson (j : Json) : Option Seg :=
  match getStr j "kind", getNat j "n" with
  | some "plain", some n => some (.plain n)
  | some "auto", some n => some (.auto n)
  | _, _ => none

def migOfJson (j : Json) : Option Mig := do
  let segs ← (getArr j "segs").mapM segOfJson
  let nver ← getNat j "nver"
  let cv ← getBool j "createVT"
  pure { segs := segs, nver := nver, createVT := cv }

def cfgOfJson (j : Json) : Cfg :=
  { tddl := getBoolD j "tddl", perMig := getBoolD j "perMig", connInTxn := getBoolD j "connInTxn" }

def handle (op : String) (j : Json) : Option Json :=
  match op with
  | "txn.offline" =>
    match (getArr j "migs").mapM migOfJson with
    | some migs =>
      some (obj [("toks", Json.arr ((runToks (cfgOfJson j) migs (getBoolD j "dropVT")).map tokToJson).toArray)])
    | none => some (errJ "bad-op")
  | "txn.spec" =>
    match (getArr j "migs").mapM migOfJson, (getStrList j "out").mapM tokOfString with
    | some migs, some out =>
      let c := cfgOfJson j
      some (obj [("holds", Json.bool (Spec.Txn.framingOk c migs out)),
                 ("balanced", Json.bool (Spec.Txn.balancedB out)),
                 ("framed", Json.bool (Spec.Txn.framed out)),
                 ("oneMigPerBlock", Json.bool (Spec.Txn.oneMigPerBlock out)),
                 ("countBegin", Spec.Txn.countBegin out),
                 ("noMarkers", Json.bool (Spec.Txn.noMarkers out))])
    | _, _ => some (errJ "bad-op")
  | "txn.configure" =>
    -- calls: [[override|null, perMig], ...] (earlier configure() calls of the run), then the judged call
    let argsOf (x : Json) : Model.Online.ConfigureArgs :=
      match x with
      | .arr a => { tddl := (a[0]?.bind (fun v => match v with | .bool b => some b | _ => none)),
                    perMig := (a[1]?.bind (fun v => match v with | .bool b => some b | _ => none)).getD false }
      | _ => { tddl := none, perMig := false }
    let calls := (getArr j "calls").map argsOf
    let c := lastCfg (getBoolD j "dialectDefault") calls (argsOf (getObj j "call"))
    some (obj [("tddl", Json.bool c.tddl), ("perMig", Json.bool c.perMig)])
  | _ => none

end Drv.Txn
