import Drv.Json
import Spec.Offline
import Model.Offline.Linear
namespace Drv.Offline
open Lean Model.Offline

/-- texts travel as arrays of code points (no dependence on JSON string escaping) -/
def cpsOf (j : Json) : Str :=
  match j with
  | .arr a => a.toList.filterMap (fun x => match x.getNat? with | .ok n => some (Char.ofNat n) | _ => none)
  | .str s => s.toList
  | _ => []

def getCps (j : Json) (k : String) : Str := cpsOf (getObj j k)

def cpsJ (s : Str) : Json := Json.arr (s.map (fun c => (Lean.toJson c.toNat))).toArray

def strListOf (j : Json) : List String := asStrList j

def tableOfJson (j : Json) : Spec.Offline.TableDump :=
  { name := getStrD j "name", cols := getStrList j "cols", rows := (getArr j "rows").map strListOf }

def dumpOfJson (j : Json) : Spec.Offline.Dump :=
  { schema := (getArr j "schema").map strListOf, tables := (getArr j "tables").map tableOfJson,
    version := getStrList j "version" }

def valOfJson (j : Json) : Option Val :=
  match getStr j "k" with
  | some "null" => some .null
  | some "int" => (getStrD j "v").toInt?.map .int
  | some "str" => some (.str (getCps j "v"))
  | _ => none

def valJ : Val → Json
  | .null => obj [("k", "null")]
  | .int i => obj [("k", "int"), ("v", Json.str (toString i))]
  | .str s => obj [("k", "str"), ("v", cpsJ s)]

def colOfJson (j : Json) : Option Col :=
  let ty : Option ColTy := match getStr j "ty" with
    | some "integer" => some .integer
    | some "text" => some .text
    | some "varchar" => (getNat j "n").map .varchar
    | _ => none
  ty.map (fun t => ⟨getCps j "name", t, getBoolD j "nullable" true⟩)

def colJ (c : Col) : Json :=
  obj [("name", cpsJ c.name), ("nullable", Json.bool c.nullable),
       ("ty", match c.ty with | .integer => "integer" | .text => "text" | .varchar _ => "varchar")]

def namesOf (j : Json) (k : String) : List Str := (getArr j k).map cpsOf

def opOfJson (j : Json) : Option Op :=
  match getStr j "op" with
  | some "create_table" => ((getArr j "cols").mapM colOfJson).map (Op.createTable (getCps j "name"))
  | some "drop_table" => some (.dropTable (getCps j "name"))
  | some "add_column" => (colOfJson (getObj j "col")).map (Op.addColumn (getCps j "table"))
  | some "create_index" => some (.createIndex (getCps j "name") (getCps j "table") (namesOf j "cols"))
  | some "drop_index" => some (.dropIndex (getCps j "name"))
  | some "bulk_insert" =>
    ((getArr j "rows").mapM (fun (r : Json) => match r with
      | Json.arr a => a.toList.mapM valOfJson
      | _ => none)).map (Op.bulkInsert (getCps j "table") (namesOf j "cols"))
  | some "execute" => some (.execute (getCps j "text"))
  | _ => none

def verOfJson (j : Json) : Option VerOp :=
  match j with
  | .arr a => match a.toList with
    | [.str "insert", v] => some (.insert (cpsOf v))
    | [.str "delete", v] => some (.delete (cpsOf v))
    | [.str "update", o, n] => some (.update (cpsOf o) (cpsOf n))
    | _ => none
  | _ => none

def stepOfJson (j : Json) : Option Step := do
  let body ← (getArr j "body").mapM opOfJson
  let ver ← (getArr j "ver").mapM verOfJson
  pure ⟨getCps j "comment", body, ver⟩

def tableJ (t : Table) : Json :=
  obj [("name", cpsJ t.name), ("cols", Json.arr (t.cols.map colJ).toArray),
       ("rows", Json.arr (t.rows.map (fun r => Json.arr (r.map valJ).toArray)).toArray)]

def dbJ : Option DB → Json
  | none => Json.null
  | some db => obj [("tables", Json.arr (db.tables.map tableJ).toArray),
      ("indexes", Json.arr (db.indexes.map (fun i => obj [("name", cpsJ i.name), ("table", cpsJ i.table),
        ("cols", Json.arr (i.cols.map cpsJ).toArray)])).toArray),
      ("version", match db.version with | none => Json.null | some r => Json.arr (r.map cpsJ).toArray),
      ("log", Json.arr (db.log.map cpsJ).toArray)]

def q := sqliteNeedsQuote

/-- db₀ := the online runs of the setup step lists, from the empty database -/
def setupDb : List (List Step) → DB → Option DB
  | [], db => some db
  | s :: r, db => match online q s db with
    | some db' => setupDb r db'
    | none => none

def handle (op : String) (j : Json) : Option Json :=
  match op with
  | "off.lit" =>
    match valOfJson (getObj j "v") with
    | some v =>
      let t := renderLit v
      some (obj [("text", cpsJ t), ("back", match parseLiteral t with | some v' => valJ v' | none => Json.null),
                 ("roundtrip", Json.bool (parseLiteral t == some v))])
    | none => some (errJ "bad-op")
  | "off.quote" =>
    some (obj [("text", cpsJ (renderTok (nameTok q (getCps j "name"))))])
  | "off.emit" =>
    match (getArr j "steps").mapM stepOfJson with
    | some steps =>
      match offline q (namesOf j "start") steps with
      | some t => some (obj [("script", cpsJ t)])
      | none => some (obj [("script", Json.null)])
    | none => some (errJ "bad-op")
  | "off.linear" =>
    -- plan of a linear upgrade / downgrade: log lines and version operations per step
    let revs : List Rev := (namesOf j "revs").map (fun i => ⟨i, [], []⟩)
    let other : Option Str := match getObj j "other" with | Json.null => none | x => some (cpsOf x)
    let steps := if getBoolD j "up" true then upSteps other revs else downSteps revs other
    let verJ : VerOp → Json
      | .insert v => Json.arr #[Json.str "insert", cpsJ v]
      | .delete v => Json.arr #[Json.str "delete", cpsJ v]
      | .update o n => Json.arr #[Json.str "update", cpsJ o, cpsJ n]
    some (obj [("steps", Json.arr (steps.map (fun st => obj [("log", cpsJ st.comment),
      ("ver", Json.arr (st.ver.map verJ).toArray)])).toArray)])
  | "off.run" =>
    match (getArr j "steps").mapM stepOfJson, (getArr j "setup").mapM (fun (s : Json) => match s with
        | Json.arr a => a.toList.mapM stepOfJson
        | _ => none) with
    | some steps, some setup =>
      match setupDb setup DB.empty with
      | none => some (obj [("setup", Json.null)])
      | some db0 =>
        let a := online q steps db0
        let b := (offline q (namesOf j "start") steps).bind (fun t => execScript q t db0)
        let start := namesOf j "start"
        -- the decidable hypotheses of C12.same_effect_partial, evaluated on this input
        let wf := steps.all (stepOk q) && midOk start steps && (!start.isEmpty || !steps.isEmpty)
          && (db0.version == (if start.isEmpty then none else some start))
        some (obj [("setup", Json.bool true), ("wf", Json.bool wf), ("online", dbJ a), ("offline", dbJ b),
                   ("same", Json.bool (Spec.Offline.sameOutcomeB a b))])
    | _, _ => some (errJ "bad-op")
  | "off.split" =>
    some (obj [("stmts", Json.arr ((split (getCps j "text")).map cpsJ).toArray)])
  | "off.same" =>
    let a := dumpOfJson (getObj j "a")
    let b := dumpOfJson (getObj j "b")
    some (obj [("holds", Json.bool (Spec.Offline.sameEffect a b)),
               ("schema", Json.bool (Spec.Offline.sameSchema a b)),
               ("data", Json.bool (Spec.Offline.sameData a b)),
               ("version", Json.bool (Spec.Offline.sameVersion a b))])
  | _ => none

end Drv.Offline
