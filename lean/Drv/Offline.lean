import Drv.Json
import Spec.Offline
namespace Drv.Offline
open Lean Model.Offline

/-- texts travel as arrays of code points (no dependence on JSON string escaping) -/
def cpsOf (j : Json) : Str :=
  match j with
  | .arr a => a.toList.filterMap (fun x => match x.getNat? with | .ok n => some (Char.ofNat n) | _ => none)
  | .str s => s.toList
  | _ => []

def getCps (j : Json) (k : String) : Str := cpsOf (getObj j k)

def cpsJ (s : Str) : Json := Json.arr (s.map (fun c => (Lean.toJson c.toNat))).toArray

def strListOf (j : Json) : List String := asStrList j

def tableOfJson (j : Json) : Spec.Offline.TableDump :=
  { name := getStrD j "name", cols := getStrList j "cols", rows := (getArr j "rows").map strListOf }

def dumpOfJson (j : Json) : Spec.Offline.Dump :=
  { schema := (getArr j "schema").map strListOf, tables := (getArr j "tables").map tableOfJson,
    version := getStrList j "version" }

def handle (op : String) (j : Json) : Option Json :=
  match op with
  | "off.split" =>
    some (obj [("stmts", Json.arr ((split (getCps j "text")).map cpsJ).toArray)])
  | "off.same" =>
    let a := dumpOfJson (getObj j "a")
    let b := dumpOfJson (getObj j "b")
    some (obj [("holds", Json.bool (Spec.Offline.sameEffect a b)),
               ("schema", Json.bool (Spec.Offline.sameSchema a b)),
               ("data", Json.bool (Spec.Offline.sameData a b)),
               ("version", Json.bool (Spec.Offline.sameVersion a b))])
  | _ => none

end Drv.Offline
