import Lemmas.Alter.Default
import Lemmas.Alter.Sqlite
import Lemmas.Alter.Postgresql
import Lemmas.Alter.Oracle
import Lemmas.Alter.Mysql
import Lemmas.Alter.Mssql
import Lemmas.Alter.Schema
import Lemmas.Alter.Raises
import Lemmas.Alter.PgIdentity
import Lemmas.Alter.Address
import Lemmas.Alter.Constraints
import Lemmas.Alter.Succeeds
import Lemmas.Alter.Complete
import Lemmas.Alter.ConstraintsIff
import Lemmas.Alter.OracleIdentity
/-!
# C13 — alter_column changes only what it was asked to change, on every dialect

`Model.Alter.alterColumn d r` is the mirror of `op.alter_column` (toimpl wrapper + the dialect's
`alter_column` + the `@compiles` visitors); `Spec.Alter.exactOk` is the property for one request,
one initial column and one output; `Spec.Alter.agrees` says that the initial column has the stated
`existing_*` values.  Every theorem quantifies over **all** requests (all table/column/schema
names, all type tokens, all default texts, all comments, all presence patterns) and all initial
columns.
-/
namespace C13
open Model.Alter Spec.Alter Lemmas.Alter

/-- the request used in the non-vacuity examples: MySQL-style full restatement -/
def sampleReq : Req :=
  { table := "t", column := "c", schema := some "s",
    type_ := some ⟨"VARCHAR(20)", false, none⟩, nullable := none, serverDefault := .unset,
    newName := some "d", comment := .unset, autoinc := none,
    exType := some ⟨"INTEGER", false, none⟩, exNullable := some false,
    exDefault := .set (.plain "'x'"), exComment := some "note", exAutoinc := none, usingE := none }

def sampleInit : ColState :=
  { name := "c", ty := "INTEGER", nullable := false, default := some (.plain "'x'"),
    comment := some "note", autoinc := true }

/-- **default dialect.** -/
theorem exact_default (r : Req) (init : ColState)
    (hp : plainDefaults r = true) (ha : agrees r init = true) :
    exactOk .default r init (alterColumn .default r) = true :=
  exactOk_alterColumn _ _ _ (exact_impl_default r init hp ha)

theorem exact_sqlite (r : Req) (init : ColState)
    (hp : plainDefaults r = true) (ha : agrees r init = true) :
    exactOk .sqlite r init (alterColumn .sqlite r) = true :=
  exactOk_alterColumn _ _ _ (exact_impl_sqlite r init hp ha)

theorem exact_postgresql (r : Req) (init : ColState)
    (hp : plainDefaults r = true) (ha : agrees r init = true) :
    exactOk .postgresql r init (alterColumn .postgresql r) = true :=
  exactOk_alterColumn _ _ _ (exact_impl_postgresql r init hp ha)

theorem exact_oracle (r : Req) (init : ColState)
    (hp : plainDefaults r = true) (ha : agrees r init = true) :
    exactOk .oracle r init (alterColumn .oracle r) = true :=
  exactOk_alterColumn _ _ _ (exact_impl_oracle r init hp ha)

/-- **MySQL**: `CHANGE`/`MODIFY` restate the column; every restated attribute that was not
requested equals the stated existing value. -/
theorem exact_mysql (r : Req) (init : ColState)
    (hp : plainDefaults r = true) (ha : agrees r init = true) :
    exactOk .mysql r init (alterColumn .mysql r) = true :=
  exactOk_alterColumn _ _ _ (exact_impl_mysql r init hp ha)

theorem exact_mariadb (r : Req) (init : ColState)
    (hp : plainDefaults r = true) (ha : agrees r init = true) :
    exactOk .mariadb r init (alterColumn .mariadb r) = true :=
  exactOk_alterColumn _ _ _ (exact_impl_mariadb r init hp ha)

/-- **MSSQL**: type folded into the NULL/NOT NULL alter, default constraint drop/add, sp_rename last. -/
theorem exact_mssql (r : Req) (init : ColState)
    (hp : plainDefaults r = true) (ha : agrees r init = true) :
    exactOk .mssql r init (alterColumn .mssql r) = true :=
  exactOk_alterColumn _ _ _ (exact_impl_mssql r init hp ha)

/-- full statement, over every kind of server default (plain, identity, computed) -/
def exact_statement : Prop :=
  ∀ (d : Dialect) (r : Req) (init : ColState), agrees r init = true → exactOk d r init (alterColumn d r) = true

/-- witness: an identity column (stated) is asked to get a plain default on PostgreSQL -/
def identityWitness : Req :=
  { table := "t1", column := "c1", schema := none,
    type_ := none, nullable := none, serverDefault := .set (.plain "'5'"), newName := none, comment := .unset,
    autoinc := none, exType := none, exNullable := none, exDefault := .set (.identity false none []),
    exComment := none, exAutoinc := none, usingE := none }

def identityWitnessInit : ColState :=
  { name := "c1", ty := "INTEGER", nullable := false, default := some (.identity false none []),
    comment := none, autoinc := false }

/-- PostgreSQL's identity visitor treats every request that involves an `Identity` and whose
existing default is not `None` as identity -> identity: for identity -> plain it emits
`ALTER TABLE t1 ALTER COLUMN c1` followed by nothing (no exception), so the requested default is
not reached. -/
theorem exact_counterexample : ¬ exact_statement := by
  intro h
  have := h .postgresql identityWitness identityWitnessInit (by decide)
  revert this
  decide

/-- **C13, all seven dialects** (partial: server defaults are values or `None`, the domain the
property text names): for every such request and every initial column that agrees with the stated
`existing_*` values, the emitted statements take the column to "existing overridden by requested",
or the call raises without having touched an attribute it was not asked to change. -/
theorem exact_partial (d : Dialect) (r : Req) (init : ColState)
    (hp : plainDefaults r = true) (ha : agrees r init = true) :
    exactOk d r init (alterColumn d r) = true := by
  cases d
  · exact exact_default r init hp ha
  · exact exact_sqlite r init hp ha
  · exact exact_postgresql r init hp ha
  · exact exact_mysql r init hp ha
  · exact exact_mariadb r init hp ha
  · exact exact_mssql r init hp ha
  · exact exact_oracle r init hp ha

/-- what `exactOk ... = true` says, spelled out for an output that did not raise -/
theorem exact_unfolded (d : Dialect) (r : Req) (init : ColState)
    (hp : plainDefaults r = true) (ha : agrees r init = true)
    (hok : (alterColumn d r).err = none) :
    let stmts := (alterColumn d r).stmts
    let fin := final init stmts
    -- requested attributes
    (∀ t, r.type_ = some t → fin.ty = t.name) ∧
    (∀ n, r.nullable = some n → fin.nullable = n) ∧
    (r.serverDefault = .drop → fin.default = none) ∧
    (∀ s, r.serverDefault = .set (.plain s) → fin.default = some (.plain s)) ∧
    (∀ n, r.newName = some n → fin.name = n) ∧
    (r.newName = none → fin.name = r.column) ∧
    (r.comment = .drop → fin.comment = none) ∧
    (∀ c, r.comment = .set c → fin.comment = normC (some c)) ∧
    (∀ a, r.autoinc = some a → d.isMySQL = true → fin.autoinc = a) ∧
    -- attributes that were not requested
    (r.type_ = none → (stmts.any restatesTyNull = false ∨ r.exType.isSome = true) → fin.ty = init.ty) ∧
    (r.nullable = none → (stmts.any restatesTyNull = false ∨ r.exNullable.isSome = true) →
      fin.nullable = init.nullable) ∧
    (r.serverDefault = .unset → (stmts.any restatesAll = false ∨ r.exDefault.given = true) →
      fin.default = init.default) ∧
    (r.comment = .unset → (stmts.any restatesAll = false ∨ r.exComment.isSome = true) →
      fin.comment = init.comment) ∧
    (r.autoinc = none → (stmts.any restatesAll = false ∨ r.exAutoinc.isSome = true) →
      fin.autoinc = init.autoinc) := by
  have h := exact_partial d r init hp ha
  simp only [exactOk, hok, Option.isSome_none, Bool.false_or, Bool.and_eq_true, keepOk, requestedOk,
    Bool.or_eq_true, beq_iff_eq] at h
  obtain ⟨⟨⟨⟨⟨k1, k2⟩, k3⟩, k4⟩, k5⟩, ⟨⟨⟨⟨⟨q1, q2⟩, q3⟩, q4⟩, q5⟩, q6⟩⟩ := h
  intro stmts fin
  refine ⟨?_, ?_, ?_, ?_, ?_, ?_, ?_, ?_, ?_, ?_, ?_, ?_, ?_, ?_⟩
  · intro t ht; simpa [ht] using q1
  · intro n hn; simpa [hn] using q2
  · intro hs; simpa [hs] using q3
  · intro s hs; simpa [hs, defaultIs] using q3
  · intro n hn; simpa [hn] using q4
  · intro hn; simpa [hn] using q4
  · intro hc; simpa [hc] using q5
  · intro c hc; simpa [hc] using q5
  · intro a ha' hm; simpa [ha', hm] using q6
  · intro ht hr
    rcases k1 with (k | k) | k
    · simp [ht] at k
    · rcases hr with hr | hr
      · simp [stmts, hr] at k
      · cases he : r.exType <;> simp_all
    · exact k
  · intro hn hr
    rcases k2 with (k | k) | k
    · simp [hn] at k
    · rcases hr with hr | hr
      · simp [stmts, hr] at k
      · cases he : r.exNullable <;> simp_all
    · exact k
  · intro hs hr
    rcases k3 with (k | k) | k
    · simp [hs, Tri.given] at k
    · rcases hr with hr | hr
      · simp [stmts, hr] at k
      · simp [hr] at k
    · exact k
  · intro hc hr
    rcases k4 with (k | k) | k
    · simp [hc, Tri.given] at k
    · rcases hr with hr | hr
      · simp [stmts, hr] at k
      · cases he : r.exComment <;> simp_all
    · exact k
  · intro hai hr
    rcases k5 with (k | k) | k
    · simp [hai] at k
    · rcases hr with hr | hr
      · simp [stmts, hr] at k
      · cases he : r.exAutoinc <;> simp_all
    · exact k

/-- PostgreSQL identity columns, the transitions the identity visitor supports: adding an identity
when the absence of a default is stated, dropping a stated identity, and leaving a stated identity
alone while other attributes change. -/
theorem exact_postgresql_identity (r : Req) (init : ColState)
    (hs : identitySupported r = true) (ha : agrees r init = true) :
    exactOk .postgresql r init (alterColumn .postgresql r) = true :=
  exactOk_alterColumn _ _ _ (exact_impl_postgresql_identity r init hs ha)

/-- PostgreSQL identity -> identity: the `ALTER COLUMN ... SET ...` statement built from the option
diff takes an identity column with the stated options to the requested identity and touches no
other attribute. -/
theorem pg_identity_alter (t : TRef) (s : ColState) (ma ia : Bool) (ms is : Option Nat)
    (me ie : List (String × String))
    (hd : s.default = some (.identity ia is ie)) :
    ∃ st, compile .postgresql t s.name (.identityDefault (some (.identity ma ms me)) (.set (.identity ia is ie))) = .ok st ∧
      defaultIs (applyStmt s st).default (.identity ma ms me) = true ∧
      applyStmt s st = { s with default := (applyStmt s st).default } :=
  pg_identity_alter_ok t s ma ia ms is me ie hd

/-- the checker rejects an identity alter that drops a requested option (`SET NO MINVALUE` missing) -/
example : defaultIs (applyStmt ⟨"c", "INTEGER", false, some (.identity false none [("cycle", "True")]), none, false⟩
      (.identityAlter ⟨none, "t"⟩ "c" none none [])).default
    (.identity false none [("nominvalue", "True")]) = false := by decide

/-- **Identity requests, every supported direction, PostgreSQL** (request changes the server default
only): `None -> Identity` (ADD GENERATED ... AS IDENTITY with all options), `Identity -> Identity`
with any options on both sides (exactly the differing `SET ...` clauses), `Identity -> None`
(DROP IDENTITY), identity left alone: the statements' effect makes the requested identity hold
(`defaultIs`) and nothing else about the column changes.  Excluded (and false, see
`exact_counterexample` / C13-PG-IDENTITY-ASSUMED): an Identity on one side only with the other side
a plain default or unstated. -/
theorem exact_identity_only_postgresql (r : Req) (init : ColState) (ho : defaultOnly r = true)
    (hi : pgIdentityOk r = true) (ha : agrees r init = true) :
    exactOk .postgresql r init (alterColumn .postgresql r) = true :=
  exactOk_alterColumn _ _ _ (exact_identity_only_pg r init ho hi ha)

/-- **Identity requests on Oracle, together with any other requested change**: requested identity
over none / plain / identity / unstated existing default (`MODIFY c GENERATED ... AS IDENTITY (...)`
restates all options), `Identity -> None` (`MODIFY c DROP IDENTITY`), identity left alone — the whole
output satisfies `exactOk`. -/
theorem exact_oracle_identity (r : Req) (init : ColState)
    (hi : oracleIdentityOk r = true) (ha : agrees r init = true) :
    exactOk .oracle r init (alterColumn .oracle r) = true :=
  exactOk_alterColumn _ _ _ (exact_impl_oracle_identity r init hi ha)

/-- non-vacuity: identity -> identity with options on PostgreSQL (default only), and an Oracle request
that sets an identity over a plain default while renaming and retyping the column -/
def identityOnlyReq : Req :=
  { table := "t", column := "c", schema := none, type_ := none, nullable := none,
    serverDefault := .set (.identity true (some 2) [("nominvalue", "True")]), newName := none,
    comment := .unset, autoinc := none, exType := none, exNullable := none,
    exDefault := .set (.identity false none [("cycle", "True")]), exComment := none, exAutoinc := none,
    usingE := none }

example : defaultOnly identityOnlyReq = true ∧ pgIdentityOk identityOnlyReq = true ∧
    (alterColumn .postgresql identityOnlyReq).stmts =
      [.identityAlter ⟨none, "t"⟩ "c" (some true) (some 2) [("nominvalue", "True")]] := by decide

example : oracleIdentityOk { sampleReq with serverDefault := .set (.identity true (some 2) [("cache", "5")]) } = true ∧
    agrees { sampleReq with serverDefault := .set (.identity true (some 2) [("cache", "5")]) } sampleInit = true := by
  decide

example : identitySupported { sampleReq with serverDefault := .set (.identity true (some 2) []), exDefault := .drop } = true := by
  decide

/-- the hypotheses are satisfiable -/
example : plainDefaults sampleReq = true ∧ agrees sampleReq sampleInit = true := by decide

/-- the checker rejects a wrong output: a type change that also flips the nullability -/
example : exactOk .postgresql sampleReq sampleInit
    ⟨[.type_ ⟨some "s", "t"⟩ "c" "VARCHAR(20)" none, .nullable ⟨some "s", "t"⟩ "c" true,
      .rename ⟨some "s", "t"⟩ "c" "d"], none⟩ = false := by decide

/-- ... and a rename emitted before the other statements (they would name a column that is gone) -/
example : exactOk .postgresql sampleReq sampleInit
    ⟨[.rename ⟨some "s", "t"⟩ "c" "d", .type_ ⟨some "s", "t"⟩ "c" "VARCHAR(20)" none], none⟩ = false := by decide

/-! ## schema -/

/-- **Schema.** Every emitted statement names the requested table and schema, on every dialect
(including Oracle's `COMMENT ON COLUMN`). -/
theorem schema (d : Dialect) (r : Req) : schemaOk r (alterColumn d r) = true :=
  alterColumn_allT d r

/-- the request whose Oracle `COMMENT ON COLUMN` used to lose the schema -/
def schemaWitness : Req :=
  { table := "t1", column := "c1", schema := some "s1",
    type_ := none, nullable := none, serverDefault := .unset, newName := none, comment := .set "hello",
    autoinc := none, exType := none, exNullable := none, exDefault := .unset, exComment := none,
    exAutoinc := none, usingE := none }

example : (alterColumn .oracle schemaWitness).stmts = [.comment ⟨some "s1", "t1"⟩ "c1" (some "hello")] := by decide

/-- non-vacuity: the checker rejects a statement that lost the schema -/
example : schemaOk sampleReq (alterColumn .oracle sampleReq) = true := by decide
example : schemaOk sampleReq ⟨[.type_ ⟨none, "t"⟩ "c" "VARCHAR(20)" none], none⟩ = false := by decide

/-! ## addressing -/

/-- **Addressing.** Every statement that refers to a column — the attribute statements and the
CHECK constraint of the new schema type that `toimpl.alter_column` adds after the dialect's alter —
refers to it by the name the column has at that point of the script: the rename (or MySQL `CHANGE`)
comes last among the dialect's statements and the constraint is built on `new_column_name or
column_name`.  (`new_column_name=""` is not a name: Python's `or` falls back to the old one.) -/
theorem addressed (d : Dialect) (r : Req) (h : r.newName ≠ some "") :
    addressOk r.column (alterColumn d r).stmts = true :=
  (alterColumn_addr d r h).1

/-- ... and when the call does not raise the column ends with the requested name -/
theorem addressed_end (d : Dialect) (r : Req) (h : r.newName ≠ some "")
    (hok : (alterColumn d r).err = none) :
    (alterColumn d r).stmts.foldl nextName r.column = r.newName.getD r.column :=
  (alterColumn_addr d r h).2 hok

/-- the MSSQL drop-default batch: the string the `col_name(...)` literal denotes must be the bare
column name — a literal holding the *quoted* identifier (`'[Balance]'`) looks up nothing, so the
batch does not address the column (`addressOk` rejects it) and the default is not dropped
(`exactOk` rejects it); the model's batch is accepted -/
def dropDefaultReq : Req :=
  { table := "account", column := "Balance", schema := none,
    type_ := none, nullable := none, serverDefault := .drop, newName := none, comment := .unset,
    autoinc := none, exType := none, exNullable := none, exDefault := .unset, exComment := none,
    exAutoinc := none, usingE := none }

def dropDefaultInit : ColState :=
  { name := "Balance", ty := "INTEGER", nullable := true, default := some (.plain "0"), comment := none, autoinc := false }

example : (alterColumn .mssql dropDefaultReq).stmts =
    [.mssqlDropDefault ⟨none, "account"⟩ ⟨none, "account"⟩ "Balance"] := by decide

example : addressOk "Balance" [.mssqlDropDefault ⟨none, "account"⟩ ⟨none, "account"⟩ "[Balance]"] = false ∧
    exactOk .mssql dropDefaultReq dropDefaultInit
      ⟨[.mssqlDropDefault ⟨none, "account"⟩ ⟨none, "account"⟩ "[Balance]"], none⟩ = false ∧
    exactOk .mssql dropDefaultReq dropDefaultInit
      ⟨[.mssqlDropDefault ⟨none, "account"⟩ ⟨none, "account"⟩ "Balance"], none⟩ = true := by decide

/-- ... and a batch whose `object_id('...')` literal names another table drops nothing either -/
example : exactOk .mssql dropDefaultReq dropDefaultInit
      ⟨[.mssqlDropDefault ⟨none, "account"⟩ ⟨some "dbo", "accounts"⟩ "Balance"], none⟩ = false ∧
    schemaOk dropDefaultReq ⟨[.mssqlDropDefault ⟨none, "account"⟩ ⟨some "dbo", "accounts"⟩ "Balance"], none⟩ = false := by
  decide

/-- rename + constraint-bearing new type: the constraint names the new column -/
def addressWitness : Req :=
  { table := "t1", column := "c1", schema := none,
    type_ := some ⟨"BOOLEAN", false, some (some "ck_b1")⟩, nullable := none, serverDefault := .unset,
    newName := some "c2", comment := .unset, autoinc := none, exType := none, exNullable := none,
    exDefault := .unset, exComment := none, exAutoinc := none, usingE := none }

example : (alterColumn .default addressWitness).stmts =
    [.type_ ⟨none, "t1"⟩ "c1" "BOOLEAN" none, .rename ⟨none, "t1"⟩ "c1" "c2",
     .addConstraint ⟨none, "t1"⟩ (some "ck_b1") "c2"] := by decide

/-- the checker rejects the constraint on the old name after the rename -/
example : addressOk "c1" [.rename ⟨none, "t1"⟩ "c1" "c2", .addConstraint ⟨none, "t1"⟩ (some "ck_b1") "c1"] = false := by
  decide

/-! ## the type-bound CHECK constraint -/

/-- **Constraints.** The CHECK constraint a schema type (Boolean / Enum with `create_constraint`)
owns is part of the column's type: a `DROP CONSTRAINT` is emitted only when a type change is
requested and names the constraint of the stated existing type, an `ADD ... CHECK` only as the
constraint of the requested new type. -/
theorem constraints (d : Dialect) (r : Req) : constraintOk r (alterColumn d r).stmts = true :=
  alterColumn_constraintOk d r

/-- in particular: without `type_` no constraint statement is emitted, whatever `existing_type` says -/
theorem constraints_untouched_without_type (d : Dialect) (r : Req) (h : r.type_ = none) :
    (alterColumn d r).stmts.all (fun st => !isConstraint st) = true := by
  have hc := constraints d r
  simp only [constraintOk, List.all_eq_true] at *
  intro st hst
  have := hc st hst
  cases st <;> simp_all [constraintStmtOk, isConstraint]

/-- **A type change is complete.** Unless the call raises, the named CHECK constraint owned by the
stated existing type is dropped (on the dialects that drop type-bound CHECKs) and the CHECK
constraint owned by the new type is added (everywhere but SQLite).  `Ty.ck` is the constraint of
the type that is *effective* on the dialect, however the Boolean / Enum is reached (bare, as the
impl of a TypeDecorator, as the dialect's variant). -/
theorem constraints_complete (d : Dialect) (r : Req) : constraintComplete d r (alterColumn d r) = true :=
  alterColumn_complete d r

/-- **Constraint statements appear exactly when they should.** For a call that does not raise:
a `DROP CONSTRAINT` / `ADD ... CHECK` statement is emitted iff a type change is requested and
(the stated existing type owns a named CHECK on a dialect that drops type-bound CHECKs, or the new
type owns a CHECK on a dialect that adds them) — `constraints` and `constraints_complete` as one
equation. -/
theorem constraints_iff (d : Dialect) (r : Req) (hok : (alterColumn d r).err = none) :
    (alterColumn d r).stmts.any isConstraint = wantsConstraintStmt d r :=
  constraints_iff_impl d r hok

/-- nullable-only change of a column whose stated existing type owns a named CHECK constraint -/
def constraintWitness : Req :=
  { table := "t1", column := "c1", schema := none,
    type_ := none, nullable := some false, serverDefault := .unset, newName := none, comment := .unset,
    autoinc := none, exType := some ⟨"SMALLINT", false, some (some "ck_b1")⟩, exNullable := none,
    exDefault := .unset, exComment := none, exAutoinc := none, usingE := none }

example : (alterColumn .oracle constraintWitness).stmts = [.nullable ⟨none, "t1"⟩ "c1" false] := by decide

/-- the checker rejects a stray DROP CONSTRAINT ahead of the requested statement -/
example : constraintOk constraintWitness
    [.dropConstraint ⟨none, "t1"⟩ "ck_b1", .nullable ⟨none, "t1"⟩ "c1" false] = false := by decide

/-- the checker rejects a type change that forgets the constraint half -/
example : constraintComplete .oracle
    { constraintWitness with type_ := some ⟨"VARCHAR2(1 CHAR)", false, some (some "en3")⟩ }
    ⟨[.type_ ⟨none, "t1"⟩ "c1" "VARCHAR2(1 CHAR)" none], none⟩ = false := by decide

/-- `constraints_iff`, both sides non-trivial: no type change -> no constraint statement although the
existing type owns one; with a type change on Oracle -> the DROP is there -/
example : wantsConstraintStmt .oracle constraintWitness = false ∧
    wantsConstraintStmt .oracle { constraintWitness with type_ := some ⟨"INTEGER", false, none⟩ } = true ∧
    (alterColumn .oracle { constraintWitness with type_ := some ⟨"INTEGER", false, none⟩ }).err = none := by decide

/-- ... and accepts the drop when the type does change -/
example : constraintOk { constraintWitness with type_ := some ⟨"INTEGER", false, none⟩ }
    (alterColumn .oracle { constraintWitness with type_ := some ⟨"INTEGER", false, none⟩ }).stmts = true := by decide

/-! ## no spurious refusal -/

/-- **Expressible requests do not raise.** `mustSucceed d r` (Spec) is a sufficient condition for
"the dialect can express every requested change and was told what it documents as required";
for such a request `alter_column` completes — so with `exact_partial` / `exact_postgresql_identity`
the requested attributes are actually reached, not merely "reached or raised". -/
theorem no_spurious_refusal (d : Dialect) (r : Req) (h : mustSucceed d r = true) :
    (alterColumn d r).err = none :=
  succeeds d r h

/-- non-vacuity: the sample request is expressible on every dialect that is given the existing
type; dropping a stated identity is expressible on PostgreSQL and not on MSSQL -/
example : mustSucceed .mysql sampleReq = true ∧ mustSucceed .mssql sampleReq = true ∧
    mustSucceed .postgresql sampleReq = true := by decide
example : mustSucceed .postgresql { sampleReq with serverDefault := .drop, exDefault := .set (.identity false none []) } = true ∧
    mustSucceed .mssql { sampleReq with serverDefault := .drop, exDefault := .set (.identity false none []) } = false := by
  decide

/-! ## dialects that cannot express a requested change raise -/

/-- A requested server-default change that involves a computed construct (requested or stated
existing) raises on every dialect. -/
theorem computed_raises (d : Dialect) (r : Req) (hg : r.serverDefault.given = true)
    (hc : isComputed r.serverDefault r.exDefault = true) :
    (alterColumn d r).err.isSome = true := by
  apply alterColumn_raises
  apply implAlter_raises d r hg
  · intro t c
    simp only [sdConstruct, hc, if_true]
    cases d <;> exact ⟨_, rfl⟩
  · simp [hc]

/-- A requested server-default change that involves an identity construct raises on the dialects
that have no identity visitor (everything except PostgreSQL and Oracle). -/
theorem identity_unsupported_raises (d : Dialect) (r : Req) (hd : d ≠ .postgresql ∧ d ≠ .oracle)
    (hg : r.serverDefault.given = true) (hi : isIdentity r.serverDefault r.exDefault = true) :
    (alterColumn d r).err.isSome = true := by
  apply alterColumn_raises
  apply implAlter_raises d r hg
  · intro t c
    simp only [sdConstruct]
    split
    · cases d <;> exact ⟨_, rfl⟩
    · cases d <;> simp_all [compile]
  · simp [hi]

/-- non-vacuity -/
example : (alterColumn .mssql { sampleReq with serverDefault := .set (.identity true (some 2) []) }).err
    = some .compileError := by decide

end C13
