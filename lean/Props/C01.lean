import Spec.Rev
import Model.Rev.Heads
/-! # C01 (theorems: work in progress) -/
namespace C01
end C01
