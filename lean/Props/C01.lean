import Lemmas.Rev.PlanFacts
import Lemmas.Rev.Bridge
/-!
# C01 — the upgrade plan is exactly the missing ancestors, in dependency order

Statements are about `Model.Rev.upgradeRevs` (mirror of `ScriptDirectory._upgrade_revs` →
`RevisionMap.iterate_revisions` → `_collect_upgrade_revisions` + `_topological_sort`) on the
revision map `m` obtained by `Model.Rev.load` (mirror of `RevisionMap._revision_map`).
"Ancestor" is reachability along `m.allDownOf`: down-revisions and resolved dependencies.
-/
namespace C01
open Model.Rev Spec.Rev Lemmas.Rev

/-- `x` is one of `roots` or is required by one of them (down-revisions and dependencies) -/
def Requires (m : LMap) (roots : List Id) (x : Id) : Prop := ∃ r ∈ roots, Reach m.allDownOf r x

/-- `plan` brings a database whose version table holds `cur` up to `targets` -/
structure UpgradePlan (m : LMap) (cur targets plan : List Id) : Prop where
  /-- each revision at most once -/
  nodup : plan.Nodup
  /-- exactly what the targets require and the current heads do not already imply -/
  exact : ∀ x, x ∈ plan ↔ Requires m targets x ∧ ¬ Requires m cur x
  /-- every down-revision and dependency of a step is applied already or runs earlier -/
  order : ∀ pre x post, plan = pre ++ x :: post →
    ∀ p ∈ m.allDownOf x, Requires m cur p ∨ p ∈ pre

theorem requires_iff_norm {m : LMap} (L : Loaded m) (roots : List Id) (x : Id) :
    Requires m roots x ↔ ∃ r ∈ roots, Reach m.normDownOf r x := by
  unfold Requires
  constructor
  · rintro ⟨r, hr, h⟩; exact ⟨r, hr, (reach_norm_iff_all L r x).mpr h⟩
  · rintro ⟨r, hr, h⟩; exact ⟨r, hr, (reach_norm_iff_all L r x).mp h⟩

/-- the set/sort core: for *any* resolved targets and any rows -/
theorem plan_of_needs {m : LMap} (L : Loaded m) {rows targets needs cur : List Id}
    (hn : upgradeNeeds m rows targets = .ok (needs, cur)) :
    ∃ sorted, topoSort m needs targets = .ok sorted ∧ UpgradePlan m cur targets sorted.reverse := by
  obtain ⟨_, hneeds⟩ := upgradeNeeds_spec hn
  have hconv : Convex m.normDownOf (dedupe needs) := by
    intro t c p ht hc hcp hpt
    rw [mem_dedupe] at ht hc ⊢
    obtain ⟨⟨T, hT, hTc⟩, _⟩ := (hneeds c).mp hc
    obtain ⟨_, hnt⟩ := (hneeds t).mp ht
    refine (hneeds p).mpr ⟨⟨T, hT, Reach.trans _ hTc hcp⟩, ?_⟩
    rintro ⟨c0, hc0, hr⟩
    exact hnt ⟨c0, hc0, Reach.trans _ hr hpt⟩
  have hcov : ∀ t ∈ needs, ∃ hd ∈ targets, hd ∈ needs ∧ Reach m.normDownOf hd t := by
    intro t ht
    obtain ⟨⟨T, hT, hTt⟩, hnt⟩ := (hneeds t).mp ht
    refine ⟨T, hT, (hneeds T).mpr ⟨⟨T, hT, Reach.refl _⟩, ?_⟩, hTt⟩
    rintro ⟨c0, hc0, hr⟩
    exact hnt ⟨c0, hc0, Reach.trans _ hr hTt⟩
  obtain ⟨sorted, hs, hnd, hmem, hpw⟩ := topoSort_ok L needs targets hconv hcov
  refine ⟨sorted, hs, ?_⟩
  obtain ⟨rank, hrank⟩ := L.ranked
  refine
    { nodup := (List.reverse_perm sorted).symm.nodup hnd
      exact := ?_
      order := ?_ }
  · intro x
    rw [List.mem_reverse, hmem, hneeds, requires_iff_norm L, requires_iff_norm L]
  · intro pre x post hplan p hp
    have hx : x ∈ needs := by
      rw [← hmem, ← List.mem_reverse, hplan]; simp
    obtain ⟨⟨T, hT, hTx⟩, hnx⟩ := (hneeds x).mp hx
    have hxp : Reach m.normDownOf x p := (reach_norm_iff_all L x p).mpr (Reach.single _ hp)
    by_cases hcp : ∃ c ∈ cur, Reach m.normDownOf c p
    · exact Or.inl ((requires_iff_norm L cur p).mpr hcp)
    · right
      have hpn : p ∈ needs := (hneeds p).mpr ⟨⟨T, hT, Reach.trans _ hTx hxp⟩, hcp⟩
      have hpplan : p ∈ pre ++ x :: post := by
        rw [← hplan, List.mem_reverse, hmem]; exact hpn
      have hne : p ≠ x := by
        intro e; subst e
        have := hrank _ _ hp; omega
      have hsorted : sorted = post.reverse ++ x :: pre.reverse := by
        have := congrArg List.reverse hplan
        simpa using this
      rcases List.mem_append.mp hpplan with h | h
      · exact h
      · rcases List.mem_cons.mp h with h | h
        · exact absurd h hne
        · -- `p` would come before `x` in the sorted output although `x` is a proper descendant of `p`
          rw [hsorted, List.pairwise_append] at hpw
          have := hpw.2.2 p (List.mem_reverse.mpr h) x List.mem_cons_self
          exact absurd ⟨hxp, Ne.symm hne⟩ this

/-- **C01.** For every history that loads (unique revision ids, down-revisions that exist), every
version-table content and every target string: whenever `upgrade` produces a plan, the target
resolved to some revisions `targets`, the rows to `cur`, and the plan contains exactly the
revisions the targets require and `cur` does not imply, each once, every revision after all of
its down-revisions and dependencies. -/
theorem plan {h : Hist} {o : LoadOpts} {m : LMap} (hl : load h o = .ok m)
    (hu : (h.map (·.id)).Nodup) (hd : ∀ r ∈ h, ∀ d ∈ r.down, d ∈ h.map (·.id))
    (rows : List Id) (target : String) (plan : List Id)
    (hp : upgradeRevs m rows target = .ok plan) :
    ∃ targets cur, parseUpgradeTarget m rows target = .ok targets ∧ resolveRows m rows = .ok cur ∧
      UpgradePlan m cur targets plan := by
  have L := loaded_of_load hl hu hd
  unfold upgradeRevs collectUpgrade at hp
  simp only [bind, Except.bind] at hp
  split at hp
  · simp at hp
  · rename_i v hv
    split at hv
    · simp at hv
    · rename_i targets htargets
      split at hv
      · simp at hv
      · rename_i w hw
        obtain ⟨needs, cur⟩ := w
        simp only [pure, Except.pure, Except.ok.injEq] at hv
        subst hv
        obtain ⟨sorted, hs, hplan⟩ := plan_of_needs L hw
        simp only [hs, pure, Except.pure, Except.ok.injEq] at hp
        subst hp
        exact ⟨targets, cur, htargets, (upgradeNeeds_spec hw).1, hplan⟩

/-- **The sort never gives up**: once the set of needed revisions is computed, the plan exists
(no `assert not todo`, no endless loop) -/
theorem sort_total {h : Hist} {o : LoadOpts} {m : LMap} (hl : load h o = .ok m)
    (hu : (h.map (·.id)).Nodup) (hd : ∀ r ∈ h, ∀ d ∈ r.down, d ∈ h.map (·.id))
    {rows targets needs cur : List Id} (hn : upgradeNeeds m rows targets = .ok (needs, cur)) :
    ∃ sorted, topoSort m needs targets = .ok sorted :=
  let ⟨s, hs, _⟩ := plan_of_needs (loaded_of_load hl hu hd) hn
  ⟨s, hs⟩

/-- **Normalized edges lose nothing** (why Alembic may traverse `_normalized_down_revisions`) -/
theorem norm_closure {h : Hist} {o : LoadOpts} {m : LMap} (hl : load h o = .ok m)
    (hu : (h.map (·.id)).Nodup) (hd : ∀ r ∈ h, ∀ d ∈ r.down, d ∈ h.map (·.id)) (x y : Id) :
    Reach m.normDownOf x y ↔ Reach m.allDownOf x y :=
  reach_norm_iff_all (loaded_of_load hl hu hd) x y

/-! ### the same, in terms of the history as written and of the oracle -/

/-- "required by" in the loaded map = ancestor-or-self in the files (`Spec.Rev.IsAnc`: down
revisions and dependencies, a dependency naming a revision id or the branch label it carries) -/
theorem requires_iff_isAnc {h : Hist} {o : LoadOpts} {m : LMap} (hl : load h o = .ok m)
    (hu : (h.map (·.id)).Nodup) (roots : List Id) (x : Id) : Requires m roots x ↔ IsAnc h roots x := by
  unfold Requires IsAnc
  constructor
  · rintro ⟨r, hr, hreach⟩; exact ⟨r, hr, (reach_allDown_iff_parents hl hu r x).mp hreach⟩
  · rintro ⟨r, hr, hreach⟩; exact ⟨r, hr, (reach_allDown_iff_parents hl hu r x).mpr hreach⟩

/-- **C01 in the words of the property**: the plan is exactly `(ancestors*(T) ∪ T) \ applied(S)`
over the down-revision and depends-on links of the files, without repetition, a linear extension. -/
theorem plan_history {h : Hist} {o : LoadOpts} {m : LMap} (hl : load h o = .ok m)
    (hu : (h.map (·.id)).Nodup) (hd : ∀ r ∈ h, ∀ d ∈ r.down, d ∈ h.map (·.id))
    (rows : List Id) (target : String) (plan : List Id)
    (hp : upgradeRevs m rows target = .ok plan) :
    ∃ targets cur, parseUpgradeTarget m rows target = .ok targets ∧ resolveRows m rows = .ok cur ∧
      plan.Nodup ∧ (∀ x, x ∈ plan ↔ IsAnc h targets x ∧ ¬ IsAnc h cur x) ∧
      (∀ pre x post, plan = pre ++ x :: post → ∀ p ∈ parents h x, IsAnc h cur p ∨ p ∈ pre) := by
  obtain ⟨targets, cur, h1, h2, hplan⟩ := C01.plan hl hu hd rows target plan hp
  refine ⟨targets, cur, h1, h2, hplan.nodup, ?_, ?_⟩
  · intro x
    rw [hplan.exact x, requires_iff_isAnc hl hu, requires_iff_isAnc hl hu]
  · intro pre x post hsplit p hp'
    have := hplan.order pre x post hsplit p ((allDownOf_mem_iff_parents hl hu x p).mpr hp')
    rcases this with h' | h'
    · exact Or.inl ((requires_iff_isAnc hl hu cur p).mp h')
    · exact Or.inr h'

/-- the oracle evaluated on the implementation's plans decides that statement -/
theorem upgradeOk_sound (h : Hist) (rows targets plan : List Id) (hok : upgradeOk h rows targets plan = true) :
    (∀ x, x ∈ plan → IsAnc h targets x ∧ ¬ IsAnc h rows x) ∧
    (∀ x, IsAnc h targets x → IsAnc h rows x ∨ x ∈ plan) := by
  unfold upgradeOk at hok
  simp only [Bool.and_eq_true, List.all_eq_true, decide_eq_true_eq, Bool.not_eq_true', decide_eq_false_iff_not,
    Bool.or_eq_true] at hok
  obtain ⟨⟨⟨_, h2⟩, h3⟩, _⟩ := hok
  constructor
  · intro x hx
    have := h2 x hx
    exact ⟨(mem_ancSet_iff h targets x).mp this.1, fun hc => this.2 ((mem_ancSet_iff h rows x).mpr hc)⟩
  · intro x hx
    rcases h3 x ((mem_ancSet_iff h targets x).mpr hx) with h' | h'
    · exact Or.inl ((mem_ancSet_iff h rows x).mp h')
    · exact Or.inr h'

/-! ### non-vacuity (kernel-evaluated on a concrete branched history with a merge and a dependency) -/

def demo : Hist :=
  [⟨"a", [], [], []⟩, ⟨"b", ["a"], [], []⟩, ⟨"c", ["a"], [], []⟩, ⟨"d", ["b", "c"], ["a"], ["lbl"]⟩,
   ⟨"e", [], ["c"], []⟩]

def okIs (r : Except Err (List Id)) (l : List Id) : Bool :=
  match r with | .ok x => x == l | .error _ => false

/-- the hypotheses of `C01.plan` are satisfiable and the conclusion is about a non-empty plan -/
example : okIs ((load demo).bind (fun m => upgradeRevs m ["b"] "heads")) ["c", "e", "d"] = true := by
  decide +kernel
example : okIs ((load demo).bind (fun m => upgradeRevs m [] "lbl@head")) ["a", "c", "b", "d"] = true := by
  decide +kernel
example : (demo.map (·.id)).Nodup ∧ ∀ r ∈ demo, ∀ d ∈ r.down, d ∈ demo.map (·.id) := by decide

end C01
