import Lemmas.Batch.Create
/-!
# C11 — a failed batch recreate never loses the table's data

Theorems about `Model.Batch.create` (mirror of `ApplyBatchImpl._create`: `create_table` before the `try`,
`try: INSERT; DROP old / except: DROP new; raise / else: RENAME; CREATE INDEX*`) run on the abstract
pysqlite connection of `Model.Batch.Sqlite`, followed by `finish` (the enclosing scope commits, or rolls
back on an exception).  Quantified over **every** conversion table, every plan (new schema, any number
of `create_table` index statements, any feeds, any list of trailing `CREATE INDEX`, a failing
`_gather_indexes_from_both_tables`), every initial table and row list, every content of the temporary
name, every fault index (`none` = no injection; natural failures of the statements are part of the
semantics) and both ways the scope can end.
-/
namespace C11
open Model.Batch Lemmas.Batch Spec.Batch

/-- `_create` on a fresh connection to `db0` -/
def run (ct : ConvTable) (fault : Option Nat) (p : Plan) (db0 : Db) (mode : ConnMode := .pysqliteLegacy) :
    Run × Option Err :=
  create ct fault p (Run.start (Conn.start mode db0))

/-- what a fresh connection sees afterwards -/
def final (ct : ConvTable) (fault : Option Nat) (commitOnError : Bool) (p : Plan) (db0 : Db)
    (mode : ConnMode := .pysqliteLegacy) : Db :=
  (finish commitOnError (run ct fault p db0 mode)).committed

/-- the failure came at or before `DROP` of the original: the rename never reached the cursor -/
def Early (x : Run × Option Err) : Prop := Stmt.renameTmp ∉ x.1.trace

instance (x : Run × Option Err) : Decidable (Early x) := by unfold Early; infer_instance

theorem fresh_intact {db0 : Db} {t0 : Tbl} {mode : ConnMode} (h : db0.orig = some t0) :
    Intact t0 (Run.start (Conn.start mode db0)).conn := by
  cases mode <;> exact ⟨h, h⟩

/-- **C11.early (original table).** Whatever fails at or before `DROP` of the original — `CREATE TABLE` of
the new table or one of its index statements, the copy (injected, or NOT NULL / UNIQUE / CHECK violated by
existing rows), the `DROP` itself — the original table is afterwards exactly what it was: same
definition, same indexes, same rows; in both scopes. -/
theorem early_orig_intact (ct : ConvTable) (fault : Option Nat) (commitOnError : Bool) (p : Plan) (mode : ConnMode) (db0 : Db) (t0 : Tbl)
    (h0 : db0.orig = some t0) (hearly : Early (run ct fault p db0 mode)) :
    (final ct fault commitOnError p db0 mode).orig = some t0 := by
  unfold final run at *
  rcases create_intact_or_rename (ct := ct) (fault := fault) (p := p) (fresh_intact h0) with h | h
  · exact finish_intact h
  · exact absurd h hearly

/-- **C11.late / C11.superset (exact form).** In *every* run — success, early failure, failure after the
`DROP` of the original (rename, index creation, `_gather_indexes_from_both_tables`) — the rows are
retrievable: the original table is there untouched, or a table under the original or the temporary name
holds exactly the copied rows (one per original row, in order). -/
theorem retrievable (ct : ConvTable) (fault : Option Nat) (commitOnError : Bool) (p : Plan) (mode : ConnMode) (db0 : Db) (t0 : Tbl)
    (h0 : db0.orig = some t0) :
    Retrievable ct t0 p.feeds (final ct fault commitOnError p db0 mode) := by
  unfold final run
  exact finish_retrievable (create_post (ct := ct) (fault := fault) (p := p) (fresh_intact h0)).1

/-- **C11.late.** A failure after the `DROP` of the original leaves all rows retrievable under the original
or the temporary name. -/
theorem late (ct : ConvTable) (fault : Option Nat) (commitOnError : Bool) (p : Plan) (mode : ConnMode) (db0 : Db) (t0 : Tbl) (e : Err)
    (h0 : db0.orig = some t0) (_hfail : (run ct fault p db0 mode).2 = some e) (_hlate : ¬ Early (run ct fault p db0 mode)) :
    Retrievable ct t0 p.feeds (final ct fault commitOnError p db0 mode) :=
  retrievable ct fault commitOnError p mode db0 t0 h0

/-- **C11.superset.** Always `rows(orig) ∪ rows(tmp) ⊇ original rows` (row-wise; a copied row stands for the
original row it was projected from). -/
theorem superset (ct : ConvTable) (fault : Option Nat) (commitOnError : Bool) (p : Plan) (mode : ConnMode) (db0 : Db) (t0 : Tbl)
    (h0 : db0.orig = some t0) :
    Superset ct t0 p.feeds (final ct fault commitOnError p db0 mode) :=
  (retrievable ct fault commitOnError p mode db0 t0 h0).superset

/-- **Success.** A run without exception leaves no temporary table, and the table under the original name
holds exactly the copied rows. -/
theorem success_no_tmp (ct : ConvTable) (fault : Option Nat) (commitOnError : Bool) (p : Plan) (mode : ConnMode) (db0 : Db) (t0 : Tbl)
    (h0 : db0.orig = some t0) (hok : (run ct fault p db0 mode).2 = none) :
    (final ct fault commitOnError p db0 mode).tmp = none ∧
    ∃ t, (final ct fault commitOnError p db0 mode).orig = some t ∧ t.rows = copiedRows ct t0 p.feeds := by
  unfold final run at *
  have hr := (create_post (ct := ct) (fault := fault) (p := p) (fresh_intact h0)).2 hok
  obtain ⟨t, ht, hc⟩ := hr.worig
  simp only [finish, hok, Option.isNone_none, Bool.true_or, if_true, Conn.commit]
  exact ⟨hr.wtmp, t, ht, hc⟩

/-! ## the temporary table after an early failure -/

/-- the full-strength second half of C11.early: after every failure at or before `DROP` of the original the
temporary table is gone -/
def early_tmp_gone_statement : Prop :=
  ∀ (ct : ConvTable) (fault : Option Nat) (commitOnError : Bool) (p : Plan) (t0 : Tbl) (e : Err),
    (run ct fault p { orig := some t0, tmp := none }).2 = some e →
    Early (run ct fault p { orig := some t0, tmp := none }) →
    (final ct fault commitOnError p { orig := some t0, tmp := none }).tmp = none

/-! Witness 1 (finding C11-F1): `t(id INTEGER PRIMARY KEY, a INTEGER)` with the row `(1, NULL)`;
`alter_column('a', nullable=False)`; no injection; the scope rolls back. -/

def w_t0 : Tbl :=
  { schema := { cols := [{ name := "id", ty := "INTEGER", aff := "Integer", nullable := false, default := none, dval := .null, pk := true },
                         { name := "a", ty := "INTEGER", aff := "Integer", nullable := true, default := none, dval := .null, pk := false }],
                pk := some { kind := .pk, name := none, cols := ["id"] }, uniques := [], checks := [], fks := [], indexes := [] },
    rows := [[.int 1, .null]] }

def w_plan1 : Plan :=
  match (State.init "t" true w_t0.schema).applyOps [.alterColumn "a" none none (some false) .keep] with
  | .ok st => st.plan
  | .error _ => (State.init "t" true w_t0.schema).plan

theorem early_tmp_gone_counterexample : ¬ early_tmp_gone_statement := by
  intro h
  have := h [] none false w_plan1 w_t0 .notNull (by decide) (by decide)
  revert this
  decide

/-! Witness 2 (finding C11-F2): `add_column(Column('n1', Integer, index=True))`: `create_table` emits
`CREATE TABLE _alembic_tmp_t` and `CREATE INDEX ix__alembic_tmp_t_n1`, both before the `try`; a fault at the
second statement leaves the temporary table in every scope (here: the caller commits). -/

def w_plan2 : Plan :=
  match (State.init "t" true w_t0.schema).applyOps
      [.addColumn { name := "n1", ty := "INTEGER", aff := "Integer", nullable := true, default := none, dval := .null, pk := false,
                    index := true } none none false] with
  | .ok st => match st.reorder with
    | .ok st => st.plan
    | .error _ => st.plan
  | .error _ => (State.init "t" true w_t0.schema).plan

theorem create_table_second_statement_counterexample :
    (run [] (some 1) w_plan2 { orig := some w_t0, tmp := none }).2 = some .injected ∧
    Early (run [] (some 1) w_plan2 { orig := some w_t0, tmp := none }) ∧
    (final [] (some 1) true w_plan2 { orig := some w_t0, tmp := none }).tmp ≠ none ∧
    (final [] (some 1) false w_plan2 { orig := some w_t0, tmp := none }).tmp ≠ none := by
  decide

/-- **C11.early (temporary table), partial.**  The temporary table *is* gone after an early failure when
`create_table` is a single statement (no `Column(index=True)`), no fault is injected (natural failures
only: this also excludes a second fault hitting the clean-up) and the enclosing scope commits instead of
rolling back.  What is missing for the full statement: on pysqlite the clean-up `DROP` runs inside the
implicit transaction opened by the `INSERT` and a rollback of the scope undoes it (C11-F1); and later
statements of `create_table` are outside the `try` (C11-F2). -/
theorem early_tmp_gone_partial (ct : ConvTable) (p : Plan) (t0 : Tbl) (e : Err)
    (hsingle : p.tmpIndexes = [])
    (_hfail : (run ct none p { orig := some t0, tmp := none }).2 = some e)
    (hearly : Early (run ct none p { orig := some t0, tmp := none })) :
    (final ct none true p { orig := some t0, tmp := none }).tmp = none := by
  unfold final
  rw [finish_commit]
  unfold Early at hearly
  unfold run create at *
  rw [hsingle] at hearly ⊢
  simp only [List.map_nil, execAll_single] at hearly ⊢
  cases hst : step ct none (Run.start (Conn.start .pysqliteLegacy { orig := some t0, tmp := none })) (.createTmp p.newSchema) with
  | mk ra ea =>
    rw [hst] at hearly
    cases ea with
    | some e1 =>
      -- CREATE TABLE itself failed: nothing was created
      have hs : (step ct none (Run.start (Conn.start .pysqliteLegacy { orig := some t0, tmp := none })) (.createTmp p.newSchema)).2 = some e1 := by
        rw [hst]
      have := (step_err_dbs hs).1
      rw [hst] at this
      simp only at this ⊢
      rw [this]; rfl
    | none =>
      have hs : (step ct none (Run.start (Conn.start .pysqliteLegacy { orig := some t0, tmp := none })) (.createTmp p.newSchema)).2 = none := by
        rw [hst]
      have hsome : TmpSome ra.conn := by
        obtain ⟨db, hok, hw, _, _⟩ := step_none hs
        rw [hst] at hw
        have hdb := applyStmt_createTmp_ok hok
        subst hdb
        exact ⟨_, by rw [hw]⟩
      simp only at hearly ⊢
      unfold tryBlock at hearly ⊢
      split
      · rename_i r2 e2 htry
        exact cleanup_drops (try_err_tmpSome hsome htry)
      · rename_i r2 htry
        rw [htry] at hearly
        exact absurd (elseBranch_trace _) hearly

/-! ## the guarded region: nothing before DROP of the original touches the original -/

/-- **The recreate's statement list.**  For every plan, fault index and connection mode: the first statement is `CREATE TABLE` of the
temporary table, and every statement issued before the first `DROP <original>` is one of `CREATE TABLE tmp`, `CREATE INDEX … ON tmp`,
`INSERT INTO tmp … SELECT`, `DROP TABLE tmp` — it has the temporary table as its only target (`Lemmas.Batch.safe`); in particular no
statement is issued *before* `CREATE TABLE tmp` (outside the guarded region) that could change the original durably. -/
theorem statements_before_drop_target_tmp (ct : ConvTable) (fault : Option Nat) (p : Plan) (db0 : Db) (mode : ConnMode) :
    (run ct fault p db0 mode).1.trace.head? = some (.createTmp p.newSchema) ∧ PreDropSafe (run ct fault p db0 mode).1.trace := by
  unfold run
  exact create_trace_shape rfl

/-- a statement with the temporary table as its only target leaves the original — definition, indexes, rows — as it is -/
theorem safe_statement_keeps_original (ct : ConvTable) (db db' : Db) (s : Stmt) (hs : safe s = true)
    (h : applyStmt ct db s = .ok db') : db'.orig = db.orig :=
  applyStmt_safe_orig hs h

/-- **C11.early, indexes explicitly.**  After every failure at or before `DROP` of the original the original table's indexes (names,
columns, uniqueness, `WHERE` predicates, in order) are exactly those it had — as are its definition and rows. -/
theorem early_indexes_intact (ct : ConvTable) (fault : Option Nat) (commitOnError : Bool) (p : Plan) (mode : ConnMode) (db0 : Db) (t0 : Tbl)
    (h0 : db0.orig = some t0) (hearly : Early (run ct fault p db0 mode)) :
    (final ct fault commitOnError p db0 mode).orig.map (·.schema.indexes) = some t0.schema.indexes ∧
    (final ct fault commitOnError p db0 mode).orig.map (·.schema) = some t0.schema ∧
    (final ct fault commitOnError p db0 mode).orig.map (·.rows) = some t0.rows := by
  rw [early_orig_intact ct fault commitOnError p mode db0 t0 h0 hearly]
  exact ⟨rfl, rfl, rfl⟩

/-! ## which batches are a recreate -/

theorem directStmts_not_createTmp (ops : List BatchOp) : ∀ s ∈ directStmts ops, ∀ sch, s ≠ Stmt.createTmp sch := by
  induction ops with
  | nil => intro s hs; simp [directStmts] at hs
  | cons o r ih =>
    intro s hs sch
    cases o <;> simp only [directStmts, List.mem_cons] at hs
    all_goals first
      | exact ih s hs sch
      | (rcases hs with rfl | hs
         · intro h; cases h
         · exact ih s hs sch)

/-- **`recreates` agrees with the model's own decision.**  For every input of `runBatch` (table, operations, `recreate`, fault, scope,
connection mode, `copy_from`, …): the outcome's `recreated` flag is `recreates` (unless `add_column` was refused at queue time, where no
statement is issued at all), and whenever the run issues a statement at all, its **first statement is `CREATE TABLE` of the temporary table
exactly when `recreates` says so** — otherwise it is one of the plain `ALTER TABLE ADD COLUMN` / `CREATE INDEX` / `DROP INDEX`. -/
theorem recreates_iff_plan_has_createTmp (ct : ConvTable) (tn : String) (refl always : Bool) (ops : List BatchOp) (fault : Option Nat)
    (commit : Bool) (db : Db) (mode : ConnMode) (tddl : Bool) (cf : Option Schema) (fk : FailKind) (pr : List (List String)) (sl : String) :
    let o := runBatch ct tn refl always ops fault commit db mode tddl cf fk pr sl
    (o.recreated = true → recreates (sl ++ tn) always ops = true) ∧
    (∀ s, o.trace.head? = some s → ((∃ sch, s = Stmt.createTmp sch) ↔ recreates (sl ++ tn) always ops = true)) ∧
    (∀ s, o.trace.head? = some s → o.recreated = recreates (sl ++ tn) always ops) := by
  simp only [runBatch, recreates, shouldRecreate]
  split
  · -- refused at queue time
    simp
  · split
    · -- the ALTER path
      rename_i hq hno
      have hno' : (always || (expandOps (sl ++ tn) ops).any opForcesRecreate) = false := by simpa using hno
      obtain ⟨k, hk⟩ := execAll_trace_take (ct := ct) (fault := fault) (directStmts (expandOps (sl ++ tn) ops)) (Run.start (Conn.start mode db))
      refine ⟨by simp, ?_, ?_⟩
      · intro s hs
        simp only at hs
        rw [hk] at hs
        have hmem : s ∈ directStmts (expandOps (sl ++ tn) ops) := by
          simp only [Run.start, List.nil_append] at hs
          exact List.mem_of_mem_take (List.mem_of_mem_head? hs)
        rw [hno']
        constructor
        · rintro ⟨sch, rfl⟩; exact absurd rfl (directStmts_not_createTmp _ _ hmem sch)
        · intro h; cases h
      · intro s _; rw [hno']
    · -- the move-and-copy path
      rename_i hq hyes
      have hyes' : (always || (expandOps (sl ++ tn) ops).any opForcesRecreate) = true := by
        cases hb : (always || (expandOps (sl ++ tn) ops).any opForcesRecreate) with
        | true => rfl
        | false => exact absurd (by simp [hb]) hyes
      rw [hyes']
      split
      · simp
      · split
        · simp
        · split
          · simp
          · split
            · simp
            · rename_i st _ _ _
              have hshape := (create_trace_shape (ct := ct) (fault := fault)
                (p := { st.plan with transactionalDdl := tddl, failKind := fk }) (r := Run.start (Conn.start mode db)) rfl).1
              refine ⟨fun _ => rfl, ?_, fun _ _ => rfl⟩
              intro s hs
              simp only at hs
              rw [hshape] at hs
              cases hs
              exact ⟨fun _ => rfl, fun _ => ⟨_, rfl⟩⟩

/-! ## the temporary table after an early failure: as strong as it is true -/

/-- shape of finding C11-F2: the run ended in a later statement of `create_table` (a `CREATE INDEX` on the
temporary table, before the `try`) -/
def FailedInCreateTableTail (x : Run × Option Err) : Prop := ∃ ix, x.1.trace.getLast? = some (.createTmpIndex ix)

/-- shape of finding C11-F1: the enclosing scope rolls back while pysqlite's implicit transaction (opened by the
`INSERT`) is open — the clean-up `DROP` is part of that transaction -/
def RolledBackOpenTxn (commitOnError : Bool) (x : Run × Option Err) : Prop :=
  commitOnError = false ∧ x.1.conn.inTxn = true

/-- a second fault: the injected fault hits the clean-up `DROP` itself (outside the single-fault reading) -/
def CleanupFaulted (fault : Option Nat) (x : Run × Option Err) : Prop :=
  ∃ k, fault = some k ∧ x.1.trace[k]? = some .dropTmp

/-- **C11.early (temporary table), exact form.**  After *every* failure at or before `DROP` of the original —
any fault index, natural or injected, either scope, any number of `create_table` statements — the temporary
table is gone, **unless** the run has the shape of C11-F2 (it ended in a later statement of `create_table`), or
of C11-F1 (the scope rolls back with the implicit transaction open), or the fault hit the clean-up itself.
So: a failure of `CREATE TABLE` itself, an injected failure of the `INSERT` (raised before the implicit BEGIN),
and every failing copy / failing `DROP` under a committing scope leave no temporary table. -/
theorem early_tmp_gone (ct : ConvTable) (fault : Option Nat) (commitOnError : Bool) (p : Plan) (mode : ConnMode) (t0 : Tbl)
    (hearly : Early (run ct fault p { orig := some t0, tmp := none } mode))
    (hF2 : ¬ FailedInCreateTableTail (run ct fault p { orig := some t0, tmp := none } mode))
    (hF1 : ¬ RolledBackOpenTxn commitOnError (run ct fault p { orig := some t0, tmp := none } mode))
    (hsingle : ¬ CleanupFaulted fault (run ct fault p { orig := some t0, tmp := none } mode)) :
    (final ct fault commitOnError p { orig := some t0, tmp := none } mode).tmp = none := by
  unfold final run at *
  apply create_early_tmp_gone commitOnError (Run.start (Conn.start mode { orig := some t0, tmp := none }))
    (by cases mode <;> exact ⟨rfl, rfl⟩) (by unfold Numbered; rfl) hearly
  · intro ix h; exact hF2 ⟨ix, h⟩
  · cases commitOnError with
    | true => exact .inl rfl
    | false =>
      right
      cases h : (create ct fault p (Run.start (Conn.start mode { orig := some t0, tmp := none }))).1.conn.inTxn with
      | false => rfl
      | true => exact absurd ⟨rfl, h⟩ hF1
  · intro k hk h; exact hsingle ⟨k, hk, h⟩

/-- **Exactness (C11-F2 shape).**  Conversely, *every* early failure that ended in a later statement of
`create_table` leaves the temporary table, in both scopes — the hypothesis `¬ FailedInCreateTableTail` of
`early_tmp_gone` cannot be weakened. -/
theorem early_tmp_left_create_table_tail (ct : ConvTable) (fault : Option Nat) (commitOnError : Bool) (p : Plan) (t0 : Tbl)
    (hearly : Early (run ct fault p { orig := some t0, tmp := none }))
    (hshape : FailedInCreateTableTail (run ct fault p { orig := some t0, tmp := none })) :
    (final ct fault commitOnError p { orig := some t0, tmp := none }).tmp ≠ none := by
  unfold final run FailedInCreateTableTail Early at *
  unfold create at *
  cases hst : execAll ct fault (Run.start (Conn.start .pysqliteLegacy { orig := some t0, tmp := none }))
      (.createTmp p.newSchema :: p.tmpIndexes.map .createTmpIndex) with
  | mk r1 e1 =>
    rw [hst] at hearly hshape
    cases e1 with
    | some e => exact finish_tmpBoth (stage1_tail_left rfl hst hshape)
    | none =>
      simp only at hearly hshape ⊢
      unfold tryBlock at *
      cases htry : execAll ct fault r1 [.insertSelect p.feeds, .dropOld] with
      | mk r2 e2 =>
        rw [htry] at hearly hshape
        cases e2 with
        | none => exact absurd (elseBranch_trace _) hearly
        | some e =>
          simp only at hshape
          obtain ⟨ix, hix⟩ := hshape
          rw [cleanup_trace] at hix
          simp at hix

/-- **Exactness (C11-F1 shape).**  … and *every* early failure after which the scope rolls back with the implicit
transaction open leaves the temporary table — the hypothesis `¬ RolledBackOpenTxn` cannot be weakened either. -/
theorem early_tmp_left_rolled_back (ct : ConvTable) (fault : Option Nat) (p : Plan) (t0 : Tbl)
    (hearly : Early (run ct fault p { orig := some t0, tmp := none }))
    (hshape : RolledBackOpenTxn false (run ct fault p { orig := some t0, tmp := none })) :
    (final ct fault false p { orig := some t0, tmp := none }).tmp ≠ none := by
  unfold final run RolledBackOpenTxn Early at *
  exact create_rolledback_tmp_left rfl hearly hshape.2

/-- **The BEGIN recipe.**  When the whole scope is one real transaction (driver `isolation_level=None`, `BEGIN`
emitted on SQLAlchemy's `begin` event) and the scope rolls back, *any* failure — early or late, any fault index —
restores the database exactly: original table, its indexes and rows as before, no temporary table. -/
theorem explicit_begin_rollback_restores (ct : ConvTable) (fault : Option Nat) (p : Plan) (db0 : Db) (e : Err)
    (hfail : (run ct fault p db0 .explicitBegin).2 = some e) :
    final ct fault false p db0 .explicitBegin = db0 := by
  unfold final run at *
  have h := create_inTxnOver (ct := ct) (fault := fault) (p := p) (db := db0)
    (r := Run.start (Conn.start .explicitBegin db0)) ⟨rfl, rfl⟩
  simp only [finish, hfail, Option.isNone_some, Bool.or_false, Bool.false_eq_true, if_false, Conn.rollback]
  exact h.2

/-- **Retry on a database that already holds `_alembic_tmp_<t>`.**  An earlier run may have failed after the `DROP`
of the original, so that all rows live only under the temporary name (the state `late` allows).  Whatever the
database holds under the two names, if the temporary name is taken the next recreate fails at its very first
statement and leaves the database exactly as it was — in every connection mode, both scopes, any fault index:
nothing under either name is touched, in particular the rows under the temporary name are still there. -/
theorem tmp_taken_untouched (ct : ConvTable) (fault : Option Nat) (commitOnError : Bool) (p : Plan) (mode : ConnMode)
    (db0 : Db) (tt : Tbl) (htaken : db0.tmp = some tt) :
    (run ct fault p db0 mode).2 ≠ none ∧ final ct fault commitOnError p db0 mode = db0 := by
  unfold final run
  have h := create_tmp_taken (ct := ct) (fault := fault) (p := p) (r := Run.start (Conn.start mode db0))
    ⟨tt, by cases mode <;> exact htaken⟩
  refine ⟨h.1, ?_⟩
  unfold finish
  rw [h.2]
  cases mode <;> (split <;> rfl)

/-- **Exactly when the temporary table stays (pysqlite's default transaction control, single fault).**  After a failure at or before
`DROP` of the original, `_alembic_tmp_<t>` is left behind **if and only if** the run ended in a later statement of `create_table` (the
shape of finding C11-F2) or the scope rolled back while the implicit transaction opened by the `INSERT` was open (the shape of C11-F1). -/
theorem early_tmp_left_behind_iff (ct : ConvTable) (fault : Option Nat) (commitOnError : Bool) (p : Plan) (t0 : Tbl)
    (hearly : Early (run ct fault p { orig := some t0, tmp := none }))
    (hsingle : ¬ CleanupFaulted fault (run ct fault p { orig := some t0, tmp := none })) :
    (final ct fault commitOnError p { orig := some t0, tmp := none }).tmp ≠ none ↔
      (FailedInCreateTableTail (run ct fault p { orig := some t0, tmp := none }) ∨
       RolledBackOpenTxn commitOnError (run ct fault p { orig := some t0, tmp := none })) := by
  constructor
  · intro hleft
    by_cases h2 : FailedInCreateTableTail (run ct fault p { orig := some t0, tmp := none })
    · exact .inl h2
    · by_cases h1 : RolledBackOpenTxn commitOnError (run ct fault p { orig := some t0, tmp := none })
      · exact .inr h1
      · exact absurd (early_tmp_gone ct fault commitOnError p .pysqliteLegacy t0 hearly h2 h1 hsingle) hleft
  · rintro (h2 | h1)
    · exact early_tmp_left_create_table_tail ct fault commitOnError p t0 hearly h2
    · have hc : commitOnError = false := h1.1
      subst hc
      exact early_tmp_left_rolled_back ct fault p t0 hearly h1

/-- **C11.early in the property's own words.**  For a fault injected at statement `k ≤ index(DROP original)`
(`index(DROP original) = number of create_table statements + 1`, i.e. `p.tmpIndexes.length + 2`), schema, indexes
and rows of the original table are unchanged — in both scopes, whatever else fails naturally. -/
theorem fault_upto_drop_unchanged (ct : ConvTable) (k : Nat) (commitOnError : Bool) (p : Plan) (mode : ConnMode) (db0 : Db) (t0 : Tbl)
    (h0 : db0.orig = some t0) (hk : k ≤ p.tmpIndexes.length + 2) :
    (final ct (some k) commitOnError p db0 mode).orig = some t0 := by
  unfold final run
  exact finish_intact (create_intact_of_fault (fresh_intact h0) rfl rfl hk)

/-! ## non-vacuity -/

/-- the hypotheses of `early_orig_intact` / `early_tmp_gone_partial` are met by a run that really fails
    (the NOT NULL witness fails at the INSERT, before the rename) -/
example : (run [] none w_plan1 { orig := some w_t0, tmp := none }).2 = some .notNull ∧
    Early (run [] none w_plan1 { orig := some w_t0, tmp := none }) ∧ w_plan1.tmpIndexes = [] := by decide

/-- … and `late` by a run that fails after the `DROP` (fault at the rename, statement 3) -/
example : (run [] (some 4) w_plan2 { orig := some w_t0, tmp := none }).2 = some .injected ∧
    ¬ Early (run [] (some 4) w_plan2 { orig := some w_t0, tmp := none }) := by decide

/-- `success_no_tmp` is not vacuous: the fault-free run of the second plan succeeds -/
example : (run [] none w_plan2 { orig := some w_t0, tmp := none }).2 = none := by decide

/-- `early_tmp_gone` applies to real failing runs: the NOT NULL witness under a committing scope … -/
example : Early (run [] none w_plan1 { orig := some w_t0, tmp := none }) ∧
    ¬ FailedInCreateTableTail (run [] none w_plan1 { orig := some w_t0, tmp := none }) ∧
    ¬ RolledBackOpenTxn true (run [] none w_plan1 { orig := some w_t0, tmp := none }) ∧
    (run [] none w_plan1 { orig := some w_t0, tmp := none }).2 = some .notNull := by
  refine ⟨by decide, ?_, ?_, by decide⟩
  · have hl : (run [] none w_plan1 { orig := some w_t0, tmp := none }).1.trace.getLast? = some .dropTmp := by decide
    rintro ⟨ix, h⟩; rw [hl] at h; cases h
  · rintro ⟨h, _⟩; cases h

/-- … and an injected failure of the INSERT under a rolling-back scope (no implicit transaction was opened) -/
example : Early (run [] (some 1) w_plan1 { orig := some w_t0, tmp := none }) ∧
    (run [] (some 1) w_plan1 { orig := some w_t0, tmp := none }).1.conn.inTxn = false ∧
    (run [] (some 1) w_plan1 { orig := some w_t0, tmp := none }).2 = some .injected ∧
    (final [] (some 1) false w_plan1 { orig := some w_t0, tmp := none }).tmp = none := by decide

/-- the two excluded shapes are exactly what the counterexample witnesses have -/
example : RolledBackOpenTxn false (run [] none w_plan1 { orig := some w_t0, tmp := none }) := by
  exact ⟨rfl, by decide⟩
example : FailedInCreateTableTail (run [] (some 1) w_plan2 { orig := some w_t0, tmp := none }) :=
  ⟨{ name := "ix__alembic_tmp_t_n1", cols := ["n1"], unique := false }, by decide⟩

/-- the other connection modes are exercised by real failing runs: under AUTOCOMMIT the failing copy leaves no
temporary table even when the scope "rolls back"; under the BEGIN recipe the rollback restores everything -/
example : (run [] none w_plan1 { orig := some w_t0, tmp := none } .autocommit).2 = some .notNull ∧
    (final [] none false w_plan1 { orig := some w_t0, tmp := none } .autocommit).tmp = none ∧
    (run [] none w_plan1 { orig := some w_t0, tmp := none } .explicitBegin).2 = some .notNull ∧
    (final [] none false w_plan1 { orig := some w_t0, tmp := none } .explicitBegin) = { orig := some w_t0, tmp := none } := by
  decide

/-- `tmp_taken_untouched` on a concrete left-over: the copy under the temporary name survives the retry -/
example : (final [] none false w_plan1 { orig := none, tmp := some w_t0 } .autocommit) = { orig := none, tmp := some w_t0 } := by decide

/-- the class of the raised exception is a field of the plan that nothing reads: the run is the same for every kind -/
example : ∀ k : FailKind, run [] (some 1) { w_plan1 with failKind := k } { orig := some w_t0, tmp := none } =
    run [] (some 1) w_plan1 { orig := some w_t0, tmp := none } := fun _ => rfl

/-- `transactional_ddl` is a field of the plan that nothing reads: the run is the same for both values -/
example : run [] none { w_plan1 with transactionalDdl := true } { orig := some w_t0, tmp := none } =
    run [] none w_plan1 { orig := some w_t0, tmp := none } := rfl

/-- `statements_before_drop_target_tmp` on a real run: the prefix before the DROP is non-trivial (CREATE TABLE, CREATE INDEX on the
temporary table, INSERT) and the checker rejects an original that lost an index after an early failure -/
example : ((run [] (some 3) w_plan2 { orig := some w_t0, tmp := none }).1.trace.map safe) = [true, true, true, false, true] := by decide
example : Spec.Batch.check11 [] { w_t0 with schema := { w_t0.schema with indexes := [{ name := "ix", cols := ["a"], unique := false }] } }
    [] true { orig := some w_t0, tmp := none } ≠ [] := by decide

/-- both sides of `early_tmp_left_behind_iff` occur: the NOT NULL witness leaves the table when the scope rolls back and not when it commits -/
example : (final [] none false w_plan1 { orig := some w_t0, tmp := none }).tmp ≠ none ∧
    (final [] none true w_plan1 { orig := some w_t0, tmp := none }).tmp = none := by decide

/-- `recreates`: under `auto` an index-only batch is not a recreate (first statement CREATE INDEX), one with a nullable change is -/
example : recreates "t" false [.createIndex { name := "ix", cols := ["a"], unique := false }] = false ∧
    recreates "t" false [.alterColumn "a" none none (some false) .keep] = true ∧ recreates "t" true [] = true := by decide
example : (runBatch [] "t" true false [.createIndex { name := "ix", cols := ["a"], unique := false }] none false
      { orig := some w_t0, tmp := none }).trace.head? = some (.createIndex { name := "ix", cols := ["a"], unique := false }) := by decide

/-- the checker run on the implementation's observation rejects a lost row and a left-over temporary table -/
example : Spec.Batch.check11 [] w_t0 [] true { orig := some { w_t0 with rows := [] }, tmp := none } ≠ [] := by decide
example : Spec.Batch.check11 [] w_t0 [] true { orig := some w_t0, tmp := some { w_t0 with rows := [] } } ≠ [] := by decide
example : Spec.Batch.check11 [] w_t0 [] true { orig := some w_t0, tmp := none } = [] := by decide

end C11
