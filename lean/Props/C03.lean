import Lemmas.Rev.HeadsFacts
import Props.C02
/-!
# C03 — the version table always holds exactly the heads of the applied set

About `Model.Rev.updateToStep` / `runSteps` (mirror of `HeadMaintainer.update_to_step`,
`RevisionStep.should_*`, `merge_branch_idents`, `_unmerge_to_revisions`,
`update_version_num`, and the three row statements with their one-row checks).
`RowsInv m A R`: the table `R` has no duplicate, and holds exactly the applied revisions
(`A`) that no applied revision needs; `A` contains the prerequisites of its members.
-/
namespace C03
open Model.Rev Spec.Rev Lemmas.Rev C01 C02

/-- the table after each step of a run is consistent with the applied set after that step -/
def TraceInv (m : LMap) : List Id → List (Id × Bool) → List (List Id) → Prop
  | _, [], [] => True
  | A, (r, up) :: steps, rows :: rest =>
    let A' := if up then r :: A else A.filter (· != r)
    RowsInv m A' rows ∧ TraceInv m A' steps rest
  | _, _, _ => False

/-- an upgrade plan that is applicable from the applied set `A` -/
def UpOk (m : LMap) : List Id → List Id → Prop
  | _, [] => True
  | A, r :: rest => r ∉ A ∧ (∀ p ∈ m.allDownOf r, p ∈ A) ∧ UpOk m (r :: A) rest

/-- a downgrade plan that is applicable: each revision is maximal when its turn comes -/
def DownOk (m : LMap) : List Id → List Id → Prop
  | _, [] => True
  | A, r :: rest => IsMax m A r ∧ DownOk m (A.filter (· != r)) rest

/-- **One step** (both directions), the statement of the property for a single migration. -/
theorem step {m : LMap} (L : Loaded m) {A R : List Id} (inv : RowsInv m A R) (r : Id) (up : Bool)
    (h : if up then r ∉ A ∧ (∀ p ∈ m.allDownOf r, p ∈ A) else IsMax m A r) :
    ∃ R' st, updateToStep m R (.rev r up) = .ok (R', st) ∧
      RowsInv m (if up then r :: A else A.filter (· != r)) R' := by
  cases up with
  | true => simp only [if_true] at h ⊢; exact step_up L inv r h.1 h.2
  | false =>
    simp only [Bool.false_eq_true, if_false] at h ⊢
    exact step_down L inv r ((inv.rows r).mpr h)

theorem run_up {m : LMap} (L : Loaded m) : ∀ (plan : List Id) (A R : List Id), RowsInv m A R → UpOk m A plan →
    ∃ trace, runSteps m R (plan.map (Step.rev · true)) = .ok trace ∧
      TraceInv m A (plan.map (·, true)) trace
  | [], A, R, _, _ => ⟨[], by simp [runSteps], by simp [TraceInv]⟩
  | r :: rest, A, R, inv, hok => by
    obtain ⟨h1, h2, h3⟩ := hok
    obtain ⟨R', st, hstep, inv'⟩ := step_up L inv r h1 h2
    obtain ⟨tr, htr, hinv⟩ := run_up L rest (r :: A) R' inv' h3
    refine ⟨R' :: tr, ?_, ?_⟩
    · simp only [List.map_cons, runSteps, hstep, htr]
    · simp only [List.map_cons, TraceInv, if_true]; exact ⟨inv', hinv⟩

theorem run_down {m : LMap} (L : Loaded m) : ∀ (plan : List Id) (A R : List Id), RowsInv m A R → DownOk m A plan →
    ∃ trace, runSteps m R (plan.map (Step.rev · false)) = .ok trace ∧
      TraceInv m A (plan.map (·, false)) trace
  | [], A, R, _, _ => ⟨[], by simp [runSteps], by simp [TraceInv]⟩
  | r :: rest, A, R, inv, hok => by
    obtain ⟨h1, h2⟩ := hok
    obtain ⟨R', st, hstep, inv'⟩ := step_down L inv r ((inv.rows r).mpr h1)
    obtain ⟨tr, htr, hinv⟩ := run_down L rest (A.filter (· != r)) R' inv' h2
    refine ⟨R' :: tr, ?_, ?_⟩
    · simp only [List.map_cons, runSteps, hstep, htr]
    · simp only [List.map_cons, TraceInv, Bool.false_eq_true, if_false]; exact ⟨inv', hinv⟩

/-- the applied set is what the rows imply -/
theorem applied_iff_requires {m : LMap} (L : Loaded m) {A R : List Id} (inv : RowsInv m A R) (x : Id) :
    x ∈ A ↔ Requires m R x := by
  constructor
  · intro hx
    obtain ⟨h, hmax, hr⟩ := exists_max_above L A x hx
    exact ⟨h, (inv.rows h).mpr hmax, hr⟩
  · rintro ⟨r, hr, hreach⟩
    exact closedA_reach inv.closed ((inv.rows r).mp hr).1 hreach

/-- the plans of C01 are applicable -/
theorem upOk_of_plan {m : LMap} : ∀ (plan A : List Id), plan.Nodup → (∀ x ∈ plan, x ∉ A) →
    (∀ pre x post, plan = pre ++ x :: post → ∀ p ∈ m.allDownOf x, p ∈ A ∨ p ∈ pre) → UpOk m A plan
  | [], _, _, _, _ => trivial
  | r :: rest, A, hnd, hnot, hord => by
    have hnd' := List.nodup_cons.mp hnd
    refine ⟨hnot r List.mem_cons_self, ?_, ?_⟩
    · intro p hp
      rcases hord [] r rest rfl p hp with h | h
      · exact h
      · simp at h
    · apply upOk_of_plan rest (r :: A) hnd'.2
      · intro x hx hxa
        rcases List.mem_cons.mp hxa with e | h
        · subst e; exact hnd'.1 hx
        · exact hnot x (List.mem_cons_of_mem _ hx) h
      · intro pre x post hrest p hp
        rcases hord (r :: pre) x post (by rw [hrest]; rfl) p hp with h | h
        · exact Or.inl (List.mem_cons_of_mem _ h)
        · rcases List.mem_cons.mp h with e | h
          · exact Or.inl (by rw [e]; exact List.mem_cons_self)
          · exact Or.inr h

/-- the plans of C02 are applicable -/
theorem downOk_of_plan {m : LMap} : ∀ (plan A : List Id), plan.Nodup → (∀ x ∈ plan, x ∈ A) →
    (∀ pre x post, plan = pre ++ x :: post → ∀ c ∈ A, x ∈ m.allDownOf c → c ∈ pre) → DownOk m A plan
  | [], _, _, _, _ => trivial
  | r :: rest, A, hnd, hin, hord => by
    have hnd' := List.nodup_cons.mp hnd
    refine ⟨⟨hin r List.mem_cons_self, ?_⟩, ?_⟩
    · intro c hc hrc
      have := hord [] r rest rfl c hc hrc
      simp at this
    · apply downOk_of_plan rest (A.filter (· != r)) hnd'.2
      · intro x hx
        refine List.mem_filter.mpr ⟨hin x (List.mem_cons_of_mem _ hx), ?_⟩
        have : x ≠ r := fun e => hnd'.1 (e ▸ hx)
        simpa using this
      · intro pre x post hrest c hc hxc
        have hc' := List.mem_filter.mp hc
        have := hord (r :: pre) x post (by rw [hrest]; rfl) c hc'.1 hxc
        rcases List.mem_cons.mp this with e | h
        · have : c ≠ r := by simpa using hc'.2
          exact absurd e this
        · exact h

/-- **C03 for an upgrade.** From a consistent table, running any upgrade plan chosen by Alembic
(`C01.UpgradePlan` for the current rows) records every step without a failing statement, and
after every step the table holds exactly the maximal applied revisions. -/
theorem upgrade_run {m : LMap} (L : Loaded m) {A R targets plan : List Id} (inv : RowsInv m A R)
    (hplan : UpgradePlan m R targets plan) :
    ∃ trace, runSteps m R (plan.map (Step.rev · true)) = .ok trace ∧
      TraceInv m A (plan.map (·, true)) trace := by
  apply run_up L plan A R inv
  apply upOk_of_plan plan A hplan.nodup
  · intro x hx hxA
    exact ((hplan.exact x).mp hx).2 ((applied_iff_requires L inv x).mp hxA)
  · intro pre x post h p hp
    rcases hplan.order pre x post h p hp with h1 | h1
    · exact Or.inl ((applied_iff_requires L inv p).mpr h1)
    · exact Or.inr h1

/-- **C03 for a downgrade.** -/
theorem downgrade_run {m : LMap} (L : Loaded m) {A R roots plan : List Id} (inv : RowsInv m A R)
    (hplan : DowngradePlan m R roots plan) :
    ∃ trace, runSteps m R (plan.map (Step.rev · false)) = .ok trace ∧
      TraceInv m A (plan.map (·, false)) trace := by
  apply run_down L plan A R inv
  apply downOk_of_plan plan A hplan.nodup
  · intro x hx
    exact (applied_iff_requires L inv x).mpr ((hplan.exact x).mp hx).2
  · intro pre x post h c hc hxc
    have hcids : c ∈ m.ids := by
      apply Classical.byContradiction
      intro hn; rw [allDownOf_nil m c hn] at hxc; simp at hxc
    exact hplan.order pre x post h c hcids hxc ((applied_iff_requires L inv c).mp hc)

/-- the empty table is consistent with nothing applied: every command sequence starts here -/
theorem init (m : LMap) : RowsInv m [] [] :=
  ⟨by simp, by intro x; simp [IsMax], by simp⟩

/-- **`upgrade heads` ends with the heads, `downgrade base` with an empty table**: a table
consistent with "everything applied" holds exactly the revisions nothing depends on, and a
table consistent with "nothing applied" is empty. -/
theorem all_applied_rows {m : LMap} {A R : List Id} (inv : RowsInv m A R) (hall : ∀ x, x ∈ A ↔ x ∈ m.ids) (x : Id) :
    x ∈ R ↔ x ∈ m.ids ∧ ∀ c ∈ m.ids, x ∉ m.allDownOf c := by
  rw [inv.rows x]; unfold IsMax
  constructor
  · rintro ⟨h1, h2⟩; exact ⟨(hall x).mp h1, fun c hc => h2 c ((hall c).mpr hc)⟩
  · rintro ⟨h1, h2⟩; exact ⟨(hall x).mpr h1, fun c hc => h2 c ((hall c).mp hc)⟩

theorem none_applied_rows {m : LMap} {R : List Id} (inv : RowsInv m [] R) : R = [] := by
  apply List.eq_nil_iff_forall_not_mem.mpr
  intro x hx; have := (inv.rows x).mp hx; simp [IsMax] at this

/-! ### C03 in terms of the history as written -/

/-- **The invariant in the words of the property**: the version table holds, each once, exactly the
applied revisions that no applied revision names — through a down-revision or a dependency, as
written in the files — as a prerequisite.  (`RowsInv` is what `C03.step`, `upgrade_run`,
`downgrade_run` establish after every step of every plan.) -/
theorem rows_history {h : Hist} {o : LoadOpts} {m : LMap} (hl : load h o = .ok m)
    (hu : (h.map (·.id)).Nodup) {A R : List Id} (inv : RowsInv m A R) :
    R.Nodup ∧ ∀ x, x ∈ R ↔ x ∈ A ∧ ∀ c ∈ children h x, c ∉ A := by
  refine ⟨inv.nodup, ?_⟩
  intro x
  rw [inv.rows x]
  unfold IsMax
  constructor
  · rintro ⟨hxA, hmax⟩
    refine ⟨hxA, ?_⟩
    intro c hc hcA
    have hcp : x ∈ parents h c := by
      unfold children at hc
      simpa using (List.mem_filter.mp hc).2
    exact hmax c hcA ((allDownOf_mem_iff_parents hl hu c x).mpr hcp)
  · rintro ⟨hxA, hnone⟩
    refine ⟨hxA, ?_⟩
    intro c hcA hxc
    have hcp : x ∈ parents h c := (allDownOf_mem_iff_parents hl hu c x).mp hxc
    have hcid : c ∈ ids h := by
      unfold parents at hcp
      cases hrev : revOf h c with
      | none => simp [hrev] at hcp
      | some rv =>
        unfold revOf at hrev
        have hm := List.mem_of_find?_eq_some hrev
        have he := List.find?_some hrev
        simp only [beq_iff_eq] at he
        unfold ids
        exact List.mem_map.mpr ⟨rv, hm, he⟩
    have : c ∈ children h x := by
      unfold children
      exact List.mem_filter.mpr ⟨hcid, by simpa using hcp⟩
    exact hnone c this hcA

/-! ### the oracles `Spec.Rev.rowsOk` / `traceOk`, evaluated on the implementation's rows -/

/-- **What a `true` verdict of the rows oracle means**: the version table is duplicate-free and
holds exactly the applied revisions that no applied revision names as a prerequisite. -/
theorem rowsOk_sound (h : Hist) (applied rows : List Id) (hok : rowsOk h applied rows = true) :
    rows.Nodup ∧ ∀ x, x ∈ rows ↔ x ∈ applied ∧ ∀ c ∈ children h x, c ∉ applied := by
  unfold rowsOk at hok
  simp only [Bool.and_eq_true] at hok
  obtain ⟨h1, h2⟩ := hok
  refine ⟨(nodupB_iff _).mp h1, ?_⟩
  unfold sameSet maximal at h2
  simp only [Bool.and_eq_true, List.all_eq_true, decide_eq_true_eq, List.mem_filter, Bool.not_eq_true',
    List.any_eq_false] at h2
  intro x
  constructor
  · intro hx; exact h2.1 x hx
  · intro hx; exact h2.2 x hx

/-- the applied set after a list of steps (`true` = upgrade step) -/
def appliedAfter : List Id → List (Id × Bool) → List Id
  | A, [] => A
  | A, (r, up) :: rest =>
    appliedAfter (if up then (if r ∈ A then A else r :: A) else A.filter (· != r)) rest

/-- **A `true` verdict of the trace oracle** means the rows recorded after *every* step of the
plan are the maximal applied revisions at that moment. -/
theorem traceOk_sound (h : Hist) : ∀ (steps : List (Id × Bool)) (A : List Id) (tr : List (List Id)),
    traceOk h A steps tr = true → tr.length = steps.length ∧
      ∀ k (hk : k < tr.length), rowsOk h (appliedAfter A (steps.take (k + 1))) tr[k] = true := by
  intro steps
  induction steps with
  | nil =>
    intro A tr hok
    cases tr with
    | nil => exact ⟨rfl, fun k hk => absurd hk (by simp)⟩
    | cons _ _ => simp [traceOk] at hok
  | cons s rest ih =>
    intro A tr hok
    obtain ⟨r, up⟩ := s
    cases tr with
    | nil => simp [traceOk] at hok
    | cons rows tr' =>
      simp only [traceOk, Bool.and_eq_true] at hok
      obtain ⟨h1, h2⟩ := hok
      obtain ⟨hl, hall⟩ := ih _ tr' h2
      refine ⟨by simp [hl], ?_⟩
      intro k hk
      cases k with
      | zero => simpa [appliedAfter] using h1
      | succ k' =>
        have := hall k' (by simpa using hk)
        simpa [appliedAfter] using this

/-! ### non-vacuity: a merge with a redundant parent (the shape of the repaired defects F2/F3) -/

def demo3 : Hist :=
  [⟨"a", [], [], []⟩, ⟨"b", [], [], []⟩, ⟨"c", [], ["a"], []⟩, ⟨"d", ["a", "b"], ["c"], []⟩]

def tracesAre (r : Except Err (List (List Id))) (l : List (List Id)) : Bool :=
  match r with | .ok x => x == l | .error _ => false

example : tracesAre ((load demo3).bind (fun m =>
    (upgradeRevs m [] "heads").bind (fun p => runSteps m [] (p.map (Step.rev · true)))))
    [["a"], ["a", "b"], ["b", "c"], ["d"]] = true := by decide +kernel

example : tracesAre ((load demo3).bind (fun m =>
    (downgradeRevs m ["d"] "base").bind (fun p => runSteps m ["d"] (p.map (Step.rev · false)))))
    [["b", "c"], ["b", "a"], ["a"], []] = true := by decide +kernel

end C03
