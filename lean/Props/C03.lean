import Spec.Rev
import Model.Rev.Heads
/-! # C03 (theorems: work in progress) -/
namespace C03
end C03
