import Spec.Filter
namespace C20
open Model.Filter Spec.Filter

theorem placeholder : True := trivial

end C20
