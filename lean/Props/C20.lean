import Lemmas.Filter.Name
import Lemmas.Filter.Table
/-!
# C20 — objects excluded by autogenerate filters never appear in the output

Theorems about `Model.Filter.diffF` (mirror of the comparison skeleton of
`alembic/autogenerate/compare.py` with `run_name_filters` / `run_object_filters` at their call
sites) for **every** pair of schemas (any number of tables, columns, indexes, unique constraints,
foreign keys; names may even repeat), every comparison outcome `Cmp`, every list of inspected
schemas and every pair of predicates `objF : ObjDesc → Bool`, `nameF : NameDesc → Bool`.
-/
namespace C20
open Model.Filter Spec.Filter Lemmas.Filter

/-- **C20.object.** No generated op targets an object rejected by `include_object`, nor anything
inside a rejected table (`A'` = the reflected side as left by the name filter). -/
theorem object (P : Cmp) (objF : ObjDesc → Bool) (nameF : NameDesc → Bool)
    (schemas : List (Option String)) (conn md : List Tbl) :
    objectOk objF (visible nameF schemas conn) md (diffF P objF nameF schemas conn md) = true := by
  simp only [objectOk, List.all_eq_true]
  intro op hop
  simp only [diffF, diffCore] at hop
  obtain ⟨t, ht, hft, g, hg, hfg, hop'⟩ := mem_runT.mp hop
  obtain ⟨h1, h2⟩ := candidates_desc P _ md t ht g hg op hop'
  simp [objAccepts, h1, h2, hft, hfg]

/-- the recogniser rejects a leak: a `drop_index` inside a table that `include_object` rejects -/
example : objectOk (fun d => !(d.ty == .table && d.name == some "t"))
    [⟨none, "t", ["id"], [⟨"ix", false, "id"⟩], [], []⟩] [⟨none, "t", ["id"], [], [], []⟩]
    [⟨.dropIndex, none, "t", some "ix", "id"⟩] = false := by decide

/-- **C20.conservative (object filter).** The object filter only removes ops: the filtered diff is
exactly the unfiltered diff (same name filter) restricted to the ops whose target and enclosing
table `include_object` accepts - nothing is added, reordered or changed. -/
theorem conservative_object (P : Cmp) (objF : ObjDesc → Bool) (nameF : NameDesc → Bool)
    (schemas : List (Option String)) (conn md : List Tbl) :
    diffF P objF nameF schemas conn md =
      (diffF P (fun _ => true) nameF schemas conn md).filter
        (objAccepts objF (visible nameF schemas conn) md) := by
  simp only [diffF, diffCore]
  apply runT_eq_filter
  intro t ht g hg op hop
  obtain ⟨h1, h2⟩ := candidates_desc P _ md t ht g hg op hop
  simp [objAccepts, h1, h2]

/-- what being on the name-filtered reflected side means -/
theorem mem_visible (nameF : NameDesc → Bool) (schemas : List (Option String)) (conn : List Tbl)
    (t : Tbl) (h : t ∈ visible nameF schemas conn) :
    nameF ⟨t.schema, .schema, none, none⟩ = true ∧
    nameF ⟨some t.name, .table, t.schema, none⟩ = true ∧
    (∀ c ∈ t.cols, nameF ⟨some c, .column, t.schema, some t.name⟩ = true) ∧
    (∀ i ∈ t.idxs, nameF ⟨some i.name, .index, t.schema, some t.name⟩ = true) ∧
    (∀ u ∈ t.uqs, nameF ⟨u.name, .uniqueConstraint, t.schema, some t.name⟩ = true) ∧
    (∀ f ∈ t.fks, nameF ⟨f.name, .foreignKey, t.schema, some t.name⟩ = true) := by
  simp only [visible, List.mem_map, List.mem_filter] at h
  obtain ⟨t0, ⟨_, hvis⟩, rfl⟩ := h
  simp only [tableVisible, Bool.and_eq_true, List.contains_iff_mem, visibleSchemas, List.mem_filter] at hvis
  refine ⟨hvis.1.2, hvis.2, ?_, ?_, ?_, ?_⟩ <;>
    · intro x hx
      simp only [visibleTbl, List.mem_filter] at hx
      exact hx.2

/-- **C20.name.** No drop / alter op targets a reflected schema, table, column, index or
constraint name rejected by `include_name` (such objects are treated as absent). -/
theorem name (P : Cmp) (objF : ObjDesc → Bool) (nameF : NameDesc → Bool)
    (schemas : List (Option String)) (conn md : List Tbl) :
    nameOk nameF (diffF P objF nameF schemas conn md) = true := by
  simp only [nameOk, List.all_eq_true]
  intro op hop
  simp only [diffF, diffCore] at hop
  obtain ⟨t, ht, _, g, hg, _, hop'⟩ := mem_runT.mp hop
  by_cases htouch : op.kind.touchesDb = true
  · obtain ⟨c, hc, hkey, htarget⟩ := candidates_in P _ md t ht g hg op hop' htouch
    obtain ⟨h1, h2, h3, h4, h5, h6⟩ := mem_visible nameF schemas conn c hc
    have hs : op.schema = c.schema := by
      have := congrArg Prod.fst hkey; simpa [Tbl.key, Op.key] using this.symm
    have hn : op.table = c.name := by
      have := congrArg Prod.snd hkey; simpa [Tbl.key, Op.key] using this.symm
    simp only [htouch, Bool.not_true, Bool.false_or, nameAccepts, Bool.and_eq_true, hs, hn, h1, h2, true_and]
    rcases op with ⟨kind, oschema, otable, oname, osig⟩
    cases kind <;> simp [OpKind.touchesDb] at htouch <;> simp [OpKind.targetTy, TargetIn] at htarget ⊢
    · obtain ⟨x, hx, rfl⟩ := htarget; exact h3 x hx
    · obtain ⟨x, hx, rfl⟩ := htarget; exact h3 x hx
    · obtain ⟨x, hx, rfl⟩ := htarget; exact h4 x hx
    · obtain ⟨x, hx, rfl⟩ := htarget; exact h5 x hx
    · obtain ⟨x, hx, rfl⟩ := htarget; exact h6 x hx
  · simp [htouch]

/-- the recogniser rejects a drop of a name-filtered column -/
example : nameOk (fun d => !(d.ty == .column && d.name == some "secret"))
    [⟨.dropColumn, none, "t", some "secret", ""⟩] = false := by decide

theorem filter_true' {α : Type} (l : List α) : l.filter (fun _ => true) = l :=
  List.filter_eq_self.mpr (by simp)

theorem visibleTbl_id (nameF : NameDesc → Bool) (t : Tbl)
    (h : untouched nameF [t] t.key = true) : visibleTbl nameF t = t := by
  simp [untouched] at h
  obtain ⟨⟨⟨⟨⟨_, _⟩, hc⟩, hu⟩, hi⟩, hf⟩ := h
  cases t
  simp only [visibleTbl, Tbl.mk.injEq, true_and]
  simp only at hc hu hi hf
  refine ⟨?_, ?_, ?_, ?_⟩
  · exact List.filter_eq_self.mpr (by simpa using hc)
  · exact List.filter_eq_self.mpr (by simpa using hi)
  · exact List.filter_eq_self.mpr (by simpa using hu)
  · exact List.filter_eq_self.mpr (by simpa using hf)

/-- **C20.conservative (name filter).** If `include_name` rejects none of the reflected names
(schemas, tables, columns, indexes, constraints), it changes nothing: the diff is the diff without
a name filter. -/
theorem conservative_name (P : Cmp) (objF : ObjDesc → Bool) (nameF : NameDesc → Bool)
    (schemas : List (Option String)) (conn md : List Tbl)
    (hs : ∀ s ∈ schemas, nameF ⟨s, .schema, none, none⟩ = true)
    (ht : ∀ t ∈ conn, untouched nameF [t] t.key = true) :
    diffF P objF nameF schemas conn md = diffF P objF (fun _ => true) schemas conn md := by
  have hv : visible nameF schemas conn = visible (fun _ => true) schemas conn := by
    have hsch : visibleSchemas nameF schemas = visibleSchemas (fun _ => true) schemas := by
      simp only [visibleSchemas]
      rw [List.filter_eq_self.mpr (by simpa using hs)]
      simp [filter_true']
    simp only [visible]
    have hfilt : conn.filter (tableVisible nameF schemas) = conn.filter (tableVisible (fun _ => true) schemas) := by
      apply List.filter_congr
      intro t htm
      have := ht t htm
      simp [untouched] at this
      simp [tableVisible, hsch, this.1.1.1.1.2]
    rw [hfilt]
    apply List.map_congr_left
    intro t htm
    have htm' : t ∈ conn := (List.mem_filter.mp htm).1
    rw [visibleTbl_id nameF t (ht t htm')]
    cases t
    simp [visibleTbl, filter_true']
  simp only [diffF, hv]

/-- **C20.conservative.** Both filters together, when the name filter rejects no reflected name:
the ops on objects `include_object` accepts are the same as without any filter. -/
theorem conservative (P : Cmp) (objF : ObjDesc → Bool) (nameF : NameDesc → Bool)
    (schemas : List (Option String)) (conn md : List Tbl)
    (hs : ∀ s ∈ schemas, nameF ⟨s, .schema, none, none⟩ = true)
    (ht : ∀ t ∈ conn, untouched nameF [t] t.key = true) :
    diffF P objF nameF schemas conn md =
      (diffF P (fun _ => true) (fun _ => true) schemas conn md).filter
        (objAccepts objF (visible (fun _ => true) schemas conn) md) := by
  rw [conservative_name P objF nameF schemas conn md hs ht]
  exact conservative_object P objF (fun _ => true) schemas conn md

/-! ## per-table conservativeness of the name filter -/

theorem visible_cons (f : NameDesc → Bool) (schemas : List (Option String)) (t : Tbl) (r : List Tbl) :
    visible f schemas (t :: r) =
      if tableVisible f schemas t then visibleTbl f t :: visible f schemas r else visible f schemas r := by
  simp only [visible, List.filter_cons]
  split <;> simp

theorem findTbl_cons (x : Tbl) (l : List Tbl) (k : Key) :
    findTbl (x :: l) k = if x.key == k then some x else findTbl l k := by
  simp only [findTbl, List.find?_cons]
  split <;> simp_all

theorem untouched_cons (nameF : NameDesc → Bool) (x : Tbl) (l : List Tbl) (k : Key) :
    untouched nameF (x :: l) k = (untouched nameF [x] k && untouched nameF l k) := by
  simp [untouched]

theorem visibleTbl_true (t : Tbl) : visibleTbl (fun _ => true) t = t := by
  cases t
  simp [visibleTbl, filter_true']

/-- on a table the name filter does not touch, the name-filtered reflected side and the unfiltered
one hold the same table -/
theorem findTbl_visible_agree (nameF : NameDesc → Bool) (schemas : List (Option String))
    (conn : List Tbl) (k : Key)
    (h : untouched nameF (visible (fun _ => true) schemas conn) k = true) :
    findTbl (visible nameF schemas conn) k = findTbl (visible (fun _ => true) schemas conn) k := by
  induction conn with
  | nil => simp [visible]
  | cons t r ih =>
    rw [visible_cons] at h
    rw [visible_cons nameF, visible_cons (fun _ => true)]
    have hsch : tableVisible (fun _ => true) schemas t = schemas.contains t.schema := by
      simp [tableVisible, visibleSchemas, filter_true']
    by_cases hv : tableVisible (fun _ => true) schemas t = true
    · simp only [hv, if_true] at h ⊢
      rw [untouched_cons, Bool.and_eq_true] at h
      rw [visibleTbl_true] at h ⊢
      by_cases hk : t.key = k
      · -- the table itself: accepted in every respect
        have hu := h.1
        have hid := visibleTbl_id nameF t (by rw [hk]; exact hu)
        simp [untouched, hk] at hu
        have hvn : tableVisible nameF schemas t = true := by
          rw [hsch] at hv
          simp only [tableVisible, visibleSchemas, Bool.and_eq_true, List.contains_iff_mem, List.mem_filter]
          exact ⟨⟨by simpa using hv, hu.1.1.1.1.1⟩, hu.1.1.1.1.2⟩
        simp only [hvn, if_true, hid, findTbl_cons, hk, beq_self_eq_true]
      · have hk' : (t.key == k) = false := by simpa using hk
        have hkv : ((visibleTbl nameF t).key == k) = false := hk'
        by_cases hvn : tableVisible nameF schemas t = true
        · simp only [hvn, if_true, findTbl_cons, hk', hkv, Bool.false_eq_true, if_false]
          exact ih h.2
        · simp only [hvn, Bool.false_eq_true, if_false, findTbl_cons, hk']
          exact ih h.2
    · have hvn : tableVisible nameF schemas t = false := by
        rw [hsch] at hv
        have hv' : schemas.contains t.schema = false := by simpa using hv
        simp only [tableVisible, visibleSchemas]
        have : (List.filter (fun s => nameF ⟨s, .schema, none, none⟩) schemas).contains t.schema = false := by
          rw [Bool.eq_false_iff]
          intro hc
          rw [List.contains_iff_mem] at hc
          have := (List.mem_filter.mp hc).1
          rw [Bool.eq_false_iff] at hv'
          exact hv' (List.contains_iff_mem.mpr this)
        rw [this]
        rfl
      have hv' : tableVisible (fun _ => true) schemas t = false := by simpa using hv
      simp only [hv', hvn, Bool.false_eq_true, if_false] at h ⊢
      exact ih h

/-- **C20.conservative (name filter, per table).** For every table `k` none of whose reflected
names (schema, table, columns, indexes, unique constraints, foreign keys) is rejected by
`include_name`, the ops of the filtered diff inside that table are exactly those of the diff
without a name filter - whatever `include_name` does to other tables. -/
theorem conservative_name_table (P : Cmp) (objF : ObjDesc → Bool) (nameF : NameDesc → Bool)
    (schemas : List (Option String)) (conn md : List Tbl) (k : Key)
    (h : untouched nameF (visible (fun _ => true) schemas conn) k = true) :
    (diffF P objF nameF schemas conn md).filter (fun op => op.key == k) =
      (diffF P objF (fun _ => true) schemas conn md).filter (fun op => op.key == k) := by
  simp only [diffF]
  rw [diffCore_filter_key, diffCore_filter_key, findTbl_visible_agree nameF schemas conn k h]

/-- **C20.conservative (both filters, per table).** Inside a table the name filter does not touch,
the filtered diff is the diff without any filter restricted to the ops whose target and table
`include_object` accepts (descriptors judged on the unfiltered reflected side). -/
theorem conservative_table (P : Cmp) (objF : ObjDesc → Bool) (nameF : NameDesc → Bool)
    (schemas : List (Option String)) (conn md : List Tbl) (k : Key)
    (h : untouched nameF (visible (fun _ => true) schemas conn) k = true) :
    (diffF P objF nameF schemas conn md).filter (fun op => op.key == k) =
      ((diffF P (fun _ => true) (fun _ => true) schemas conn md).filter
        (objAccepts objF (visible (fun _ => true) schemas conn) md)).filter (fun op => op.key == k) := by
  rw [conservative_name_table P objF nameF schemas conn md k h,
    conservative_object P objF (fun _ => true) schemas conn md]

/-! ## locality of the object filter (object granularity: columns, indexes, constraints, tables) -/

theorem count_filter' {α : Type} [BEq α] [LawfulBEq α] (l : List α) (p : α → Bool) (a : α) :
    (l.filter p).count a = if p a then l.count a else 0 := by
  induction l with
  | nil => simp
  | cons x r ih =>
    by_cases hx : p x = true
    · simp only [List.filter_cons, hx, if_true, List.count_cons, ih]
      by_cases hxa : (x == a) = true
      · have : x = a := by simpa using hxa
        subst this; simp [hx]
      · simp [hxa]
    · have hx' : p x = false := by simpa using hx
      simp only [List.filter_cons, hx', Bool.false_eq_true, if_false, ih, List.count_cons]
      by_cases hxa : (x == a) = true
      · have : x = a := by simpa using hxa
        subst this; simp [hx']
      · simp [hxa]

/-- **C20.locality.** How often an op occurs in the filtered diff depends on `include_object` only through
its verdicts on that op's own target and on the table the op lives in: two predicates that agree on those
two descriptors produce that op equally often - whatever they say about every *other* column, index,
constraint or table (a rejected column never suppresses, duplicates or changes the ops of its neighbours). -/
theorem object_locality (P : Cmp) (objF objF' : ObjDesc → Bool) (nameF : NameDesc → Bool)
    (schemas : List (Option String)) (conn md : List Tbl) (op : Op)
    (h1 : objF (targetDescOf (visible nameF schemas conn) md op) = objF' (targetDescOf (visible nameF schemas conn) md op))
    (h2 : objF (tableDescOf (visible nameF schemas conn) md op.key) = objF' (tableDescOf (visible nameF schemas conn) md op.key)) :
    (diffF P objF nameF schemas conn md).count op = (diffF P objF' nameF schemas conn md).count op := by
  rw [conservative_object P objF, conservative_object P objF', count_filter', count_filter']
  simp [objAccepts, h1, h2]

/-- ... in particular an op whose target and table both predicates accept occurs exactly as often as in the
diff without any object filter. -/
theorem accepted_op_count (P : Cmp) (objF : ObjDesc → Bool) (nameF : NameDesc → Bool)
    (schemas : List (Option String)) (conn md : List Tbl) (op : Op)
    (h : objAccepts objF (visible nameF schemas conn) md op = true) :
    (diffF P objF nameF schemas conn md).count op = (diffF P (fun _ => true) nameF schemas conn md).count op := by
  rw [conservative_object P objF, count_filter', h]
  simp

/-- non-vacuity: two columns to add, one rejected; the accepted one is still added exactly once -/
example :
    (diffF ⟨fun _ _ => false, fun _ _ => false, fun _ _ => false, true, fun _ => false⟩
      (fun d => !(d.ty == .column && d.name == some "a")) (fun _ => true) [none]
      [⟨none, "t", ["id"], [], [], []⟩] [⟨none, "t", ["id", "a", "b"], [], [], []⟩]).count
      ⟨.addColumn, none, "t", some "b", ""⟩ = 1 := by decide

end C20
