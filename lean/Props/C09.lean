import Spec.Reverse
namespace C09
open Model.Reverse Spec.Reverse

theorem placeholder : True := trivial

end C09
