import Spec.Reverse
/-!
# C09 — the generated downgrade undoes the generated upgrade

Theorems about `Model.Reverse.Op.reverse` / `reverseInto` (mirror of `reverse()` of every
reversible op class of `alembic/operations/ops.py`, `ModifyTableOps.reverse`,
`UpgradeOps.reverse_into`), for every op tree (arbitrary nesting of `ModifyTableOps`,
arbitrary field values).
-/
namespace C09
open Model.Reverse Spec.Reverse

/-! ## helper lemmas -/

theorem tagsL_append (a b : List Op) : tagsL (a ++ b) = tagsL a ++ tagsL b := by
  induction a with
  | nil => simp [tagsL]
  | cons x xs ih => simp [tagsL, ih, List.append_assoc]

def inv (p : Kind × Bool) : Kind := inverseKind p.1 p.2

mutual
theorem tags_reverse (o r : Op) (h : o.reverse = some r) :
    (tags r).map (·.1) = ((tags o).map inv).reverse := by
  cases o with
  | modifyTable t s ops =>
    simp only [Op.reverse] at h
    cases hr : reverseEach ops with
    | none => simp [hr] at h
    | some rs =>
      simp [hr] at h
      subst h
      simpa [tags] using tagsL_reverseEach ops rs hr
  | createTableComment t s c e =>
    cases e <;> simp [Op.reverse] at h <;> subst h <;> simp [tags, inv, inverseKind]
  | dropColumn t s c kw rev =>
    cases rev <;> simp [Op.reverse] at h
    subst h; simp [tags, inv, inverseKind]
  | dropConstraint n t s ty rev =>
    cases rev <;> simp [Op.reverse] at h
    subst h; simp [tags, inv, inverseKind]
  | createTable t f => simp [Op.reverse] at h; subst h; simp [tags, inv, inverseKind]
  | dropTable n s f c e rev => simp [Op.reverse] at h; subst h; simp [tags, inv, inverseKind]
  | addColumn t s c kw => simp [Op.reverse] at h; subst h; simp [tags, inv, inverseKind]
  | createIndex ix f => simp [Op.reverse, dropIndexOf] at h; subst h; simp [tags, inv, inverseKind]
  | dropIndex n t s f kw rev => simp [Op.reverse] at h; subst h; simp [tags, inv, inverseKind]
  | addConstraint c => simp [Op.reverse] at h; subst h; simp [tags, inv, inverseKind]
  | alterColumn a => simp [Op.reverse] at h; subst h; simp [tags, inv, inverseKind]
  | dropTableComment t s e => simp [Op.reverse] at h; subst h; simp [tags, inv, inverseKind]

theorem tagsL_reverseEach (ops rs : List Op) (h : reverseEach ops = some rs) :
    (tagsL rs.reverse).map (·.1) = ((tagsL ops).map inv).reverse := by
  cases ops with
  | nil => simp [reverseEach] at h; subst h; simp [tagsL]
  | cons o rest =>
    simp only [reverseEach] at h
    cases ho : o.reverse with
    | none => simp [ho] at h
    | some r =>
      cases hrest : reverseEach rest with
      | none => simp [ho, hrest] at h
      | some rs' =>
        simp [ho, hrest] at h
        subst h
        have h1 := tags_reverse o r ho
        have h2 := tagsL_reverseEach rest rs' hrest
        simp [tagsL, tagsL_append, List.map_append, List.reverse_append, h1, h2]
end

/-! ## C09.reverse_order -/

/-- **The downgrade contains the inverse of each upgrade operation, in reverse order**:
for every op tree (any nesting of `ModifyTableOps`) on which `reverse_into` does not raise,
`kinds(downgrade_ops) = reversed(inverse kinds(upgrade_ops))`. -/
theorem reverse_order (ops ds : List Op) (h : reverseInto ops = some ds) :
    kindsL ds = expectedDown (tagsL ops) := by
  unfold reverseInto at h
  cases hr : reverseEach ops with
  | none => simp [hr] at h
  | some rs =>
    simp [hr] at h
    subst h
    have hinv : inv = fun p => inverseKind p.1 p.2 := rfl
    have := tagsL_reverseEach ops rs hr
    rw [hinv] at this
    simpa [kindsL, expectedDown] using this

/-- the checker used on the implementation's output agrees with the statement -/
theorem reverseOrderOk_iff (ups : List (Kind × Bool)) (downs : List Kind) :
    reverseOrderOk ups downs = true ↔ downs = expectedDown ups := by
  simp [reverseOrderOk]

/-- non-vacuity: a nested tree that reverses, and a wrong order that the checker rejects -/
example : reverseInto [.addColumn "t" none ⟨"a", "INTEGER", true, none, none⟩ [],
    .modifyTable "t" none [.createTableComment "t" none (some "c") none,
      .dropTableComment "t" none (some "old")]] ≠ none := by
  simp [reverseInto, reverseEach, Op.reverse]

example : reverseOrderOk [(.addColumn, false), (.createIndex, false)] [.dropColumn, .dropIndex] = false := by
  decide

/-! ## the pairing made by `produce_migrations` -/

mutual
theorem reverse_total (o : Op) (h : reversible o = true) : ∃ r, o.reverse = some r := by
  cases o with
  | dropColumn t s c kw rev =>
    cases rev with
    | none => simp [reversible] at h
    | some col => exact ⟨_, rfl⟩
  | dropConstraint n t s ty rev =>
    cases rev with
    | none => simp [reversible] at h
    | some r => exact ⟨_, rfl⟩
  | createTableComment t s c e => cases e <;> exact ⟨_, rfl⟩
  | modifyTable t s ops =>
    simp [reversible] at h
    obtain ⟨rs, hrs⟩ := reverseEach_total ops h
    exact ⟨.modifyTable t s rs.reverse, by simp [Op.reverse, hrs]⟩
  | createTable t f => exact ⟨_, rfl⟩
  | dropTable n s f c e rev => exact ⟨_, rfl⟩
  | addColumn t s c kw => exact ⟨_, rfl⟩
  | createIndex ix f => exact ⟨_, rfl⟩
  | dropIndex n t s f kw rev => exact ⟨_, rfl⟩
  | addConstraint c => exact ⟨_, rfl⟩
  | alterColumn a => exact ⟨_, rfl⟩
  | dropTableComment t s e => exact ⟨_, rfl⟩

theorem reverseEach_total (ops : List Op) (h : reversibleL ops = true) :
    ∃ rs, reverseEach ops = some rs := by
  cases ops with
  | nil => exact ⟨[], by simp [reverseEach]⟩
  | cons o rest =>
    simp [reversibleL] at h
    obtain ⟨r, hr⟩ := reverse_total o h.1
    obtain ⟨rs, hrs⟩ := reverseEach_total rest h.2
    exact ⟨r :: rs, by simp [reverseEach, hr, hrs]⟩
end

/-- **The migration script autogenerate produces**: whenever every op of the upgrade is reversible
(autogenerate stores the reflected object in every drop op and the `existing_*` values in every
alter op), `_populate_migration_script` succeeds and the downgrade it fills in consists of the
inverse of each upgrade op, in reverse order - for every upgrade tree. -/
theorem populate_order (up : List Op) (h : reversibleL up = true) :
    ∃ down, populate up = some down ∧ kindsL down = expectedDown (tagsL up) := by
  obtain ⟨rs, hrs⟩ := reverseEach_total up h
  refine ⟨rs.reverse, by simp [populate, reverseInto, hrs], ?_⟩
  exact reverse_order up rs.reverse (by simp [reverseInto, hrs])

/-! ## C09.involutive -/

/-- full-strength statement: reversing a reversible op twice gives an op equal to the original
on every field `invoke` reads -/
def involutive_statement : Prop :=
  ∀ o : Op, reversible o = true →
    ∃ r rr, o.reverse = some r ∧ r.reverse = some rr ∧ view rr = view o

/-- F13: `CreateIndexOp('ix','t',['a'], if_not_exists=True).reverse().reverse()` has lost the flag -/
def flagWitness : Op := .createIndex ⟨some "ix", "t", none, ["a"], false, []⟩ (some true)

theorem involutive_flags_counterexample : ¬ involutive_statement := by
  intro h
  obtain ⟨r, rr, h1, h2, h3⟩ := h flagWitness (by simp [flagWitness, reversible])
  simp [flagWitness, Op.reverse, dropIndexOf] at h1
  subst h1
  simp [Op.reverse, dropIndexToIndex] at h2
  subst h2
  simp [view, flagWitness] at h3

/-- F15: a `CreateTableOp` built directly from `Column('email', String, index=True)`: the CREATE INDEX
that `invoke` emits for the derived index is gone after two reversals -/
def indexFlagWitness : Op :=
  .createTable { name := "t", schema := none, cols := [⟨"email", "VARCHAR(50)", true, none, none⟩], cons := [],
                 comment := none, extra := "", ixs := ["ix_t_email|email|False"] } none

theorem involutive_index_counterexample :
    ¬ (∃ r rr, indexFlagWitness.reverse = some r ∧ r.reverse = some rr ∧ view rr = view indexFlagWitness) := by
  intro ⟨r, rr, h1, h2, h3⟩
  simp [indexFlagWitness, Op.reverse] at h1
  subst h1
  simp [Op.reverse] at h2
  subst h2
  simp [view, indexFlagWitness] at h3

theorem roundTrip_idem (c : ConsDef) : c.roundTrip.roundTrip = c.roundTrip := by
  cases c with
  | mk kind name table schema body deferrable initially =>
    cases kind <;> simp [ConsDef.roundTrip]

theorem roundTrip_fields (c : ConsDef) :
    c.roundTrip.name = c.name ∧ c.roundTrip.table = c.table ∧ c.roundTrip.schema = c.schema ∧
    c.roundTrip.kind = c.kind := by
  cases c with
  | mk kind name table schema body deferrable initially refSchema =>
    cases kind <;> simp [ConsDef.roundTrip]

/-- **`from_constraint ∘ to_constraint` keeps where a constraint lives and what it points at**: the source
schema, the referent schema (foreign keys) and the body (columns, referred table and columns, ON UPDATE /
ON DELETE / MATCH), for every constraint kind and all field values. -/
theorem roundTrip_schemas (c : ConsDef) :
    c.roundTrip.schema = c.schema ∧ c.roundTrip.refSchema = c.refSchema ∧ c.roundTrip.body = c.body := by
  cases c with
  | mk kind name table schema body deferrable initially refSchema =>
    cases kind <;> simp [ConsDef.roundTrip]

/-- ... hence reversing a `create_foreign_key` twice - and reversing the drop of a foreign key - gives a
constraint op with the same source schema, the same referent schema and the same body; in particular a
referent schema equal to the source schema is *not* dropped. -/
theorem reverse_fk_schemas (c : ConsDef) :
    ∃ d c', (Op.addConstraint c).reverse = some d ∧ d.reverse = some (Op.addConstraint c') ∧
      c'.schema = c.schema ∧ c'.refSchema = c.refSchema ∧ c'.body = c.body ∧ c'.kind = c.kind := by
  have h1 := roundTrip_schemas c
  have h2 := roundTrip_fields c
  refine ⟨_, c.roundTrip, rfl, ?_, h1.1, h1.2.1, h1.2.2, h2.2.2.2⟩
  simp [Op.reverse]
  exact roundTrip_idem c

theorem reverse_dropFk_schemas (n : Option String) (t : String) (s : Option String) (ty : Option ConsKind)
    (r : ConsDef) :
    ∃ c', (Op.dropConstraint n t s ty (some r)).reverse = some (Op.addConstraint c') ∧
      c'.schema = s ∧ c'.refSchema = r.refSchema ∧ c'.body = r.body := by
  have h := roundTrip_schemas ({ r with name := n, table := t, schema := s } : ConsDef)
  exact ⟨_, rfl, h.1, h.2.1, h.2.2⟩

/-- non-vacuity: a foreign key whose referent schema equals its source schema -/
example : ∃ d c', (Op.addConstraint ⟨.foreignKey, some "fk", "t", some "s2", "a>s2.other.id", none, none, some "s2"⟩).reverse
      = some d ∧ d.reverse = some (Op.addConstraint c') ∧ c'.refSchema = some "s2" := by
  obtain ⟨d, c', h1, h2, _, h4, _⟩ :=
    reverse_fk_schemas ⟨.foreignKey, some "fk", "t", some "s2", "a>s2.other.id", none, none, some "s2"⟩
  exact ⟨d, c', h1, h2, h4⟩

/-! ### index keyword arguments (`postgresql_using`, `sqlite_where`, `postgresql_where`, ...) -/

/-- **Reversing the drop of an index creates it with every keyword argument the drop op holds** (only
`unique`, which `DropIndexOp.from_index` stores next to the dialect kwargs, moves to its own field): a
partial index stays partial. -/
theorem reverse_dropIndex_kw (n : Option String) (t : String) (s : Option String) (f : Option Bool)
    (kw : List (String × String)) (rev : Option IndexDef) :
    ∃ ix, (Op.dropIndex n t s f kw rev).reverse = some (Op.createIndex ix none) ∧
      ix.kw = kw.filter (fun p => p.1 != "unique") ∧ ix.name = n ∧ ix.table = t ∧ ix.schema = s := by
  exact ⟨_, rfl, rfl, rfl, rfl, rfl⟩

/-- **Reversing a `create_index` twice keeps every keyword argument** (and columns, uniqueness, name, table,
schema), whatever the `if_not_exists` flag was. -/
theorem reverse_reverse_createIndex_kw (ix : IndexDef) (f : Option Bool)
    (hk : ∀ p ∈ ix.kw, p.1 ≠ "unique") :
    ∃ d, (Op.createIndex ix f).reverse = some d ∧ d.reverse = some (Op.createIndex ix none) := by
  refine ⟨_, rfl, ?_⟩
  cases ix with
  | mk n t s cols u kw =>
    have hkw : List.filter (fun p => p.1 != "unique") kw = kw := by
      apply List.filter_eq_self.mpr
      intro p hp
      simpa using hk p hp
    cases u <;> simp [Op.reverse, dropIndexOf, dropIndexToIndex, hkw]

/-- non-vacuity: a partial index -/
example : ∃ d, (Op.createIndex ⟨some "ix", "t", none, ["a"], false, [("sqlite_where", "a > 0")]⟩ (some true)).reverse = some d ∧
    d.reverse = some (Op.createIndex ⟨some "ix", "t", none, ["a"], false, [("sqlite_where", "a > 0")]⟩ none) :=
  reverse_reverse_createIndex_kw _ _ (by simp)

/-- **The reverse names what the op made**: same table, schema and object, inverse kind, and for a
constraint the same constraint type (every op kind, every field value). -/
theorem reverse_shape (o r : Op) (h : o.reverse = some r) : undoesShape o r = true := by
  have hf := fun c : ConsDef => roundTrip_fields c
  cases o with
  | modifyTable t s ops =>
    simp only [Op.reverse] at h
    cases hr : reverseEach ops with
    | none => simp [hr] at h
    | some rs => simp [hr] at h; subst h; simp [undoesShape]
  | dropColumn t s c kw rev =>
    cases rev <;> simp [Op.reverse] at h
    subst h; simp [undoesShape]
  | dropConstraint n t s ty rev =>
    cases rev with
    | none => simp [Op.reverse] at h
    | some r0 =>
      simp [Op.reverse] at h; subst h
      have := hf ({ r0 with name := n, table := t, schema := s } : ConsDef)
      simp [undoesShape, this]
  | createTableComment t s c e =>
    cases e <;> simp [Op.reverse] at h <;> subst h <;> simp [undoesShape]
  | addConstraint c =>
    simp [Op.reverse] at h; subst h
    simp [undoesShape, hf c]
  | createTable t f => simp [Op.reverse] at h; subst h; simp [undoesShape]
  | dropTable n s f c e rev => simp [Op.reverse] at h; subst h; simp [undoesShape]
  | addColumn t s c kw => simp [Op.reverse] at h; subst h; simp [undoesShape]
  | createIndex ix f => simp [Op.reverse, dropIndexOf] at h; subst h; simp [undoesShape]
  | dropIndex n t s f kw rev => simp [Op.reverse] at h; subst h; simp [undoesShape, dropIndexToIndex]
  | alterColumn a =>
    simp [Op.reverse] at h; subst h
    cases hn : a.modifyName <;> simp [undoesShape, Alter.reverse, hn]
  | dropTableComment t s e => simp [Op.reverse] at h; subst h; simp [undoesShape]

/-- the recogniser rejects a drop that forgot the constraint type -/
example : undoesShape (.addConstraint ⟨.primaryKey, some "pk", "t", none, "id", none, none, none⟩)
    (.dropConstraint (some "pk") "t" none none none) = false := by decide

theorem alter_rr (a : Alter) (hc : Alter.complete a = true) : a.reverse.reverse = a := by
  rcases a with ⟨t, c, s, eT, eN, eD, eC, mT, mN, mD, mC, mName, kw⟩
  cases mName <;> cases mT <;> cases mN <;> cases mD <;> cases mC <;> cases eC <;> cases eT <;>
    cases eN <;> cases eD <;> simp_all [Alter.complete, Alter.reverse]

theorem reverseEach_append (a b : List Op) :
    reverseEach (a ++ b) =
      match reverseEach a, reverseEach b with
      | some x, some y => some (x ++ y)
      | _, _ => none := by
  induction a with
  | nil => cases h : reverseEach b <;> simp [reverseEach, h]
  | cons o r ih =>
    simp only [List.cons_append, reverseEach, ih]
    cases o.reverse <;> cases reverseEach r <;> cases reverseEach b <;> simp

theorem reverseEach_reverse (l m : List Op) (h : reverseEach l = some m) :
    reverseEach l.reverse = some m.reverse := by
  induction l generalizing m with
  | nil => simp [reverseEach] at h; subst h; simp [reverseEach]
  | cons o r ih =>
    simp only [reverseEach] at h
    cases ho : o.reverse with
    | none => simp [ho] at h
    | some x =>
      cases hr : reverseEach r with
      | none => simp [ho, hr] at h
      | some xs =>
        simp [ho, hr] at h
        subst h
        simp [reverseEach_append, ih xs hr, reverseEach, ho]

theorem filter_unique_idem (kw : List (String × String)) (u : String) :
    List.filter (fun p => p.1 != "unique") (("unique", u) :: List.filter (fun p => p.1 != "unique") kw) =
      List.filter (fun p => p.1 != "unique") kw := by
  simp [List.filter_filter]

theorem dropIndexToIndex_idem (n : Option String) (t : String) (s : Option String)
    (kw : List (String × String)) (rev : Option IndexDef) :
    dropIndexToIndex n t s
      (("unique", if (dropIndexToIndex n t s kw rev).unique then "True" else "False") ::
        (dropIndexToIndex n t s kw rev).kw) (some (dropIndexToIndex n t s kw rev)) =
      dropIndexToIndex n t s kw rev := by
  unfold dropIndexToIndex
  by_cases h : (List.lookup "unique" kw == some "True") = true
  · simp [h, List.filter_filter]
  · simp [h, List.filter_filter]

mutual
theorem involutive_op (o : Op) (hr : reversible o = true) (hc : clean o = true) :
    ∃ r rr, o.reverse = some r ∧ r.reverse = some rr ∧ view rr = view o := by
  cases o with
  | createTable t f =>
    simp [clean] at hc
    obtain ⟨hf, hix⟩ := hc
    subst hf
    cases t
    simp at hix
    subst hix
    exact ⟨_, _, rfl, rfl, by simp [view]⟩
  | dropTable n s f c e rev =>
    simp [clean] at hc
    obtain ⟨hf, hix⟩ := hc
    subst hf
    refine ⟨_, _, rfl, rfl, ?_⟩
    cases rev with
    | none => simp [view, dropTableToTable]
    | some r => simp at hix; simp [view, dropTableToTable, hix]
  | addColumn t s col kw =>
    simp [clean] at hc; subst hc
    exact ⟨_, _, rfl, rfl, by simp [view]⟩
  | dropColumn t s c kw rev =>
    simp [clean] at hc; subst hc
    cases rev with
    | none => simp [reversible] at hr
    | some col =>
      simp [reversible] at hr
      exact ⟨_, _, rfl, rfl, by simp [view, dropColumnToColumn, hr]⟩
  | createIndex ix f =>
    simp [clean] at hc
    obtain ⟨hf, hk⟩ := hc
    subst hf
    refine ⟨_, _, rfl, rfl, ?_⟩
    cases ix with
    | mk n t s cols u kw =>
      have hkw : List.filter (fun p => p.1 != "unique") kw = kw := by
        apply List.filter_eq_self.mpr
        intro p hp
        simpa using hk p.1 p.2 hp
      cases u <;> simp [view, dropIndexToIndex, hkw]
  | dropIndex n t s f kw rev =>
    simp [clean] at hc; subst hc
    refine ⟨_, _, rfl, rfl, ?_⟩
    simp only [view, dropIndexOf]
    have h := dropIndexToIndex_idem n t s kw rev
    have hn : (dropIndexToIndex n t s kw rev).name = n := rfl
    have ht : (dropIndexToIndex n t s kw rev).table = t := rfl
    have hs : (dropIndexToIndex n t s kw rev).schema = s := rfl
    rw [hn, ht, hs, h]
  | addConstraint c =>
    simp [clean, consClean] at hc
    have hf := roundTrip_fields c
    refine ⟨_, _, rfl, rfl, ?_⟩
    simp only [view, hc]
  | dropConstraint n t s ty rev =>
    cases rev with
    | none => simp [reversible] at hr
    | some r =>
      simp [reversible] at hr
      have hf := roundTrip_fields ({ r with name := n, table := t, schema := s } : ConsDef)
      refine ⟨_, _, rfl, rfl, ?_⟩
      simp [view, roundTrip_idem, hf, hr]
  | alterColumn a =>
    simp [reversible] at hr
    exact ⟨_, _, rfl, rfl, by simp [view, alter_rr a hr]⟩
  | createTableComment t s c e =>
    simp [clean] at hc
    cases c with
    | none => simp at hc
    | some cv =>
      cases e with
      | none => exact ⟨_, _, rfl, rfl, by simp [view]⟩
      | some ev => exact ⟨_, _, rfl, rfl, by simp [view]⟩
  | dropTableComment t s e => exact ⟨_, _, rfl, rfl, by simp [view]⟩
  | modifyTable t s ops =>
    simp [reversible] at hr
    simp [clean] at hc
    obtain ⟨rs, rrs, h1, h2, h3⟩ := involutive_list ops hr hc
    have h2' := reverseEach_reverse rs rrs h2
    refine ⟨.modifyTable t s rs.reverse, .modifyTable t s rrs, ?_, ?_, ?_⟩
    · simp [Op.reverse, h1]
    · simp [Op.reverse, h2']
    · simp [view, h3]

theorem involutive_list (ops : List Op) (hr : reversibleL ops = true) (hc : cleanL ops = true) :
    ∃ rs rrs, reverseEach ops = some rs ∧ reverseEach rs = some rrs ∧ viewL rrs = viewL ops := by
  cases ops with
  | nil => exact ⟨[], [], by simp [reverseEach], by simp [reverseEach], rfl⟩
  | cons o rest =>
    simp [reversibleL] at hr
    simp [cleanL] at hc
    obtain ⟨r, rr, h1, h2, h3⟩ := involutive_op o hr.1 hc.1
    obtain ⟨rs, rrs, g1, g2, g3⟩ := involutive_list rest hr.2 hc.2
    exact ⟨r :: rs, rr :: rrs, by simp [reverseEach, h1, g1], by simp [reverseEach, h2, g2],
      by simp [viewL, h3, g3]⟩
end

/-- **Reversing a reversible operation twice gives back the operation** (equal on every field
`invoke` reads), for every op tree, provided the op carries none of the attributes `reverse()` is
known to lose (`clean`: no `if_exists`/`if_not_exists`/add- or drop-column `kw` - F13). Renames
and explicit `deferrable=False` / `initially` are covered. -/
theorem involutive_partial (o : Op) (hr : reversible o = true) (hc : clean o = true) :
    ∃ r rr, o.reverse = some r ∧ r.reverse = some rr ∧ view rr = view o :=
  involutive_op o hr hc

/-- table-level options survive both reversals, falsy values included: a `WITHOUT ROWID` table
(`sqlite_with_rowid=False`) that is dropped, re-created and dropped again -/
example : ∃ r rr,
    (Op.dropTable "t" none none none "[[[\"sqlite_with_rowid\", \"False\"]], [], []]" none).reverse = some r ∧
    r.reverse = some rr ∧
    view rr = view (Op.dropTable "t" none none none "[[[\"sqlite_with_rowid\", \"False\"]], [], []]" none) :=
  involutive_partial _ (by simp [reversible]) (by simp [clean])

/-- non-vacuity: a reversible, clean alter-column with every attribute modified, and a rename -/
def fullAlter : Op :=
  .alterColumn {
    table := "t", column := "c", schema := some "s", existingType := some "INTEGER",
    existingNullable := some true, existingDefault := Tri.null, existingComment := none,
    modifyType := some "VARCHAR(10)", modifyNullable := some false, modifyDefault := Tri.val "0",
    modifyComment := Tri.val "x", modifyName := some "d", kw := [] }

example : reversible fullAlter = true ∧ clean fullAlter = true := by
  simp [fullAlter, reversible, clean, Alter.complete]

/-! ## C09.undo — on the abstract schema semantics -/

section undo
variable {α β : Type} [DecidableEq α]

theorem upd_same (f : α → Option β) (k : α) (v : Option β) : upd f k v k = v := by
  simp [upd]

theorem upd_upd (f : α → Option β) (k : α) (v w : Option β) : upd (upd f k v) k w = upd f k w := by
  funext x
  by_cases h : x = k <;> simp [upd, h]

theorem upd_eq_self (f : α → Option β) (k : α) (v : Option β) (h : f k = v) : upd f k v = f := by
  funext x
  by_cases hx : x = k
  · subst hx; simp [upd, h]
  · simp [upd, hx]
end undo

theorem onTable_eq_some {db : DB} {k : TKey} {f : TState → Option TState} {db' : DB}
    (h : onTable db k f = some db') :
    ∃ t t', db k = some t ∧ f t = some t' ∧ db' = upd db k (some t') := by
  unfold onTable at h
  cases hk : db k with
  | none => simp [hk] at h
  | some t =>
    simp [hk] at h
    obtain ⟨t', ht', rfl⟩ := h
    exact ⟨t, t', rfl, ht', rfl⟩

theorem onTable_some {db : DB} {k : TKey} {f : TState → Option TState} {t t' : TState}
    (h : db k = some t) (hf : f t = some t') : onTable db k f = some (upd db k (some t')) := by
  simp [onTable, h, hf]

/-- undoing on a table: if the forward op turned `t` into `t'` and the reverse turns `t'` back
into `t`, the database is restored -/
theorem undo_onTable {db : DB} {k : TKey} {t t' : TState} {g : TState → Option TState}
    (hk : db k = some t) (hg : g t' = some t) :
    onTable (upd db k (some t')) k g = some db := by
  rw [onTable_some (upd_same db k (some t')) hg, upd_upd, upd_eq_self db k (some t) hk]

theorem rename_cols_back (f : String → Option Col) (c n : String) (X col : Col) (hne : c ≠ n)
    (hc : f c = some col) (hn : f n = none) :
    upd (upd (upd (upd f c none) n (some X)) n none) c (some col) = f := by
  funext x
  by_cases h1 : x = c
  · subst h1; simp [upd, hc]
  · by_cases h2 : x = n
    · subst h2; simp [upd, h1, hn]
    · simp [upd, h1, h2]

/-- **Each reversed op undoes the op** on the abstract schema semantics: for every leaf op kind,
every field value and every database state on which the op is applicable and whose stored
`_reverse` / `existing_*` describe that state, applying `reverse o` after `o` restores the state
exactly.  Renames included: the reverse of a rename operates on the new name and renames back. -/
theorem undo_leaf_partial (o : Op) (db db' : DB)
    (happ : apply o db = some db') (hacc : accurate o db) :
    ∃ r, o.reverse = some r ∧ apply r db' = some db := by
  cases o with
  | modifyTable t s ops => simp [apply] at happ
  | createTable t f =>
    refine ⟨_, rfl, ?_⟩
    simp only [apply] at happ
    split at happ
    · simp at happ
    · rename_i hk
      simp at happ hk
      subst happ
      simp [apply, upd_same, upd_upd, upd_eq_self db _ none hk]
  | dropTable n s f c e rev =>
    refine ⟨_, rfl, ?_⟩
    obtain ⟨t, hk, ht⟩ := hacc
    simp [apply, hk] at happ
    subst happ
    simp only [apply, upd_same]
    simp [upd_upd]
    apply upd_eq_self
    rw [hk, ht]
    rfl
  | addColumn t s col kw =>
    refine ⟨_, rfl, ?_⟩
    obtain ⟨T, T', hk, hf, rfl⟩ := onTable_eq_some happ
    split at hf
    · simp at hf
    · rename_i hc
      simp at hf hc
      subst hf
      apply undo_onTable hk
      simp [upd_same, upd_upd, upd_eq_self T.cols _ none hc]
  | dropColumn t s c kw rev =>
    obtain ⟨T, col, hk, hrev, hname, hcol⟩ := hacc
    subst hrev
    refine ⟨_, rfl, ?_⟩
    obtain ⟨T0, T', hk0, hf, rfl⟩ := onTable_eq_some happ
    rw [hk] at hk0; cases hk0
    simp [hcol] at hf
    subst hf
    apply undo_onTable hk
    subst hname
    simp [upd_same, upd_upd, upd_eq_self T.cols _ _ hcol]
  | createIndex ix f =>
    refine ⟨_, rfl, ?_⟩
    obtain ⟨T, T', hk, hf, rfl⟩ := onTable_eq_some happ
    split at hf
    · simp at hf
    · rename_i hc
      simp at hf hc
      subst hf
      simp only [dropIndexOf, apply]
      apply undo_onTable hk
      simp [upd_same, upd_upd, upd_eq_self T.idxs _ none hc]
  | dropIndex n t s f kw rev =>
    obtain ⟨T, hk, hix⟩ := hacc
    refine ⟨_, rfl, ?_⟩
    obtain ⟨T0, T', hk0, hf, rfl⟩ := onTable_eq_some happ
    rw [hk] at hk0; cases hk0
    simp [hix] at hf
    subst hf
    have hn' : (dropIndexToIndex n t s kw rev).name = n := rfl
    have ht' : (dropIndexToIndex n t s kw rev).table = t := rfl
    have hs' : (dropIndexToIndex n t s kw rev).schema = s := rfl
    simp only [apply, hn', ht', hs']
    apply undo_onTable hk
    simp [upd_same, upd_upd, upd_eq_self T.idxs _ _ hix]
  | addConstraint c =>
    refine ⟨_, rfl, ?_⟩
    obtain ⟨T, T', hk, hf, rfl⟩ := onTable_eq_some happ
    split at hf
    · simp at hf
    · rename_i hc
      simp at hf hc
      subst hf
      have hfld := roundTrip_fields c
      simp only [apply, hfld.1, hfld.2.1, hfld.2.2.1]
      apply undo_onTable hk
      simp [upd_same, upd_upd, upd_eq_self T.cons _ none hc]
  | dropConstraint n t s ty rev =>
    obtain ⟨T, r, hk, hrev, hc⟩ := hacc
    subst hrev
    refine ⟨_, rfl, ?_⟩
    obtain ⟨T0, T', hk0, hf, rfl⟩ := onTable_eq_some happ
    rw [hk] at hk0; cases hk0
    simp [hc] at hf
    subst hf
    have hfld := roundTrip_fields ({ r with name := n, table := t, schema := s } : ConsDef)
    simp only [apply, hfld.1, hfld.2.1, hfld.2.2.1]
    apply undo_onTable hk
    simp [upd_same, upd_upd, upd_eq_self T.cons _ _ hc]
  | alterColumn a =>
    obtain ⟨T, col, hk, hcol, hT, hN, hD, hC, hNm⟩ := hacc
    refine ⟨_, rfl, ?_⟩
    obtain ⟨T0, T', hk0, hf, rfl⟩ := onTable_eq_some happ
    rw [hk] at hk0; cases hk0
    have hback : alterCol a.reverse (alterCol a col) = col := by
      rcases a with ⟨t, c, s, eT, eN, eD, eC, mT, mN, mD, mC, mName, kw⟩
      rcases col with ⟨cn, cty, cnull, cdef, ccom⟩
      simp at hT hN hD hC
      cases mT <;> cases mN <;> cases mD <;> cases mC <;> cases cdef <;> cases ccom <;>
        simp_all [alterCol, Alter.reverse, triToOpt]
    have h1 : a.reverse.table = a.table := rfl
    have h2 : a.reverse.schema = a.schema := rfl
    cases hmn : a.modifyName with
    | none =>
      simp [hcol, hmn] at hf
      subst hf
      have h3 : a.reverse.column = a.column := by simp [Alter.reverse, hmn]
      have h4 : a.reverse.modifyName = none := by simp [Alter.reverse, hmn]
      simp only [apply, h1, h2, h3]
      apply undo_onTable hk
      simp only [upd_same, h4, upd_upd]
      rw [hback, upd_eq_self T.cols _ _ hcol]
    | some n =>
      simp only [hcol, hmn] at hf
      split at hf
      · simp at hf
      · rename_i hfree
        simp at hf hfree
        subst hf
        have hname : col.name = a.column := hNm (by simp [hmn])
        have hne : a.column ≠ n := by
          intro h; rw [h] at hcol; rw [hcol] at hfree; simp at hfree
        have h3 : a.reverse.column = n := by simp [Alter.reverse, hmn]
        have h4 : a.reverse.modifyName = some a.column := by simp [Alter.reverse, hmn]
        simp only [apply, h1, h2, h3]
        apply undo_onTable hk
        have hc' : upd (upd T.cols a.column none) n (some { alterCol a col with name := n }) a.column = none := by
          simp [upd, hne]
        simp only [upd_same, h4, hc', Option.isSome_none, Bool.false_eq_true, if_false]
        have hcolb : ({ alterCol a.reverse { alterCol a col with name := n } with name := a.column } : Col) = col := by
          have : alterCol a.reverse { alterCol a col with name := n } = { alterCol a.reverse (alterCol a col) with name := n } := by
            simp [alterCol]
          rw [this, hback]
          cases col
          simp_all
        rw [hcolb, rename_cols_back T.cols a.column n _ col hne hcol hfree]
  | createTableComment t s c e =>
    obtain ⟨T, hk, hcm⟩ := hacc
    obtain ⟨T0, T', hk0, hf, rfl⟩ := onTable_eq_some happ
    rw [hk] at hk0; cases hk0
    simp at hf
    subst hf
    cases e with
    | none =>
      refine ⟨_, rfl, ?_⟩
      simp only [apply]
      apply undo_onTable hk
      cases T; simp_all
    | some ev =>
      refine ⟨_, rfl, ?_⟩
      simp only [apply]
      apply undo_onTable hk
      cases T; simp_all
  | dropTableComment t s e =>
    obtain ⟨T, hk, hcm⟩ := hacc
    obtain ⟨T0, T', hk0, hf, rfl⟩ := onTable_eq_some happ
    rw [hk] at hk0; cases hk0
    simp at hf
    subst hf
    refine ⟨_, rfl, ?_⟩
    simp only [apply]
    apply undo_onTable hk
    cases T; simp_all

/-- non-vacuity: a rename on a concrete database is applicable and accurate, so the theorem
applies to it (and its reverse renames back) -/
def renameWitness : Op :=
  .alterColumn { table := "t", column := "c", schema := none, existingType := none, existingNullable := none,
                 existingDefault := .unset, existingComment := none, modifyType := none, modifyNullable := none,
                 modifyDefault := .unset, modifyComment := .unset, modifyName := some "d", kw := [] }

def renameDb : DB := fun k =>
  if k = (none, "t") then
    some { cols := fun n => if n = "c" then some ⟨"c", "INTEGER", true, none, none⟩ else none,
           idxs := fun _ => none, cons := fun _ => none, comment := none, extra := "" }
  else none

example : (∃ db', apply renameWitness renameDb = some db') ∧ accurate renameWitness renameDb := by
  refine ⟨by simp [renameWitness, apply, onTable, renameDb], ?_⟩
  refine ⟨_, ⟨"c", "INTEGER", true, none, none⟩, by simp [renameWitness, renameDb]; rfl, by simp [renameWitness], ?_⟩
  simp [renameWitness]

/-! ### whole upgrade lists (flattened: `ModifyTableOps` only groups ops) -/

def applyAll : List Op → DB → Option DB
  | [], db => some db
  | o :: r, db => (apply o db).bind (applyAll r)

/-- every op is accurate for the state it is executed on -/
def accurateAll : List Op → DB → Prop
  | [], _ => True
  | o :: r, db => accurate o db ∧ ∀ db', apply o db = some db' → accurateAll r db'

theorem applyAll_append (a b : List Op) (db : DB) :
    applyAll (a ++ b) db = (applyAll a db).bind (applyAll b) := by
  induction a generalizing db with
  | nil => simp [applyAll]
  | cons o r ih =>
    simp only [List.cons_append, applyAll]
    cases apply o db <;> simp [ih]

/-- **The downgrade undoes the upgrade** on the abstract semantics: for every list of leaf ops
(renames included) that executes from `db` to `db'` with accurate stored reverses, `reverse_into`
succeeds and executing its result from `db'` gives back exactly `db`. -/
theorem undo_all_partial (ops : List Op) (db db' : DB)
    (happ : applyAll ops db = some db') (hacc : accurateAll ops db) :
    ∃ ds, reverseInto ops = some ds ∧ applyAll ds db' = some db := by
  induction ops generalizing db with
  | nil =>
    simp [applyAll] at happ
    subst happ
    exact ⟨[], by simp [reverseInto, reverseEach], by simp [applyAll]⟩
  | cons o rest ih =>
    simp only [applyAll] at happ
    cases h1 : apply o db with
    | none => simp [h1] at happ
    | some db1 =>
      simp [h1] at happ
      obtain ⟨r, hr, hback⟩ := undo_leaf_partial o db db1 h1 hacc.1
      obtain ⟨ds, hds, hback2⟩ := ih db1 happ (hacc.2 db1 h1)
      unfold reverseInto at hds ⊢
      cases hre : reverseEach rest with
      | none => simp [hre] at hds
      | some rs =>
        simp [hre] at hds
        subst hds
        refine ⟨rs.reverse ++ [r], by simp [reverseEach, hr, hre], ?_⟩
        rw [applyAll_append, hback2]
        simp [applyAll, hback]

end C09
