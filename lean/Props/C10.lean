import Lemmas.Batch.Create
import Lemmas.Batch.State
import Lemmas.Batch.Topo
import Props.C11
/-!
# C10 — batch move-and-copy keeps every row and everything it was not told to change

`Model.Batch.State` mirrors `ApplyBatchImpl` (one function per batch operation), `State.plan` what
`_create` needs from it, `Model.Batch.create` the statement sequence on the abstract SQLite.  The theorems
quantify over every conversion table, every table (schema and rows), every operation sequence, both
`reflected` settings, every `partial_reordering` argument, every schema label; "accepted" = the run ends without exception.
-/
namespace C10
open Model.Batch Lemmas.Batch Spec.Batch

/-- **C10.rowcount / C10.no_tmp / rows.**  An accepted recreate leaves no temporary table, the table under
the original name exists, has as many rows as before, and its rows are, in order, the projections of the
original rows through the `INSERT … SELECT` feeds — under every connection mode (pysqlite legacy, AUTOCOMMIT, explicit BEGIN)
and for both values of `transactional_ddl` (a field of the plan that `_create` never reads). -/
theorem rows (ct : ConvTable) (p : Plan) (mode : ConnMode) (db0 : Db) (t0 : Tbl) (h0 : db0.orig = some t0)
    (hok : (C11.run ct none p db0 mode).2 = none) :
    (C11.final ct none false p db0 mode).tmp = none ∧
    ∃ t, (C11.final ct none false p db0 mode).orig = some t ∧ t.rows = t0.rows.map (project ct t0.schema.cols p.feeds) :=
  C11.success_no_tmp ct none false p mode db0 t0 h0 hok

theorem rowcount (ct : ConvTable) (p : Plan) (mode : ConnMode) (db0 : Db) (t0 : Tbl) (h0 : db0.orig = some t0)
    (hok : (C11.run ct none p db0 mode).2 = none) :
    ∃ t, (C11.final ct none false p db0 mode).orig = some t ∧ t.rows.length = t0.rows.length := by
  obtain ⟨_, t, ht, hr⟩ := rows ct p mode db0 t0 h0 hok
  exact ⟨t, ht, by rw [hr, List.length_map]⟩

theorem no_tmp (ct : ConvTable) (p : Plan) (mode : ConnMode) (db0 : Db) (t0 : Tbl) (h0 : db0.orig = some t0)
    (hok : (C11.run ct none p db0 mode).2 = none) :
    (C11.final ct none false p db0 mode).tmp = none ∧ (C11.final ct none false p db0 mode).orig.isSome = true := by
  obtain ⟨h, t, ht, _⟩ := rows ct p mode db0 t0 h0 hok
  exact ⟨h, by rw [ht]; rfl⟩

/-! ## values: which old column feeds which new column -/

/-- the `INSERT … SELECT` expression for the column with batch key `k` -/
def feedOf (st : State) (k : String) : Option Expr := (alookup k st.transfers).bind (·.expr)

/-- full-strength statement: every original column that no `drop_column` names is still copied from itself -/
def values_statement : Prop :=
  ∀ (tn : String) (refl : Bool) (s : Schema) (ops : List BatchOp) (st : State) (k : String),
    k ∈ s.cols.map (·.name) → (∀ o ∈ ops, o ≠ .dropColumn k) →
    (State.init tn refl s).applyOps ops = .ok st → ∃ e, feedOf st k = some e ∧ e.base = k

/-- Witness (finding C10-F2): `add_column(Column('a', Integer))` on a table that has a column `a`: the batch is
accepted, `column_transfers['a']` becomes `{}` and the INSERT no longer copies `a`. -/
def w_ops2 : List BatchOp :=
  [.addColumn { name := "a", ty := "INTEGER", aff := "Integer", nullable := true, default := none, dval := .null, pk := false } none none false]

def w_st2 : State :=
  match (State.init "t" true C11.w_t0.schema).applyOps w_ops2 with
  | .ok st => st
  | .error _ => State.init "t" true C11.w_t0.schema

theorem overwritten_column_counterexample : ¬ values_statement := by
  intro h
  have hrun : (State.init "t" true C11.w_t0.schema).applyOps w_ops2 = .ok w_st2 := by rfl
  obtain ⟨e, he, _⟩ := h "t" true C11.w_t0.schema w_ops2 w_st2 "a" (by decide) (by decide) hrun
  have hnone : feedOf w_st2 "a" = none := by decide
  rw [hnone] at he
  cases he

/-- **C10.values (partial).** Every original column `k` that no operation drops, and whose key no `add_column`
re-uses, is still copied from the old column `k` (through the casts requested by type changes, if any):
`column_transfers` never points a column at another column's data and never loses a source.
Missing for the full statement: `add_column` silently replaces an existing column of the same name (C10-F2). -/
theorem values_partial (tn : String) (refl : Bool) (s : Schema) (ops : List BatchOp) (pr : List (List String)) (sl : String) (st : State) (k : String)
    (hk : k ∈ s.cols.map (·.name)) (ht : ∀ o ∈ ops, touches k o = false)
    (hok : (State.init tn refl s pr sl).applyOps ops = .ok st) : ∃ e, feedOf st k = some e ∧ e.base = k := by
  obtain ⟨tr, e, h1, h2, h3⟩ := survives_applyOps ops _ _ (init_verbatim tn refl s k hk pr sl).survives ht hok
  exact ⟨e, by simp [feedOf, h1, h2], h3⟩

/-- **C10.values.** … and when no operation changes its type either, the column is copied verbatim: for every
row the new cell is the old cell (`feedValue` of the verbatim feed into a column of the same declared type). -/
theorem values (tn : String) (refl : Bool) (s : Schema) (ops : List BatchOp) (pr : List (List String)) (sl : String) (st : State) (k : String)
    (hk : k ∈ s.cols.map (·.name)) (ht : ∀ o ∈ ops, touches k o = false) (hr : ∀ o ∈ ops, retypes k o = false)
    (hok : (State.init tn refl s pr sl).applyOps ops = .ok st) :
    feedOf st k = some (.col k) ∧
    ∀ (ct : ConvTable) (c : ColDef) (row : Row), c.computed = none → srcType s.cols k = some c.ty →
      feedValue ct s.cols row (c, some (.col k)) = cell s.cols row k := by
  obtain ⟨tr, h1, h2⟩ := verbatim_applyOps ops _ _ (init_verbatim tn refl s k hk pr sl) ht hr hok
  refine ⟨by simp [feedOf, h1, h2], ?_⟩
  intro ct c row hc hty
  simp [feedValue, evalExpr, Expr.base, hty, hc]

/-- **Generated columns.**  A column that is generated in the new table (`Computed` / `GENERATED ALWAYS AS`) is never
part of the `INSERT … SELECT` column list, whatever `column_transfers` says about it (the expression is opaque in the
model: the database recomputes the value from the copied row); every other column of the new table is fed exactly by
its `column_transfers` entry. -/
theorem generated_not_copied (st : State) (f : ColDef × Option Expr) (hf : f ∈ st.feeds) :
    (f.1.computed.isSome = true → f.2 = none) ∧
    (f.1.computed = none → ∃ k, (k, f.1) ∈ st.columns ∧ f.2 = feedOf st k) := by
  simp only [State.feeds, List.mem_map] at hf
  obtain ⟨p, hp, rfl⟩ := hf
  constructor
  · intro h; simp [h]
  · intro h
    have h' : p.2.computed = none := h
    refine ⟨p.1, hp, ?_⟩
    simp only [h', Option.isSome_none, Bool.false_eq_true, if_false, feedOf]
    cases alookup p.1 st.transfers <;> rfl

/-- … and in every copied row the cell of a generated column is the placeholder for "recomputed by the database" -/
theorem generated_value (ct : ConvTable) (cols : List ColDef) (row : Row) (f : ColDef × Option Expr)
    (h : f.1.computed.isSome = true) : feedValue ct cols row f = generatedValue := by
  simp [feedValue, h]

/-! ## column order (`insert_before` / `insert_after`) -/

/-- **C10.order_perm.** The reordering of `_adjust_self_columns_for_partial_reordering` neither loses nor
duplicates a column: SQLAlchemy's `topological.sort` (mirrored as `sortLevels`) returns a permutation. -/
theorem order_perm (pairs : List (String × String)) (items out : List String)
    (h : topoSort pairs items = some out) : out.Perm items :=
  sortLevels_perm pairs _ _ _ h

/-- **C10.order_respects.** … and it is a linear extension of every ordering pair between two columns: the
chain of the existing columns (so surviving columns keep their relative order) and every
`insert_before` / `insert_after` pair recorded in `add_col_ordering`. -/
theorem order_respects (pairs : List (String × String)) (items out : List String) (a b : String)
    (h : topoSort pairs items = some out) (hp : (a, b) ∈ pairs) (ha : a ∈ items) (hb : b ∈ items) :
    [a, b].Sublist out :=
  sortLevels_respects pairs a b hp _ _ _ h ha hb

/-- **C10.order (fuel sufficiency).**  The fuel of the mirror (`items.length` rounds) never runs out: the sort
returns `none` (= `CircularDependencyError` → the batch is rejected) only on a genuine cycle, i.e. a non-empty
sub-collection of the columns each member of which has a parent inside it.  Together with `order_perm` and
`order_respects`: for every pair list and every item list the sort either rejects a real cycle or returns a
permutation that is a linear extension — no fuel caveat. -/
theorem order_fuel (pairs : List (String × String)) (items : List String) (h : topoSort pairs items = none) :
    ∃ stuck, stuck ≠ [] ∧ (∀ x ∈ stuck, x ∈ items) ∧ levelOutput pairs stuck = [] :=
  topoSort_none pairs items h

/-- … and such a stuck sub-collection is never released by any round, whatever else is still to do -/
theorem order_cycle_never_released (pairs : List (String × String)) (stuck todo : List String)
    (hs : levelOutput pairs stuck = []) (hsub : ∀ x ∈ stuck, x ∈ todo) : ∀ x ∈ stuck, x ∉ levelOutput pairs todo :=
  levelOutput_stuck hs hsub

/-- the two theorems instantiated at the model's `reorder` -/
theorem reorder_order (st st' : State) (hne : (st.partialReordering.isEmpty && st.addColOrdering.isEmpty) = false)
    (h : st.reorder = .ok st') :
    ∃ sorted, topoSort (orderingPairs st) (akeys st.columns) = some sorted ∧ sorted.Perm (akeys st.columns) ∧
      ∀ a b, (a, b) ∈ orderingPairs st → a ∈ akeys st.columns → b ∈ akeys st.columns → [a, b].Sublist sorted := by
  unfold State.reorder at h
  simp only [hne, Bool.false_eq_true, if_false] at h
  split at h
  · cases h
  · rename_i sorted hs
    exact ⟨sorted, hs, order_perm _ _ _ hs, fun a b hp ha hb => order_respects _ _ _ a b hs hp ha hb⟩

/-! ## requested constraints -/

/-- full-strength statement: a UNIQUE constraint requested by the last operation of an accepted batch is in
the new table -/
def added_constraint_statement : Prop :=
  ∀ (tn : String) (refl : Bool) (s : Schema) (ops : List BatchOp) (c : Const) (st : State),
    c.kind = .unique → (State.init tn refl s).applyOps (ops ++ [.addConstraint c]) = .ok st →
    ∃ u ∈ st.newSchema.uniques, u.name = c.name

/-- Witness (finding C10-F1): rename `a` to `b`, then `create_unique_constraint('uq_b', ['b'])`: the batch is
accepted and the constraint is silently omitted (`const_columns ⊄ column_transfers`, whose keys are the old
names). -/
def w_ops1 : List BatchOp := [.alterColumn "a" (some "b") none none .keep]
def w_c1 : Const := { kind := .unique, name := some "uq_b", cols := ["b"] }

def w_st1 : State :=
  match (State.init "t" true C11.w_t0.schema).applyOps (w_ops1 ++ [.addConstraint w_c1]) with
  | .ok st => st
  | .error _ => State.init "t" true C11.w_t0.schema

theorem added_constraint_counterexample : ¬ added_constraint_statement := by
  intro h
  have hrun : (State.init "t" true C11.w_t0.schema).applyOps (w_ops1 ++ [.addConstraint w_c1]) = .ok w_st1 := by rfl
  obtain ⟨u, hu, _⟩ := h "t" true C11.w_t0.schema w_ops1 w_c1 w_st1 rfl hrun
  have hnone : w_st1.newSchema.uniques = [] := by decide
  rw [hnone] at hu
  cases hu

theorem mem_aset_self {α : Type} (k : String) (v : α) (l : List (String × α)) : (k, v) ∈ aset k v l := by
  induction l with
  | nil => simp [aset]
  | cons p r ih =>
    by_cases h : p.1 = k
    · simp [aset, h]
    · simp [aset, h, ih]

/-- **C10.schema (requested constraint, partial).** A UNIQUE constraint requested by `add_constraint` is in
the schema of the new table, over the final names of its columns, *provided* every column it names is a key of
`column_transfers` (the original name of a surviving column, or an added column).
Missing for the full statement: a constraint that names a column by the new name given earlier in the same
batch, or a column that does not exist, is silently omitted (C10-F1). -/
theorem added_constraint_partial (st st' : State) (c : Const) (hk : c.kind = .unique)
    (hadd : st.addConstraint c = .ok st') (hkeys : st'.constKept c = true) :
    ∃ u ∈ st'.newSchema.uniques, u.name = c.name ∧ u.cols = c.cols.map st'.finalName := by
  cases hn : c.name with
  | none => simp [State.addConstraint, hn] at hadd
  | some n =>
    simp only [State.addConstraint, hn] at hadd
    injection hadd with hadd
    subst hadd
    refine ⟨State.mapCols _ c, ?_, by simp [State.mapCols, hn], rfl⟩
    simp only [State.newSchema, List.mem_map]
    refine ⟨c, ?_, rfl⟩
    simp only [List.mem_filter, State.keptConsts, List.mem_append, List.mem_map]
    exact ⟨⟨.inl ⟨(n, c), mem_aset_self n c st.named, rfl⟩, hkeys⟩, by simp [hk]⟩

/-! ## untouched constraints: the central "everything it was not told to change" clause -/

/-- what it means for a table constraint of the original table to be carried into the new table: it is in the
schema of `CREATE TABLE _alembic_tmp_<t>`, in the list of its kind, with the same name, text, referent — over the
final names of its columns (`mapCols` only rewrites `cols` through `finalName`) -/
def CarriedOver (st : State) (c : Const) : Prop :=
  c ∈ st.keptConsts ∧
  (c.kind = .unique → st.mapCols c ∈ st.newSchema.uniques) ∧
  (c.kind = .check → st.mapCols c ∈ st.newSchema.checks) ∧
  (c.kind = .fk → st.mapCols c ∈ st.newSchema.fks)

/-- **C10.schema (untouched named constraints).**  For every table, both `reflected` settings and every accepted
operation sequence: a *named* UNIQUE / CHECK / FOREIGN KEY constraint of the original table
* whose name is unique among the table's constraints,
* all of whose columns are columns of the table that no operation drops or re-adds (`touches`), and
* that no operation names (`drop_constraint(n)`, `add_constraint` of a constraint called `n`)
is carried into the new table with the same definition, over the final names of its columns.
The two things the code drops *by design* are exactly the negations of the hypotheses: an unnamed constraint is
not covered (`c.name = some n`; unnamed reflected CHECKs are skipped in `_grab_table_elements`), and a constraint
one of whose columns is dropped is omitted (`const_columns ⊄ column_transfers`). -/
theorem kept_constraints (tn : String) (refl : Bool) (s : Schema) (ops : List BatchOp) (pr : List (List String)) (sl : String) (st : State) (c : Const) (n : String)
    (hc : c ∈ tableConstraints s) (hn : c.name = some n)
    (huniq : ∀ c' ∈ tableConstraints s, c'.name = some n → c' = c)
    (hcols : ∀ k ∈ c.cols, k ∈ s.cols.map (·.name) ∧ ∀ o ∈ ops, touches k o = false)
    (hops : ∀ o ∈ ops, mentionsConst n o = false)
    (hok : (State.init tn refl s pr sl).applyOps ops = .ok st) : CarriedOver st c := by
  have h0 : alookup n (State.init tn refl s pr sl).named = some c := by
    simp only [State.init, grabConstraints]
    exact grab_named_lookup refl n c hn _ _ huniq (.inl hc)
  have h1 : alookup n st.named = some c :=
    named_kept_applyOps ops _ _ h0 (fun o ho k hk => (hcols k hk).2 o ho) hops hok
  obtain ⟨k', hm⟩ := mem_of_alookup h1
  have hkept : st.constKept c = true := by
    unfold State.constKept
    rw [List.all_eq_true]
    intro k hk
    obtain ⟨tr, e, hl, _, _⟩ := survives_applyOps ops _ _ (init_verbatim tn refl s k (hcols k hk).1 pr sl).survives (hcols k hk).2 hok
    exact ahas_of_alookup hl
  have hmem : c ∈ st.keptConsts := by
    simp only [State.keptConsts, List.mem_filter, List.mem_append, List.mem_map]
    exact ⟨.inl ⟨(k', c), hm, rfl⟩, hkept⟩
  refine ⟨hmem, ?_, ?_, ?_⟩ <;>
  · intro hk
    simp only [State.newSchema, List.mem_map]
    exact ⟨c, List.mem_filter.mpr ⟨hmem, by simp [hk]⟩, rfl⟩

/-- **C10.schema (textual CHECK constraints).**  A named CHECK constraint whose SQL is a `text()` clause — every reflected CHECK, every
CHECK given as a string — has no column objects (`cols = []`).  For every table and every accepted operation sequence that does not name it,
it is carried into the new table with its text unchanged, **whatever its text is and whichever columns the batch drops or renames**: in
particular a CHECK whose SQL merely *contains* the name of a dropped column as a substring (`min_qty > 0` when `qty` is dropped) is kept.
(Whether SQLite then accepts the new table is decided from the identifiers the text mentions, `Const.mentions`, tokenised by the harness —
never by substring.) -/
theorem kept_textual_check (tn : String) (refl : Bool) (s : Schema) (ops : List BatchOp) (pr : List (List String)) (sl : String)
    (st : State) (c : Const) (n : String)
    (hc : c ∈ tableConstraints s) (hn : c.name = some n) (hk : c.kind = .check) (htext : c.cols = [])
    (huniq : ∀ c' ∈ tableConstraints s, c'.name = some n → c' = c)
    (hops : ∀ o ∈ ops, mentionsConst n o = false)
    (hok : (State.init tn refl s pr sl).applyOps ops = .ok st) :
    ∃ c' ∈ st.newSchema.checks, c'.name = c.name ∧ c'.text = c.text ∧ c'.mentions = c.mentions := by
  have h := kept_constraints tn refl s ops pr sl st c n hc hn huniq (by rw [htext]; intro k hk'; cases hk') hops hok
  exact ⟨st.mapCols c, h.2.2.1 hk, rfl, rfl, rfl⟩

/-- the table's own `PrimaryKeyConstraint` object (every SQLAlchemy `Table` has one, possibly empty) -/
def tablePk (s : Schema) : Const :=
  match s.pk with
  | some p => { p with isTablePk := true }
  | none => { kind := .pk, name := none, cols := [], isTablePk := true }

theorem tableConstraints_eq (s : Schema) : tableConstraints s = tablePk s :: (s.uniques ++ s.checks ++ s.fks) := by
  unfold tableConstraints tablePk
  cases s.pk <;> simp

/-- **C10.schema (untouched primary key).**  For every well-formed table (the PRIMARY KEY entry has kind `pk`, the
UNIQUE/CHECK/FK entries do not, no other constraint carries the primary key's name) and every accepted operation
sequence that does not concern the primary key — no `add_constraint` of a PRIMARY KEY or under its name, no
`drop_constraint` of its name, none of its columns dropped or re-added — the new table's primary key is the
original one: same name, same columns in the same order, under their final names. -/
theorem kept_primary_key (tn : String) (refl : Bool) (s : Schema) (ops : List BatchOp) (pr : List (List String)) (sl : String) (st : State)
    (hkind : (tablePk s).kind = .pk)
    (hwf : ∀ x ∈ s.uniques ++ s.checks ++ s.fks, x.kind ≠ .pk)
    (hname : ∀ x ∈ s.uniques ++ s.checks ++ s.fks, (tablePk s).name.isSome → x.name ≠ (tablePk s).name)
    (hne : (tablePk s).cols ≠ [])
    (hcols : ∀ k ∈ (tablePk s).cols, k ∈ s.cols.map (·.name) ∧ ∀ o ∈ ops, touches k o = false)
    (hops : ∀ o ∈ ops, mentionsPk (tablePk s).name o = false)
    (hok : (State.init tn refl s pr sl).applyOps ops = .ok st) :
    st.newPk = some { kind := .pk, name := (tablePk s).name, cols := (tablePk s).cols.map st.finalName } := by
  have hpk : isPk (tablePk s) = true := by simp [isPk, hkind]
  -- `_grab_table_elements`
  have hinit : PkInv (State.init tn refl s pr sl) (tablePk s) := by
    have hfirst : (refl && (tablePk s).kind == ConstKind.check && (tablePk s).name.isNone) = false := by simp [hkind]
    have := grab_pkInv refl (tablePk s) (s.uniques ++ s.checks ++ s.fks)
      (match (tablePk s).name with
        | some nm => (aset nm (tablePk s) [], [])
        | none => ([], [] ++ [tablePk s]))
      (fun x hx => by simpa [isPk] using hwf x hx) hname
      (by cases hn : (tablePk s).name <;> simp [aset, hpk])
      (by cases hn : (tablePk s).name <;> simp [aset, hn])
    have hfold : grabConstraints refl (tableConstraints s) =
        (s.uniques ++ s.checks ++ s.fks).foldl (fun acc c =>
          if refl && c.kind == .check && c.name.isNone then acc
          else match c.name with
            | some nm => (aset nm c acc.1, acc.2)
            | none => (acc.1, acc.2 ++ [c]))
          (match (tablePk s).name with
            | some nm => (aset nm (tablePk s) [], [])
            | none => ([], [] ++ [tablePk s])) := by
      rw [tableConstraints_eq]
      simp only [grabConstraints, List.foldl_cons, hfirst, Bool.false_eq_true, if_false]
      rfl
    constructor
    · simp only [pkList, State.init]
      rw [hfold]; exact this.1
    · simp only [State.init]
      rw [hfold]; exact this.2
  have hinv : PkInv st (tablePk s) :=
    pkInv_applyOps ops _ _ hinit (fun o ho k hk => (hcols k hk).2 o ho) hops hok
  have hkept : st.constKept (tablePk s) = true := by
    unfold State.constKept
    rw [List.all_eq_true]
    intro k hk
    obtain ⟨tr, e, hl, _, _⟩ := survives_applyOps ops _ _ (init_verbatim tn refl s k (hcols k hk).1 pr sl).survives (hcols k hk).2 hok
    exact ahas_of_alookup hl
  have hlist : st.keptConsts.filter (·.kind == .pk) = [tablePk s] := by
    have h1 : st.keptConsts.filter (·.kind == .pk) = (pkList st).filter st.constKept := by
      simp only [State.keptConsts, pkList, List.filter_filter]
      apply List.filter_congr
      intro x _
      simp [isPk, Bool.and_comm]
    rw [h1, hinv.only]
    simp [hkept]
  have hexp : ((tablePk s).cols.map st.finalName).isEmpty = false := by
    cases h : (tablePk s).cols with
    | nil => exact absurd h hne
    | cons a r => simp
  unfold State.newPk
  rw [hlist]
  simp only [List.foldl_cons, List.foldl_nil, hexp, Bool.false_eq_true, if_false, ite_self, Bool.false_and]

/-! ## untouched indexes -/

/-- **C10.schema (indexes).** An index of the original table that no `drop_index` names is still in
`self.indexes` after any accepted operation sequence, and `_gather_indexes_from_both_tables` (when it does not
raise) re-creates it after the rename with the same name, the same uniqueness and the same `WHERE` predicate
(partial indexes: `sqlite_where`), over the final names of its columns. -/
theorem kept_indexes (tn : String) (refl : Bool) (s : Schema) (ops : List BatchOp) (pr : List (List String)) (sl : String) (st : State) (ix : Index)
    (l : List Index) (hix : alookup ix.name ((s.indexes.map (fun i => (i.name, i)))) = some ix)
    (hd : ∀ o ∈ ops, dropsIndex ix.name o = false)
    (hok : (State.init tn refl s pr sl).applyOps ops = .ok st) (hg : st.gatherIndexes = .ok l) :
    ∃ ix' ∈ l, ix'.name = ix.name ∧ ix'.unique = ix.unique ∧ ix'.where_ = ix.where_ ∧
      ix'.cols = ix.cols.map (fun n => if ahas n st.columns then st.finalName n else n) := by
  have h1 : alookup ix.name st.indexes = some ix := index_kept_applyOps ops _ _ (by simpa [State.init] using hix) hd hok
  obtain ⟨k', hm⟩ := mem_of_alookup h1
  unfold State.gatherIndexes at hg
  simp only at hg
  split at hg
  · cases hg
  · split at hg
    · cases hg
      refine ⟨{ ix with cols := ix.cols.map (fun n => if ahas n st.columns then st.finalName n else n) }, ?_, rfl, rfl, rfl, rfl⟩
      simp only [List.mem_append, List.mem_map]
      exact .inl ⟨(k', ix), hm, rfl⟩
    · cases hg

/-! ## CHECK evaluation and column affinity -/

/-- On a column whose declared type does not have TEXT affinity the affinity-aware evaluation of a `col op k` predicate (CHECK constraints,
partial-index predicates) is the plain numeric one; on every column a NULL satisfies it. -/
theorem evalPredCol_non_text (ty : String) (p : Pred) (v : Value) (h : textAffinity ty = false) :
    evalPredCol ty p v = evalPred p v := by
  simp [evalPredCol, h]

theorem evalPredCol_null (ty : String) (p : Pred) : evalPredCol ty p .null = true := by
  unfold evalPredCol
  split <;> simp [evalPred]

/-! ## non-vacuity -/

/-- `kept_textual_check` on a CHECK whose text contains a dropped column's name as a substring: `min_qty > 0` survives `drop_column('qty')` -/
def w_s4 : Schema :=
  { cols := [{ name := "id", ty := "INTEGER", aff := "Integer", nullable := false, default := none, dval := .null, pk := true },
             { name := "qty", ty := "INTEGER", aff := "Integer", nullable := true, default := none, dval := .null, pk := false },
             { name := "min_qty", ty := "INTEGER", aff := "Integer", nullable := true, default := none, dval := .null, pk := false }],
    pk := some { kind := .pk, name := none, cols := ["id"] }, uniques := [],
    checks := [{ kind := .check, name := some "ck_min", cols := [], text := "min_qty > 0", mentions := ["min_qty"] }],
    fks := [], indexes := [] }
example : (∀ o ∈ [BatchOp.dropColumn "qty"], mentionsConst "ck_min" o = false) ∧
    (((State.init "t" true w_s4).applyOps [.dropColumn "qty"]).toOption.map (fun st => st.newSchema.checks.map (·.text))) = some ["min_qty > 0"] ∧
    (((State.init "t" true w_s4).applyOps [.dropColumn "qty"]).toOption.map (fun st => checkMentionsOk st.newSchema)) = some true := by decide

/-- `evalPredCol`: INTEGER / NUMERIC / BLOB columns are not TEXT-affinity columns, VARCHAR / TEXT are; on a TEXT column `'' >= -100` is false
(the literal is compared as text) while the numeric rule would let it pass -/
example : textAffinity "INTEGER" = false ∧ textAffinity "NUMERIC(10, 2)" = false ∧ textAffinity "BLOB" = false ∧
    textAffinity "VARCHAR(20)" = true ∧ textAffinity "TEXT" = true := by decide
example : evalPredCol "TEXT" { col := "a", op := .ge, k := -100 } (.text "") = false ∧
    evalPred { col := "a", op := .ge, k := -100 } (.text "") = true ∧
    evalPredCol "INTEGER" { col := "a", op := .ge, k := -100 } (.int 3) = true := by decide

/-- a table with a named UNIQUE, a named CHECK and a named FK next to its primary key -/
def w_s3 : Schema :=
  { C11.w_t0.schema with
    uniques := [{ kind := .unique, name := some "uq_a", cols := ["a"] }],
    checks := [{ kind := .check, name := some "ck_a", cols := [], text := "a > 0", mentions := ["a"] }],
    fks := [{ kind := .fk, name := some "fk_a", cols := ["a"], rtable := "parent", rcols := ["id"] }] }

def w_ops3 : List BatchOp :=
  [.addColumn { name := "n1", ty := "TEXT", aff := "String", nullable := true, default := none, dval := .null, pk := false } none (some "id") false,
   .alterColumn "id" (some "ident") none none .keep, .createIndex { name := "ix_n1", cols := ["n1"], unique := false }]

/-- the hypotheses of `kept_constraints` hold for `uq_a` under a batch that adds a column, renames another and
creates an index … -/
example : ({ kind := .unique, name := some "uq_a", cols := ["a"] } : Const) ∈ tableConstraints w_s3 ∧
    (∀ c' ∈ tableConstraints w_s3, c'.name = some "uq_a" → c' = { kind := .unique, name := some "uq_a", cols := ["a"] }) ∧
    (∀ k ∈ ["a"], k ∈ w_s3.cols.map (·.name) ∧ ∀ o ∈ w_ops3, touches k o = false) ∧
    (∀ o ∈ w_ops3, mentionsConst "uq_a" o = false) ∧
    ((State.init "t" true w_s3).applyOps w_ops3).toOption.isSome = true := by decide

/-- … and those of `kept_primary_key` (the primary key column is renamed, not dropped) -/
example : (tablePk w_s3).kind = .pk ∧ (∀ x ∈ w_s3.uniques ++ w_s3.checks ++ w_s3.fks, x.kind ≠ .pk) ∧
    (tablePk w_s3).cols ≠ [] ∧
    (∀ k ∈ (tablePk w_s3).cols, k ∈ w_s3.cols.map (·.name) ∧ ∀ o ∈ w_ops3, touches k o = false) ∧
    (∀ o ∈ w_ops3, mentionsPk (tablePk w_s3).name o = false) := by decide

/-- the cycle case of `order_fuel` exists: `insert_before` and `insert_after` that contradict each other -/
example : topoSort [("a", "b"), ("b", "x"), ("x", "a")] ["a", "b", "x"] = none := by decide
example : topoSort [("a", "b"), ("a", "x"), ("x", "b")] ["a", "b", "x"] = some ["a", "x", "b"] := by decide


/-- the hypotheses of `rows` / `rowcount` / `no_tmp` are met by a real recreate (add an indexed column) -/
example : (C11.run [] none C11.w_plan2 { orig := some C11.w_t0, tmp := none }).2 = none := by decide

/-- `values` applies to column `id` of the witness table under a rename of another column -/
example : ∀ o ∈ [BatchOp.alterColumn "a" (some "b") none none .keep], touches "id" o = false ∧ retypes "id" o = false := by decide

/-- the checker run on the implementation's observation rejects a changed value, a lost row, a lost index -/
example : check10 [] "t" C11.w_t0 [] { C11.w_t0 with rows := [[.int 1, .int 7]] } [] ≠ [] := by decide
example : check10 [] "t" C11.w_t0 [] { C11.w_t0 with rows := [] } [] ≠ [] := by decide
example : check10 [] "t" { C11.w_t0 with schema := { C11.w_t0.schema with indexes := [{ name := "ix", cols := ["a"], unique := false }] } }
    [] C11.w_t0 [] ≠ [] := by decide
/-- … and a retyped column across type families (FLOAT -> INTEGER) that kept the cast-free copy: REAL 3.7 in the INTEGER column
    instead of `CAST(3.7 AS INTEGER)` = INTEGER 3 (storage class compared); the CAST result is accepted -/
def w_fl : Tbl :=
  { schema := { cols := [{ name := "id", ty := "INTEGER", aff := "Integer", nullable := false, default := none, dval := .null, pk := true },
                         { name := "q", ty := "FLOAT", aff := "Numeric", nullable := true, default := none, dval := .null, pk := false }],
                pk := some { kind := .pk, name := none, cols := ["id"] }, uniques := [], checks := [], fks := [], indexes := [] },
    rows := [[.int 1, .real "3.7" 3 true]] }
def w_fl_after (v : Value) : Tbl :=
  { schema := { cols := [{ name := "id", ty := "INTEGER", aff := "Integer", nullable := false, default := none, dval := .null, pk := true },
                         { name := "q", ty := "INTEGER", aff := "Integer", nullable := true, default := none, dval := .null, pk := false }],
                pk := some { kind := .pk, name := none, cols := ["id"] }, uniques := [], checks := [], fks := [], indexes := [] },
    rows := [[.int 1, v]] }
def w_fl_ct : ConvTable :=
  [("INTEGER", true, .real "3.7" 3 true, .int 3), ("INTEGER", false, .int 3, .int 3), ("INTEGER", false, .real "3.7" 3 true, .real "3.7" 3 true)]
example : check10 w_fl_ct "t" w_fl [.alterColumn "q" none (some ("INTEGER", "Integer")) none .keep] (w_fl_after (.real "3.7" 3 true)) [] ≠ [] := by decide
example : check10 w_fl_ct "t" w_fl [.alterColumn "q" none (some ("INTEGER", "Integer")) none .keep] (w_fl_after (.int 3)) [] = [] := by decide

/-- … and a dropped named PRIMARY KEY that is still there (unnamed) after the batch -/
def w_pkn : Tbl := { schema := { cols := C11.w_t0.schema.cols, pk := some { kind := .pk, name := some "pk_t", cols := ["id"] },
                                 uniques := [], checks := [], fks := [], indexes := [] }, rows := C11.w_t0.rows }
def w_nopk : Tbl := { schema := { cols := C11.w_t0.schema.cols.map (fun c => { c with pk := false }), pk := none,
                                  uniques := [], checks := [], fks := [], indexes := [] }, rows := C11.w_t0.rows }
example : check10 [] "t" w_pkn [.dropConstraint "pk_t"] C11.w_t0 [] ≠ [] := by decide
example : check10 [] "t" w_pkn [.dropConstraint "pk_t"] w_nopk [] = [] := by decide

/-- … and a partial index that came back without its `WHERE` predicate -/
example : check10 [] "t"
    { C11.w_t0 with schema := { C11.w_t0.schema with indexes := [{ name := "ix", cols := ["a"], unique := true, where_ := some "a > 0" }] } }
    [] { C11.w_t0 with schema := { C11.w_t0.schema with indexes := [{ name := "ix", cols := ["a"], unique := true }] } } [] ≠ [] := by decide
example : check10 [] "t" C11.w_t0 [] C11.w_t0 ["_alembic_tmp_t"] ≠ [] := by decide
example : check10 [] "t" C11.w_t0 [] C11.w_t0 [] = [] := by decide

end C10
