import Spec.Txn
/-!
# C18 — offline scripts frame transactions correctly

Theorems about `Model.Txn.runToks` (the mirror of `begin_transaction`/`autocommit_block`/
`run_migrations` in `--sql` mode), for **every** list of migrations, every body
(any number of plain / autocommit segments of any length), every number of version
statements, every createVT/dropVT flag and every `(transactional_ddl, per_migration)` setting.
-/
namespace C18
open Model.Txn Spec.Txn

/-! ## helper lemmas (local: they only talk about the recogniser) -/

theorem frameStep_append (b : Bool) (xs ys : List Tok) :
    frameStep b (xs ++ ys) = (frameStep b xs).bind (fun b' => frameStep b' ys) := by
  induction xs generalizing b with
  | nil => simp [frameStep]
  | cons x xs ih =>
    cases b <;> cases x <;> simp [frameStep, ih]

theorem frameStep_replicate_stmt (n i : Nat) : frameStep true (List.replicate n (Tok.stmt i)) = some true := by
  induction n with
  | zero => simp [frameStep]
  | succ n ih => simp [List.replicate_succ, frameStep, ih]

theorem frameStep_replicate_version (n i : Nat) : frameStep true (List.replicate n (Tok.version i)) = some true := by
  induction n with
  | zero => simp [frameStep]
  | succ n ih => simp [List.replicate_succ, frameStep, ih]

theorem frameStep_replicate_auto (n i : Nat) : frameStep false (List.replicate n (Tok.auto i)) = some false := by
  induction n with
  | zero => simp [frameStep]
  | succ n ih => simp [List.replicate_succ, frameStep, ih]

/-- with transactional DDL a migration body keeps the scan inside a block -/
theorem frameStep_body (c : Cfg) (h : c.tddl = true) (i : Nat) (segs : List Seg) :
    frameStep true (bodyToks c i segs) = some true := by
  induction segs with
  | nil => simp [bodyToks, frameStep]
  | cons s r ih =>
    cases s with
    | plain n => simp [bodyToks, segToks, frameStep_append, frameStep_replicate_stmt, ih]
    | auto n =>
      simp [bodyToks, segToks, h, frameStep_append, frameStep, frameStep_replicate_auto, ih]

theorem frameStep_inner (c : Cfg) (h : c.tddl = true) (i : Nat) (m : Mig) :
    frameStep true (innerToks c i m) = some true := by
  unfold innerToks
  cases hc : m.createVT <;>
    simp [frameStep_append, frameStep, frameStep_body c h, frameStep_replicate_version]

theorem frameStep_mig_perMig (c : Cfg) (h : c.tddl = true) (hp : c.perMig = true) (i : Nat) (m : Mig) :
    frameStep false (migToks c i m) = some false := by
  simp [migToks, emitsBlock, inExternalTransaction, h, hp, frameStep_append, frameStep, frameStep_inner c h]

theorem frameStep_mig_single (c : Cfg) (h : c.tddl = true) (hp : c.perMig = false) (i : Nat) (m : Mig) :
    frameStep true (migToks c i m) = some true := by
  simp [migToks, emitsBlock, inExternalTransaction, h, hp, frameStep_inner c h]

theorem frameStep_loop_perMig (c : Cfg) (h : c.tddl = true) (hp : c.perMig = true) (i : Nat) (migs : List Mig) :
    frameStep false (loopToks c i migs) = some false := by
  induction migs generalizing i with
  | nil => simp [loopToks, frameStep]
  | cons m r ih => simp [loopToks, frameStep_append, frameStep_mig_perMig c h hp, ih]

theorem frameStep_loop_single (c : Cfg) (h : c.tddl = true) (hp : c.perMig = false) (i : Nat) (migs : List Mig) :
    frameStep true (loopToks c i migs) = some true := by
  induction migs generalizing i with
  | nil => simp [loopToks, frameStep]
  | cons m r ih => simp [loopToks, frameStep_append, frameStep_mig_single c h hp, ih]

/-! ## property theorems -/

/-- **Well-bracketing.** With transactional DDL every BEGIN is closed by exactly one COMMIT,
blocks do not nest, ordinary statements lie inside a block and autocommit statements outside. -/
theorem framed_of_tddl (c : Cfg) (migs : List Mig) (dropVT : Bool) (h : c.tddl = true) :
    framed (runToks c migs dropVT) = true := by
  cases hp : c.perMig
  · have := frameStep_loop_single c h hp 0 migs
    cases dropVT <;>
      simp [framed, runToks, emitsBlock, inExternalTransaction, h, hp, frameStep_append, frameStep, this]
  · have := frameStep_loop_perMig c h hp 0 migs
    cases dropVT <;>
      simp [framed, runToks, emitsBlock, inExternalTransaction, h, hp, frameStep_append, frameStep, this]


/-! ### counting blocks -/

theorem countBegin_append (xs ys : List Tok) : countBegin (xs ++ ys) = countBegin xs + countBegin ys := by
  simp [countBegin, List.filter_append]

@[simp] theorem countBegin_nil : countBegin [] = 0 := rfl

theorem countBegin_cons_begin (r : List Tok) : countBegin (Tok.begin :: r) = countBegin r + 1 := by
  simp [countBegin]

theorem countBegin_cons_other (t : Tok) (r : List Tok) (h : t ≠ Tok.begin) :
    countBegin (t :: r) = countBegin r := by
  simp [countBegin, h]

theorem countBegin_replicate (n : Nat) (t : Tok) (h : t ≠ Tok.begin) : countBegin (List.replicate n t) = 0 := by
  induction n with
  | zero => simp
  | succ n ih => rw [List.replicate_succ, countBegin_cons_other _ _ h, ih]

theorem countBegin_body (c : Cfg) (h : c.tddl = true) (i : Nat) (segs : List Seg) :
    countBegin (bodyToks c i segs) = autoSections segs := by
  induction segs with
  | nil => simp [bodyToks, autoSections]
  | cons s r ih =>
    cases s with
    | plain n =>
      simp [bodyToks, segToks, countBegin_append, countBegin_replicate, ih, autoSections]
    | auto n =>
      simp [bodyToks, segToks, h, countBegin_append, countBegin_replicate, ih, autoSections,
        countBegin_cons_begin, countBegin_cons_other]

theorem countBegin_inner (c : Cfg) (h : c.tddl = true) (i : Nat) (m : Mig) :
    countBegin (innerToks c i m) = autoSections m.segs := by
  unfold innerToks
  cases hc : m.createVT <;>
    simp [countBegin_append, countBegin_replicate, countBegin_body c h, countBegin_cons_other]

theorem countBegin_loop_single (c : Cfg) (h : c.tddl = true) (hp : c.perMig = false) (i : Nat) (migs : List Mig) :
    countBegin (loopToks c i migs) = totalAuto migs := by
  induction migs generalizing i with
  | nil => simp [loopToks, totalAuto]
  | cons m r ih =>
    simp [loopToks, migToks, emitsBlock, inExternalTransaction, h, hp, countBegin_append, countBegin_inner c h, ih, totalAuto]

theorem countBegin_loop_perMig (c : Cfg) (h : c.tddl = true) (hp : c.perMig = true) (i : Nat) (migs : List Mig) :
    countBegin (loopToks c i migs) = migs.length + totalAuto migs := by
  induction migs generalizing i with
  | nil => simp [loopToks, totalAuto]
  | cons m r ih =>
    simp [loopToks, migToks, emitsBlock, inExternalTransaction, h, hp, countBegin_append, countBegin_inner c h, ih, totalAuto,
      countBegin_cons_begin, countBegin_cons_other]
    omega

/-- **One enclosing block.** Transactional DDL without transaction-per-migration: the number of
blocks is one plus the number of autocommit sections, i.e. one block encloses the run and is
split only where an autocommit section closes and reopens it. -/
theorem single_block_count (c : Cfg) (migs : List Mig) (dropVT : Bool)
    (h : c.tddl = true) (hp : c.perMig = false) :
    countBegin (runToks c migs dropVT) = 1 + totalAuto migs := by
  cases dropVT <;>
    simp [runToks, emitsBlock, inExternalTransaction, h, hp, countBegin_append, countBegin_loop_single c h hp,
      countBegin_cons_begin, countBegin_cons_other] <;> omega

/-- **One block per migration**, split only at that migration's autocommit sections. -/
theorem per_migration_block_count (c : Cfg) (migs : List Mig) (dropVT : Bool)
    (h : c.tddl = true) (hp : c.perMig = true) :
    countBegin (runToks c migs dropVT) = migs.length + totalAuto migs := by
  cases dropVT <;>
    simp [runToks, emitsBlock, inExternalTransaction, h, hp, countBegin_append, countBegin_loop_perMig c h hp,
      countBegin_cons_other]


/-! ### one migration per block -/

theorem blockStep_append (cur : Option Nat) (xs ys : List Tok) :
    blockStep cur (xs ++ ys) = (blockStep cur xs).bind (fun c' => blockStep c' ys) := by
  induction xs generalizing cur with
  | nil => simp [blockStep]
  | cons x xs ih =>
    cases x <;> cases cur <;> simp [blockStep, migIdx, ih] <;> split <;> simp

/-- the state after scanning is "no migration yet" or "migration `i`" -/
def OkSt (i : Nat) (cur : Option Nat) : Prop := cur = none ∨ cur = some i

theorem blockStep_replicate (n i : Nat) (t : Tok) (ht : migIdx t = some i) (cur : Option Nat)
    (h : OkSt i cur) : ∃ c', blockStep cur (List.replicate n t) = some c' ∧ OkSt i c' := by
  induction n generalizing cur with
  | zero => exact ⟨cur, by simp [blockStep], h⟩
  | succ n ih =>
    have hb : t ≠ Tok.begin := by intro e; simp [e, migIdx] at ht
    rcases h with h | h
    · subst h
      obtain ⟨c', h1, h2⟩ := ih (some i) (Or.inr rfl)
      refine ⟨c', ?_, h2⟩
      cases t <;> simp_all [List.replicate_succ, blockStep, migIdx]
    · subst h
      obtain ⟨c', h1, h2⟩ := ih (some i) (Or.inr rfl)
      refine ⟨c', ?_, h2⟩
      cases t <;> simp_all [List.replicate_succ, blockStep, migIdx]

theorem blockStep_body (c : Cfg) (i : Nat) (segs : List Seg) (cur : Option Nat) (h : OkSt i cur) :
    ∃ c', blockStep cur (bodyToks c i segs) = some c' ∧ OkSt i c' := by
  induction segs generalizing cur with
  | nil => exact ⟨cur, by simp [bodyToks, blockStep], h⟩
  | cons s r ih =>
    cases s with
    | plain n =>
      obtain ⟨c1, h1, o1⟩ := blockStep_replicate n i (.stmt i) rfl cur h
      obtain ⟨c2, h2, o2⟩ := ih c1 o1
      exact ⟨c2, by simp [bodyToks, segToks, blockStep_append, h1, h2], o2⟩
    | auto n =>
      cases ht : c.tddl
      · obtain ⟨c1, h1, o1⟩ := blockStep_replicate n i (.auto i) rfl cur h
        obtain ⟨c2, h2, o2⟩ := ih c1 o1
        exact ⟨c2, by simp [bodyToks, segToks, ht, blockStep_append, h1, h2], o2⟩
      · obtain ⟨c1, h1, o1⟩ := blockStep_replicate n i (.auto i) rfl cur h
        obtain ⟨c2, h2, o2⟩ := ih none (Or.inl rfl)
        refine ⟨c2, ?_, o2⟩
        have hc : blockStep cur (Tok.commit :: List.replicate n (Tok.auto i)) = some c1 := by
          rcases h with h | h <;> subst h <;> simpa [blockStep, migIdx] using h1
        have : bodyToks c i (Seg.auto n :: r) =
            (Tok.commit :: List.replicate n (Tok.auto i)) ++ ([Tok.begin] ++ bodyToks c i r) := by
          simp [bodyToks, segToks, ht]
        rw [this, blockStep_append, hc]
        simp [blockStep, h2]

theorem blockStep_inner (c : Cfg) (i : Nat) (m : Mig) :
    ∃ c', blockStep none (innerToks c i m) = some c' ∧ OkSt i c' := by
  obtain ⟨c1, h1, o1⟩ := blockStep_body c i m.segs (some i) (Or.inr rfl)
  obtain ⟨c2, h2, o2⟩ := blockStep_replicate m.nver i (.version i) rfl c1 o1
  refine ⟨c2, ?_, o2⟩
  unfold innerToks
  cases hc : m.createVT <;>
    simp [blockStep_append, blockStep, migIdx, h1, h2]

theorem blockStep_loop_perMig (c : Cfg) (h : c.tddl = true) (hp : c.perMig = true) (i : Nat)
    (migs : List Mig) (cur : Option Nat) :
    (blockStep cur (loopToks c i migs)).isSome = true := by
  induction migs generalizing i cur with
  | nil => simp [loopToks, blockStep]
  | cons m r ih =>
    obtain ⟨c1, h1, _⟩ := blockStep_inner c i m
    have hm : loopToks c i (m :: r) = [Tok.begin] ++ (innerToks c i m ++ ([Tok.commit] ++ loopToks c (i+1) r)) := by
      simp [loopToks, migToks, emitsBlock, inExternalTransaction, h, hp]
    rw [hm]
    have : blockStep cur ([Tok.begin] ++ (innerToks c i m ++ ([Tok.commit] ++ loopToks c (i+1) r))) =
        blockStep c1 ([Tok.commit] ++ loopToks c (i+1) r) := by
      have e : ([Tok.begin] ++ (innerToks c i m ++ ([Tok.commit] ++ loopToks c (i+1) r))) =
          Tok.begin :: (innerToks c i m ++ ([Tok.commit] ++ loopToks c (i+1) r)) := rfl
      rw [e]
      cases cur <;> simp [blockStep, blockStep_append, h1]
    rw [this]
    have : blockStep c1 ([Tok.commit] ++ loopToks c (i+1) r) = blockStep c1 (loopToks c (i+1) r) := by
      cases c1 <;> simp [blockStep, migIdx]
    rw [this]
    exact ih (i+1) c1

/-- **No block holds two migrations.** With transactional DDL and transaction-per-migration,
no BEGIN…COMMIT block of the script contains statements (or the version statement, or the
`-- Running` line) of two different migrations. -/
theorem per_migration_one_mig_per_block (c : Cfg) (migs : List Mig) (dropVT : Bool)
    (h : c.tddl = true) (hp : c.perMig = true) :
    oneMigPerBlock (runToks c migs dropVT) = true := by
  unfold oneMigPerBlock
  have hrun : runToks c migs dropVT = loopToks c 0 migs ++ (if dropVT then [Tok.dropVT] else []) := by
    simp [runToks, emitsBlock, inExternalTransaction, h, hp]
  rw [hrun, blockStep_append]
  have := blockStep_loop_perMig c h hp 0 migs none
  cases hb : blockStep none (loopToks c 0 migs) with
  | none => simp [hb] at this
  | some c1 => cases dropVT <;> cases c1 <;> simp [blockStep, migIdx]

/-! ### no transactional DDL -/

theorem noMarkers_append (xs ys : List Tok) : noMarkers (xs ++ ys) = (noMarkers xs && noMarkers ys) := by
  simp [noMarkers, List.all_append]

@[simp] theorem noMarkers_nil : noMarkers [] = true := rfl

theorem noMarkers_cons (t : Tok) (r : List Tok) : noMarkers (t :: r) = (!isMarker t && noMarkers r) := by
  simp [noMarkers]

theorem noMarkers_replicate (n : Nat) (t : Tok) (h : isMarker t = false) : noMarkers (List.replicate n t) = true := by
  induction n with
  | zero => rfl
  | succ n ih => rw [List.replicate_succ, noMarkers_cons, h, ih]; rfl

theorem noMarkers_body (c : Cfg) (h : c.tddl = false) (i : Nat) (segs : List Seg) :
    noMarkers (bodyToks c i segs) = true := by
  induction segs with
  | nil => rfl
  | cons s r ih =>
    cases s with
    | plain n =>
      show noMarkers (List.replicate n (Tok.stmt i) ++ bodyToks c i r) = true
      rw [noMarkers_append, noMarkers_replicate n _ rfl, ih]; rfl
    | auto n =>
      have : bodyToks c i (Seg.auto n :: r) = List.replicate n (Tok.auto i) ++ bodyToks c i r := by
        simp [bodyToks, segToks, h]
      rw [this, noMarkers_append, noMarkers_replicate n _ rfl, ih]; rfl

theorem noMarkers_inner (c : Cfg) (h : c.tddl = false) (i : Nat) (m : Mig) :
    noMarkers (innerToks c i m) = true := by
  unfold innerToks
  rw [noMarkers_append, noMarkers_append, noMarkers_append, noMarkers_body c h,
    noMarkers_replicate _ _ rfl]
  cases m.createVT <;> rfl

theorem noMarkers_loop (c : Cfg) (h : c.tddl = false) (i : Nat) (migs : List Mig) :
    noMarkers (loopToks c i migs) = true := by
  induction migs generalizing i with
  | nil => rfl
  | cons m r ih =>
    have : loopToks c i (m :: r) = innerToks c i m ++ loopToks c (i+1) r := by
      simp [loopToks, migToks, emitsBlock, inExternalTransaction, h]
    rw [this, noMarkers_append, noMarkers_inner c h, ih]; rfl

/-- **No markers without transactional DDL**, whatever `transaction_per_migration` says and
however many autocommit sections the migrations contain. -/
theorem no_markers_without_tddl (c : Cfg) (migs : List Mig) (dropVT : Bool) (h : c.tddl = false) :
    noMarkers (runToks c migs dropVT) = true := by
  have : runToks c migs dropVT = loopToks c 0 migs ++ (if dropVT then [Tok.dropVT] else []) := by
    simp [runToks, emitsBlock, inExternalTransaction, h]
  rw [this, noMarkers_append, noMarkers_loop c h]
  cases dropVT <;> rfl

/-- **C18, assembled**: the script produced for any run satisfies the framing specification. -/
theorem framingOk_run (c : Cfg) (migs : List Mig) (dropVT : Bool) :
    framingOk c migs (runToks c migs dropVT) = true := by
  unfold framingOk
  cases h : c.tddl
  · simp [no_markers_without_tddl c migs dropVT h]
  · cases hp : c.perMig
    · simp [framed_of_tddl c migs dropVT h, single_block_count c migs dropVT h hp]
    · simp [framed_of_tddl c migs dropVT h, per_migration_block_count c migs dropVT h hp,
        per_migration_one_mig_per_block c migs dropVT h hp]

/-! ### non-vacuity: a concrete run with two migrations, an autocommit section, CREATE and DROP -/

example :
    runToks ⟨true, true, false⟩
      [⟨[.plain 1, .auto 1, .plain 1], 1, true⟩, ⟨[], 2, false⟩] true =
    [.begin, .createVT, .running 0, .stmt 0, .commit, .auto 0, .begin, .stmt 0, .version 0, .commit,
     .begin, .running 1, .version 1, .version 1, .commit, .dropVT] := by decide

/-- the recogniser is not trivially true: a script that puts the version statement into a block
of its own, or two migrations into one block, is rejected -/
example : framingOk ⟨true, true, false⟩ [⟨[.plain 1], 1, false⟩]
    [.begin, .running 0, .stmt 0, .commit, .begin, .version 0, .commit] = false := by decide
example : framingOk ⟨true, true, false⟩ [⟨[], 1, false⟩, ⟨[], 1, false⟩]
    [.begin, .running 0, .version 0, .running 1, .version 1, .commit] = false := by decide
example : framingOk ⟨false, true, true⟩ [⟨[], 1, false⟩] [.begin, .running 0, .version 0, .commit] = false := by decide


/-! ### balanced brackets over the whole script -/

theorem markers_append (xs ys : List Tok) : markers (xs ++ ys) = markers xs ++ markers ys := by
  simp [markers]

/-- a script the recogniser accepts from state `b` down to "outside a block" has, as its markers,
    the pending commit (if it started inside a block) followed by whole `begin commit` pairs -/
theorem markers_of_frameStep (l : List Tok) : ∀ (b : Bool), frameStep b l = some false →
    ∃ k, markers l = (if b then [Tok.commit] else []) ++ pairs k := by
  induction l with
  | nil =>
    intro b h
    simp only [frameStep, Option.some.injEq] at h
    subst h
    exact ⟨0, rfl⟩
  | cons t r ih =>
    intro b h
    have keep : ∀ (b' : Bool), isMarker t = false → frameStep b' r = some false →
        ∃ k, markers (t :: r) = (if b' then [Tok.commit] else []) ++ pairs k := by
      intro b' hm h'
      obtain ⟨k, hk⟩ := ih b' h'
      exact ⟨k, by rw [← hk]; simp [markers, hm]⟩
    cases b with
    | false =>
      cases t with
      | begin =>
        simp only [frameStep] at h
        obtain ⟨k, hk⟩ := ih true h
        refine ⟨k + 1, ?_⟩
        have : markers (Tok.begin :: r) = Tok.begin :: markers r := by
          simp only [markers]; exact List.filter_cons_of_pos (by rfl)
        rw [this, hk]; simp [pairs]
      | commit => simp [frameStep] at h
      | auto i => simp only [frameStep] at h; exact keep false rfl h
      | dropVT => simp only [frameStep] at h; exact keep false rfl h
      | createVT => simp [frameStep] at h
      | running i => simp [frameStep] at h
      | stmt i => simp [frameStep] at h
      | version i => simp [frameStep] at h
    | true =>
      cases t with
      | begin => simp [frameStep] at h
      | commit =>
        simp only [frameStep] at h
        obtain ⟨k, hk⟩ := ih false h
        refine ⟨k, ?_⟩
        have : markers (Tok.commit :: r) = Tok.commit :: markers r := by
          simp only [markers]; exact List.filter_cons_of_pos (by rfl)
        rw [this, hk]; simp
      | auto i => simp [frameStep] at h
      | dropVT => simp only [frameStep] at h; exact keep true rfl h
      | createVT => simp only [frameStep] at h; exact keep true rfl h
      | running i => simp only [frameStep] at h; exact keep true rfl h
      | stmt i => simp only [frameStep] at h; exact keep true rfl h
      | version i => simp only [frameStep] at h; exact keep true rfl h

theorem markers_of_noMarkers (l : List Tok) (h : noMarkers l = true) : markers l = [] := by
  simp only [noMarkers, List.all_eq_true, Bool.not_eq_true'] at h
  simp only [markers, List.filter_eq_nil_iff]
  intro t ht
  simp [h t ht]

/-- **C18.framing_balanced.** For every configuration, every list of migrations (any layout of plain and
autocommit sections, any number of version statements, CREATE / DROP of the version table): the begin / commit
markers of the emitted script are a concatenation of `begin commit` pairs - every commit marker is preceded by its
own begin marker and blocks never nest. -/
theorem framing_balanced (c : Cfg) (migs : List Mig) (dropVT : Bool) : balanced (runToks c migs dropVT) := by
  cases h : c.tddl
  · exact ⟨0, markers_of_noMarkers _ (no_markers_without_tddl c migs dropVT h)⟩
  · have := framed_of_tddl c migs dropVT h
    simp only [framed, beq_iff_eq] at this
    obtain ⟨k, hk⟩ := markers_of_frameStep _ false this
    exact ⟨k, by simpa using hk⟩

theorem countBegin_markers (l : List Tok) : countBegin l = countBegin (markers l) := by
  induction l with
  | nil => rfl
  | cons t r ih => cases t <;> simp_all [countBegin, markers, isMarker]

theorem countCommit_markers (l : List Tok) : countCommit l = countCommit (markers l) := by
  induction l with
  | nil => rfl
  | cons t r ih => cases t <;> simp_all [countCommit, markers, isMarker]

theorem count_pairs (k : Nat) : countBegin (pairs k) = k ∧ countCommit (pairs k) = k := by
  induction k with
  | zero => exact ⟨rfl, rfl⟩
  | succ k ih =>
    obtain ⟨a, b⟩ := ih
    simp only [countBegin, countCommit] at a b ⊢
    constructor <;> simp [pairs, a, b]

/-- **C18.begin_commit_count.** In every emitted script the number of begin markers equals the number of commit
markers, and the markers are exactly that many `begin commit` blocks. -/
theorem begin_commit_count (c : Cfg) (migs : List Mig) (dropVT : Bool) :
    countCommit (runToks c migs dropVT) = countBegin (runToks c migs dropVT) ∧
      markers (runToks c migs dropVT) = pairs (countBegin (runToks c migs dropVT)) := by
  obtain ⟨k, hk⟩ := framing_balanced c migs dropVT
  have hb : countBegin (runToks c migs dropVT) = k := by rw [countBegin_markers, hk]; exact (count_pairs k).1
  have hc : countCommit (runToks c migs dropVT) = k := by rw [countCommit_markers, hk]; exact (count_pairs k).2
  exact ⟨by rw [hb, hc], by rw [hb, hk]⟩

/-- the number of blocks: one plus the autocommit sections (single transaction), or one per migration plus its
    autocommit sections (transaction per migration) -/
theorem commit_count_single (c : Cfg) (migs : List Mig) (dropVT : Bool) (h : c.tddl = true) (hp : c.perMig = false) :
    countCommit (runToks c migs dropVT) = 1 + totalAuto migs := by
  rw [(begin_commit_count c migs dropVT).1, single_block_count c migs dropVT h hp]

theorem commit_count_per_migration (c : Cfg) (migs : List Mig) (dropVT : Bool) (h : c.tddl = true) (hp : c.perMig = true) :
    countCommit (runToks c migs dropVT) = migs.length + totalAuto migs := by
  rw [(begin_commit_count c migs dropVT).1, per_migration_block_count c migs dropVT h hp]

/-- non-vacuity: the recogniser of balance rejects the C18-m shape (a second block without its begin marker) -/
example : balancedB [.begin, .running 0, .commit, .running 1, .commit] = false := by decide
example : balancedB (runToks ⟨true, true, false⟩ [⟨[.plain 1, .auto 1], 1, true⟩, ⟨[], 2, false⟩] true) = true := by decide

/-! ### several `configure()` calls in one env.py run (the multidb template) -/
open Model.Online (ConfigureArgs CtxOpts configureCall configureAll effective)

/-- **multidb, every call**: whatever was configured before, the script of each call satisfies
    the framing specification *for the setting that call ended up with* -/
theorem multidb_framed (dflt : Bool) (calls : List ConfigureArgs) (a : ConfigureArgs) (migs : List Mig) (dropVT : Bool) :
    framingOk (lastCfg dflt calls a) migs (runToks (lastCfg dflt calls a) migs dropVT) = true :=
  framingOk_run _ migs dropVT

theorem configureAll_none (o : CtxOpts) : ∀ (calls : List ConfigureArgs), (∀ c ∈ calls, c.tddl = none) →
    (configureAll o calls).tddl = o.tddl := by
  intro calls
  induction calls generalizing o with
  | nil => intro _; rfl
  | cons c rest ih =>
    intro h
    have hc := h c List.mem_cons_self
    simp only [configureAll, List.foldl_cons]
    have := ih (configureCall o c) (fun x hx => h x (List.mem_cons_of_mem _ hx))
    simp only [configureAll] at this
    rw [this]
    simp [configureCall, hc]

/-- **a call that passes `transactional_ddl=` is framed by what it passed** -/
theorem multidb_own_override (dflt : Bool) (calls : List ConfigureArgs) (a : ConfigureArgs) (b : Bool)
    (h : a.tddl = some b) : (lastCfg dflt calls a).tddl = b := by
  simp [lastCfg, effective, configureAll, configureCall, h]

/-- **when no call of the run passes `transactional_ddl=`, every script is framed by its own
    dialect's default** — nothing else is carried from one call to the next (what a change that
    writes a resolved default back into the shared options breaks) -/
theorem multidb_default (dflt : Bool) (calls : List ConfigureArgs) (a : ConfigureArgs)
    (h : ∀ c ∈ calls ++ [a], c.tddl = none) : (lastCfg dflt calls a).tddl = dflt := by
  have := configureAll_none {} (calls ++ [a]) h
  simp [lastCfg, effective, this]

/-- the full statement "every call is framed by its own override or its dialect's default" … -/
def multidb_own_statement : Prop :=
  ∀ (dflt : Bool) (calls : List ConfigureArgs) (a : ConfigureArgs), (lastCfg dflt calls a).tddl = a.tddl.getD dflt

/-- … is FALSE on the unchanged tree (known finding C18-F1 = C04-F1): an explicit override of an
    earlier call frames the script of a later call that passes none -/
theorem multidb_own_counterexample : ¬ multidb_own_statement := by
  intro h
  have := h false [{ tddl := some true, perMig := false }] { tddl := none, perMig := false }
  revert this
  decide

/-- and the script shows it: a MySQL-like dialect (no transactional DDL) configured with defaults
    after `configure(transactional_ddl=True)` gets BEGIN/COMMIT markers -/
example : (runToks (lastCfg false [{ tddl := some true, perMig := false }] { tddl := none, perMig := false })
    [{ segs := [], nver := 1, createVT := true }] false).contains Tok.begin = true := by decide

end C18
