import Spec.Rev
import Model.Rev.Heads
/-! # C15 (theorems: work in progress) -/
namespace C15
end C15
