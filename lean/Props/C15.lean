import Lemmas.Rev.Cycles
import Lemmas.Rev.Bridge
import Model.Rev.Memo
/-!
# C15 — a history with a cycle is always rejected, an acyclic one never

About `Model.Rev.load` (mirror of `RevisionMap._revision_map` with `_detect_cycles` and, since
the fix commit, `_revisions_in_cycles`).  A history is *well formed* when its revision ids are
unique and every down-revision names a revision of the history; `loadPhase1` succeeding means
the `Revision` objects could be built (no self-loop, legal ids), labels do not clash and every
dependency name resolves.  "Links" are down-revisions plus dependencies as the code resolves
them (`m.allDownOf`).
-/
namespace C15
open Model.Rev Spec.Rev Lemmas.Rev

/-- the links contain a directed cycle: a non-empty set of revisions each of which links to
    another member of the set -/
def HasCycle (succ : Id → List Id) (ids : List Id) : Prop :=
  ∃ S : List Id, S ≠ [] ∧ ∀ x ∈ S, x ∈ ids ∧ ∃ p ∈ succ x, p ∈ S

/-- acyclic: the links admit a rank function (equivalently, no directed cycle) -/
def Acyclic (succ : Id → List Id) : Prop := ∃ rank : Id → Nat, ∀ i, ∀ p ∈ succ i, rank p < rank i

/-- a ranked graph has no cycle (the easy half of the equivalence) -/
theorem acyclic_no_cycle {succ : Id → List Id} {ids : List Id} (h : Acyclic succ) : ¬ HasCycle succ ids := by
  rintro ⟨S, hne, hS⟩
  obtain ⟨rank, hr⟩ := h
  obtain ⟨x, hx, hmin⟩ := exists_min_rank rank S hne
  obtain ⟨_, p, hp, hpS⟩ := hS x hx
  have := hr x p hp
  have := hmin p hpS
  omega

/-- **A cyclic history is never accepted by `_detect_cycles`.** -/
theorem detect_rejects_cycle (m : LMap) (h : HasCycle m.allDownOf m.ids) : detectCycles m ≠ .ok () := by
  obtain ⟨S, hne, hS⟩ := h
  intro hok
  obtain ⟨x, hx⟩ := List.exists_mem_of_ne_nil _ hne
  have hrevs : m.revs ≠ [] := by
    intro e
    have := (hS x hx).1
    simp [LMap.ids, e] at this
  have hp := (detectCycles_ok hok hrevs).peel_all
  have := peel_keeps_cycle m.allDownOf S (fun y hy => (hS y hy).2) m.ids.length m.ids (fun y hy => (hS y hy).1) x hx
  rw [hp] at this; simp at this

/-- **C15, "a cycle is always rejected".** Whatever loads has no cycle among its down-revision
and dependency links; no well-formedness assumption is needed. -/
theorem cyclic_rejected {h : Hist} {o : LoadOpts} {m : LMap} (hl : load h o = .ok m) :
    ¬ HasCycle m.allDownOf m.ids := by
  obtain ⟨m1, lk, h1, hrevs, hlk, hchk, hdc, hids, hdown, hall, hnext, hanext, hnorm, hnone⟩ := load_graph hl
  intro hc
  apply detect_rejects_cycle (withNorm o m1) _ hdc
  have hk2 := withNorm_keeps o m1
  have hids2 : (withNorm o m1).ids = m1.ids := ids_mapRevs m1 _ (fun r => (hk2 r).1)
  have hall2 : ∀ i, (withNorm o m1).allDownOf i = m1.allDownOf i := allDownOf_mapRevs m1 _ hk2
  obtain ⟨S, hne, hS⟩ := hc
  refine ⟨S, hne, ?_⟩
  intro x hx
  obtain ⟨h1', p, hp, hpS⟩ := hS x hx
  exact ⟨by rw [hids2, ← hids]; exact h1', p, by rw [hall2, ← hall]; exact hp, hpS⟩

/-- **C15, "an acyclic history is never rejected".** If the revision objects can be built and
the links are acyclic, `_detect_cycles` accepts: the only ways a well-formed acyclic history
can fail to load are the non-cycle errors of phase 1. -/
theorem acyclic_accepted {h : Hist} {m1 : LMap} (o : LoadOpts) (h1 : loadPhase1 h = .ok m1)
    (hu : (h.map (·.id)).Nodup) (hd : ∀ r ∈ h, ∀ d ∈ r.down, d ∈ h.map (·.id))
    (hac : Acyclic m1.allDownOf) : detectCycles (withNorm o m1) = .ok () := by
  obtain ⟨rank, hr⟩ := hac
  have G := graphFacts_of_phase1 o h1 hu hd
  apply detect_ok_of_ranked G rank
  intro i p hp
  have e : (withNorm o m1).allDownOf i = m1.allDownOf i := allDownOf_mapRevs m1 _ (withNorm_keeps o m1) i
  rw [e] at hp
  exact hr i p hp

/-- the same, as a statement about `load`: a well-formed acyclic history loads unless the
    observed set order handed to the model is not an order (never the case for the real code) -/
theorem acyclic_loads {h : Hist} {m1 : LMap} (o : LoadOpts) (h1 : loadPhase1 h = .ok m1)
    (hu : (h.map (·.id)).Nodup) (hd : ∀ r ∈ h, ∀ d ∈ r.down, d ∈ h.map (·.id))
    (hac : Acyclic m1.allDownOf) (hord : normOrderOk o m1 = true) :
    ∃ m, load h o = .ok m := by
  have := acyclic_accepted o h1 hu hd hac
  refine ⟨addBranches (withNorm o m1), ?_⟩
  unfold load
  simp [h1, bind, Except.bind, hord, this, pure, Except.pure]

/-- **Heads and bases of an accepted history are the graph-theoretic ones**: heads = revisions
that are nobody's down-revision, real heads = revisions nobody links to, bases = revisions
without down-revision, real bases = revisions without any link. -/
theorem heads_bases {h : Hist} {o : LoadOpts} {m : LMap} (hl : load h o = .ok m)
    (hu : (h.map (·.id)).Nodup) (hd : ∀ r ∈ h, ∀ d ∈ r.down, d ∈ h.map (·.id)) :
    (∀ x, x ∈ m.heads ↔ x ∈ m.ids ∧ ∀ c ∈ m.ids, x ∉ m.downOf c) ∧
    (∀ x, x ∈ m.realHeads ↔ x ∈ m.ids ∧ ∀ c ∈ m.ids, x ∉ m.allDownOf c) ∧
    (∀ x, x ∈ m.bases ↔ x ∈ m.ids ∧ m.downOf x = []) ∧
    (∀ x, x ∈ m.realBases ↔ x ∈ m.ids ∧ m.allDownOf x = []) := by
  obtain ⟨m1, h1, hdc, hm⟩ := load_ok hl
  have G := graphFacts_of_phase1 o h1 hu hd
  obtain ⟨f3, hk3, hn3, hm3⟩ := addBranches_eq (withNorm o m1)
  have hids : m.ids = (withNorm o m1).ids := by rw [hm, hm3]; exact ids_mapRevs _ _ (fun r => (hk3 r).1)
  have hdown : ∀ i, m.downOf i = (withNorm o m1).downOf i := by
    intro i; rw [hm, hm3]; exact downOf_mapRevs _ _ hk3 i
  have hall : ∀ i, m.allDownOf i = (withNorm o m1).allDownOf i := by
    intro i; rw [hm, hm3]; exact allDownOf_mapRevs _ _ hk3 i
  have hH : m.heads = (withNorm o m1).heads := by rw [hm, hm3]
  have hRH : m.realHeads = (withNorm o m1).realHeads := by rw [hm, hm3]
  have hB : m.bases = (withNorm o m1).bases := by rw [hm, hm3]
  have hRB : m.realBases = (withNorm o m1).realBases := by rw [hm, hm3]
  refine ⟨?_, ?_, ?_, ?_⟩
  · intro x; rw [hH, hids, G.heads_def x]; simp only [hdown]
  · intro x; rw [hRH, hids, G.realHeads_def x]; simp only [hall]
  · intro x; rw [hB, hids, G.bases_def x, hdown]
  · intro x; rw [hRB, hids, G.realBases_def x, hall]

/-- **Heads and bases in terms of the history as written**: the four tuples the loaded map
reports are exactly what the oracle computes from the files (`Spec.Rev.headsOf` … `realBasesOf`):
heads = revisions no file names as `down_revision`, real heads = revisions no file names at all,
bases = files without `down_revision`, real bases = files without any link. -/
theorem heads_bases_history {h : Hist} {o : LoadOpts} {m : LMap} (hl : load h o = .ok m)
    (hu : (h.map (·.id)).Nodup) (hd : ∀ r ∈ h, ∀ d ∈ r.down, d ∈ h.map (·.id)) :
    (∀ x, x ∈ m.heads ↔ x ∈ headsOf h) ∧ (∀ x, x ∈ m.realHeads ↔ x ∈ realHeadsOf h) ∧
    (∀ x, x ∈ m.bases ↔ x ∈ basesOf h) ∧ (∀ x, x ∈ m.realBases ↔ x ∈ realBasesOf h) := by
  obtain ⟨h1, h2, h3, h4⟩ := heads_bases hl hu hd
  obtain ⟨m1, _, hp1, _, _, _, _, hids, _⟩ := load_graph hl
  obtain ⟨_, _, _, _, _, hids1, _⟩ := phase1_graph hp1 hu
  have hidseq : m.ids = ids h := by rw [hids, hids1]; rfl
  have hdn : ∀ i, m.downOf i = downParents h i := fun i => downOf_eq_downParents hl hu i
  have hall : ∀ i p, p ∈ m.allDownOf i ↔ p ∈ parents h i := fun i p => allDownOf_mem_iff_parents hl hu i p
  refine ⟨?_, ?_, ?_, ?_⟩
  · intro x
    rw [h1 x, hidseq]
    unfold headsOf downChildren
    simp only [List.mem_filter, List.isEmpty_iff, List.filter_eq_nil_iff, decide_eq_true_eq]
    constructor
    · rintro ⟨hx, hn⟩; exact ⟨hx, fun c hc hxc => hn c hc (by rw [hdn c]; exact hxc)⟩
    · rintro ⟨hx, hn⟩; exact ⟨hx, fun c hc hxc => hn c hc (by rw [← hdn c]; exact hxc)⟩
  · intro x
    rw [h2 x, hidseq]
    unfold realHeadsOf children
    simp only [List.mem_filter, List.isEmpty_iff, List.filter_eq_nil_iff, decide_eq_true_eq]
    constructor
    · rintro ⟨hx, hn⟩; exact ⟨hx, fun c hc hxc => hn c hc ((hall c x).mpr hxc)⟩
    · rintro ⟨hx, hn⟩; exact ⟨hx, fun c hc hxc => hn c hc ((hall c x).mp hxc)⟩
  · intro x
    rw [h3 x, hidseq, hdn x]
    unfold basesOf
    simp [List.mem_filter, List.isEmpty_iff]
  · intro x
    rw [h4 x, hidseq]
    unfold realBasesOf
    simp only [List.mem_filter, List.isEmpty_iff, decide_eq_true_eq]
    constructor
    · rintro ⟨hx, hn⟩
      refine ⟨hx, ?_⟩
      apply List.eq_nil_iff_forall_not_mem.mpr
      intro p hp
      have := (hall x p).mpr hp
      rw [hn] at this; simp at this
    · rintro ⟨hx, hn⟩
      refine ⟨hx, ?_⟩
      apply List.eq_nil_iff_forall_not_mem.mpr
      intro p hp
      have := (hall x p).mp hp
      rw [hn] at this; simp at this

/-- **Every traversal of an accepted history terminates with the full answer**: the closure
loop never runs out of its fuel (it returns exactly the reachable set), and the topological sort
never runs out of fuel (`C01.sort_total`, `C02.plan_of_set`). -/
theorem closure_total (m : LMap) (targets : List Id) (x : Id) :
    x ∈ m.ancestors targets ↔ ∃ t ∈ targets, Reach m.normDownOf t x :=
  mem_ancestors_iff m targets x

/-! ### the oracle `Spec.Rev.hasCycle` -/

theorem reach_support {succ : Id → List Id} {a b : Id} (hr : Reach succ a b) :
    ∃ S : List Id, a ∈ S ∧ b ∈ S ∧ ∀ x ∈ S, x = b ∨ ∃ q ∈ succ x, q ∈ S := by
  induction hr with
  | refl a => exact ⟨[a], by simp, by simp, by simp⟩
  | @step a b' c hs _ ih =>
    obtain ⟨S, h1, h2, h3⟩ := ih
    refine ⟨a :: S, List.mem_cons_self, List.mem_cons_of_mem _ h2, ?_⟩
    intro x hx
    rcases List.mem_cons.mp hx with e | hxS
    · subst e; exact Or.inr ⟨b', hs, List.mem_cons_of_mem _ h1⟩
    · rcases h3 x hxS with e | ⟨q, hq, hqS⟩
      · exact Or.inl e
      · exact Or.inr ⟨q, hq, List.mem_cons_of_mem _ hqS⟩

/-- **When the oracle says "cyclic" the history as written contains a directed cycle** of
down-revision / dependency links (so the implementation must refuse it). -/
theorem hasCycle_sound (h : Hist) (hc : Spec.Rev.hasCycle h = true) : HasCycle (parents h) (ids h) := by
  unfold Spec.Rev.hasCycle at hc
  simp only [List.any_eq_true, decide_eq_true_eq] at hc
  obtain ⟨i, _, p, hp, hanc⟩ := hc
  obtain ⟨r, hr, hreach⟩ := (mem_ancSet_iff h [p] i).mp hanc
  simp only [List.mem_singleton] at hr
  subst hr
  obtain ⟨S, h1, h2, h3⟩ := reach_support hreach
  have hsucc : ∀ x ∈ S, ∃ q ∈ parents h x, q ∈ S := by
    intro x hx
    rcases h3 x hx with e | h'
    · subst e; exact ⟨r, hp, h1⟩
    · exact h'
  refine ⟨S, List.ne_nil_of_mem h1, fun x hx => ⟨?_, hsucc x hx⟩⟩
  -- a revision with a prerequisite is a revision of the history
  obtain ⟨q, hq, _⟩ := hsucc x hx
  unfold parents at hq
  cases hrev : revOf h x with
  | none => simp [hrev] at hq
  | some rv =>
    unfold revOf at hrev
    have hm := List.mem_of_find?_eq_some hrev
    have he := List.find?_some hrev
    simp only [beq_iff_eq] at he
    unfold ids
    exact List.mem_map.mpr ⟨rv, hm, he⟩

/-- **On a finite graph "no directed cycle" and "admits a rank function" are the same thing**
(the other half is `acyclic_no_cycle`): rank a vertex by the number of vertices reachable from
its successors. -/
theorem no_cycle_acyclic (succ : Id → List Id) (ids : List Id)
    (hclosed : ∀ x, ∀ p ∈ succ x, p ∈ ids ∧ x ∈ ids) (hno : ¬ HasCycle succ ids) : Acyclic succ := by
  let below : Id → Id → Bool := fun x y => @decide (∃ q ∈ succ x, Reach succ q y) (Classical.propDecidable _)
  refine ⟨fun x => (ids.filter (below x)).length, ?_⟩
  intro i p hp
  apply filter_length_lt (w := p)
  · intro y hy
    have hy' : ∃ q ∈ succ p, Reach succ q y := by simpa [below] using hy
    obtain ⟨q, hq, hr⟩ := hy'
    have : ∃ q' ∈ succ i, Reach succ q' y := ⟨p, hp, Reach.step hq hr⟩
    simpa [below] using this
  · exact (hclosed i p hp).1
  · have : ∃ q' ∈ succ i, Reach succ q' p := ⟨p, hp, Reach.refl p⟩
    simpa [below] using this
  · have hnp : ¬ ∃ q ∈ succ p, Reach succ q p := by
      rintro ⟨q, hq, hr⟩
      apply hno
      obtain ⟨S, h1, h2, h3⟩ := reach_support hr
      have hsucc : ∀ x ∈ S, ∃ q' ∈ succ x, q' ∈ S := by
        intro x hx
        rcases h3 x hx with e | h'
        · subst e; exact ⟨q, hq, h1⟩
        · exact h'
      refine ⟨S, List.ne_nil_of_mem h1, fun x hx => ⟨?_, hsucc x hx⟩⟩
      obtain ⟨q', hq', _⟩ := hsucc x hx
      exact (hclosed x q' hq').2
    simpa [below] using hnp

/-- **C15, "an acyclic history is never rejected", stated with cycles**: a well-formed history
without a directed cycle among its links passes `_detect_cycles`. -/
theorem no_cycle_accepted {h : Hist} {m1 : LMap} (o : LoadOpts) (h1 : loadPhase1 h = .ok m1)
    (hu : (h.map (·.id)).Nodup) (hd : ∀ r ∈ h, ∀ d ∈ r.down, d ∈ h.map (·.id))
    (hno : ¬ HasCycle m1.allDownOf m1.ids) : detectCycles (withNorm o m1) = .ok () := by
  have G := graphFacts_of_phase1 o h1 hu hd
  have e : ∀ i, (withNorm o m1).allDownOf i = m1.allDownOf i :=
    fun i => allDownOf_mapRevs m1 _ (withNorm_keeps o m1) i
  have eids : (withNorm o m1).ids = m1.ids := ids_mapRevs m1 _ (fun r => (withNorm_keeps o m1 r).1)
  apply acyclic_accepted o h1 hu hd
  apply no_cycle_acyclic m1.allDownOf m1.ids _ hno
  intro x p hp
  constructor
  · have := G.refs_closed x p (by rw [e x]; exact hp)
    rw [eids] at this; exact this
  · apply Classical.byContradiction
    intro hx
    rw [allDownOf_nil m1 x hx] at hp
    simp at hp

/-- **…and conversely: when the history contains a directed cycle the oracle says "cyclic"**, so a
"no cycle" verdict means the history as written is acyclic (and the implementation must accept
it).  Among the members of a self-sustaining set take one with the fewest members of the set
reachable from its prerequisites; if no member lay on a cycle, its prerequisite inside the set
would have strictly fewer. -/
theorem hasCycle_complete (h : Hist) (hc : HasCycle (parents h) (ids h)) : Spec.Rev.hasCycle h = true := by
  apply Classical.byContradiction
  intro hno
  -- no revision is reachable from one of its own prerequisites
  have hfree : ∀ i ∈ ids h, ∀ q ∈ parents h i, ¬ Reach (parents h) q i := by
    intro i hi q hq hr
    apply hno
    unfold Spec.Rev.hasCycle
    simp only [List.any_eq_true, decide_eq_true_eq]
    exact ⟨i, hi, q, hq, (mem_ancSet_iff h [q] i).mpr ⟨q, List.mem_singleton.mpr rfl, hr⟩⟩
  obtain ⟨S, hne, hS⟩ := hc
  -- number of members of S reachable from the prerequisites of x
  let below : Id → Id → Bool := fun x y => @decide (∃ q ∈ parents h x, Reach (parents h) q y) (Classical.propDecidable _)
  let mu : Id → Nat := fun x => (S.filter (below x)).length
  obtain ⟨x, hx, hmin⟩ := exists_min_rank mu S hne
  obtain ⟨hxi, p, hp, hpS⟩ := hS x hx
  have hlt : mu p < mu x := by
    apply filter_length_lt (w := p)
    · intro y hy
      have hy' : ∃ q ∈ parents h p, Reach (parents h) q y := by
        simpa [below] using hy
      obtain ⟨q, hq, hr⟩ := hy'
      have : ∃ q' ∈ parents h x, Reach (parents h) q' y := ⟨p, hp, Reach.step hq hr⟩
      simpa [below] using this
    · exact hpS
    · have : ∃ q' ∈ parents h x, Reach (parents h) q' p := ⟨p, hp, Reach.refl p⟩
      simpa [below] using this
    · have hnp : ¬ ∃ q ∈ parents h p, Reach (parents h) q p := by
        rintro ⟨q, hq, hr⟩
        exact hfree p (hS p hpS).1 q hq hr
      simpa [below] using hnp
  have := hmin p hpS
  omega

/-- the cycle oracle decides the existence of a directed cycle in the history as written -/
theorem hasCycle_iff (h : Hist) : Spec.Rev.hasCycle h = true ↔ HasCycle (parents h) (ids h) :=
  ⟨hasCycle_sound h, hasCycle_complete h⟩

/-! ### non-vacuity and the repaired defect -/

/-- the witness of the repaired defect F1 (`a <- (), b <- c, c <- d, d <- (a, c)`): reachable from
    heads and bases, yet cyclic; rejected now -/
def f1 : Hist := [⟨"a", [], [], []⟩, ⟨"b", ["c"], [], []⟩, ⟨"c", ["d"], [], []⟩, ⟨"d", ["a", "c"], [], []⟩]

def isErr {α} (r : Except Err α) (e : Err) : Bool := match r with | .error e' => e' == e | .ok _ => false
def isOk {α} (r : Except Err α) : Bool := match r with | .ok _ => true | .error _ => false

example : isErr (load f1) .cycle = true := by decide +kernel
example : isOk (load [⟨"a", [], [], []⟩, ⟨"b", ["a"], [], []⟩, ⟨"c", ["a"], ["b"], []⟩]) = true := by decide +kernel
example : isErr (load [⟨"a", [], ["c"], []⟩, ⟨"b", ["a"], [], []⟩, ⟨"c", ["b"], [], []⟩]) .depCycle = true := by
  decide +kernel

/-! ### a refused history stays refused: every later read of the same object -/

theorem memo_run_refused (h : Hist) (o : LoadOpts) (e : Err) (hl : load h o = .error e) :
    ∀ (as : List Accessor), Memo.run h o {} as = as.map (fun _ => .error e) := by
  intro as
  induction as with
  | nil => rfl
  | cons a rest ih =>
    simp only [Memo.run, Memo.step, hl, List.map_cons]
    exact congrArg _ ih

/-- **A cyclic history is refused by every read, not only by the first**: on a fresh `RevisionMap`
object, whatever sequence of `_revision_map` / `heads` / `bases` / `_real_heads` / `_real_bases`
reads is made (and so `get_heads()`, `get_bases()`, `get_current_head()`, which only read them),
every one of them raises when the links written in the files contain a directed cycle — nothing
of the rejected graph is ever published (seeded change C15-l published the four tuples before
the cycle check, so the second read answered). -/
theorem cyclic_refused_every_read {h : Hist} {o : LoadOpts} (hu : (h.map (·.id)).Nodup)
    (hc : HasCycle (parents h) (ids h)) (as : List Accessor) :
    ∀ r ∈ Memo.run h o {} as, ∃ e, r = .error e := by
  cases hl : load h o with
  | error e =>
    intro r hr
    rw [memo_run_refused h o e hl as] at hr
    obtain ⟨_, _, he⟩ := List.mem_map.mp hr
    exact ⟨e, he.symm⟩
  | ok m =>
    exfalso
    apply cyclic_rejected hl
    have hidseq : m.ids = ids h := by
      obtain ⟨m1, _, hp1, _, _, _, _, hids, _⟩ := load_graph hl
      obtain ⟨_, _, _, _, _, hids1, _⟩ := phase1_graph hp1 hu
      rw [hids, hids1]; rfl
    obtain ⟨S, hne, hS⟩ := hc
    refine ⟨S, hne, ?_⟩
    intro x hx
    obtain ⟨hxi, p, hp, hpS⟩ := hS x hx
    exact ⟨by rw [hidseq]; exact hxi, p, (allDownOf_mem_iff_parents hl hu x p).mpr hp, hpS⟩

/-- and an accepted history is loaded once: every read answers from the same map -/
theorem memo_run_loaded (h : Hist) (o : LoadOpts) (m : LMap) (hl : load h o = .ok m) :
    ∀ (as : List Accessor), Memo.run h o {} as = as.map (fun a => .ok (a.read m)) := by
  have hs : ∀ (as : List Accessor), Memo.run h o { loaded := some m } as = as.map (fun a => .ok (a.read m)) := by
    intro as
    induction as with
    | nil => rfl
    | cons a rest ih => simp only [Memo.run, Memo.step, List.map_cons]; exact congrArg _ ih
  intro as
  cases as with
  | nil => rfl
  | cons a rest => simp only [Memo.run, Memo.step, hl, List.map_cons]; exact congrArg _ (hs rest)

end C15
