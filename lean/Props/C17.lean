import Lemmas.Gen.Value
import Lemmas.Gen.Incremental
import Lemmas.Gen.Loads
import Spec.Gen
/-!
# C17 — a generated revision file reloads as the revision that was requested

* `repr_*`: the four identifier assignments of `script.py.mako` denote the requested values,
  for ALL strings (corollaries of `Py.repr_roundtrip`).
* `incremental`: `view (addRevision (load h) r) = view (load (h ++ [r]))`, branch labels included
  (full strength since the fix of F5 in `RevisionMap.add_revision`).
* `message_*`: the docstring.  FALSE for arbitrary messages (F12); counterexample and partial.
* `filename_*`: the generated file name is one the loader accepts.
-/
namespace C17
open Model.Rev Model.Gen Model.Py Spec.Gen Lemmas.Gen

/-! ## the identifier assignments -/

/-- **`repr` of a value of the grammar `None | str | tuple of str | list of str` is read back as
    that value**, for every printability oracle and all strings. -/
theorem repr_roundtrip (isP : Char → Bool) (v : PyVal) : Denotes (reprVal isP v) v := by
  have h := parseValPrefix_reprVal isP v []
  simp only [List.append_nil] at h
  simp [Denotes, parseVal, h]

/-- `tuple_rev_as_scalar` followed by `util.to_tuple(…, default=())` is the identity on tuples -/
theorem toTuple_asScalar (xs : List (List Char)) : toTuple (asScalar xs) = xs := by
  match xs with
  | [] => rfl
  | [_] => rfl
  | _ :: _ :: _ => rfl

theorem toTuple_asScalarList (xs : List (List Char)) : toTuple (asScalarList xs) = xs := by
  match xs with
  | [] => rfl
  | [_] => rfl
  | _ :: _ :: _ => rfl

theorem toTuple_labelsVal (xs : List (List Char)) : toTuple (labelsVal xs) = xs := by
  match xs with
  | [] => rfl
  | _ :: _ => rfl

/-- **The file's `revision` is the requested id; `down_revision`, `branch_labels`, `depends_on`
    are read by `Script.__init__` as the requested sequences** - for every id, every tuple of
    down revisions, labels and dependencies (any strings: quotes, backslashes, newlines, non-ASCII). -/
theorem repr_file (isP : Char → Bool) (id : List Char) (down deps labels : List (List Char)) :
    let fv := templateVals id down deps labels
    Denotes (reprVal isP fv.revision) (.str id) ∧
    DenotesSeq (reprVal isP fv.downRevision) down ∧
    DenotesSeq (reprVal isP fv.branchLabels) labels ∧
    DenotesSeq (reprVal isP fv.dependsOn) deps := by
  refine ⟨repr_roundtrip isP _, ?_, ?_, ?_⟩
  · simp [DenotesSeq, templateVals, toTuple_asScalar,
      show parseVal (reprVal isP (asScalar down)) = some (asScalar down) from repr_roundtrip isP _]
  · simp [DenotesSeq, templateVals, toTuple_labelsVal,
      show parseVal (reprVal isP (labelsVal labels)) = some (labelsVal labels) from repr_roundtrip isP _]
  · simp [DenotesSeq, templateVals, toTuple_asScalarList,
      show parseVal (reprVal isP (asScalarList deps)) = some (asScalarList deps) from repr_roundtrip isP _]

/-- `repr` is injective on the value grammar: two different requests never give the same text -/
theorem repr_injective (isP isP' : Char → Bool) (v w : PyVal) (h : reprVal isP v = reprVal isP' w) : v = w := by
  have a := repr_roundtrip isP v
  have b := repr_roundtrip isP' w
  unfold Denotes at a b
  rw [h, b] at a
  exact (Option.some.inj a).symm

-- non-vacuity / the recogniser rejects wrong texts
example : reprVal (fun _ => true) (.tuple ["it's".toList, "b\\".toList]) = "(\"it's\", 'b\\\\')".toList := by decide
example : reprVal (fun _ => true) (.tuple ["a".toList]) = "('a',)".toList := by decide
example : reprVal (fun _ => true) (.list ["a".toList, "b".toList]) = "['a', 'b']".toList := by decide
example : denotesB "'a'".toList (.str "b".toList) = false := by decide
example : denotesB "('a' 'b')".toList (.tuple ["a".toList, "b".toList]) = false := by decide
example : denotesB "a".toList (.str "a".toList) = false := by decide   -- a value written without `repr`
example : denotesSeqB "('a', 'b')".toList ["a".toList] = false := by decide

/-! ## the incremental map versus a fresh load -/

/-- what `generate_revision` guarantees about the revision it hands to `add_revision`: a new id,
    down revisions that are revisions of the map, dependencies that resolve in the map, new and
    distinct branch labels, no self reference -/
def acceptedB (m : LMap) (r : Rev) : Bool :=
  !hasKey m r.id &&
  (match checkRev r with | .ok _ => true | .error _ => false) &&
  r.down.all (· ∈ m.ids) &&
  r.deps.all (hasKey m ·) &&
  r.labels.all (fun l => !hasKey m l && l != r.id) &&
  r.labels.Nodup

def Accepted (m : LMap) (r : Rev) : Prop := acceptedB m r = true

/-- the same conclusion for histories that need not be well formed, given that the extended
    history loads: `add_revision` succeeds and the views coincide -/
theorem incremental_given_reload (h : Hist) (r : Rev) (m mf : LMap) (hl : load h = .ok m)
    (hf : load (h ++ [r]) = .ok mf) (ha : Accepted m r) :
    ∃ m', addRevision m r = .ok m' ∧ view m' = view mf := by
  unfold Accepted acceptedB at ha
  simp only [Bool.and_eq_true, Bool.not_eq_true', List.all_eq_true] at ha
  obtain ⟨⟨⟨⟨⟨hid, _⟩, _⟩, hdeps⟩, _⟩, _⟩ := ha
  obtain ⟨h1, h2⟩ := Lemmas.Gen.incremental_view h r m mf hl hf hid hdeps
  exact ⟨_, h1, h2⟩

/-- **C17.incremental: the in-memory map after `add_revision` IS the reloaded map** - the full
    view, branch labels included (true since the fix of F5 in `add_revision`).
    For EVERY well-formed history `h` (unique ids, every down revision present) that loads and
    EVERY revision `r` accepted by `generate_revision` (new id, no self reference, down revisions
    in the map, dependencies that resolve in the map, new distinct labels; nothing is assumed
    about heads/splice or the shape of the graph):
    `add_revision` succeeds, the extended history loads (cycle detection accepts it), and
    `view (addRevision (load h) r) = view (load (h ++ [r]))` - ids in map order, down revisions,
    resolved and normalised dependencies, branch labels per revision, children (`nextrev`,
    `_all_nextrev`), branch-label keys, heads, real heads, bases, real bases. -/
theorem incremental (h : Hist) (r : Rev) (m : LMap) (hl : load h = .ok m)
    (hu : (h.map (·.id)).Nodup) (hd : ∀ r0 ∈ h, ∀ d ∈ r0.down, d ∈ h.map (·.id)) (ha : Accepted m r) :
    ∃ m' mf, addRevision m r = .ok m' ∧ load (h ++ [r]) = .ok mf ∧ view m' = view mf := by
  have ha' := ha
  unfold Accepted acceptedB at ha'
  simp only [Bool.and_eq_true, Bool.not_eq_true', List.all_eq_true, decide_eq_true_eq, bne_iff_ne, ne_eq] at ha'
  obtain ⟨⟨⟨⟨⟨hid, hcr⟩, hdown⟩, hdeps⟩, hlab⟩, hnd⟩ := ha'
  have hcr' : checkRev r = .ok () := by
    cases hc : checkRev r with
    | ok u => cases u; rfl
    | error e => rw [hc] at hcr; simp at hcr
  obtain ⟨mf, hf⟩ := Lemmas.Gen.loads_ext h r m hl hu hd hid hcr' hdown hdeps
    (fun l hl' => by have := hlab l hl'; exact ⟨this.1, this.2⟩) (by simpa using hnd)
  obtain ⟨m', h1, h2⟩ := incremental_given_reload h r m mf hl hf ha
  exact ⟨m', mf, h1, hf, h2⟩

/-- decidable form, for concrete histories -/
def incrementalOkB (h : Hist) (r : Rev) : Bool :=
  match load h with
  | .error _ => true
  | .ok m =>
    !acceptedB m r ||
    (match addRevision m r, load (h ++ [r]) with
     | .ok a, .ok b => decide (view a = view b)
     | _, _ => false)

/-- the former F5 witness (`a` carries the label `L`; `d` is generated on top of `a`): with the
    label recomputation in `add_revision` the two views agree, labels included -/
def f5History : Hist := [{ id := "a", down := [], deps := [], labels := ["L"] }]
def f5Revision : Rev := { id := "d", down := ["a"], deps := [], labels := [] }
example : incrementalOkB f5History f5Revision = true := by decide +kernel
example : (match load f5History with | .ok m => acceptedB m f5Revision | _ => false) = true := by decide +kernel

/-- the hypotheses of `incremental` are satisfiable (a labelled merge of two heads with a dependency) -/
example :
    let h : Hist := [{ id := "a", down := [], deps := [], labels := ["L"] }, { id := "b", down := ["a"], deps := [], labels := [] },
                     { id := "c", down := ["a"], deps := [], labels := [] }, { id := "e", down := [], deps := [], labels := [] }]
    let r : Rev := { id := "d", down := ["b", "c"], deps := ["e"], labels := ["M"] }
    (match load h, load (h ++ [r]) with
     | .ok m, .ok _ => acceptedB m r && incrementalOkB h r
     | _, _ => false) = true := by decide +kernel

/-! ## branch labels are checked before anything is written (since the fix of F14) -/

theorem labelsFree_spec : ∀ (ls taken : List String), labelsFree taken ls = true →
    ls.Nodup ∧ ∀ l ∈ ls, l ∉ taken := by
  intro ls
  induction ls with
  | nil => intro taken _; simp
  | cons x ls ih =>
    intro taken h
    simp only [labelsFree, Bool.and_eq_true, Bool.not_eq_true', decide_eq_false_iff_not] at h
    obtain ⟨hn, hrest⟩ := ih (x :: taken) h.2
    refine ⟨List.nodup_cons.mpr ⟨fun hx => (hrest x hx) (by simp), hn⟩, ?_⟩
    intro l hl
    rcases List.mem_cons.mp hl with rfl | hl
    · exact h.1
    · exact fun ht => hrest l hl (by simp [ht])

theorem not_mem_keysOf (m : LMap) (l : String) (h : l ∉ keysOf m) : hasKey m l = false := by
  unfold keysOf at h
  simp only [List.mem_append, List.mem_map, not_or, not_exists, not_and] at h
  unfold hasKey
  simp only [Bool.or_eq_false_iff, decide_eq_false_iff_not]
  refine ⟨h.1, ?_⟩
  rw [List.any_eq_false]
  intro p hp he
  exact h.2 p hp (by simpa using he)

/-- **An accepted call's id and labels are fresh**: whatever `generate_revision` hands to the
    template has the requested id and labels; the id is not a key of the map (neither a revision
    id nor a branch label), the labels are pairwise distinct, none of them a key of the map or the
    new id - for every map and all arguments. -/
theorem generate_labels_fresh (m : LMap) (a : GenArgs) (r : Rev) (h : generateRevision m a = .ok r) :
    r.id = a.revid ∧ r.labels = a.labels ∧ hasKey m r.id = false ∧ r.labels.Nodup ∧
      ∀ l ∈ r.labels, hasKey m l = false ∧ l ≠ r.id := by
  unfold generateRevision at h
  split at h
  · simp at h
  · split at h
    · simp at h
    · rename_i hid
      split at h
      · rename_i hfree
        split at h
        · simp at h
        · split at h
          · simp only [Except.ok.injEq] at h
            subst h
            obtain ⟨hn, hf⟩ := labelsFree_spec _ _ hfree
            refine ⟨rfl, rfl, not_mem_keysOf m _ hid, hn, ?_⟩
            intro l hl
            have := hf l hl
            simp only [List.mem_cons, not_or] at this
            exact ⟨not_mem_keysOf m l this.2, this.1⟩
          · simp at h
      · simp at h

/-- `generate_revision` raises nothing but the error classes of its checks: when the other
    arguments resolve, the only possible refusal is `CommandError` -/
theorem generate_error_kind (m : LMap) (a : GenArgs) (x : List Id × List String) (hx : resolveArgs m a = .ok x) (e : Err)
    (hg : generateRevision m a = .error e) : e = .commandError := by
  unfold generateRevision at hg
  rw [hx] at hg
  simp only at hg
  split at hg
  · simp only [Except.error.injEq] at hg; exact hg.symm
  · split at hg
    · split at hg
      · simp only [Except.error.injEq] at hg; exact hg.symm
      · split at hg
        · simp at hg
        · simp only [Except.error.injEq] at hg; exact hg.symm
    · simp only [Except.error.injEq] at hg; exact hg.symm

/-- **A text the output encoding cannot represent is refused before the write**: if the arguments
    resolve but some character handed to the template cannot be encoded, `generate_revision` raises
    `CommandError` (and, `stepCall_refused`, no file appears and the map is untouched). -/
theorem generate_refuses_unencodable (m : LMap) (a : GenArgs) (x : List Id × List String) (hx : resolveArgs m a = .ok x)
    (he : a.encodable = false) : generateRevision m a = .error .commandError := by
  cases hg : generateRevision m a with
  | error e => rw [generate_error_kind m a x hx e hg]
  | ok r =>
    unfold generateRevision at hg
    rw [hx] at hg
    simp only [he] at hg
    split at hg
    · simp at hg
    · split at hg
      · split at hg <;> simp at hg
      · simp at hg

/-- **A file name that is already taken is refused before the write** (the repair of F17): if the
    arguments resolve and the version path already holds a file with the name the template gives this
    call, `generate_revision` raises `CommandError` (and, `stepCall_refused`, no file is replaced and the
    map is untouched) - two accepted calls never share a file. -/
theorem generate_refuses_taken_file (m : LMap) (a : GenArgs) (x : List Id × List String) (hx : resolveArgs m a = .ok x)
    (ht : a.fileTaken = true) : generateRevision m a = .error .commandError := by
  cases hg : generateRevision m a with
  | error e => rw [generate_error_kind m a x hx e hg]
  | ok r =>
    unfold generateRevision at hg
    rw [hx] at hg
    simp only [ht] at hg
    split at hg
    · simp at hg
    · split at hg <;> simp at hg

/-- the default template joins the id and the slug with `_`, so two different ids can give one name
    (`a_b` + `c` and `a` + `b_c`): the situation `generate_refuses_taken_file` is about -/
example : fileName "%(rev)s_%(slug)s".toList { rev := "a_b".toList, slug := "c".toList, epoch := 0, year := 0, month := 0, day := 0, hour := 0, minute := 0, second := 0 } =
    fileName "%(rev)s_%(slug)s".toList { rev := "a".toList, slug := "b_c".toList, epoch := 0, year := 0, month := 0, day := 0, hour := 0, minute := 0, second := 0 } := by
  decide

/-- **A revision id that is already present is refused before the write**: if the other arguments
    resolve and the requested id is a key of the map (an existing revision id or branch label),
    `generate_revision` raises `CommandError`. -/
theorem generate_refuses_present_id (m : LMap) (a : GenArgs) (x : List Id × List String) (hx : resolveArgs m a = .ok x)
    (hk : hasKey m a.revid = true) : generateRevision m a = .error .commandError := by
  cases hg : generateRevision m a with
  | error e => rw [generate_error_kind m a x hx e hg]
  | ok r =>
    obtain ⟨hid, _, hf, _, _⟩ := generate_labels_fresh m a r hg
    rw [hid, hk] at hf; simp at hf

/-- **A taken label is refused before the write**: if the other arguments resolve and some
    requested label is a key of the map, equals the new id, or is repeated within the call, then
    `generate_revision` raises `CommandError` (and, `stepCall_refused`, nothing changes). -/
theorem generate_refuses_taken_label (m : LMap) (a : GenArgs) (x : List Id × List String) (hx : resolveArgs m a = .ok x)
    (ht : (∃ l ∈ a.labels, hasKey m l = true ∨ l = a.revid) ∨ ¬ a.labels.Nodup) :
    generateRevision m a = .error .commandError := by
  cases hg : generateRevision m a with
  | error e => rw [generate_error_kind m a x hx e hg]
  | ok r =>
    obtain ⟨hid, hl, _, hn, hf⟩ := generate_labels_fresh m a r hg
    rcases ht with ⟨l, hlm, hk⟩ | hnd
    · have := hf l (hl ▸ hlm)
      rcases hk with hk | hk
      · rw [this.1] at hk; simp at hk
      · exact absurd (hk.trans hid.symm) this.2
    · exact absurd (hl ▸ hn) hnd

/-- the label step of `add_revision` (`_map_branch_labels`, the only place where a label was
    refused before the fix) cannot raise for a revision `generate_revision` has let through: no
    file is ever written and then refused because of its branch labels -/
theorem accepted_labels_pass_add_revision (m : LMap) (a : GenArgs) (r : Rev) (h : generateRevision m a = .ok r) :
    addLabelKeys (m.ids ++ [r.id]) r.id r.labels m.labelKeys = .ok (m.labelKeys ++ r.labels.map (fun l => (l, r.id))) := by
  obtain ⟨_, _, _, hn, hf⟩ := generate_labels_fresh m a r h
  apply Lemmas.Gen.addLabelKeys_intro _ _ _ _ hn
  intro l hl
  obtain ⟨hk, hne⟩ := hf l hl
  obtain ⟨h1, h2⟩ := Lemmas.Gen.hasKey_false m l hk
  exact ⟨by simp [h1, hne], h2⟩

/-- **A refused call leaves the state unchanged**: files on disk and in-memory map -/
theorem stepCall_refused (st : Hist × LMap) (a : GenArgs) (e : Err) (h : genCall st.2 a = .error e) :
    stepCall st a = st := by
  simp [stepCall, h]

-- non-vacuity: a taken label is refused, a fresh one is accepted, on a loaded map
example : (match load f5History with
    | .ok m => (match generateRevision m { revid := "d", heads := ["head"], splice := false, labels := ["L"], deps := [] } with
                | .error .commandError => true | _ => false) &&
               (match generateRevision m { revid := "d", heads := ["head"], splice := false, labels := ["d"], deps := [] } with
                | .error .commandError => true | _ => false) &&
               (match generateRevision m { revid := "d", heads := ["head"], splice := false, labels := ["M", "M"], deps := [] } with
                | .error .commandError => true | _ => false) &&
               (match generateRevision m { revid := "a", heads := ["head"], splice := false, labels := [], deps := [] } with
                | .error .commandError => true | _ => false) &&
               (match generateRevision m { revid := "L", heads := ["base"], splice := false, labels := [], deps := [] } with
                | .error .commandError => true | _ => false) &&
               (match generateRevision m { revid := "d", heads := ["head"], splice := false, labels := ["M"], deps := ["L@head"] } with
                | .ok r => r.down == ["a"] && r.deps == ["a"] && r.labels == ["M"] | _ => false)
    | _ => false) = true := by decide +kernel

/-! ## the docstring -/

/-- FULL STATEMENT (false, F12): whatever the message, the docstring closes where the template closes it -/
def message_statement : Prop :=
  ∀ (message revid : List Char) (down : List (List Char)) (date : List Char), docOk message revid down date = true

/-- **F12**: the message `C:\xyz` makes a malformed `\x` escape -/
theorem message_counterexample : ¬ message_statement := by
  intro h
  have := h "C:\\xyz".toList "f12a".toList [] "2024-01-02 03:04:05".toList
  revert this
  decide

theorem message_counterexample_triple_quote :
    docOk "a \"\"\" b".toList "f12a".toList [] "2024-01-02 03:04:05".toList = false := by decide

/-- text without `"`, backslash and NUL cannot end the literal or start an escape -/
theorem docScan_safe (body rest : List Char) (hb : body.all safeDocChar = true) :
    docScan .normal (body ++ '"' :: '"' :: '"' :: rest) = some rest := by
  induction body with
  | nil => simp [docScan]
  | cons c b ih =>
    simp only [List.all_cons, Bool.and_eq_true] at hb
    have hc := hb.1
    simp only [safeDocChar, Bool.not_eq_true', Bool.or_eq_false_iff, decide_eq_false_iff_not] at hc
    obtain ⟨⟨h1, h2⟩, h3⟩ := hc
    simp [docScan, h1, h2, h3, ih hb.2]

theorem commaJoin_safe (down : List (List Char)) (hd : ∀ d ∈ down, d.all safeDocChar = true) :
    (commaJoin down).all safeDocChar = true := by
  induction down with
  | nil => rfl
  | cons x r ih =>
    cases r with
    | nil => simpa [commaJoin] using hd x (by simp)
    | cons y r' =>
      have hx := hd x (by simp)
      have hr := ih (fun d hdm => hd d (by simp [hdm]))
      simp only [commaJoin, List.all_append, List.all_cons, Bool.and_eq_true] at hr ⊢
      exact ⟨hx, by decide, by decide, hr⟩

/-- **Docstring, partial**: when the message, the revision ids and the date contain no `"`, no
    backslash and no NUL, the docstring of the generated file closes exactly where the template
    closes it (and contains no escape): the file's first statement is a well-formed string literal. -/
theorem message_partial (message revid : List Char) (down : List (List Char)) (date : List Char)
    (hm : message.all safeDocChar = true) (hr : revid.all safeDocChar = true)
    (hd : ∀ d ∈ down, d.all safeDocChar = true) (hdt : date.all safeDocChar = true) :
    docOk message revid down date = true := by
  have hj := commaJoin_safe down hd
  have hb : (docBody message revid down date).all safeDocChar = true := by
    simp only [docBody, List.all_append, Bool.and_eq_true]
    exact ⟨⟨⟨⟨⟨⟨⟨hm, by decide⟩, hr⟩, by decide⟩, hj⟩, by decide⟩, hdt⟩, by decide⟩
  have := docScan_safe (docBody message revid down date) ['\n'] hb
  simp only [docOk]
  have e : "\"\"\"\n".toList = '"' :: '"' :: '"' :: ['\n'] := by decide
  rw [e, this]
  rfl

example : docOk "add user table, it's fine".toList "a1b2".toList ["c3".toList, "d4".toList] "2024-01-02 03:04:05.123".toList = true := by decide

/-! ## the file name -/

/-- **the generated name always ends in `.py`** (every template, every field value) -/
theorem filename_suffix (template : List Char) (f : Fields) (name : List Char) (h : fileName template f = some name) :
    ".py".toList <:+ name := by
  unfold fileName at h
  split at h
  · simp at h
  · simp only [Option.map_eq_some_iff] at h
    obtain ⟨a, _, rfl⟩ := h
    exact List.suffix_append _ _

/-- `Script._from_filename` accepts a name ending in `.py` unless it starts with `.#` or
    `__init__.` or contains a line break -/
theorem filename_accepted (template : List Char) (f : Fields) (name : List Char) (h : fileName template f = some name)
    (h1 : ".#".toList.isPrefixOf name = false) (h2 : "__init__.".toList.isPrefixOf name = false)
    (h3 : name.contains '\n' = false) :
    isRevFile name = true := by
  have hs := filename_suffix template f name h
  unfold isRevFile
  rw [h1, h2, h3, List.isSuffixOf_iff_suffix.mpr hs]
  rfl

/-- the default template `%(rev)s_%(slug)s` gives `<rev>_<slug>.py` -/
theorem filename_default (f : Fields) :
    fileName "%(rev)s_%(slug)s".toList f = some (f.rev ++ '_' :: (f.slug ++ ".py".toList)) := by
  have hp : parseTemplate .normal "%(rev)s_%(slug)s".toList =
      some [.field "rev".toList false 0 none 's', .lit '_', .field "slug".toList false 0 none 's'] := by decide
  unfold fileName
  rw [hp]
  simp [renderToks, renderTok, padLeft]

/-- FULL STATEMENT (false): every accepted revision id gives a loadable file name -/
def filename_statement : Prop :=
  ∀ (f : Fields) (name : List Char), fileName "%(rev)s_%(slug)s".toList f = some name → isRevFile name = true

/-- a revision id starting with `.#` (legal for `verify_rev_id`) gives a name the loader skips:
    `generate_revision` returns `None` and the file is never loaded -/
theorem filename_counterexample : ¬ filename_statement := by
  intro h
  have := h { rev := ".#x".toList, slug := "m".toList, epoch := 0, year := 0, month := 0, day := 0, hour := 0, minute := 0, second := 0 }
    ".#x_m.py".toList (by decide)
  revert this
  decide

/-- **File name, default template, partial**: a revision id that starts with a letter or digit and
    a slug (word characters only), neither containing a line break, give a name the loader accepts. -/
theorem filename_default_partial (f : Fields) (c : Char) (rest : List Char) (hrev : f.rev = c :: rest)
    (hc : c.isAlphanum = true) (hn1 : '\n' ∉ f.rev) (hn2 : '\n' ∉ f.slug) :
    ∃ name, fileName "%(rev)s_%(slug)s".toList f = some name ∧ isRevFile name = true := by
  refine ⟨_, filename_default f, ?_⟩
  have hdot : c ≠ '.' := by intro e; subst e; revert hc; decide
  have hus : c ≠ '_' := by intro e; subst e; revert hc; decide
  apply filename_accepted _ f _ (filename_default f)
  · rw [hrev]; simp [List.isPrefixOf, Ne.symm hdot]
  · rw [hrev]; simp [List.isPrefixOf, Ne.symm hus]
  · simp only [List.contains_eq_mem, List.mem_append, List.mem_cons, decide_eq_false_iff_not, not_or]
    exact ⟨hn1, by decide, hn2, by decide⟩

/-- with equal slugs the default template is injective in the revision id -/
theorem filename_default_injective (f g : Fields) (hs : f.slug = g.slug)
    (h : fileName "%(rev)s_%(slug)s".toList f = fileName "%(rev)s_%(slug)s".toList g) : f.rev = g.rev := by
  rw [filename_default, filename_default, hs] at h
  simp only [Option.some.injEq] at h
  exact List.append_cancel_right h


/-! ### sequences of calls against the directory: no accepted call replaces a file -/

theorem generate_ok_not_taken (m : LMap) (a : GenArgs) (r : Rev) (h : generateRevision m a = .ok r) :
    a.fileTaken = false := by
  unfold generateRevision at h
  split at h
  · simp at h
  · split at h
    · simp at h
    · split at h
      · split at h
        · simp at h
        · rename_i hf; simpa using hf
      · simp at h

theorem genCall_ok_not_taken (m : LMap) (a : GenArgs) (x : Rev × LMap) (h : genCall m a = .ok x) :
    a.fileTaken = false := by
  unfold genCall at h
  cases hg : generateRevision m a with
  | error e => simp [hg, bind, Except.bind] at h
  | ok r => exact generate_ok_not_taken m a r hg

/-- one call: the files that were there stay, at most the call's own new path is added, and it was not there -/
theorem stepCallF_files (st : DirState) (a : GenArgs) :
    (stepCallF st a).files = st.files ∨
      ∃ f, a.file = some f ∧ f ∉ st.files ∧ (stepCallF st a).files = st.files ++ [f] := by
  unfold stepCallF
  cases hg : genCall st.map (a.inDir st.files) with
  | error e => left; rfl
  | ok x =>
    obtain ⟨r, m'⟩ := x
    cases hf : a.file with
    | none => left; simp [hf]
    | some f =>
      right
      refine ⟨f, rfl, ?_, by simp [hf]⟩
      have := genCall_ok_not_taken _ _ _ hg
      simp only [GenArgs.inDir, hf, Bool.or_eq_false_iff, decide_eq_false_iff_not] at this
      exact this.2

/-- **No accepted call ever replaces a revision file**: along every sequence of `generate_revision` /
`revision` / `merge` calls against a directory, every file that was present stays present, the paths
stay pairwise distinct, and each accepted call whose path is known adds exactly that path, which was
not there before (the repair of C17-F17 as an invariant of the whole sequence). -/
theorem runCallsF_files (calls : List GenArgs) : ∀ (st : DirState), st.files.Nodup →
    (runCallsF st calls).files.Nodup ∧ ∀ f ∈ st.files, f ∈ (runCallsF st calls).files := by
  induction calls with
  | nil => intro st hn; exact ⟨hn, fun f hf => hf⟩
  | cons a rest ih =>
    intro st hn
    have hstep : (stepCallF st a).files.Nodup ∧ ∀ f ∈ st.files, f ∈ (stepCallF st a).files := by
      rcases stepCallF_files st a with h | ⟨f, _, hnot, h⟩
      · rw [h]; exact ⟨hn, fun f hf => hf⟩
      · rw [h]
        refine ⟨?_, fun g hg => List.mem_append_left _ hg⟩
        rw [List.nodup_append]
        refine ⟨hn, by simp, ?_⟩
        intro x hx y hy
        simp only [List.mem_singleton] at hy
        subst hy
        intro e; subst e; exact hnot hx
    obtain ⟨h1, h2⟩ := ih (stepCallF st a) hstep.1
    unfold runCallsF at h1 h2 ⊢
    simp only [List.foldl_cons]
    exact ⟨h1, fun f hf => h2 f (hstep.2 f hf)⟩

/-- the second of the two calls `--rev-id a_b -m c`, `--rev-id a -m "b c"` (one path) is refused -/
example : (match Model.Rev.load [] with
    | .ok m =>
      let st := runCallsF { hist := [], map := m, files := [] }
        [{ revid := "a_b", heads := ["base"], splice := false, labels := [], deps := [], file := some "versions/a_b_c.py" },
         { revid := "a", heads := ["a_b"], splice := false, labels := [], deps := [], file := some "versions/a_b_c.py" }]
      decide (st.files = ["versions/a_b_c.py"]) && decide (st.hist.map (·.id) = ["a_b"])
    | .error _ => false) = true := by decide +kernel

end C17
