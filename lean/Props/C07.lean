import Spec.Diff
/-!
# C07 — autogenerate detects every supported kind of model change (SQLite)
-/
namespace C07
open Model.Diff Spec.Diff

/-- a type of another family is always reported (comparison on), whatever the arguments -/
theorem type_family_detected (o n : DTy) (hk : known o = true) (hf : family o ≠ family n) :
    compareType (reflTy o) n = true := by
  simp only [reflTy, hk, if_true]
  have : typesMatch o n = false := by
    simp only [family] at hf
    simp only [typesMatch, inSyn]
    cases ho : o.t0 <;> cases hn : n.t0 <;> simp_all
  simp [compareType, this]

end C07
