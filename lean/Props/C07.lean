import Lemmas.Diff.Constraints
import Lemmas.Diff.Callable
/-!
# C07 — autogenerate detects every supported kind of model change (SQLite)

For a base schema `a` of the class (`WF`, `SchemaOk`) and a change `m` of the documented
catalogue, `diff (reflect (db a)) (m a)` satisfies `Spec.Diff.detectOk a m`: it contains the
expected op kind(s) on `m`'s object and every op in it names an object touched by `m`.
One theorem per kind; bases have any number of tables / columns / constraints.
-/
namespace C07
open Model.Diff Spec.Diff Lemmas.Diff

/-- both comparisons switched on (the setting the property speaks about) -/
def on : Cfg := { compareType := true, compareDefault := true }

theorem detectOk_of (a : Schema) (m : Mutation) (ops : List Op)
    (h1 : ∀ e ∈ expected a m, ∃ op ∈ ops, summary op = e)
    (h2 : ∀ op ∈ ops, touches a m (summary op).obj = true) :
    detectOk a m (ops.map summary) = true := by
  simp only [detectOk, Bool.and_eq_true, List.all_eq_true, List.contains_iff_mem, List.mem_map]
  constructor
  · intro e he
    obtain ⟨op, hop, hs⟩ := h1 e he
    exact ⟨op, hop, hs⟩
  · intro o ho
    obtain ⟨op, hop, rfl⟩ := ho
    exact h2 op hop

/-- a type of another family is always reported (comparison on), whatever the arguments -/
theorem type_family_detected (o n : DTy) (hk : known o = true) (hf : family o ≠ family n) :
    compareType (reflTy o) n = true := by
  simp only [reflTy, hk, if_true]
  have : typesMatch o n = false := by
    simp only [family] at hf
    simp only [typesMatch, inSyn]
    cases ho : o.t0 <;> cases hn : n.t0 <;> simp_all
  simp [compareType, this]

/-- the ops of a change confined to column `c0` of table `t0` are exactly the ops of comparing
that column with its reflection -/
theorem mem_diff_column (cfg : Cfg) (a : Schema) (hwf : WF a) (hok : SchemaOk cfg a)
    (t0 : Table) (ht0 : t0 ∈ a) (c0 : Col) (hc0 : c0 ∈ t0.cols) (g : Col → Col) (hg : ∀ x, (g x).name = x.name) (op : Op) :
    op ∈ diff cfg (reflect (createAll a)) (updT a t0.name (fun x => { x with cols := updC x.cols c0.name g })) ↔
    op ∈ compareCol cfg t0.name (reflectCol (createCol c0)) (g c0) := by
  rw [mem_diff_updT cfg a hwf hok t0 ht0 (fun x => { x with cols := updC x.cols c0.name g }) (fun _ => rfl)]
  exact mem_compareTable_updC cfg t0 (hwf.table_wf t0 ht0).cols_nodup (hok t0 ht0) c0 hc0 g hg op

/-- **nullability flipped** -/
theorem detect_flipNullable (cfg : Cfg) (a : Schema) (hwf : WF a) (hok : SchemaOk cfg a)
    (t0 : Table) (ht0 : t0 ∈ a) (c0 : Col) (hc0 : c0 ∈ t0.cols) :
    detectOk a (.flipNullable t0.name c0.name)
      ((diff cfg (reflect (createAll a)) ((Mutation.flipNullable t0.name c0.name).apply a)).map summary) = true := by
  apply detectOk_of
  · intro e he
    simp only [expected, List.mem_singleton] at he
    subst he
    refine ⟨Op.modifyNullable t0.name c0.name (!c0.nullable), ?_, rfl⟩
    simp only [Mutation.apply]
    rw [mem_diff_column cfg a hwf hok t0 ht0 c0 hc0 (fun k => { k with nullable := !k.nullable }) (fun _ => rfl)]
    simp [compareCol, reflectCol, createCol]
  · intro op hop
    simp only [Mutation.apply] at hop
    rw [mem_diff_column cfg a hwf hok t0 ht0 c0 hc0 (fun k => { k with nullable := !k.nullable }) (fun _ => rfl)] at hop
    have := compareCol_obj _ _ _ _ _ hop
    simp [touches, this]

/-- **type changed to a different type family** (type comparison on) -/
theorem detect_changeType (cfg : Cfg) (hct : cfg.compareType = true) (a : Schema) (hwf : WF a) (hok : SchemaOk cfg a)
    (t0 : Table) (ht0 : t0 ∈ a) (c0 : Col) (hc0 : c0 ∈ t0.cols) (ty : MdTy)
    (hk : known (declTy c0.ty) = true) (hfam : family (declTy c0.ty) ≠ family (ddlTy ty)) :
    detectOk a (.changeType t0.name c0.name ty)
      ((diff cfg (reflect (createAll a)) ((Mutation.changeType t0.name c0.name ty).apply a)).map summary) = true := by
  apply detectOk_of
  · intro e he
    simp only [expected, List.mem_singleton] at he
    subst he
    refine ⟨Op.modifyType t0.name c0.name ty, ?_, rfl⟩
    simp only [Mutation.apply]
    rw [mem_diff_column cfg a hwf hok t0 ht0 c0 hc0 (fun k => { k with ty := ty }) (fun _ => rfl)]
    have := type_family_detected (declTy c0.ty) (ddlTy ty) hk hfam
    simp [compareCol, reflectCol, createCol, hct, this]
  · intro op hop
    simp only [Mutation.apply] at hop
    rw [mem_diff_column cfg a hwf hok t0 ht0 c0 hc0 (fun k => { k with ty := ty }) (fun _ => rfl)] at hop
    have := compareCol_obj _ _ _ _ _ hop
    simp [touches, this]

/-- "the server default changed", on the metadata side only: the normal forms of the two
default texts differ (for string defaults this is: the values differ, `changed_str`) -/
def changedDefault (old new : Option Dflt) : Prop :=
  old.map (fun d => normDefault (renderMeta d)) ≠ new.map (fun d => normDefault (renderMeta d))

theorem changed_str (v w : List Char) (hv : strPlain v = true) (hw : strPlain w = true) (h : v ≠ w) :
    changedDefault (some (.str v)) (some (.str w)) := by
  simp [changedDefault, renderMeta, normDefault_plain v hv, normDefault_plain w hw, h]

theorem changed_add (d : Dflt) : changedDefault none (some d) := by simp [changedDefault]
theorem changed_drop (d : Dflt) : changedDefault (some d) none := by simp [changedDefault]

/-- the reflection side never hides a changed default -/
theorem default_change_detected (old new : Option Dflt) (hp : dfltPlain old = true) (h : changedDefault old new) :
    compareDefault ((old.map (fun x => sqliteStore (ddlDefault x))).map autogenReflect) new = true := by
  cases old with
  | none =>
    cases new with
    | none => exact absurd rfl h
    | some d => simp [compareDefault]
  | some o =>
    have hn := norm_reflect o hp
    simp only [reflectDefault] at hn
    cases new with
    | none => simp [compareDefault]
    | some d =>
      simp only [changedDefault, Option.map_some, ne_eq, Option.some.injEq] at h
      simp only [compareDefault, Option.map_some, hn]
      simpa using h

/-- **server default changed** (default comparison on) -/
theorem detect_changeDefault (cfg : Cfg) (hcd : cfg.compareDefault = true) (a : Schema) (hwf : WF a) (hok : SchemaOk cfg a)
    (t0 : Table) (ht0 : t0 ∈ a) (c0 : Col) (hc0 : c0 ∈ t0.cols) (d : Option Dflt)
    (hch : changedDefault c0.dflt d) :
    detectOk a (.changeDefault t0.name c0.name d)
      ((diff cfg (reflect (createAll a)) ((Mutation.changeDefault t0.name c0.name d).apply a)).map summary) = true := by
  have hp : dfltPlain c0.dflt = true := by
    have := hok t0 ht0 c0 hc0
    simp only [colOk, Bool.and_eq_true, Bool.or_eq_true, Bool.not_eq_true', hcd] at this
    rcases this.2 with h | h
    · cases h
    · exact h
  apply detectOk_of
  · intro e he
    simp only [expected, List.mem_singleton] at he
    subst he
    refine ⟨Op.modifyDefault t0.name c0.name d, ?_, rfl⟩
    simp only [Mutation.apply]
    rw [mem_diff_column cfg a hwf hok t0 ht0 c0 hc0 (fun k => { k with dflt := d }) (fun _ => rfl)]
    have := default_change_detected c0.dflt d hp hch
    simp only [Option.map_map] at this
    simp [compareCol, reflectCol, createCol, hcd, this]
  · intro op hop
    simp only [Mutation.apply] at hop
    rw [mem_diff_column cfg a hwf hok t0 ht0 c0 hc0 (fun k => { k with dflt := d }) (fun _ => rfl)] at hop
    have := compareCol_obj _ _ _ _ _ hop
    simp [touches, this]

end C07

namespace C07
open Model.Diff Spec.Diff Lemmas.Diff

/-- **column added** -/
theorem detect_addColumn (cfg : Cfg) (a : Schema) (hwf : WF a) (hok : SchemaOk cfg a)
    (t0 : Table) (ht0 : t0 ∈ a) (c : Col) (hc : c.name ∉ t0.cols.map (·.name)) :
    detectOk a (.addColumn t0.name c)
      ((diff cfg (reflect (createAll a)) ((Mutation.addColumn t0.name c).apply a)).map summary) = true := by
  have key : ∀ op, op ∈ diff cfg (reflect (createAll a)) ((Mutation.addColumn t0.name c).apply a) ↔ op = Op.addColumn t0.name c := by
    intro op
    simp only [Mutation.apply]
    rw [mem_diff_updT cfg a hwf hok t0 ht0 (fun x => { x with cols := x.cols ++ [c] }) (fun _ => rfl),
        compareTable_addColumn cfg t0 (hwf.table_wf t0 ht0).cols_nodup (hok t0 ht0) c hc]
    simp
  apply detectOk_of
  · intro e he
    simp only [expected, List.mem_singleton] at he
    subst he
    exact ⟨Op.addColumn t0.name c, (key _).mpr rfl, rfl⟩
  · intro op hop
    rw [(key op).mp hop]
    simp [touches, summary]

/-- **column removed** -/
theorem detect_dropColumn (cfg : Cfg) (a : Schema) (hwf : WF a) (hok : SchemaOk cfg a)
    (t0 : Table) (ht0 : t0 ∈ a) (c0 : Col) (hc0 : c0 ∈ t0.cols) :
    detectOk a (.dropColumn t0.name c0.name)
      ((diff cfg (reflect (createAll a)) ((Mutation.dropColumn t0.name c0.name).apply a)).map summary) = true := by
  have key : ∀ op, op ∈ diff cfg (reflect (createAll a)) ((Mutation.dropColumn t0.name c0.name).apply a) ↔ op = Op.removeColumn t0.name c0.name := by
    intro op
    simp only [Mutation.apply]
    rw [mem_diff_updT cfg a hwf hok t0 ht0 (fun x => { x with cols := x.cols.filter (fun k => k.name != c0.name) }) (fun _ => rfl)]
    exact mem_compareTable_dropColumn cfg t0 (hwf.table_wf t0 ht0).cols_nodup (hok t0 ht0) c0 hc0 op
  apply detectOk_of
  · intro e he
    simp only [expected, List.mem_singleton] at he
    subst he
    exact ⟨Op.removeColumn t0.name c0.name, (key _).mpr rfl, rfl⟩
  · intro op hop
    rw [(key op).mp hop]
    simp [touches, summary]

/-- the hypotheses are satisfiable and the recogniser rejects a wrong report -/
def base : Schema :=
  [{ name := "t", cols := [{ name := "id", ty := { fam := .Integer, args := [] }, nullable := false, pk := true },
                           { name := "c", ty := { fam := .String, args := [20] }, nullable := true }] }]

example : detectOk base (.flipNullable "t" "c") [⟨.modifyNullable, .column "t" "c"⟩] = true := by decide
example : detectOk base (.flipNullable "t" "c") [] = false := by decide
example : detectOk base (.flipNullable "t" "c") [⟨.modifyNullable, .column "t" "c"⟩, ⟨.modifyType, .column "t" "id"⟩] = false := by decide

end C07

namespace C07
open Model.Diff Spec.Diff Lemmas.Diff

/-- **table added** (its indexes are created with it; everything reported lies inside the new table) -/
theorem detect_addTable (cfg : Cfg) (a : Schema) (hwf : WF a) (hok : SchemaOk cfg a)
    (t : Table) (ht : t.name ∉ a.map (·.name)) :
    detectOk a (.addTable t)
      ((diff cfg (reflect (createAll a)) ((Mutation.addTable t).apply a)).map summary) = true := by
  apply detectOk_of
  · intro e he
    simp only [expected, List.mem_singleton] at he
    subst he
    exact ⟨Op.addTable t, (mem_diff_addTable cfg a hwf hok t ht _).mpr (Or.inl rfl), rfl⟩
  · intro op hop
    simp only [Mutation.apply] at hop
    rcases (mem_diff_addTable cfg a hwf hok t ht op).mp hop with h | h
    · subst h; simp [touches, summary, Obj.tableName]
    · have := compareIxUq_table _ _ _ _ _ h
      simp [touches, this]

/-- **table removed** (its indexes are dropped with it; everything reported lies inside that table) -/
theorem detect_dropTable (cfg : Cfg) (a : Schema) (hwf : WF a) (hok : SchemaOk cfg a)
    (t0 : Table) (ht0 : t0 ∈ a) :
    detectOk a (.dropTable t0.name)
      ((diff cfg (reflect (createAll a)) ((Mutation.dropTable t0.name).apply a)).map summary) = true := by
  apply detectOk_of
  · intro e he
    simp only [expected, List.mem_singleton] at he
    subst he
    exact ⟨Op.removeTable t0.name, (mem_diff_dropTable cfg a hwf hok t0 ht0 _).mpr (Or.inr rfl), rfl⟩
  · intro op hop
    simp only [Mutation.apply] at hop
    rcases (mem_diff_dropTable cfg a hwf hok t0 ht0 op).mp hop with h | h
    · have := compareIxUq_table _ _ _ _ _ h
      simp [touches, this]
    · subst h; simp [touches, summary, Obj.tableName]

end C07

namespace C07
open Model.Diff Spec.Diff Lemmas.Diff

/-- ops of a change of table `t0` that leaves its columns alone -/
theorem mem_diff_constraints (cfg : Cfg) (a : Schema) (hwf : WF a) (hok : SchemaOk cfg a)
    (t0 : Table) (ht0 : t0 ∈ a) (fu : List Uq → List Uq) (fi : List Ix → List Ix) (ff : List Fk → List Fk) (op : Op) :
    op ∈ diff cfg (reflect (createAll a)) (updT a t0.name (fun x => { x with uqs := fu x.uqs, ixs := fi x.ixs, fks := ff x.fks })) ↔
    op ∈ compareIxUq t0.name false (namedOf t0.uqs t0.ixs) (namedOf (fu t0.uqs) (fi t0.ixs)) ++
         compareFks t0.name t0.fks (ff t0.fks) := by
  rw [mem_diff_updT cfg a hwf hok t0 ht0 (fun x => { x with uqs := fu x.uqs, ixs := fi x.ixs, fks := ff x.fks }) (fun _ => rfl)]
  rw [compareTable_sameCols cfg t0 (hwf.table_wf t0 ht0).cols_nodup (hok t0 ht0)]

/-- **foreign key added** (a key whose signature the table does not have yet) -/
theorem detect_addFk (cfg : Cfg) (a : Schema) (hwf : WF a) (hok : SchemaOk cfg a)
    (t0 : Table) (ht0 : t0 ∈ a) (f : Fk) (hf : fkSig t0.name f ∉ t0.fks.map (fkSig t0.name)) :
    detectOk a (.addFk t0.name f)
      ((diff cfg (reflect (createAll a)) ((Mutation.addFk t0.name f).apply a)).map summary) = true := by
  have key : ∀ op, op ∈ diff cfg (reflect (createAll a)) ((Mutation.addFk t0.name f).apply a) ↔ op = Op.addFk t0.name f := by
    intro op
    simp only [Mutation.apply]
    have := mem_diff_constraints cfg a hwf hok t0 ht0 id id (fun l => l ++ [f]) op
    simp only [id] at this
    rw [this, compareIxUq_self, compareFks_add t0.name t0.fks f hf]
    simp
  apply detectOk_of
  · intro e he
    simp only [expected, List.mem_singleton] at he
    subst he
    exact ⟨Op.addFk t0.name f, (key _).mpr rfl, rfl⟩
  · intro op hop
    rw [(key op).mp hop]
    simp [touches, summary]

/-- **index added** (fresh name among the table's indexes and unique constraints) -/
theorem detect_addIndex (cfg : Cfg) (a : Schema) (hwf : WF a) (hok : SchemaOk cfg a)
    (t0 : Table) (ht0 : t0 ∈ a) (ix : Ix) (hn : ix.name ∉ namedNames t0) :
    detectOk a (.addIndex t0.name ix)
      ((diff cfg (reflect (createAll a)) ((Mutation.addIndex t0.name ix).apply a)).map summary) = true := by
  have key : ∀ op, op ∈ diff cfg (reflect (createAll a)) ((Mutation.addIndex t0.name ix).apply a) ↔ op = Op.addIndex t0.name ix := by
    intro op
    simp only [Mutation.apply]
    have := mem_diff_constraints cfg a hwf hok t0 ht0 id (fun l => l ++ [ix]) id op
    simp only [id] at this
    rw [this, compareFks_self]
    have hins := compareIxUq_insert t0.name (namedOf t0.uqs t0.ixs) [] (.ix ix) (by simpa [namedNames, Named.name] using hn)
    simp only [List.append_nil] at hins
    have hshape : namedOf t0.uqs (t0.ixs ++ [ix]) = namedOf t0.uqs t0.ixs ++ [Named.ix ix] := by
      simp [namedOf]
    rw [hshape, hins]
    simp [objAdded]
  apply detectOk_of
  · intro e he
    simp only [expected, List.mem_singleton] at he
    subst he
    exact ⟨Op.addIndex t0.name ix, (key _).mpr rfl, rfl⟩
  · intro op hop
    rw [(key op).mp hop]
    simp [touches, summary]

/-- **named unique constraint added** -/
theorem detect_addUnique (cfg : Cfg) (a : Schema) (hwf : WF a) (hok : SchemaOk cfg a)
    (t0 : Table) (ht0 : t0 ∈ a) (u : Uq) (hn : u.name ∉ namedNames t0) :
    detectOk a (.addUnique t0.name u)
      ((diff cfg (reflect (createAll a)) ((Mutation.addUnique t0.name u).apply a)).map summary) = true := by
  have key : ∀ op, op ∈ diff cfg (reflect (createAll a)) ((Mutation.addUnique t0.name u).apply a) ↔ op = Op.addUq t0.name u := by
    intro op
    simp only [Mutation.apply]
    have := mem_diff_constraints cfg a hwf hok t0 ht0 (fun l => l ++ [u]) id id op
    simp only [id] at this
    rw [this, compareFks_self]
    have hins := compareIxUq_insert t0.name (t0.uqs.map Named.uq) (t0.ixs.map Named.ix) (.uq u)
      (by simpa [namedNames, namedOf, Named.name] using hn)
    have hshape : namedOf (t0.uqs ++ [u]) t0.ixs = t0.uqs.map Named.uq ++ Named.uq u :: t0.ixs.map Named.ix := by
      simp [namedOf]
    have hshape0 : namedOf t0.uqs t0.ixs = t0.uqs.map Named.uq ++ t0.ixs.map Named.ix := rfl
    rw [hshape, hshape0, hins]
    simp [objAdded]
  apply detectOk_of
  · intro e he
    simp only [expected, List.mem_singleton] at he
    subst he
    exact ⟨Op.addUq t0.name u, (key _).mpr rfl, rfl⟩
  · intro op hop
    rw [(key op).mp hop]
    simp [touches, summary]

end C07

namespace C07
open Model.Diff Spec.Diff Lemmas.Diff

/-- **index removed** -/
theorem detect_dropIndex (cfg : Cfg) (a : Schema) (hwf : WF a) (hok : SchemaOk cfg a)
    (t0 : Table) (ht0 : t0 ∈ a) (ix0 : Ix) (hix : ix0 ∈ t0.ixs) :
    detectOk a (.dropIndex t0.name ix0.name)
      ((diff cfg (reflect (createAll a)) ((Mutation.dropIndex t0.name ix0.name).apply a)).map summary) = true := by
  have hnn := (hwf.table_wf t0 ht0).named_nodup
  obtain ⟨s, r, hsplit, hs, hr⟩ := split_at_key (·.name) t0.ixs (named_nodup_parts _ _ hnn).2 ix0 hix
  have key : ∀ op, op ∈ diff cfg (reflect (createAll a)) ((Mutation.dropIndex t0.name ix0.name).apply a) ↔ op = Op.removeIndex t0.name ix0 := by
    intro op
    simp only [Mutation.apply]
    have := mem_diff_constraints cfg a hwf hok t0 ht0 id (fun l => l.filter (fun i => i.name != ix0.name)) id op
    simp only [id] at this
    rw [this, compareFks_self]
    have hf : t0.ixs.filter (fun i => i.name != ix0.name) = s ++ r := by
      rw [hsplit]; exact filter_ne_split (·.name) s r ix0 hs hr
    rw [hf]
    have e1 : namedOf t0.uqs t0.ixs = (t0.uqs.map Named.uq ++ s.map Named.ix) ++ Named.ix ix0 :: r.map Named.ix := by
      rw [hsplit]; simp [namedOf]
    have e2 : namedOf t0.uqs (s ++ r) = (t0.uqs.map Named.uq ++ s.map Named.ix) ++ r.map Named.ix := by
      simp [namedOf]
    have hnd' : (((t0.uqs.map Named.uq ++ s.map Named.ix) ++ Named.ix ix0 :: r.map Named.ix).map (·.name)).Nodup := by
      rw [← e1]; exact hnn
    rw [e1, e2, compareIxUq_remove t0.name _ _ (Named.ix ix0) hnd']
    simp [objRemoved]
  apply detectOk_of
  · intro e he
    simp only [expected, List.mem_singleton] at he
    subst he
    exact ⟨Op.removeIndex t0.name ix0, (key _).mpr rfl, rfl⟩
  · intro op hop
    rw [(key op).mp hop]
    simp [touches, summary]

/-- **named unique constraint removed** -/
theorem detect_dropUnique (cfg : Cfg) (a : Schema) (hwf : WF a) (hok : SchemaOk cfg a)
    (t0 : Table) (ht0 : t0 ∈ a) (u0 : Uq) (hu : u0 ∈ t0.uqs) :
    detectOk a (.dropUnique t0.name u0.name)
      ((diff cfg (reflect (createAll a)) ((Mutation.dropUnique t0.name u0.name).apply a)).map summary) = true := by
  have hnn := (hwf.table_wf t0 ht0).named_nodup
  obtain ⟨s, r, hsplit, hs, hr⟩ := split_at_key (·.name) t0.uqs (named_nodup_parts _ _ hnn).1 u0 hu
  have key : ∀ op, op ∈ diff cfg (reflect (createAll a)) ((Mutation.dropUnique t0.name u0.name).apply a) ↔ op = Op.removeUq t0.name u0 := by
    intro op
    simp only [Mutation.apply]
    have := mem_diff_constraints cfg a hwf hok t0 ht0 (fun l => l.filter (fun i => i.name != u0.name)) id id op
    simp only [id] at this
    rw [this, compareFks_self]
    have hf : t0.uqs.filter (fun i => i.name != u0.name) = s ++ r := by
      rw [hsplit]; exact filter_ne_split (·.name) s r u0 hs hr
    rw [hf]
    have e1 : namedOf t0.uqs t0.ixs = s.map Named.uq ++ Named.uq u0 :: (r.map Named.uq ++ t0.ixs.map Named.ix) := by
      rw [hsplit]; simp [namedOf]
    have e2 : namedOf (s ++ r) t0.ixs = s.map Named.uq ++ (r.map Named.uq ++ t0.ixs.map Named.ix) := by
      simp [namedOf]
    have hnd' : ((s.map Named.uq ++ Named.uq u0 :: (r.map Named.uq ++ t0.ixs.map Named.ix)).map (·.name)).Nodup := by
      rw [← e1]; exact hnn
    rw [e1, e2, compareIxUq_remove t0.name _ _ (Named.uq u0) hnd']
    simp [objRemoved]
  apply detectOk_of
  · intro e he
    simp only [expected, List.mem_singleton] at he
    subst he
    exact ⟨Op.removeUq t0.name u0, (key _).mpr rfl, rfl⟩
  · intro op hop
    rw [(key op).mp hop]
    simp [touches, summary]

/-- **index changed** (columns or uniqueness): reported as drop + create of that index -/
theorem detect_changeIndex (cfg : Cfg) (a : Schema) (hwf : WF a) (hok : SchemaOk cfg a)
    (t0 : Table) (ht0 : t0 ∈ a) (ix0 : Ix) (hix : ix0 ∈ t0.ixs) (cols : List String) (u : Bool)
    (hch : ix0.unique ≠ u ∨ ix0.cols ≠ cols) :
    detectOk a (.changeIndex t0.name ix0.name cols u)
      ((diff cfg (reflect (createAll a)) ((Mutation.changeIndex t0.name ix0.name cols u).apply a)).map summary) = true := by
  have hnn := (hwf.table_wf t0 ht0).named_nodup
  obtain ⟨s, r, hsplit, hs, hr⟩ := split_at_key (·.name) t0.ixs (named_nodup_parts _ _ hnn).2 ix0 hix
  let ix1 : Ix := { ix0 with cols := cols, unique := u }
  have key : ∀ op, op ∈ diff cfg (reflect (createAll a)) ((Mutation.changeIndex t0.name ix0.name cols u).apply a) ↔
      op = Op.removeIndex t0.name ix0 ∨ op = Op.addIndex t0.name ix1 := by
    intro op
    simp only [Mutation.apply]
    have := mem_diff_constraints cfg a hwf hok t0 ht0 id
      (fun l => l.map (fun i => if i.name == ix0.name then { i with cols := cols, unique := u } else i)) id op
    simp only [id] at this
    rw [this, compareFks_self, List.append_nil]
    have hf : t0.ixs.map (fun i => if i.name == ix0.name then { i with cols := cols, unique := u } else i) = s ++ ix1 :: r := by
      rw [hsplit]; exact map_upd_split (·.name) s r ix0 (fun i => { i with cols := cols, unique := u }) hs hr
    rw [hf]
    have e1 : namedOf t0.uqs t0.ixs = (t0.uqs.map Named.uq ++ s.map Named.ix) ++ Named.ix ix0 :: r.map Named.ix := by
      rw [hsplit]; simp [namedOf]
    have e2 : namedOf t0.uqs (s ++ ix1 :: r) = (t0.uqs.map Named.uq ++ s.map Named.ix) ++ Named.ix ix1 :: r.map Named.ix := by
      simp [namedOf]
    have hnd' : (((t0.uqs.map Named.uq ++ s.map Named.ix) ++ Named.ix ix0 :: r.map Named.ix).map (·.name)).Nodup := by
      rw [← e1]; exact hnn
    rw [e1, e2, mem_compareIxUq_change t0.name _ _ (Named.ix ix0) (Named.ix ix1) rfl hnd']
    have hcond : (ix0.unique != u || ix0.cols != cols) = true := by
      rcases hch with h | h <;> simp [h]
    simp [compareNamed, ix1, hcond]
  apply detectOk_of
  · intro e he
    simp only [expected, List.mem_cons, List.mem_nil_iff, or_false] at he
    rcases he with rfl | rfl
    · exact ⟨Op.removeIndex t0.name ix0, (key _).mpr (Or.inl rfl), rfl⟩
    · exact ⟨Op.addIndex t0.name ix1, (key _).mpr (Or.inr rfl), rfl⟩
  · intro op hop
    rcases (key op).mp hop with h | h <;> rw [h] <;> simp [touches, summary, ix1]

/-- **named unique constraint changed** (another column set): drop + add of that constraint -/
theorem detect_changeUnique (cfg : Cfg) (a : Schema) (hwf : WF a) (hok : SchemaOk cfg a)
    (t0 : Table) (ht0 : t0 ∈ a) (u0 : Uq) (hu : u0 ∈ t0.uqs) (cols : List String)
    (hch : uqSig u0 ≠ uqSig { u0 with cols := cols }) :
    detectOk a (.changeUnique t0.name u0.name cols)
      ((diff cfg (reflect (createAll a)) ((Mutation.changeUnique t0.name u0.name cols).apply a)).map summary) = true := by
  have hnn := (hwf.table_wf t0 ht0).named_nodup
  obtain ⟨s, r, hsplit, hs, hr⟩ := split_at_key (·.name) t0.uqs (named_nodup_parts _ _ hnn).1 u0 hu
  let u1 : Uq := { u0 with cols := cols }
  have key : ∀ op, op ∈ diff cfg (reflect (createAll a)) ((Mutation.changeUnique t0.name u0.name cols).apply a) ↔
      op = Op.removeUq t0.name u0 ∨ op = Op.addUq t0.name u1 := by
    intro op
    simp only [Mutation.apply]
    have := mem_diff_constraints cfg a hwf hok t0 ht0
      (fun l => l.map (fun i => if i.name == u0.name then { i with cols := cols } else i)) id id op
    simp only [id] at this
    rw [this, compareFks_self, List.append_nil]
    have hf : t0.uqs.map (fun i => if i.name == u0.name then { i with cols := cols } else i) = s ++ u1 :: r := by
      rw [hsplit]; exact map_upd_split (·.name) s r u0 (fun i => { i with cols := cols }) hs hr
    rw [hf]
    have e1 : namedOf t0.uqs t0.ixs = s.map Named.uq ++ Named.uq u0 :: (r.map Named.uq ++ t0.ixs.map Named.ix) := by
      rw [hsplit]; simp [namedOf]
    have e2 : namedOf (s ++ u1 :: r) t0.ixs = s.map Named.uq ++ Named.uq u1 :: (r.map Named.uq ++ t0.ixs.map Named.ix) := by
      simp [namedOf]
    have hnd' : ((s.map Named.uq ++ Named.uq u0 :: (r.map Named.uq ++ t0.ixs.map Named.ix)).map (·.name)).Nodup := by
      rw [← e1]; exact hnn
    rw [e1, e2, mem_compareIxUq_change t0.name _ _ (Named.uq u0) (Named.uq u1) rfl hnd']
    have hcond : (uqSig u0 != uqSig u1) = true := by simpa using hch
    simp [compareNamed, hcond]
  apply detectOk_of
  · intro e he
    simp only [expected, List.mem_cons, List.mem_nil_iff, or_false] at he
    rcases he with rfl | rfl
    · exact ⟨Op.removeUq t0.name u0, (key _).mpr (Or.inl rfl), rfl⟩
    · exact ⟨Op.addUq t0.name u1, (key _).mpr (Or.inr rfl), rfl⟩
  · intro op hop
    rcases (key op).mp hop with h | h <;> rw [h] <;> simp [touches, summary, u1]

/-- **foreign key removed** (foreign key names of the table pairwise distinct) -/
theorem detect_dropFk (cfg : Cfg) (a : Schema) (hwf : WF a) (hok : SchemaOk cfg a)
    (t0 : Table) (ht0 : t0 ∈ a) (f0 : Fk) (hf0 : f0 ∈ t0.fks) (hnames : (t0.fks.map (·.name)).Nodup) :
    detectOk a (.dropFk t0.name f0.name)
      ((diff cfg (reflect (createAll a)) ((Mutation.dropFk t0.name f0.name).apply a)).map summary) = true := by
  obtain ⟨s, r, hsplit, hs, hr⟩ := split_at_key (·.name) t0.fks hnames f0 hf0
  have hfind : findFk a t0.name f0.name = some f0 := by
    unfold findFk
    have : findTable a t0.name = some t0 := by
      unfold findTable; exact find?_key_of_nodup (·.name) a hwf.tables_nodup t0 ht0
    rw [this]
    exact find?_key_of_nodup (·.name) t0.fks hnames f0 hf0
  have key : ∀ op, op ∈ diff cfg (reflect (createAll a)) ((Mutation.dropFk t0.name f0.name).apply a) ↔ op = Op.removeFk t0.name f0 := by
    intro op
    simp only [Mutation.apply]
    have := mem_diff_constraints cfg a hwf hok t0 ht0 id id (fun l => l.filter (fun i => i.name != f0.name)) op
    simp only [id] at this
    rw [this, compareIxUq_self, List.nil_append]
    have hf : t0.fks.filter (fun i => i.name != f0.name) = s ++ r := by
      rw [hsplit]; exact filter_ne_split (·.name) s r f0 hs hr
    have hnd' : ((s ++ f0 :: r).map (fkSig t0.name)).Nodup := by
      rw [← hsplit]; exact (hwf.table_wf t0 ht0).fk_nodup
    rw [hf]
    conv => lhs; rw [hsplit]
    rw [compareFks_remove t0.name s r f0 hnd']
    simp
  apply detectOk_of
  · intro e he
    simp only [expected, hfind, List.mem_singleton] at he
    subst he
    exact ⟨Op.removeFk t0.name f0, (key _).mpr rfl, rfl⟩
  · intro op hop
    rw [(key op).mp hop]
    simp [touches, summary, hfind]

end C07

namespace C07
open Model.Diff Spec.Diff Lemmas.Diff

/-- when a change of the documented catalogue is applicable to base schema `a` (the side
conditions under which it is *one* change of that kind) -/
inductive Applicable (cfg : Cfg) (a : Schema) : Mutation → Prop
  | addTable (t : Table) : t.name ∉ a.map (·.name) → Applicable cfg a (.addTable t)
  | dropTable (t0 : Table) : t0 ∈ a → Applicable cfg a (.dropTable t0.name)
  | addColumn (t0 : Table) (c : Col) : t0 ∈ a → c.name ∉ t0.cols.map (·.name) → Applicable cfg a (.addColumn t0.name c)
  | dropColumn (t0 : Table) (c0 : Col) : t0 ∈ a → c0 ∈ t0.cols → Applicable cfg a (.dropColumn t0.name c0.name)
  | flipNullable (t0 : Table) (c0 : Col) : t0 ∈ a → c0 ∈ t0.cols → Applicable cfg a (.flipNullable t0.name c0.name)
  | changeType (t0 : Table) (c0 : Col) (ty : MdTy) : t0 ∈ a → c0 ∈ t0.cols → cfg.compareType = true →
      known (declTy c0.ty) = true → family (declTy c0.ty) ≠ family (ddlTy ty) → Applicable cfg a (.changeType t0.name c0.name ty)
  | changeDefault (t0 : Table) (c0 : Col) (d : Option Dflt) : t0 ∈ a → c0 ∈ t0.cols → cfg.compareDefault = true →
      changedDefault c0.dflt d → Applicable cfg a (.changeDefault t0.name c0.name d)
  | addIndex (t0 : Table) (ix : Ix) : t0 ∈ a → ix.name ∉ namedNames t0 → Applicable cfg a (.addIndex t0.name ix)
  | dropIndex (t0 : Table) (ix0 : Ix) : t0 ∈ a → ix0 ∈ t0.ixs → Applicable cfg a (.dropIndex t0.name ix0.name)
  | changeIndex (t0 : Table) (ix0 : Ix) (cols : List String) (u : Bool) : t0 ∈ a → ix0 ∈ t0.ixs →
      (ix0.unique ≠ u ∨ ix0.cols ≠ cols) → Applicable cfg a (.changeIndex t0.name ix0.name cols u)
  | addUnique (t0 : Table) (u : Uq) : t0 ∈ a → u.name ∉ namedNames t0 → Applicable cfg a (.addUnique t0.name u)
  | dropUnique (t0 : Table) (u0 : Uq) : t0 ∈ a → u0 ∈ t0.uqs → Applicable cfg a (.dropUnique t0.name u0.name)
  | changeUnique (t0 : Table) (u0 : Uq) (cols : List String) : t0 ∈ a → u0 ∈ t0.uqs →
      uqSig u0 ≠ uqSig { u0 with cols := cols } → Applicable cfg a (.changeUnique t0.name u0.name cols)
  | addFk (t0 : Table) (f : Fk) : t0 ∈ a →
      (f.cols, f.reftable, f.refcols) ∉ t0.fks.map (fun g => (g.cols, g.reftable, g.refcols)) → Applicable cfg a (.addFk t0.name f)
  | dropFk (t0 : Table) (f0 : Fk) : t0 ∈ a → f0 ∈ t0.fks → (t0.fks.map (·.name)).Nodup → Applicable cfg a (.dropFk t0.name f0.name)

/-- full-strength statement: every well-formed base schema, no restriction on its defaults / types -/
def detect_statement : Prop :=
  ∀ (cfg : Cfg) (a : Schema), WF a → ∀ m, Applicable cfg a m →
    detectOk a m ((diff cfg (reflect (createAll a)) (m.apply a)).map summary) = true

/-- **C07.detect** for the class (`SchemaOk`: compared defaults plain, compared types reflect by
name): for every base schema and every applicable change of the documented catalogue, the
diff against the changed model contains the expected op kind(s) on the changed object and
nothing that names another object. -/
theorem detect_partial (cfg : Cfg) (a : Schema) (hwf : WF a) (hok : SchemaOk cfg a) (m : Mutation)
    (h : Applicable cfg a m) :
    detectOk a m ((diff cfg (reflect (createAll a)) (m.apply a)).map summary) = true := by
  cases h with
  | addTable t h1 => exact detect_addTable cfg a hwf hok t h1
  | dropTable t0 h1 => exact detect_dropTable cfg a hwf hok t0 h1
  | addColumn t0 c h1 h2 => exact detect_addColumn cfg a hwf hok t0 h1 c h2
  | dropColumn t0 c0 h1 h2 => exact detect_dropColumn cfg a hwf hok t0 h1 c0 h2
  | flipNullable t0 c0 h1 h2 => exact detect_flipNullable cfg a hwf hok t0 h1 c0 h2
  | changeType t0 c0 ty h1 h2 h3 h4 h5 => exact detect_changeType cfg h3 a hwf hok t0 h1 c0 h2 ty h4 h5
  | changeDefault t0 c0 d h1 h2 h3 h4 => exact detect_changeDefault cfg h3 a hwf hok t0 h1 c0 h2 d h4
  | addIndex t0 ix h1 h2 => exact detect_addIndex cfg a hwf hok t0 h1 ix h2
  | dropIndex t0 ix0 h1 h2 => exact detect_dropIndex cfg a hwf hok t0 h1 ix0 h2
  | changeIndex t0 ix0 cols u h1 h2 h3 => exact detect_changeIndex cfg a hwf hok t0 h1 ix0 h2 cols u h3
  | addUnique t0 u h1 h2 => exact detect_addUnique cfg a hwf hok t0 h1 u h2
  | dropUnique t0 u0 h1 h2 => exact detect_dropUnique cfg a hwf hok t0 h1 u0 h2
  | changeUnique t0 u0 cols h1 h2 h3 => exact detect_changeUnique cfg a hwf hok t0 h1 u0 h2 cols h3
  | addFk t0 f h1 h2 =>
    refine detect_addFk cfg a hwf hok t0 h1 f ?_
    intro hm
    obtain ⟨g, hg, hgs⟩ := List.mem_map.mp hm
    apply h2
    apply List.mem_map.mpr
    refine ⟨g, hg, ?_⟩
    simp only [fkSig, Prod.mk.injEq] at hgs
    simp [hgs.2.1, hgs.2.2.1, hgs.2.2.2.1]
  | dropFk t0 f0 h1 h2 h3 => exact detect_dropFk cfg a hwf hok t0 h1 f0 h2 h3

/-- non-vacuity: the base schema of the examples is in the class and a flip is applicable -/
theorem base_wf : WF base := by
  constructor
  · simp [base]
  · intro t ht
    simp [base] at ht
    subst ht
    constructor <;> simp [namedNames, namedOf]


/-! ### the full statement fails on the unchanged tree (F9) -/

def its : List Char := ['i', 't', '\'', 's']

def witness : Schema :=
  [{ name := "t", cols := [{ name := "c", ty := { fam := .String, args := [20] }, nullable := true, dflt := some (.str its) },
                           { name := "r", ty := { fam := .Integer, args := [] }, nullable := true }] }]

theorem witness_wf : WF witness := by
  constructor
  · simp [witness]
  · intro t ht
    simp [witness] at ht
    subst ht
    constructor <;> simp [namedNames, namedOf]

theorem witness_diff :
    diff on (reflect (createAll witness)) ((Mutation.flipNullable "t" "r").apply witness) =
      [Op.modifyDefault "t" "c" (some (.str its)), Op.modifyNullable "t" "r" false] := by
  have h : compareDefault (some (reflectDefault (.str its))) (some (.str its)) = true := by decide
  simp [diff, on, witness, Mutation.apply, updT, updC, reflect, createAll, createTable, reflectTable, findTable,
    sortTablesByName, compareTable, addedCols, alteredCols, removedCols, compareIxUq, compareFks, namedOf,
    createCol, reflectCol, findRCol, compareCol, sortNames, Lemmas.Diff.compareType_self, reflTy, known,
    knownName, ddlTy, declTy, h, reflectDefault] at *
  rfl

/-- **F9 seen through C07**: flipping the nullability of column `r` also reports the untouched
column `c` whose default is `it's` (same witness replayed on the real code on every run) -/
theorem detect_counterexample : ¬ detect_statement := by
  intro hs
  have hm : Applicable on witness (.flipNullable "t" "r") :=
    Applicable.flipNullable (cfg := on) (a := witness)
      { name := "t", cols := [{ name := "c", ty := { fam := .String, args := [20] }, nullable := true, dflt := some (.str its) },
                              { name := "r", ty := { fam := .Integer, args := [] }, nullable := true }] }
      { name := "r", ty := { fam := .Integer, args := [] }, nullable := true } (by simp [witness]) (by simp)
  have := hs on witness witness_wf _ hm
  rw [witness_diff] at this
  revert this
  decide

end C07

/-! ### 'the default changed' in value terms -/
namespace C07
open Model.Diff Spec.Diff Lemmas.Diff

/-- no double-quote character -/
def noDq (s : List Char) : Bool := !s.contains '"'

theorem dropDq_of_noDq (x : List Char) (h : noDq x = true) : dropDq x = x := by
  have hm : '"' ∉ x := by simpa [noDq] using h
  unfold dropDq
  have h1 : dropLeadDq x = x := by
    unfold dropLeadDq
    split
    · rename_i r
      exact absurd (List.mem_cons_self) hm
    · rfl
  rw [h1]
  unfold dropTrailDq
  split
  · rename_i hl
    have : x.getLast? = some '"' := by simpa using hl
    exact absurd (List.mem_of_getLast? this) hm
  · rfl

/-- on texts without `"` and newline, the quote-stripping regex is plain SQL unquoting -/
theorem stripQuotes_eq_unquote (x : List Char) (hn : noNl x = true) (hd : noDq x = true) :
    stripQuotes x = unquote x := by
  unfold stripQuotes
  rw [core_of_noNl x hn, dropDq_of_noDq x hd, tailNl_of_noNl x hn]
  cases x with
  | nil => rfl
  | cons a r =>
    by_cases ha : a = '\''
    · subst ha
      simp only [wrapped, unquote, beq_self_eq_true, Bool.true_and]
      by_cases hl : r.getLast? = some '\''
      · have hr := eq_dropLast_concat r '\'' hl
        have hnm : noNl r.dropLast = true := by
          rw [hr] at hn
          exact noNl_of_append _ _ _ hn
        by_cases he : r.dropLast = []
        · have hlen : r.length = 1 := by rw [hr, he]; rfl
          simp [hl, he, hlen]
        · have hlen : r.length ≥ 2 := by
            rw [hr]
            cases hd' : r.dropLast with
            | nil => exact absurd hd' he
            | cons b t => simp
          simp [hl, he, hnm, hlen]
      · simp [hl]
    · simp [wrapped, unquote, ha]

end C07

namespace C07
open Model.Diff Spec.Diff Lemmas.Diff

theorem wrapped_none_of_parenInner_none (e : List Char) (h : parenInner e = none) : wrapped '(' ')' e = none := by
  cases e with
  | nil => rfl
  | cons a r =>
    by_cases ha : a = '('
    · subst ha
      simp only [parenInner] at h
      by_cases hl : r.getLast? = some ')'
      · simp [hl] at h
      · simp [wrapped, hl]
    · simp [wrapped, ha]

theorem noDq_of_append (a : Char) (m : List Char) (b : Char) (h : noDq (a :: (m ++ [b])) = true) : noDq m = true := by
  simp [noDq] at h ⊢
  intro hm
  exact h.2.1 hm

/-- "the default changed" in value terms: the normal form the comparison uses is the value of
the default (string value / SQL-unquoted stored expression) for plain defaults without `"` -/
theorem norm_eq_value (d : Option Dflt) (hp : dfltPlain d = true)
    (hq : ∀ e, d = some (.expr e) → noDq e = true) :
    d.map (fun x => normDefault (renderMeta x)) = defaultValue d := by
  cases d with
  | none => rfl
  | some x =>
    cases x with
    | str v => simp [defaultValue, renderMeta, normDefault_plain v hp]
    | expr e =>
      have hd := hq e rfl
      simp only [dfltPlain, exprPlain, Bool.and_eq_true, Bool.not_eq_true', List.isEmpty_eq_false_iff, beq_iff_eq] at hp
      obtain ⟨⟨⟨hne, hn⟩, htrim⟩, hshape⟩ := hp
      simp only [Option.map_some, defaultValue, renderMeta, Option.some.injEq, sqliteStore, htrim, normDefault]
      cases hpi : parenInner e with
      | some m =>
        rw [hpi] at hshape
        simp only [Bool.and_eq_true, Bool.not_eq_true', List.isEmpty_eq_false_iff, beq_iff_eq,
          Option.isNone_iff_eq_none] at hshape
        obtain ⟨⟨hmne, hmtrim⟩, _⟩ := hshape
        have he := parenInner_some e m hpi
        have hnm : noNl m = true := by rw [he] at hn; exact noNl_of_append _ _ _ hn
        have hdm : noDq m = true := by rw [he] at hd; exact noDq_of_append _ _ _ hd
        simp only [hmtrim]
        rw [he, stripParens_paren _ hmne hnm]
        exact stripQuotes_eq_unquote m hnm hdm
      | none =>
        simp only []
        rw [stripParens_of_none _ (by rw [core_of_noNl _ hn]; exact wrapped_none_of_parenInner_none e hpi)]
        exact stripQuotes_eq_unquote e hn hd

/-- a default whose *value* changed is a changed default -/
theorem changed_of_value (old new : Option Dflt) (hpo : dfltPlain old = true) (hpn : dfltPlain new = true)
    (hqo : ∀ e, old = some (.expr e) → noDq e = true) (hqn : ∀ e, new = some (.expr e) → noDq e = true)
    (h : defaultValue old ≠ defaultValue new) : changedDefault old new := by
  unfold changedDefault
  rw [norm_eq_value old hpo hqo, norm_eq_value new hpn hqn]
  exact h

example : defaultValue (some (.expr ['(', '1', ')'])) = some ['1'] := by decide
example : defaultValue (some (.expr ['\'', 'a', '\''])) = defaultValue (some (.str ['a'])) := by decide

end C07

/-! ### type family changes on every dialect (synonym groups as a parameter) -/
namespace C07
open Model.Diff Spec.Diff

/-- **generalised `type_family_detected`**: for *any* list of synonym groups (any dialect) and any
`type_arg_extract` results, two types whose first tokens differ and that no single group joins
(neither by first token nor by full term string) are reported as different - whatever their
further tokens and arguments.  A comparison that merges the groups into one set violates this. -/
theorem type_family_detected_groups (syn : List (List String)) (ext : List (Option String × Option String))
    (i m : G.Params) (h : mustDiffer syn i m = true) : G.compareType syn ext i m = true := by
  simp only [mustDiffer, Bool.and_eq_true, bne_iff_ne, ne_eq, List.all_eq_true, Bool.not_eq_true'] at h
  obtain ⟨⟨h0, h1⟩, h2⟩ := h
  have hm : G.typesMatch syn i m = false := by
    simp only [G.typesMatch, Bool.or_eq_false_iff, List.any_eq_false]
    refine ⟨by simpa using h0, ?_⟩
    intro b hb
    have e1 := h1 b hb
    have e2 := h2 b hb
    simp [e1, e2]
  simp [G.compareType, hm]

/-- non-vacuity (kernel evaluation of `String.toLower` is not available to `decide`, so the
concrete dialect groups are exercised by the driver on every run; here: no groups, and equal
first tokens) -/
example : mustDiffer [] ⟨"varchar2", [], ["30"], []⟩ ⟨"integer", [], [], []⟩ = true := by decide
example : mustDiffer [] ⟨"varchar", [], ["30"], []⟩ ⟨"varchar", [], ["40"], []⟩ = false := by decide

end C07

/-! ### comparison callables that defer (`compare_type=fn`, `fn(...) -> None`) -/
namespace C07
open Model.Diff Spec.Diff Lemmas.Diff

/-- **C07.detect under deferring callables**: configuring `compare_type` / `compare_server_default`
as callables that answer `None` ("use the default comparison", docs/build/autogenerate.rst) detects
exactly what the default configuration detects - in particular every type-family change. -/
theorem detect_partial_deferring (cfg : Cfg) (a : Schema) (hwf : WF a) (hok : SchemaOk cfg a) (m : Mutation)
    (h : Applicable cfg a m) :
    detectOk a m ((diffV {} cfg (reflect (createAll a)) (m.apply a)).map summary) = true := by
  rw [diffV_nil]
  exact detect_partial cfg a hwf hok m h

end C07

namespace C07
open Model.Diff Spec.Diff

/-- synonyms are the same type: what a synonym group (or an equal first word) joins, with
compatible further words / arguments, is never reported as a type change -/
theorem type_synonyms_quiet (syn : List (List String)) (ext : List (Option String × Option String))
    (i m : G.Params) (h : mustMatch syn ext i m = true) : G.compareType syn ext i m = false := by
  simp only [mustMatch, Bool.and_eq_true, Bool.or_eq_true] at h
  obtain ⟨hn, ha⟩ := h
  have hm : G.typesMatch syn i m = true := by
    simp only [G.typesMatch, Bool.or_eq_true, List.any_eq_true, Bool.and_eq_true]
    rcases hn with (h0 | h1) | h2
    · exact Or.inl h0
    · simp only [List.any_eq_true, Bool.and_eq_true] at h1
      obtain ⟨b, hb, e⟩ := h1
      exact Or.inr ⟨b, hb, Or.inl e⟩
    · simp only [List.any_eq_true, Bool.and_eq_true] at h2
      obtain ⟨b, hb, e⟩ := h2
      exact Or.inr ⟨b, hb, Or.inr e⟩
  simp [G.compareType, hm, ha]

end C07

namespace C07
open Model.Diff Spec.Diff

/-- string values are compared exactly: a change of letter case only is a changed default -/
example : changedDefault (some (.str ['P', 'e', 'n', 'd'])) (some (.str ['p', 'e', 'n', 'd'])) :=
  changed_str _ _ (by decide) (by decide) (by decide)
example : defaultValue (some (.expr ['\'', 'O', 'k', '\''])) ≠ defaultValue (some (.expr ['\'', 'o', 'k', '\''])) := by decide

end C07

/-! ### table removed together with the foreign keys that point to it -/
namespace C07
open Model.Diff Spec.Diff Lemmas.Diff

/-- the model tables after `dropTableRefs t false`: table `t` gone, keys pointing to it gone -/
def dropRefs (t : String) (x : Table) : Table := { x with fks := x.fks.filter (fun f => f.reftable != t) }

theorem apply_dropTableRefs (t : String) (a : Schema) :
    (Mutation.dropTableRefs t false).apply a = (a.filter (fun x => x.name != t)).map (dropRefs t) := by
  simp [Mutation.apply, dropRefs]

theorem names_dropRefs (t : String) (a : Schema) :
    ((a.filter (fun x => x.name != t)).map (dropRefs t)).map (·.name) = (a.filter (fun x => x.name != t)).map (·.name) := by
  simp [List.map_map, Function.comp_def, dropRefs]

theorem findTable_dropRefs (t : String) (a : Schema) (n : String) :
    findTable ((a.filter (fun x => x.name != t)).map (dropRefs t)) n =
      (findTable (a.filter (fun x => x.name != t)) n).map (dropRefs t) := by
  unfold findTable
  exact find?_map_key (dropRefs t) (·.name) (·.name) (fun _ => rfl) n _

theorem findTable_filter_self (a : Schema) (hnd : (a.map (·.name)).Nodup) (t : String) (x : Table) (hx : x ∈ a) (hne : x.name ≠ t) :
    findTable (a.filter (fun y => y.name != t)) x.name = some x := by
  unfold findTable
  have hnd' : ((a.filter (fun y => y.name != t)).map (·.name)).Nodup := (List.filter_sublist.map _).nodup hnd
  exact find?_key_of_nodup (·.name) _ hnd' x (List.mem_filter.mpr ⟨hx, by simpa using hne⟩)

/-- keys of one table against the same keys without those pointing to `t`: exactly their removal -/
theorem compareFks_dropRefs (t1 t : String) (fks : List Fk) :
    compareFks t1 fks (fks.filter (fun f => f.reftable != t)) = (fks.filter (fun f => f.reftable == t)).map (Op.removeFk t1) := by
  unfold compareFks
  have hsig : ∀ f g : Fk, fkSig t1 f = fkSig t1 g → f.reftable = g.reftable := by
    intro f g h; simp only [fkSig, Prod.mk.injEq] at h; exact h.2.2.1
  have h1 : fks.filter (fun c => !((fks.filter (fun f => f.reftable != t)).map (fkSig t1)).contains (fkSig t1 c)) =
      fks.filter (fun f => f.reftable == t) := by
    apply List.filter_congr
    intro c hc
    by_cases hr : c.reftable = t
    · have : ((fks.filter (fun f => f.reftable != t)).map (fkSig t1)).contains (fkSig t1 c) = false := by
        apply Bool.eq_false_iff.mpr
        intro hcon
        simp only [List.contains_iff_mem, List.mem_map, List.mem_filter] at hcon
        obtain ⟨g, ⟨_, hg⟩, hs⟩ := hcon
        have := hsig g c hs
        simp [this, hr] at hg
      have hb : (c.reftable == t) = true := by simpa using hr
      simp only [this, hb, Bool.not_false]
    · have : ((fks.filter (fun f => f.reftable != t)).map (fkSig t1)).contains (fkSig t1 c) = true := by
        simp only [List.contains_iff_mem]
        exact List.mem_map_of_mem (f := fkSig t1) (List.mem_filter.mpr ⟨hc, by simpa using hr⟩)
      have hb : (c.reftable == t) = false := by simpa using hr
      simp only [this, hb, Bool.not_true]
  have h2 : (fks.filter (fun f => f.reftable != t)).filter (fun m => !(fks.map (fkSig t1)).contains (fkSig t1 m)) = [] := by
    apply filter_nil_of_forall
    intro m hm
    have : (fks.map (fkSig t1)).contains (fkSig t1 m) = true := by
      simp only [List.contains_iff_mem]
      exact List.mem_map_of_mem (f := fkSig t1) (List.mem_filter.mp hm).1
    simp only [this, Bool.not_true]
  rw [h1, h2]; simp

end C07

namespace C07
open Model.Diff Spec.Diff Lemmas.Diff

theorem compareTable_dropRefs (cfg : Cfg) (x : Table) (t : String) (hnd : (x.cols.map (·.name)).Nodup)
    (hok : ∀ c ∈ x.cols, colOk cfg c = true) :
    compareTable cfg (reflectTable (createTable x)) (dropRefs t x) =
      (x.fks.filter (fun f => f.reftable == t)).map (Op.removeFk x.name) := by
  have := compareTable_sameCols cfg x hnd hok x.uqs x.ixs (x.fks.filter (fun f => f.reftable != t))
  have e : ({ x with uqs := x.uqs, ixs := x.ixs, fks := x.fks.filter (fun f => f.reftable != t) } : Table) = dropRefs t x := rfl
  rw [e] at this
  rw [this, compareIxUq_self, compareFks_dropRefs]
  rfl

/-- every op of the diff after `dropTableRefs` comes from the dropped table or is the removal of a key pointing to it -/
theorem mem_diff_dropRefs (cfg : Cfg) (a : Schema) (hwf : WF a) (hok : SchemaOk cfg a) (t0 : Table) (ht0 : t0 ∈ a) (op : Op) :
    op ∈ diff cfg (reflect (createAll a)) ((a.filter (fun x => x.name != t0.name)).map (dropRefs t0.name)) ↔
    (op ∈ compareIxUq t0.name true (namedOf [] t0.ixs) [] ∨ op = Op.removeTable t0.name) ∨
    ∃ x ∈ a, x.name ≠ t0.name ∧ ∃ f ∈ x.fks, f.reftable = t0.name ∧ op = Op.removeFk x.name f := by
  unfold diff
  rw [reflect_names', names_dropRefs]
  have h1 : ((a.filter (fun x => x.name != t0.name)).map (dropRefs t0.name)).filter (fun x => !(a.map (·.name)).contains x.name) = [] := by
    apply filter_nil_of_forall
    intro x hx
    obtain ⟨y, hy, rfl⟩ := List.mem_map.mp hx
    have hy' := (List.mem_filter.mp hy).1
    have : (dropRefs t0.name y).name ∈ a.map (·.name) := List.mem_map_of_mem (f := (·.name)) hy'
    simp only [contains_of_mem _ _ this, Bool.not_true]
  simp only [h1, List.flatMap_nil, List.nil_append, List.mem_append, List.mem_flatMap, List.mem_filter]
  constructor
  · rintro (⟨x, ⟨hx, hnot⟩, hop⟩ | ⟨p, hp, hop⟩)
    · left
      simp only [reflect, createAll, List.map_map, List.mem_map, Function.comp_apply] at hx
      obtain ⟨t1, ht1, rfl⟩ := hx
      have hname : t1.name = t0.name := by
        apply Classical.byContradiction
        intro hne
        have : t1.name ∈ (a.filter (fun x => x.name != t0.name)).map (·.name) :=
          List.mem_map.mpr ⟨t1, List.mem_filter.mpr ⟨ht1, by simpa using hne⟩, rfl⟩
        have hc := contains_of_mem _ _ this
        simp only [reflectTable, createTable] at hnot
        rw [hc] at hnot
        cases hnot
      have : t1 = t0 := eq_of_name_eq a hwf.tables_nodup t1 t0 ht1 ht0 hname
      subst this
      simpa [reflectTable, createTable] using hop
    · right
      have hp' := by unfold sortTablesByName at hp; exact List.mem_mergeSort.mp hp
      obtain ⟨ct, hct, hfm⟩ := List.mem_filterMap.mp hp'
      simp only [reflect, createAll, List.map_map, List.mem_map, Function.comp_apply] at hct
      obtain ⟨t1, ht1, rfl⟩ := hct
      rw [findTable_dropRefs] at hfm
      cases hf : findTable (a.filter (fun x => x.name != t0.name)) (reflectTable (createTable t1)).name with
      | none => rw [hf] at hfm; cases hfm
      | some y =>
        rw [hf] at hfm
        simp only [Option.map_some, Option.some.injEq] at hfm
        subst hfm
        unfold findTable at hf
        have hm := List.mem_of_find?_eq_some hf
        have hn := List.find?_some hf
        obtain ⟨hma, hpy⟩ := List.mem_filter.mp hm
        have : y = t1 := eq_of_name_eq a hwf.tables_nodup y t1 hma ht1 (by simpa [reflectTable, createTable] using hn)
        subst this
        simp only at hop
        rw [compareTable_dropRefs cfg y t0.name (hwf.table_wf y hma).cols_nodup (hok y hma)] at hop
        obtain ⟨f, hf', rfl⟩ := List.mem_map.mp hop
        obtain ⟨hfm', hfr⟩ := List.mem_filter.mp hf'
        exact ⟨y, hma, by simpa using hpy, f, hfm', by simpa using hfr, rfl⟩
  · rintro (h | ⟨x, hx, hne, f, hf, hfr, rfl⟩)
    · left
      refine ⟨reflectTable (createTable t0), ⟨?_, ?_⟩, by simpa [reflectTable, createTable] using h⟩
      · simp only [reflect, createAll, List.map_map, List.mem_map, Function.comp_apply]
        exact ⟨t0, ht0, rfl⟩
      · have : t0.name ∉ (a.filter (fun x => x.name != t0.name)).map (·.name) := by
          intro hm
          obtain ⟨k, hk, hkn⟩ := List.mem_map.mp hm
          have := (List.mem_filter.mp hk).2
          simp [hkn] at this
        simp only [reflectTable, createTable, contains_false_of_not_mem _ _ this, Bool.not_false]
    · right
      refine ⟨(reflectTable (createTable x), dropRefs t0.name x), ?_, ?_⟩
      · unfold sortTablesByName
        apply List.mem_mergeSort.mpr
        apply List.mem_filterMap.mpr
        refine ⟨reflectTable (createTable x), ?_, ?_⟩
        · simp only [reflect, createAll, List.map_map, List.mem_map, Function.comp_apply]
          exact ⟨x, hx, rfl⟩
        · rw [findTable_dropRefs]
          have : (reflectTable (createTable x)).name = x.name := rfl
          rw [this, findTable_filter_self a hwf.tables_nodup t0.name x hx hne]
          rfl
      · simp only
        rw [compareTable_dropRefs cfg x t0.name (hwf.table_wf x hx).cols_nodup (hok x hx)]
        exact List.mem_map.mpr ⟨f, List.mem_filter.mpr ⟨hf, by simpa using hfr⟩, rfl⟩

end C07

namespace C07
open Model.Diff Spec.Diff Lemmas.Diff

/-- **table removed together with the foreign keys pointing to it** (variant without column drops): the
diff contains `remove_table` and one `remove_fk` per referencing key of a remaining table, and every op
in it lies inside the removed table or is the removal of a key that points to it. -/
theorem detect_dropTableRefs_partial (cfg : Cfg) (a : Schema) (hwf : WF a) (hok : SchemaOk cfg a)
    (t0 : Table) (ht0 : t0 ∈ a) :
    detectOk a (.dropTableRefs t0.name false)
      ((diff cfg (reflect (createAll a)) ((Mutation.dropTableRefs t0.name false).apply a)).map summary) = true := by
  rw [apply_dropTableRefs]
  apply detectOk_of
  · intro e he
    simp only [expected, List.mem_cons, List.mem_flatMap] at he
    rcases he with rfl | ⟨x, hx, hex⟩
    · exact ⟨Op.removeTable t0.name, (mem_diff_dropRefs cfg a hwf hok t0 ht0 _).mpr (Or.inl (Or.inr rfl)), rfl⟩
    · by_cases hn : x.name = t0.name
      · simp [hn] at hex
      · have hb : (x.name == t0.name) = false := by simpa using hn
        simp only [hb, Bool.false_eq_true, if_false, List.mem_map, List.mem_filter] at hex
        obtain ⟨f, ⟨hf, hfr⟩, rfl⟩ := hex
        refine ⟨Op.removeFk x.name f, (mem_diff_dropRefs cfg a hwf hok t0 ht0 _).mpr
          (Or.inr ⟨x, hx, hn, f, hf, by simpa using hfr, rfl⟩), rfl⟩
  · intro op hop
    rcases (mem_diff_dropRefs cfg a hwf hok t0 ht0 op).mp hop with (h | h) | ⟨x, _, _, f, _, hfr, rfl⟩
    · have := compareIxUq_table _ _ _ _ _ h
      simp [touches, this]
    · subst h; simp [touches, summary, Obj.tableName]
    · simp [touches, summary, hfr]

/-- non-vacuity: `p` is referenced by `c.r`; dropping `p` with that key is reported as remove_table + remove_fk -/
def refBase : Schema :=
  [{ name := "p", cols := [{ name := "id", ty := { fam := .Integer, args := [] }, nullable := false, pk := true }] },
   { name := "c", cols := [{ name := "id", ty := { fam := .Integer, args := [] }, nullable := false, pk := true },
                           { name := "r", ty := { fam := .Integer, args := [] }, nullable := true }],
     fks := [{ name := "fk1", cols := ["r"], reftable := "p", refcols := ["id"] }] }]

example : detectOk refBase (.dropTableRefs "p" false)
    [⟨.removeTable, .table "p"⟩, ⟨.removeFk, .fk "c" ["r"] "p" ["id"]⟩] = true := by decide
example : detectOk refBase (.dropTableRefs "p" false) [⟨.removeTable, .table "p"⟩] = false := by decide

end C07
