import Spec.Render
import Lemmas.Py.Ast
import Lemmas.Py.Roundtrip
import Lemmas.Render.Wf
import Lemmas.Render.Eval
import Lemmas.Render.EvalTable
import Lemmas.Render.EvalTop
/-!
# C08 — rendered migration code does exactly what the operation objects do

What is proved here (for **all** strings as table / column / schema / constraint / index names and
comments, all operations of `Model.Render.Op`, batch and non-batch, with and without `op.f()` names):

* `Py.repr_roundtrip` (imported): `pyParseStr (pyRepr s) = some s`;
* `C08.parse_pp`: the expression printer is inverted by the expression parser on every well-formed AST;
* `C08.render_wf`: every renderer produces a well-formed AST;
* `C08.syntax_full` (`syntax` is a Lean keyword): hence the rendered text of **every** operation parses and denotes the intended call
  (`canon`), at full strength (the table-comment renderers use `%r` since the F8 fix).

* `C08.roundtrip`: evaluating the rendered call gives back the operation (`evalCall ∘ renderOp = normalize`)
  for every directive except `create_table`;
* `C08.roundtrip_create_table`: the same for `create_table` (columns, inline constraints, table keywords) and hence,
  through the extension `evalCallT`, for every directive.

Not proved here: that SQLAlchemy's `repr(type)` / DDL compilation agree (outside the model; observed by
the exec-vs-invoke oracle on every run); that `evalCall` commutes with `canon`
for opaque fragments (the driver evaluates `evalDenotes` = parse ∘ evalCall on the implementation's text).
-/
namespace C08
open Model.Py Model.Render Spec.Render

/-- **Printer/parser round trip** (all well-formed expressions, string contents arbitrary). -/
theorem parse_pp (isP : Char → Bool) (e : PyAst) (h : wf true e = true) :
    parse (pp isP e) = some (canon e) := Model.Py.parse_pp isP e h

/-- **Every renderer produces a well-formed expression.** Names are arbitrary; the fragments rendered by
SQLAlchemy are well-formed (`opOk`). -/
theorem render_wf (c : Ctx) (o : Op) (hc : ctxOk c = true) (ho : opOk o = true) :
    wf true (renderOp c o) = true := wf_renderOp c hc o ho

/-- **C08.syntax** (named `syntax_full`: `syntax` is a Lean keyword): for every context, every operation and every choice of names, the rendered text is a
syntactically valid call and denotes the intended call. -/
theorem syntax_full (c : Ctx) (o : Op) (hc : ctxOk c = true) (ho : opOk o = true) :
    parse (pp c.isP (renderOp c o)) = some (canon (renderOp c o)) :=
  parse_pp c.isP _ (render_wf c o hc ho)

/-- no renderer uses a naive embedding any more: `canon` only erases the layout -/
theorem syntax_denotes (c : Ctx) (o : Op) (hc : ctxOk c = true) (ho : opOk o = true) :
    Denotes c.isP (pp c.isP (renderOp c o)) (renderOp c o) := by
  simp [Denotes, syntax_full c o hc ho]

/-- **C08.roundtrip**: for every evaluation context (batch or not, any header table / schema), every
operation other than `create_table` and every choice of names, evaluating the rendered call (binding
positional and keyword arguments the way `op.<directive>` does) yields the operation, up to `normalize`
(see `Model/Render/Eval.lean` for exactly what `normalize` erases; the only erased field `invoke` can
observe is `existing_server_default` next to a new `server_default` on MSSQL: finding C08-N5). -/
theorem roundtrip (ec : ECtx) (o : Op) (h : evalOk o = true) :
    evalCall ec (renderOp ec.c o) = some (normalize ec o) := evalCall_renderOp ec o h

/-- **C08.roundtrip for `create_table` (and, through `evalCallT`, for every directive)**: for every evaluation
context, every operation and every choice of names, evaluating the rendered call yields the operation up to
`normalizeT`.  `evalCallT` extends `evalCall` with `create_table`: the positional `sa.Column(...)` items (name, opaque
type, positional Computed / Identity, `server_default` / `autoincrement` / `nullable` / `system` / `comment`, other
keywords), the positional `sa.PrimaryKeyConstraint` / `sa.ForeignKeyConstraint` / `sa.UniqueConstraint` /
`sa.CheckConstraint` items with their keyword arguments (`name` incl. `op.f()`, `deferrable`, `initially`, FK options),
and the table-level keywords (`schema`, `comment`, `if_not_exists`, dialect kwargs).
Hypotheses (`evalOkT`): extra keyword arguments of a column, of an inline unique / foreign key constraint and of the table
do not shadow the names the constructor binds itself.  `normalizeT` on `create_table`: columns as `normCol`, falsy
schema / comment / constraint name are `None`, a primary key without columns is not rendered, and the inline
constraints come back in the order of their rendered text (`sorted(...)` in `_add_table`): the same set of constraints,
another order of the constraint clauses. -/
theorem roundtrip_create_table (ec : ECtx) (o : Op) (h : evalOkT o = true) :
    evalCallT ec (renderOp ec.c o) = some (normalizeT ec o) := evalCallT_renderOp ec o h

/-- `evalCallT` agrees with `evalCall` wherever the latter is defined (the existing theorem is not weakened) -/
theorem evalCallT_extends (ec : ECtx) (e : PyAst) (x : Op) (h : evalCall ec e = some x) : evalCallT ec e = some x :=
  evalCallT_of_evalCall ec e x h

/-- **C08.roundtrip for containers** (`ModifyTableOps`, rendered as plain statements or as a
`with op.batch_alter_table(table, schema=…) as batch_op:` block): for every context, both values of `render_as_batch`
and every top-level operation whose members satisfy `evalOkT`, evaluating the rendered lines - the header gives the
table and schema every `batch_op.*` statement of the block is bound to - yields exactly the member operations, in
order, each normalised with respect to the context it was rendered in (`normTop`). An empty group renders nothing and
evaluates to no operation. -/
theorem roundtrip_container (c : Ctx) (asBatch : Bool) (t : Top) (h : ∀ o ∈ topOps t, evalOkT o = true) :
    evalLines c (renderTop c asBatch t) = some (normTop c asBatch t) := evalLines_renderTop c asBatch t h

/-- **rendering a group = the renderings of its members, in order** (preceded by the header in batch mode) -/
theorem render_container (c : Ctx) (asBatch : Bool) (table : Str) (schema : Option Str) (o : Op) (os : List Op) :
    lineAsts (renderTop c asBatch (.modify table schema (o :: os))) =
      (if asBatch then [batchHeader c table schema] else []) ++ (o :: os).map (renderOp { c with batch := asBatch }) :=
  lineAsts_renderTop c asBatch table schema o os

/-- **C08.syntax for containers**: every expression of every line rendered for a top-level operation (the
`op.batch_alter_table(...)` header included) parses back to its normal form; names arbitrary. -/
theorem syntax_container (c : Ctx) (asBatch : Bool) (t : Top) (hc : ctxOk c = true) (h : ∀ o ∈ topOps t, opOk o = true) :
    ∀ a ∈ lineAsts (renderTop c asBatch t), parse (pp c.isP a) = some (canon a) := by
  intro a ha
  have key : ∀ (b : Bool) (o : Op), o ∈ topOps t → parse (pp c.isP (renderOp { c with batch := b } o)) =
      some (canon (renderOp { c with batch := b } o)) := fun b o ho =>
    syntax_full { c with batch := b } o (by simpa [ctxOk] using hc) (h o ho)
  cases t with
  | single o =>
    simp only [renderTop, lineAsts, List.mem_singleton] at ha
    subst ha
    exact key false o (by simp [topOps])
  | modify table schema ops =>
    cases ops with
    | nil => simp [renderTop, lineAsts] at ha
    | cons o os =>
      rw [render_container] at ha
      simp only [List.mem_append, List.mem_map] at ha
      rcases ha with ha | ⟨x, hx, rfl⟩
      · cases asBatch with
        | false => simp at ha
        | true =>
          simp only [↓reduceIte, List.mem_singleton] at ha
          subst ha
          exact parse_pp c.isP _ (wf_batchHeader c hc table schema)
      · exact key asBatch x (by simpa [topOps] using hx)

/-- **option text is carried verbatim** (what seed C08-m broke): for every string `s` - `%`, quotes, backslashes
included - an index option rendered as `key=sa.text(s)` under a key that is not one of `create_index`'s own
parameters comes back from evaluating the rendered call as exactly that option with exactly that string, batch or
not; together with `Py.repr_roundtrip` the text between the quotes is `s` itself: nothing is interpolated. -/
theorem option_text_verbatim (ec : ECtx) (name : GenName) (table : Str) (schema : Option Str) (col key s : Str)
    (hk : kwFresh [S "unique", S "schema", S "if_not_exists"] [(key, PyAst.call (S "sa.text") Layout.inline [pos (.str s)])] = true) :
    evalCallT ec (renderOp ec.c (.createIndex name table schema [.col col] false
        [(key, .call (S "sa.text") Layout.inline [pos (.str s)])] none)) =
      some (normalizeT ec (.createIndex name table schema [.col col] false
        [(key, .call (S "sa.text") Layout.inline [pos (.str s)])] none)) :=
  roundtrip_create_table ec _ (by simp [evalOkT, evalOk, hk])

/-- outside batch mode `normalize` only replaces falsy strings by `None` and drops the two shadowed
`existing_*` attributes: e.g. it is the identity on `drop_column` with a non-empty schema -/
example (ec : ECtx) (hb : ec.c.batch = false) (t col : Str) (c0 : Char) (s : Str) :
    normalize ec (.dropColumn t (some (c0 :: s)) col) = .dropColumn t (some (c0 :: s)) col := by
  simp [normalize, hb, truthy]

/-! ### non-vacuity -/

def ctx0 : Ctx := { batch := false, opPrefix := S "op.", saPrefix := S "sa.", isP := fun _ => true }

/-- containers: a batch group with awkward names evaluates back to its two members, and the hypothesis is satisfiable -/
example : (∀ o ∈ topOps (.modify (S "it's") (some (S "s\\x")) [.dropColumn (S "it's") (some (S "s\\x")) (S "c\"d"),
      .dropTableComment (S "it's") none (some (S "s\\x"))]), evalOkT o = true) ∧
    (evalLines ctx0 (renderTop ctx0 true (.modify (S "it's") (some (S "s\\x")) [.dropColumn (S "it's") (some (S "s\\x")) (S "c\"d"),
      .dropTableComment (S "it's") none (some (S "s\\x"))]))).map List.length = some 2 := by
  constructor
  · intro o ho; simp [topOps] at ho; rcases ho with rfl | rfl <;> rfl
  · decide +kernel

/-- `sqlite_where=sa.text("name LIKE 'a%'")`: the hypothesis of `option_text_verbatim` holds for the key of seed C08-m -/
example : kwFresh [S "unique", S "schema", S "if_not_exists"]
    [(S "sqlite_where", PyAst.call (S "sa.text") Layout.inline [pos (.str (S "name LIKE 'a%'"))])] = true := by decide +kernel

/-- `evalOkT` is satisfiable by a table with awkward names, an `op.f()` primary key name, a foreign key with options
and a check constraint; and the evaluator really reads the columns back -/
example : evalOkT (.createTable (S "it's") (some (S "s\\x"))
      [{ name := S "na\"me", type := .call (S "sa.Integer") Layout.inline [], sdefault := none, sdPositional := false,
         autoinc := none, nullable := some false, system := false, comment := some (S "c'"), kwargs := [] }]
      [.pk (.conv (S "pk_it's")) [S "na\"me"], .fk .none [S "na\"me"] [S "o.id"] [(S "ondelete", .str (S "CASCADE"))],
       .ck (.plain (S "ck")) (S "x > 0"), .pk .none []] none [] (some true)) = true := by decide +kernel

/-- the hypotheses are satisfiable by an operation with awkward names, `op.f()` and an opaque type -/
example : ctxOk ctx0 = true ∧ evalOk (.createIndex (.conv (S "ix_it's")) (S "it's \"t\"\\") (some (S "s'x")) [.col (S "na\"me"),
      .expr (.call (S "sa.literal_column") Layout.inline [pos (.str (S "lower(x)"))])] true [] none) = true ∧
    opOk (.createIndex (.conv (S "ix_it's")) (S "it's \"t\"\\") (some (S "s'x")) [.col (S "na\"me"),
      .expr (.call (S "sa.literal_column") Layout.inline [pos (.str (S "lower(x)"))])] true [] none) = true := by
  decide +kernel

example : String.ofList (pp ctx0.isP (renderOp ctx0 (.dropColumn (S "it's") (some (S "s\\x")) (S "c\"d")))) =
    "op.drop_column(\"it's\", 'c\"d', schema='s\\\\x')" := by decide +kernel

/-- the former F8 witness now renders with repr and is read back -/
example : (parse (pp ctx0.isP (renderOp ctx0 (.dropTableComment (S "it's") none (some (S "a\\tb")))))).isSome = true := by
  decide +kernel

/-- the parser rejects text that is not a call; the naive embedding of `it's` is still not a literal -/
example : (parse (S "op.drop_table('t'")).isNone = true ∧ (parse (S "op.drop_table('t',, )")).isNone = true
    ∧ (parse (S "op.drop_table_comment('it's')")).isNone = true := by decide +kernel

end C08
