import Spec.Render
import Lemmas.Py.Ast
import Lemmas.Py.Roundtrip
import Lemmas.Render.Wf
/-!
# C08 — rendered migration code does exactly what the operation objects do

What is proved here (for **all** strings as table / column / schema / constraint / index names and
comments, all operations of `Model.Render.Op`, batch and non-batch, with and without `op.f()` names):

* `Py.repr_roundtrip` (imported): `pyParseStr (pyRepr s) = some s`;
* `C08.parse_pp`: the expression printer is inverted by the expression parser on every well-formed AST;
* `C08.render_wf`: every renderer produces a well-formed AST;
* `C08.syntax_partial` / `C08.syntax_noncomment`: hence the rendered text parses and denotes the intended
  call (`canon`), provided the names embedded *naively* by the two table-comment renderers are plain;
* `C08.syntax_counterexample*`: without that proviso the statement is false on the unchanged code (F8).

Not proved here: that SQLAlchemy's `repr(type)` / DDL compilation agree (outside the model; observed by
the exec-vs-invoke oracle on every run), and the evaluation half (`evalCall`) of the round trip.
-/
namespace C08
open Model.Py Model.Render Spec.Render

/-- **Printer/parser round trip** (all well-formed expressions, string contents arbitrary). -/
theorem parse_pp (isP : Char → Bool) (e : PyAst) (h : wf true e = true) :
    parse (pp isP e) = some (canon e) := Model.Py.parse_pp isP e h

/-- **Every renderer produces a well-formed expression.** Names are arbitrary; the fragments rendered by
SQLAlchemy are well-formed (`opOk`); the naive embeddings of the table-comment renderers are plain (`plainOk`). -/
theorem render_wf (c : Ctx) (o : Op) (hc : ctxOk c = true) (ho : opOk o = true) (hp : plainOk c o = true) :
    wf true (renderOp c o) = true := wf_renderOp c hc o ho hp

/-- C08.syntax at full strength: the text of every rendered operation is a valid call denoting the
intended call. **False on the unchanged tree** (F8), see `syntax_counterexample`. -/
def syntax_statement : Prop :=
  ∀ (c : Ctx) (o : Op), ctxOk c = true → opOk o = true →
    parse (pp c.isP (renderOp c o)) = some (canon (renderOp c o))

/-- C08.syntax under the extra hypothesis `plainOk` (table-comment names without `'`, `\`, line break, NUL). -/
theorem syntax_partial (c : Ctx) (o : Op) (hc : ctxOk c = true) (ho : opOk o = true) (hp : plainOk c o = true) :
    parse (pp c.isP (renderOp c o)) = some (canon (renderOp c o)) :=
  parse_pp c.isP _ (render_wf c o hc ho hp)

/-- C08.syntax at full strength for every operation other than a non-batch table-comment operation:
all names are arbitrary strings. -/
theorem syntax_noncomment (c : Ctx) (o : Op) (hc : ctxOk c = true) (ho : opOk o = true)
    (h : isComment o = false ∨ c.batch = true) :
    parse (pp c.isP (renderOp c o)) = some (canon (renderOp c o)) := by
  apply syntax_partial c o hc ho
  cases o <;> simp_all [plainOk, isComment]

/-! ### F8: the witnesses (replayed on the implementation on every run) -/

def ctx0 : Ctx := { batch := false, opPrefix := S "op.", saPrefix := S "sa.", isP := fun _ => true }

/-- `op.drop_table_comment('it's', existing_comment=None, schema=None)` is not Python -/
def witness : Op := .dropTableComment (S "it's") none none

theorem witness_unparsable : (parse (pp ctx0.isP (renderOp ctx0 witness))).isNone = true := by decide +kernel

theorem syntax_counterexample : ¬ syntax_statement := by
  intro h
  have h1 := h ctx0 witness (by decide +kernel) (by decide +kernel)
  have h2 := witness_unparsable
  rw [h1] at h2
  exact Bool.noConfusion h2

/-- table `a\tb` (backslash, `t`): the rendered text is valid Python naming another table (`a<TAB>b`) -/
def witness2 : Op := .dropTableComment (S "a\\tb") none none

theorem syntax_counterexample_wrong_name :
    denotesB ctx0.isP (pp ctx0.isP (renderOp ctx0 witness2)) (renderOp ctx0 witness2) = false
    ∧ (parse (pp ctx0.isP (renderOp ctx0 witness2))).isSome = true := by
  constructor <;> decide +kernel

/-! ### non-vacuity -/

/-- the hypotheses are satisfiable by an operation with awkward names, `op.f()` and an opaque type -/
example : ctxOk ctx0 = true ∧
    opOk (.createIndex (.conv (S "ix_it's")) (S "it's \"t\"\\") (some (S "s'x")) [.col (S "na\"me"),
      .expr (.call (S "sa.literal_column") Layout.inline [pos (.str (S "lower(x)"))])] true [] none) = true := by decide +kernel

example : String.ofList (pp ctx0.isP (renderOp ctx0 (.dropColumn (S "it's") (some (S "s\\x")) (S "c\"d")))) =
    "op.drop_column(\"it's\", 'c\"d', schema='s\\\\x')" := by decide +kernel

/-- the parser rejects text that is not a call -/
example : (parse (S "op.drop_table('t'")).isNone = true ∧ (parse (S "op.drop_table('t',, )")).isNone = true := by decide +kernel

/-- the plain hypothesis is used: the comment renderer on a plain name is fine -/
example : plainOk ctx0 (.dropTableComment (S "plain name") none (some (S "sch"))) = true := by decide +kernel

end C08
