import Lemmas.Rev.ResolveFacts
import Lemmas.Rev.Bridge
import Props.C15
/-!
# C16 — revision identifiers resolve to the right revision or fail loudly

About `Model.Rev.getRevisions` / `getRevision` / `revisionForIdent` (mirror of
`RevisionMap.get_revisions`, `get_revision`, `_resolve_revision_number`,
`_revision_for_ident`).  Relative forms and `label@…` are covered by the correspondence and the
Lean oracles `Spec.Rev.stepsDown` / `downLineage`; the theorems here are about plain
identifiers and the symbolic names.
-/
namespace C16
open Model.Rev Spec.Rev Lemmas.Rev

/-- a plain identifier: no `@`, not one of the symbolic names, not a bare negative number
    (`get_revisions("-2")` means "two below the heads") -/
def Plain (s : String) : Prop :=
  '@' ∉ s.toList ∧ s ≠ "heads" ∧ s ≠ "head" ∧ s ≠ "base" ∧ negInt? s = none

/-- ids of a loaded history contain no `-`, so they are never read as a negative number -/
theorem negInt_none_of_legal (s : String) (h : ∀ c ∈ s.toList, c ∉ illegalChars) : negInt? s = none := by
  unfold negInt?
  split
  · rename_i ds heq
    exact absurd (by decide : '-' ∈ illegalChars) (h '-' (by rw [heq]; exact List.mem_cons_self))
  · rfl

theorem load_ids_legal {h : Hist} {o : LoadOpts} {m : LMap} (hl : load h o = .ok m) :
    ∀ i ∈ m.ids, negInt? i = none := by
  obtain ⟨m1, lk, h1, hrevs, _, _, _, hids, _⟩ := load_graph hl
  intro i hi
  rw [hids] at hi
  have hids1 : m1.ids = h.map (·.id) := by
    simp [LMap.ids, hrevs, phase1Revs, List.map_map, Function.comp_def]
  rw [hids1] at hi
  obtain ⟨r, hr, rfl⟩ := List.mem_map.mp hi
  exact negInt_none_of_legal _ (checkRev_legal (phase1_checked h1 r hr))

theorem load_labelKeys {h : Hist} {o : LoadOpts} {m : LMap} (hl : load h o = .ok m) :
    ∀ e ∈ m.labelKeys, e.2 ∈ m.ids := by
  obtain ⟨m1, lk, h1, hrevs, hlk, hchk, hdc, hids, _⟩ := load_graph hl
  obtain ⟨m1', h1', _, hm⟩ := load_ok hl
  have : m1' = m1 := by rw [h1] at h1'; exact (Except.ok.inj h1').symm
  subst this
  obtain ⟨lk', hlk', _, hrevs', hlkeq⟩ := phase1_ok h1
  obtain ⟨f3, hk3, hn3, hm3⟩ := addBranches_eq (withNorm o m1')
  have hL : m.labelKeys = m1'.labelKeys := by rw [hm, hm3]; rfl
  have hids1 : m1'.ids = h.map (·.id) := by
    simp [LMap.ids, hrevs', phase1Revs, List.map_map, Function.comp_def]
  intro e he
  rw [hL, hlkeq] at he
  rw [hids, hids1]
  exact mapBranchLabels_vals (h.map (·.id)) _ [] lk'
    (fun r hr => List.mem_map.mpr ⟨r, (List.mem_filter.mp hr).1, rfl⟩) (by simp) hlk' e he

theorem resolveNumber_plain (m : LMap) (n : Nat) (s : String) (hp : Plain s) :
    resolveRevisionNumber m (n + 1) s = .ok ([s], none) := by
  unfold resolveRevisionNumber
  simp only [splitFirstAt_noat s hp.1, bind, Except.bind, pure, Except.pure]
  simp [hp.2.1, hp.2.2.1, hp.2.2.2.1]

/-- **A full revision id resolves to that revision.** -/
theorem full_id (m : LMap) (i : Id) (hi : i ∈ m.ids) (hp : Plain i) :
    getRevisions m i = .ok [some i] ∧ getRevision m i = .ok (some i) := by
  constructor
  · unfold getRevisions resolveFuel
    simp [resolveNumber_plain m 11 i hp, revisionForIdent_id m 11 i hi, bind, Except.bind, pure, Except.pure, hp.2.2.2.2]
  · unfold getRevision resolveFuel
    simp [resolveNumber_plain m 11 i hp, revisionForIdent_id m 11 i hi, bind, Except.bind]

/-- **What a plain identifier can resolve to.** If `get_revisions(ident)` succeeds for a plain
identifier, the result is one revision `x`, and either `ident` is a key of the map for `x` (its
full id, or a branch label carried by `x`), or `ident` is a prefix of `x`'s id and of no other
revision id of four or more characters. -/
theorem plain_sound {h : Hist} {o : LoadOpts} {m : LMap} (hl : load h o = .ok m)
    (ident : String) (hp : Plain ident) (rs : List (Option Id)) (hr : getRevisions m ident = .ok rs) :
    ∃ x, rs = [some x] ∧
      (m.lookup ident = some x ∨
        (x ∈ m.ids ∧ startsWithL x ident = true ∧
          ∀ y ∈ m.ids, y.length > 3 → startsWithL y ident = true → y = x)) := by
  unfold getRevisions resolveFuel at hr
  simp only [resolveNumber_plain m 11 ident hp, bind, Except.bind, List.mapM_cons, List.mapM_nil, pure, Except.pure,
    hp.2.2.2.2] at hr
  cases hq : revisionForIdent m 12 ident none with
  | error e => simp [hq] at hr
  | ok v =>
    simp only [hq] at hr
    cases v with
    | none =>
      -- `_revision_for_ident` of a plain string never answers `None`
      exfalso
      unfold revisionForIdent at hq
      simp only [bind, Except.bind, pure, Except.pure] at hq
      split at hq
      · simp at hq
      · split at hq
        · simp [throw, throwThe, MonadExceptOf.throw] at hq
        · split at hq
          · simp at hq
          · simp [throw, throwThe, MonadExceptOf.throw] at hq
        · simp [throw, throwThe, MonadExceptOf.throw] at hq
    | some x =>
      have hrs : rs = [some x] := by simpa using hr.symm
      refine ⟨x, hrs, ?_⟩
      rcases revisionForIdent_sound m (load_labelKeys hl) 11 ident x hq with h1 | ⟨_, h2, h3, _, h5⟩
      · exact Or.inl h1
      · exact Or.inr ⟨h2, h3, h5⟩

/-- the full statement of the prefix rule: unique among *all* revision ids -/
def prefix_unique_statement : Prop :=
  ∀ (h : Hist) (o : LoadOpts) (m : LMap), load h o = .ok m →
    ∀ (ident : String), Plain ident → ∀ x, getRevisions m ident = .ok [some x] → m.lookup ident = none →
      ∀ y ∈ m.ids, startsWithL y ident = true → y = x

def f13 : Hist := [⟨"1111", [], [], []⟩, ⟨"1a", [], [], []⟩]

/-- everything the counterexample needs, as one kernel-evaluated Boolean -/
def f13check : Bool :=
  match load f13 {} with
  | .error _ => false
  | .ok m =>
    (match getRevisions m "1" with | .ok [some x] => x == "1111" | _ => false) &&
    (m.lookup "1").isNone && decide ("1a" ∈ m.ids) && startsWithL "1a" "1"

theorem f13check_true : f13check = true := by decide +kernel

/-- **Known finding F13**: ids shorter than four characters are invisible to the partial lookup:
`1` resolves to `1111` although `1a` starts with `1` as well. -/
theorem prefix_unique_counterexample : ¬ prefix_unique_statement := by
  intro hst
  have hc := f13check_true
  unfold f13check at hc
  cases hl : load f13 {} with
  | error e => simp [hl] at hc
  | ok m =>
    simp only [hl, Bool.and_eq_true, decide_eq_true_eq] at hc
    obtain ⟨⟨⟨h1, h2⟩, h3⟩, h4⟩ := hc
    have hg : getRevisions m "1" = .ok [some "1111"] := by
      cases hq : getRevisions m "1" with
      | error e => simp [hq] at h1
      | ok rs =>
        match rs, hq with
        | [some x], hq => simp [hq] at h1; rw [h1]
        | [], hq => simp [hq] at h1
        | [none], hq => simp [hq] at h1
        | _ :: _ :: _, hq => simp [hq] at h1
    have hlk : m.lookup "1" = none := by
      cases hq : m.lookup "1" with
      | none => rfl
      | some _ => simp [hq] at h2
    have := hst f13 {} m hl "1" ⟨by decide, by decide, by decide, by decide, by decide⟩ "1111" hg hlk "1a" h3 h4
    exact absurd this (by decide)

/-- **The prefix rule at full strength when every revision id has at least four characters**
(as Alembic's own generated ids do): a plain identifier that is not a key of the map resolves
only to the unique revision whose id starts with it. -/
theorem prefix_unique_partial {h : Hist} {o : LoadOpts} {m : LMap} (hl : load h o = .ok m)
    (hlong : ∀ y ∈ m.ids, y.length > 3)
    (ident : String) (hp : Plain ident) (x : Id) (hr : getRevisions m ident = .ok [some x])
    (hk : m.lookup ident = none) :
    x ∈ m.ids ∧ startsWithL x ident = true ∧ ∀ y ∈ m.ids, startsWithL y ident = true → y = x := by
  obtain ⟨x', hx', hcase⟩ := plain_sound hl ident hp _ hr
  have : x' = x := by simpa using hx'.symm
  subst this
  rcases hcase with h1 | ⟨h2, h3, h4⟩
  · rw [hk] at h1; simp at h1
  · exact ⟨h2, h3, fun y hy hs => h4 y hy (hlong y hy) hs⟩

/-- **`heads` and `base`.** -/
theorem symbolic_base (m : LMap) : getRevisions m "base" = .ok [] := by
  unfold getRevisions resolveFuel resolveRevisionNumber
  simp [splitFirstAt_noat "base" (by decide), bind, Except.bind, pure, Except.pure]

theorem symbolic_heads {h : Hist} {o : LoadOpts} {m : LMap} (hl : load h o = .ok m) :
    getRevisions m "heads" = .ok (m.realHeads.map some) := by
  have hsub : ∀ x ∈ m.realHeads, x ∈ m.ids := by
    intro x hx
    rw [(load_heads hl).2.1] at hx
    exact (List.mem_filter.mp hx).1
  unfold getRevisions resolveFuel resolveRevisionNumber
  simp only [splitFirstAt_noat "heads" (by decide), bind, Except.bind, pure, Except.pure]
  simp only [if_true, beq_self_eq_true]
  have key : ∀ (l : List Id), (∀ x ∈ l, x ∈ m.ids) →
      l.mapM (fun i => revisionForIdent m 12 i none) = .ok (l.map some) := by
    intro l
    induction l with
    | nil => intro _; rfl
    | cons a r ih =>
      intro hl'
      simp only [List.mapM_cons, bind, Except.bind, pure, Except.pure,
        revisionForIdent_id m 11 a (hl' a List.mem_cons_self), ih (fun x hx => hl' x (List.mem_cons_of_mem _ hx)),
        List.map_cons]
  have hk := key m.realHeads hsub
  split
  · rename_i one heq
    rw [load_ids_legal hl one (hsub one (by rw [heq]; exact List.mem_cons_self))]
    exact hk
  · exact hk

/-! ### relative forms: the walk covers exactly the requested distance -/

/-- a chain of exactly `n` links along `succ` -/
def PathN (succ : Id → List Id) : Nat → Id → Id → Prop
  | 0, a, b => a = b
  | n + 1, a, b => ∃ c ∈ succ a, PathN succ n c b

theorem filterForLineage_sub (m : LMap) (l : List Id) (a : String) (b : Bool) (l' : List Id)
    (h : filterForLineage m l a b = .ok l') : ∀ x ∈ l', x ∈ l := by
  unfold filterForLineage at h
  simp only [bind, Except.bind, pure, Except.pure] at h
  split at h
  · simp at h
  · simp only [Except.ok.injEq] at h
    subst h
    intro x hx; exact (List.mem_filter.mp hx).1

theorem children_single {children : List Id} {nxt : Option Id} {mk : Bool}
    (h : (match children with
      | [] => (Except.ok none : Except Err (Option (Option Id × Bool)))
      | [c] => Except.ok (some (some c, false))
      | _ => throw Err.revisionError) = Except.ok (some (nxt, mk))) :
    ∃ c, children = [c] ∧ nxt = some c ∧ mk = false := by
  match children, h with
  | [], h => simp at h
  | [c], h =>
    simp only [Except.ok.injEq, Option.some.injEq, Prod.mk.injEq] at h
    exact ⟨c, rfl, h.1.symm, h.2.symm⟩
  | _ :: _ :: _, h => simp [throw, throwThe, MonadExceptOf.throw] at h

/-- one step up goes to a down-revision child -/
theorem walkStep_up (m : LMap) (label : Option String) (s : Id) (nxt : Option Id) (mk : Bool)
    (h : walkStep m true label (some s) false = .ok (some (nxt, mk))) :
    ∃ c, nxt = some c ∧ mk = false ∧ c ∈ m.nextrev s := by
  unfold walkStep at h
  simp only [if_true, bind, Except.bind, pure, Except.pure] at h
  cases label with
  | none =>
    simp only at h
    obtain ⟨c, hc, h1, h2⟩ := children_single h
    exact ⟨c, h1, h2, by rw [hc]; exact List.mem_cons_self⟩
  | some l =>
    simp only at h
    by_cases hl : l.isEmpty = true
    · simp only [hl, if_true] at h
      obtain ⟨c, hc, h1, h2⟩ := children_single h
      exact ⟨c, h1, h2, by rw [hc]; exact List.mem_cons_self⟩
    · simp only [hl, Bool.false_eq_true, if_false] at h
      cases hf : filterForLineage m (m.nextrev s) l false with
      | error e => simp [hf] at h
      | ok children =>
        simp only [hf] at h
        obtain ⟨c, hc, h1, h2⟩ := children_single h
        exact ⟨c, h1, h2, filterForLineage_sub m _ l false children hf c (by rw [hc]; exact List.mem_cons_self)⟩

/-- **`id+N` / `+N` never lands at a different distance**: when the upward walk (the relative
upgrade forms, with `assert_relative_length`) returns a revision, that revision is exactly `n`
down-revision links above the start, every link going to a down-revision child. -/
theorem walk_up_exact (m : LMap) (label : Option String) :
    ∀ (n : Nat) (s r : Id), walk.go m (1 : Int) label true n (some s) false = .ok (some (some r)) →
      PathN m.nextrev n s r := by
  intro n
  induction n with
  | zero =>
    intro s r h
    simp [walk.go] at h
    exact h
  | succ k ih =>
    intro s r h
    simp only [walk.go, bind, Except.bind] at h
    have hdec : (decide ((1 : Int) > 0)) = true := by decide
    simp only [hdec] at h
    cases hv : walkStep m true label (some s) false with
    | error e => simp [hv] at h
    | ok v =>
      simp only [hv] at h
      cases v with
      | none => simp [pure, Except.pure] at h
      | some pr =>
        obtain ⟨nxt, mk⟩ := pr
        simp only at h
        obtain ⟨c, h1, h2, h3⟩ := walkStep_up m label s nxt mk hv
        subst h1; subst h2
        exact ⟨c, h3, ih c r h⟩

/-- one step down goes to the single down-revision, or to base when there is none -/
theorem walkStep_down (m : LMap) (label : Option String) (s : Id) (nxt : Option Id) (mk : Bool)
    (h : walkStep m false label (some s) false = .ok (some (nxt, mk))) :
    (∃ c, nxt = some c ∧ mk = false ∧ m.downOf s = [c]) ∨ (nxt = none ∧ mk = true ∧ m.downOf s = []) := by
  unfold walkStep at h
  simp only [Bool.false_eq_true, if_false, pure, Except.pure] at h
  match hd : m.downOf s, h with
  | [], h =>
    simp only [Except.ok.injEq, Option.some.injEq, Prod.mk.injEq] at h
    exact Or.inr ⟨h.1.symm, h.2.symm, rfl⟩
  | [c], h =>
    simp only [Except.ok.injEq, Option.some.injEq, Prod.mk.injEq] at h
    exact Or.inl ⟨c, h.1.symm, h.2.symm, rfl⟩
  | _ :: _ :: _, h => simp [throw, throwThe, MonadExceptOf.throw] at h

/-- **`id-N` / `-N` never lands at a different distance**: when the downward walk (the relative
downgrade forms, with `assert_relative_length`) returns a revision, it is exactly `n`
down-revision links below the start and every revision on the way has that single down-revision;
when it returns base, the start is `n - 1` such links above a revision without down-revision. -/
theorem walk_down_exact (m : LMap) (label : Option String) :
    ∀ (n : Nat) (s : Id) (r : Option Id), walk.go m (-1 : Int) label true n (some s) false = .ok (some r) →
      match r with
      | some r => PathN m.downOf n s r
      | none => ∃ root, n ≥ 1 ∧ PathN m.downOf (n - 1) s root ∧ m.downOf root = [] := by
  intro n
  induction n with
  | zero =>
    intro s r h
    simp [walk.go] at h
    subst h
    exact rfl
  | succ k ih =>
    intro s r h
    simp only [walk.go, bind, Except.bind] at h
    have hdec : (decide ((-1 : Int) > 0)) = false := by decide
    simp only [hdec] at h
    cases hv : walkStep m false label (some s) false with
    | error e => simp [hv] at h
    | ok v =>
      simp only [hv] at h
      cases v with
      | none => simp [pure, Except.pure] at h
      | some pr =>
        obtain ⟨nxt, mk⟩ := pr
        simp only at h
        rcases walkStep_down m label s nxt mk hv with ⟨c, h1, h2, h3⟩ | ⟨h1, h2, h3⟩
        · subst h1; subst h2
          have := ih c r h
          cases r with
          | some r' => exact ⟨c, by rw [h3]; exact List.mem_cons_self, this⟩
          | none =>
            obtain ⟨root, hk, hp, hr⟩ := this
            refine ⟨root, by omega, ?_, hr⟩
            have e : k + 1 - 1 = (k - 1) + 1 := by omega
            rw [e]
            exact ⟨c, by rw [h3]; exact List.mem_cons_self, hp⟩
        · subst h1; subst h2
          -- we are at base with the marker set: only zero further steps can succeed
          cases k with
          | zero =>
            simp [walk.go] at h
            subst h
            exact ⟨s, by omega, rfl, h3⟩
          | succ k' =>
            simp [walk.go, walkStep, bind, Except.bind, pure, Except.pure] at h

/-! ### the distance oracle `Spec.Rev.stepsDown` and the walk, in terms of the history as written -/

theorem pathN_congr {f g : Id → List Id} (hfg : ∀ i, f i = g i) : ∀ n s r, PathN f n s r → PathN g n s r := by
  intro n
  induction n with
  | zero => intro s r h; exact h
  | succ k ih =>
    intro s r h
    obtain ⟨c, hc, hp⟩ := h
    exact ⟨c, by rw [← hfg s]; exact hc, ih c r hp⟩

/-- **What a `true` verdict of the distance oracle means**: there is a chain of exactly `n`
`down_revision` links (as written in the history) from `r` down to `a`. -/
theorem stepsDown_iff (h : Hist) : ∀ (n : Nat) (r a : Id),
    stepsDown h n r (some a) = true ↔ PathN (downParents h) n r a := by
  intro n
  induction n with
  | zero => intro r a; simp [stepsDown, PathN]
  | succ k ih =>
    intro r a
    simp only [stepsDown, Bool.false_or, List.any_eq_true, PathN]
    constructor
    · rintro ⟨p, hp, hs⟩; exact ⟨p, hp, (ih p a).mp hs⟩
    · rintro ⟨p, hp, hs⟩; exact ⟨p, hp, (ih p a).mpr hs⟩

/-- **`id-N`, end to end**: in a loaded history a downward relative walk that returns a revision
returns one exactly `N` `down_revision` links, as written in the revision files, below the start
— the statement the oracle `stepsDown` decides on the implementation's answers. -/
theorem walk_down_history {h : Hist} {o : LoadOpts} {m : LMap} (hl : load h o = .ok m)
    (hu : (h.map (·.id)).Nodup) (label : Option String) (n : Nat) (s r : Id)
    (hw : walk.go m (-1 : Int) label true n (some s) false = .ok (some (some r))) :
    stepsDown h n s (some r) = true := by
  have hp := walk_down_exact m label n s (some r) hw
  exact (stepsDown_iff h n s r).mpr (pathN_congr (fun i => downOf_eq_downParents hl hu i) n s r hp)

theorem pathN_snoc {g : Id → List Id} : ∀ (k : Nat) (r c s : Id), PathN g k r c → s ∈ g c → PathN g (k + 1) r s := by
  intro k
  induction k with
  | zero =>
    intro r c s h hs
    have e : r = c := h
    subst e
    exact ⟨s, hs, rfl⟩
  | succ k ih =>
    intro r c s h hs
    obtain ⟨d, hd, hp⟩ := h
    exact ⟨d, hd, ih d c s hp hs⟩

theorem pathN_reverse {f g : Id → List Id} (hfg : ∀ a b, b ∈ f a → a ∈ g b) :
    ∀ (n : Nat) (s r : Id), PathN f n s r → PathN g n r s := by
  intro n
  induction n with
  | zero => intro s r h; exact (h : s = r).symm
  | succ k ih =>
    intro s r h
    obtain ⟨c, hc, hp⟩ := h
    exact pathN_snoc k r c s (ih c r hp) (hfg s c hc)

/-- **`id+N`, end to end**: in a loaded history an upward relative walk that returns a revision
returns one from which exactly `N` `down_revision` links, as written in the revision files, lead
down to the start. -/
theorem walk_up_history {h : Hist} {o : LoadOpts} {m : LMap} (hl : load h o = .ok m)
    (hu : (h.map (·.id)).Nodup) (hd : ∀ r ∈ h, ∀ d ∈ r.down, d ∈ h.map (·.id))
    (label : Option String) (n : Nat) (s r : Id)
    (hw : walk.go m (1 : Int) label true n (some s) false = .ok (some (some r))) :
    stepsDown h n r (some s) = true := by
  have L := loaded_of_load hl hu hd
  have hp := walk_up_exact m label n s r hw
  have hrev : PathN m.downOf n r s :=
    pathN_reverse (fun a b hb => ((nextrev_iff m L.ids_nodup a b).mp hb).2) n s r hp
  exact (stepsDown_iff h n r s).mpr (pathN_congr (fun i => downOf_eq_downParents hl hu i) n r s hrev)

end C16
