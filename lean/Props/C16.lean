import Spec.Rev
import Model.Rev.Heads
/-! # C16 (theorems: work in progress) -/
namespace C16
end C16
