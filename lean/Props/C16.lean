import Lemmas.Rev.ResolveFacts
import Lemmas.Rev.Bridge
import Props.C15
/-!
# C16 — revision identifiers resolve to the right revision or fail loudly

About `Model.Rev.getRevisions` / `getRevision` / `revisionForIdent` (mirror of
`RevisionMap.get_revisions`, `get_revision`, `_resolve_revision_number`,
`_revision_for_ident`).  Relative forms and `label@…` are covered by the correspondence and the
Lean oracles `Spec.Rev.stepsDown` / `downLineage`; the theorems here are about plain
identifiers and the symbolic names.
-/
namespace C16
open Model.Rev Spec.Rev Lemmas.Rev

/-- a plain identifier: no `@`, not one of the symbolic names, not a bare negative number
    (`get_revisions("-2")` means "two below the heads") -/
def Plain (s : String) : Prop :=
  '@' ∉ s.toList ∧ s ≠ "heads" ∧ s ≠ "head" ∧ s ≠ "base" ∧ negInt? s = none

/-- ids of a loaded history contain no `-`, so they are never read as a negative number -/
theorem negInt_none_of_legal (s : String) (h : ∀ c ∈ s.toList, c ∉ illegalChars) : negInt? s = none := by
  unfold negInt?
  split
  · rename_i ds heq
    exact absurd (by decide : '-' ∈ illegalChars) (h '-' (by rw [heq]; exact List.mem_cons_self))
  · rfl

theorem load_ids_legal {h : Hist} {o : LoadOpts} {m : LMap} (hl : load h o = .ok m) :
    ∀ i ∈ m.ids, negInt? i = none := by
  obtain ⟨m1, lk, h1, hrevs, _, _, _, hids, _⟩ := load_graph hl
  intro i hi
  rw [hids] at hi
  have hids1 : m1.ids = h.map (·.id) := by
    simp [LMap.ids, hrevs, phase1Revs, List.map_map, Function.comp_def]
  rw [hids1] at hi
  obtain ⟨r, hr, rfl⟩ := List.mem_map.mp hi
  exact negInt_none_of_legal _ (checkRev_legal (phase1_checked h1 r hr))

theorem load_labelKeys {h : Hist} {o : LoadOpts} {m : LMap} (hl : load h o = .ok m) :
    ∀ e ∈ m.labelKeys, e.2 ∈ m.ids := by
  obtain ⟨m1, lk, h1, hrevs, hlk, hchk, hdc, hids, _⟩ := load_graph hl
  obtain ⟨m1', h1', _, hm⟩ := load_ok hl
  have : m1' = m1 := by rw [h1] at h1'; exact (Except.ok.inj h1').symm
  subst this
  obtain ⟨lk', hlk', _, hrevs', hlkeq⟩ := phase1_ok h1
  obtain ⟨f3, hk3, hn3, hm3⟩ := addBranches_eq (withNorm o m1')
  have hL : m.labelKeys = m1'.labelKeys := by rw [hm, hm3]; rfl
  have hids1 : m1'.ids = h.map (·.id) := by
    simp [LMap.ids, hrevs', phase1Revs, List.map_map, Function.comp_def]
  intro e he
  rw [hL, hlkeq] at he
  rw [hids, hids1]
  exact mapBranchLabels_vals (h.map (·.id)) _ [] lk'
    (fun r hr => List.mem_map.mpr ⟨r, (List.mem_filter.mp hr).1, rfl⟩) (by simp) hlk' e he

theorem resolveNumber_plain (m : LMap) (n : Nat) (s : String) (hp : Plain s) :
    resolveRevisionNumber m (n + 1) s = .ok ([s], none) := by
  unfold resolveRevisionNumber
  simp only [splitFirstAt_noat s hp.1, bind, Except.bind, pure, Except.pure]
  simp [hp.2.1, hp.2.2.1, hp.2.2.2.1]

/-- **A full revision id resolves to that revision.** -/
theorem full_id (m : LMap) (i : Id) (hi : i ∈ m.ids) (hp : Plain i) :
    getRevisions m i = .ok [some i] ∧ getRevision m i = .ok (some i) := by
  constructor
  · unfold getRevisions resolveFuel
    simp [resolveNumber_plain m 11 i hp, revisionForIdent_id m 11 i hi, bind, Except.bind, pure, Except.pure, hp.2.2.2.2]
  · unfold getRevision resolveFuel
    simp [resolveNumber_plain m 11 i hp, revisionForIdent_id m 11 i hi, bind, Except.bind]

/-- **What a plain identifier can resolve to.** If `get_revisions(ident)` succeeds for a plain
identifier, the result is one revision `x`, and either `ident` is a key of the map for `x` (its
full id, or a branch label carried by `x`), or `ident` is a prefix of `x`'s id and of no other
revision id of four or more characters. -/
theorem plain_sound {h : Hist} {o : LoadOpts} {m : LMap} (hl : load h o = .ok m)
    (ident : String) (hp : Plain ident) (rs : List (Option Id)) (hr : getRevisions m ident = .ok rs) :
    ∃ x, rs = [some x] ∧
      (m.lookup ident = some x ∨
        (x ∈ m.ids ∧ startsWithL x ident = true ∧
          ∀ y ∈ m.ids, y.length > 3 → startsWithL y ident = true → y = x)) := by
  unfold getRevisions resolveFuel at hr
  simp only [resolveNumber_plain m 11 ident hp, bind, Except.bind, List.mapM_cons, List.mapM_nil, pure, Except.pure,
    hp.2.2.2.2] at hr
  cases hq : revisionForIdent m 12 ident none with
  | error e => simp [hq] at hr
  | ok v =>
    simp only [hq] at hr
    cases v with
    | none =>
      -- `_revision_for_ident` of a plain string never answers `None`
      exfalso
      unfold revisionForIdent at hq
      simp only [bind, Except.bind, pure, Except.pure] at hq
      split at hq
      · simp at hq
      · split at hq
        · simp [throw, throwThe, MonadExceptOf.throw] at hq
        · split at hq
          · simp at hq
          · simp [throw, throwThe, MonadExceptOf.throw] at hq
        · simp [throw, throwThe, MonadExceptOf.throw] at hq
    | some x =>
      have hrs : rs = [some x] := by simpa using hr.symm
      refine ⟨x, hrs, ?_⟩
      rcases revisionForIdent_sound m (load_labelKeys hl) 11 ident x hq with h1 | ⟨_, h2, h3, _, h5⟩
      · exact Or.inl h1
      · exact Or.inr ⟨h2, h3, h5⟩

/-- the full statement of the prefix rule: unique among *all* revision ids -/
def prefix_unique_statement : Prop :=
  ∀ (h : Hist) (o : LoadOpts) (m : LMap), load h o = .ok m →
    ∀ (ident : String), Plain ident → ∀ x, getRevisions m ident = .ok [some x] → m.lookup ident = none →
      ∀ y ∈ m.ids, startsWithL y ident = true → y = x

def f13 : Hist := [⟨"1111", [], [], []⟩, ⟨"1a", [], [], []⟩]

/-- everything the counterexample needs, as one kernel-evaluated Boolean -/
def f13check : Bool :=
  match load f13 {} with
  | .error _ => false
  | .ok m =>
    (match getRevisions m "1" with | .ok [some x] => x == "1111" | _ => false) &&
    (m.lookup "1").isNone && decide ("1a" ∈ m.ids) && startsWithL "1a" "1"

theorem f13check_true : f13check = true := by decide +kernel

/-- **Known finding F13**: ids shorter than four characters are invisible to the partial lookup:
`1` resolves to `1111` although `1a` starts with `1` as well. -/
theorem prefix_unique_counterexample : ¬ prefix_unique_statement := by
  intro hst
  have hc := f13check_true
  unfold f13check at hc
  cases hl : load f13 {} with
  | error e => simp [hl] at hc
  | ok m =>
    simp only [hl, Bool.and_eq_true, decide_eq_true_eq] at hc
    obtain ⟨⟨⟨h1, h2⟩, h3⟩, h4⟩ := hc
    have hg : getRevisions m "1" = .ok [some "1111"] := by
      cases hq : getRevisions m "1" with
      | error e => simp [hq] at h1
      | ok rs =>
        match rs, hq with
        | [some x], hq => simp [hq] at h1; rw [h1]
        | [], hq => simp [hq] at h1
        | [none], hq => simp [hq] at h1
        | _ :: _ :: _, hq => simp [hq] at h1
    have hlk : m.lookup "1" = none := by
      cases hq : m.lookup "1" with
      | none => rfl
      | some _ => simp [hq] at h2
    have := hst f13 {} m hl "1" ⟨by decide, by decide, by decide, by decide, by decide⟩ "1111" hg hlk "1a" h3 h4
    exact absurd this (by decide)

/-- **The prefix rule at full strength when every revision id has at least four characters**
(as Alembic's own generated ids do): a plain identifier that is not a key of the map resolves
only to the unique revision whose id starts with it. -/
theorem prefix_unique_partial {h : Hist} {o : LoadOpts} {m : LMap} (hl : load h o = .ok m)
    (hlong : ∀ y ∈ m.ids, y.length > 3)
    (ident : String) (hp : Plain ident) (x : Id) (hr : getRevisions m ident = .ok [some x])
    (hk : m.lookup ident = none) :
    x ∈ m.ids ∧ startsWithL x ident = true ∧ ∀ y ∈ m.ids, startsWithL y ident = true → y = x := by
  obtain ⟨x', hx', hcase⟩ := plain_sound hl ident hp _ hr
  have : x' = x := by simpa using hx'.symm
  subst this
  rcases hcase with h1 | ⟨h2, h3, h4⟩
  · rw [hk] at h1; simp at h1
  · exact ⟨h2, h3, fun y hy hs => h4 y hy (hlong y hy) hs⟩

/-- **`heads` and `base`.** -/
theorem symbolic_base (m : LMap) : getRevisions m "base" = .ok [] := by
  unfold getRevisions resolveFuel resolveRevisionNumber
  simp [splitFirstAt_noat "base" (by decide), bind, Except.bind, pure, Except.pure]

theorem symbolic_heads {h : Hist} {o : LoadOpts} {m : LMap} (hl : load h o = .ok m) :
    getRevisions m "heads" = .ok (m.realHeads.map some) := by
  have hsub : ∀ x ∈ m.realHeads, x ∈ m.ids := by
    intro x hx
    rw [(load_heads hl).2.1] at hx
    exact (List.mem_filter.mp hx).1
  unfold getRevisions resolveFuel resolveRevisionNumber
  simp only [splitFirstAt_noat "heads" (by decide), bind, Except.bind, pure, Except.pure]
  simp only [if_true, beq_self_eq_true]
  have key : ∀ (l : List Id), (∀ x ∈ l, x ∈ m.ids) →
      l.mapM (fun i => revisionForIdent m 12 i none) = .ok (l.map some) := by
    intro l
    induction l with
    | nil => intro _; rfl
    | cons a r ih =>
      intro hl'
      simp only [List.mapM_cons, bind, Except.bind, pure, Except.pure,
        revisionForIdent_id m 11 a (hl' a List.mem_cons_self), ih (fun x hx => hl' x (List.mem_cons_of_mem _ hx)),
        List.map_cons]
  have hk := key m.realHeads hsub
  split
  · rename_i one heq
    rw [load_ids_legal hl one (hsub one (by rw [heq]; exact List.mem_cons_self))]
    exact hk
  · exact hk

/-! ### relative forms: the walk covers exactly the requested distance -/

/-- a chain of exactly `n` links along `succ` -/
def PathN (succ : Id → List Id) : Nat → Id → Id → Prop
  | 0, a, b => a = b
  | n + 1, a, b => ∃ c ∈ succ a, PathN succ n c b

theorem filterForLineage_sub (m : LMap) (l : List Id) (a : String) (b : Bool) (l' : List Id)
    (h : filterForLineage m l a b = .ok l') : ∀ x ∈ l', x ∈ l := by
  unfold filterForLineage at h
  split at h
  · simp only [bind, Except.bind, pure, Except.pure] at h
    split at h
    · simp at h
    · simp only [Except.ok.injEq] at h
      subst h
      intro x hx; simp at hx
  · simp only [bind, Except.bind, pure, Except.pure] at h
    split at h
    · simp at h
    · simp only [Except.ok.injEq] at h
      subst h
      intro x hx; exact (List.mem_filter.mp hx).1

/-- when the names `against` stands for resolve, `filter_for_lineage` is the filter (also for an empty
    target list, where the implementation does not even resolve them) -/
theorem filterForLineage_of_shares (m : LMap) (l : List Id) (a : String) (b : Bool) (shares : List Id)
    (h : resolveShares m resolveFuel a = .ok shares) :
    filterForLineage m l a b = .ok (l.filter (fun t => sharesLineage m t shares b)) := by
  unfold filterForLineage
  split
  · rename_i he
    have hl : l = [] := by simpa using he
    subst hl
    unfold resolveFuel resolveShares at h
    simp only [bind, Except.bind] at h
    have e : resolveFuel - 1 = 11 := by decide
    rw [e]
    cases hr : resolveRevisionNumber m 11 a with
    | error e => simp [hr] at h
    | ok v => simp [bind, Except.bind, pure, Except.pure]
  · simp [h, bind, Except.bind, pure, Except.pure]

theorem children_single {children : List Id} {nxt : Option Id} {mk : Bool}
    (h : (match children with
      | [] => (Except.ok none : Except Err (Option (Option Id × Bool)))
      | [c] => Except.ok (some (some c, false))
      | _ => throw Err.revisionError) = Except.ok (some (nxt, mk))) :
    ∃ c, children = [c] ∧ nxt = some c ∧ mk = false := by
  match children, h with
  | [], h => simp at h
  | [c], h =>
    simp only [Except.ok.injEq, Option.some.injEq, Prod.mk.injEq] at h
    exact ⟨c, rfl, h.1.symm, h.2.symm⟩
  | _ :: _ :: _, h => simp [throw, throwThe, MonadExceptOf.throw] at h

/-- one step up goes to a down-revision child -/
theorem walkStep_up (m : LMap) (label : Option String) (s : Id) (nxt : Option Id) (mk : Bool)
    (h : walkStep m true label (some s) false = .ok (some (nxt, mk))) :
    ∃ c, nxt = some c ∧ mk = false ∧ c ∈ m.nextrev s := by
  unfold walkStep at h
  simp only [if_true, bind, Except.bind, pure, Except.pure] at h
  cases label with
  | none =>
    simp only at h
    obtain ⟨c, hc, h1, h2⟩ := children_single h
    exact ⟨c, h1, h2, by rw [hc]; exact List.mem_cons_self⟩
  | some l =>
    simp only at h
    by_cases hl : l.isEmpty = true
    · simp only [hl, if_true] at h
      obtain ⟨c, hc, h1, h2⟩ := children_single h
      exact ⟨c, h1, h2, by rw [hc]; exact List.mem_cons_self⟩
    · simp only [hl, Bool.false_eq_true, if_false] at h
      cases hf : filterForLineage m (m.nextrev s) l false with
      | error e => simp [hf] at h
      | ok children =>
        simp only [hf] at h
        obtain ⟨c, hc, h1, h2⟩ := children_single h
        exact ⟨c, h1, h2, filterForLineage_sub m _ l false children hf c (by rw [hc]; exact List.mem_cons_self)⟩

/-- **`id+N` / `+N` never lands at a different distance**: when the upward walk (the relative
upgrade forms, with `assert_relative_length`) returns a revision, that revision is exactly `n`
down-revision links above the start, every link going to a down-revision child. -/
theorem walk_up_exact (m : LMap) (label : Option String) :
    ∀ (n : Nat) (s r : Id), walk.go m (1 : Int) label true n (some s) false = .ok (some (some r)) →
      PathN m.nextrev n s r := by
  intro n
  induction n with
  | zero =>
    intro s r h
    simp [walk.go] at h
    exact h
  | succ k ih =>
    intro s r h
    simp only [walk.go, bind, Except.bind] at h
    have hdec : (decide ((1 : Int) > 0)) = true := by decide
    simp only [hdec] at h
    cases hv : walkStep m true label (some s) false with
    | error e => simp [hv] at h
    | ok v =>
      simp only [hv] at h
      cases v with
      | none => simp [pure, Except.pure] at h
      | some pr =>
        obtain ⟨nxt, mk⟩ := pr
        simp only at h
        obtain ⟨c, h1, h2, h3⟩ := walkStep_up m label s nxt mk hv
        subst h1; subst h2
        exact ⟨c, h3, ih c r h⟩

/-- one step down goes to the single down-revision, or to base when there is none -/
theorem walkStep_down (m : LMap) (label : Option String) (s : Id) (nxt : Option Id) (mk : Bool)
    (h : walkStep m false label (some s) false = .ok (some (nxt, mk))) :
    (∃ c, nxt = some c ∧ mk = false ∧ m.downOf s = [c]) ∨ (nxt = none ∧ mk = true ∧ m.downOf s = []) := by
  unfold walkStep at h
  simp only [Bool.false_eq_true, if_false, pure, Except.pure] at h
  match hd : m.downOf s, h with
  | [], h =>
    simp only [Except.ok.injEq, Option.some.injEq, Prod.mk.injEq] at h
    exact Or.inr ⟨h.1.symm, h.2.symm, rfl⟩
  | [c], h =>
    simp only [Except.ok.injEq, Option.some.injEq, Prod.mk.injEq] at h
    exact Or.inl ⟨c, h.1.symm, h.2.symm, rfl⟩
  | _ :: _ :: _, h => simp [throw, throwThe, MonadExceptOf.throw] at h

/-- **`id-N` / `-N` never lands at a different distance**: when the downward walk (the relative
downgrade forms, with `assert_relative_length`) returns a revision, it is exactly `n`
down-revision links below the start and every revision on the way has that single down-revision;
when it returns base, the start is `n - 1` such links above a revision without down-revision. -/
theorem walk_down_exact (m : LMap) (label : Option String) :
    ∀ (n : Nat) (s : Id) (r : Option Id), walk.go m (-1 : Int) label true n (some s) false = .ok (some r) →
      match r with
      | some r => PathN m.downOf n s r
      | none => ∃ root, n ≥ 1 ∧ PathN m.downOf (n - 1) s root ∧ m.downOf root = [] := by
  intro n
  induction n with
  | zero =>
    intro s r h
    simp [walk.go] at h
    subst h
    exact rfl
  | succ k ih =>
    intro s r h
    simp only [walk.go, bind, Except.bind] at h
    have hdec : (decide ((-1 : Int) > 0)) = false := by decide
    simp only [hdec] at h
    cases hv : walkStep m false label (some s) false with
    | error e => simp [hv] at h
    | ok v =>
      simp only [hv] at h
      cases v with
      | none => simp [pure, Except.pure] at h
      | some pr =>
        obtain ⟨nxt, mk⟩ := pr
        simp only at h
        rcases walkStep_down m label s nxt mk hv with ⟨c, h1, h2, h3⟩ | ⟨h1, h2, h3⟩
        · subst h1; subst h2
          have := ih c r h
          cases r with
          | some r' => exact ⟨c, by rw [h3]; exact List.mem_cons_self, this⟩
          | none =>
            obtain ⟨root, hk, hp, hr⟩ := this
            refine ⟨root, by omega, ?_, hr⟩
            have e : k + 1 - 1 = (k - 1) + 1 := by omega
            rw [e]
            exact ⟨c, by rw [h3]; exact List.mem_cons_self, hp⟩
        · subst h1; subst h2
          -- we are at base with the marker set: only zero further steps can succeed
          cases k with
          | zero =>
            simp [walk.go] at h
            subst h
            exact ⟨s, by omega, rfl, h3⟩
          | succ k' =>
            simp [walk.go, walkStep, bind, Except.bind, pure, Except.pure] at h

/-! ### the distance oracle `Spec.Rev.stepsDown` and the walk, in terms of the history as written -/

theorem pathN_congr {f g : Id → List Id} (hfg : ∀ i, f i = g i) : ∀ n s r, PathN f n s r → PathN g n s r := by
  intro n
  induction n with
  | zero => intro s r h; exact h
  | succ k ih =>
    intro s r h
    obtain ⟨c, hc, hp⟩ := h
    exact ⟨c, by rw [← hfg s]; exact hc, ih c r hp⟩

/-- **What a `true` verdict of the distance oracle means**: there is a chain of exactly `n`
`down_revision` links (as written in the history) from `r` down to `a`. -/
theorem stepsDown_iff (h : Hist) : ∀ (n : Nat) (r a : Id),
    stepsDown h n r (some a) = true ↔ PathN (downParents h) n r a := by
  intro n
  induction n with
  | zero => intro r a; simp [stepsDown, PathN]
  | succ k ih =>
    intro r a
    simp only [stepsDown, Bool.false_or, List.any_eq_true, PathN]
    constructor
    · rintro ⟨p, hp, hs⟩; exact ⟨p, hp, (ih p a).mp hs⟩
    · rintro ⟨p, hp, hs⟩; exact ⟨p, hp, (ih p a).mpr hs⟩

/-- **`id-N`, end to end**: in a loaded history a downward relative walk that returns a revision
returns one exactly `N` `down_revision` links, as written in the revision files, below the start
— the statement the oracle `stepsDown` decides on the implementation's answers. -/
theorem walk_down_history {h : Hist} {o : LoadOpts} {m : LMap} (hl : load h o = .ok m)
    (hu : (h.map (·.id)).Nodup) (label : Option String) (n : Nat) (s r : Id)
    (hw : walk.go m (-1 : Int) label true n (some s) false = .ok (some (some r))) :
    stepsDown h n s (some r) = true := by
  have hp := walk_down_exact m label n s (some r) hw
  exact (stepsDown_iff h n s r).mpr (pathN_congr (fun i => downOf_eq_downParents hl hu i) n s r hp)

theorem pathN_snoc {g : Id → List Id} : ∀ (k : Nat) (r c s : Id), PathN g k r c → s ∈ g c → PathN g (k + 1) r s := by
  intro k
  induction k with
  | zero =>
    intro r c s h hs
    have e : r = c := h
    subst e
    exact ⟨s, hs, rfl⟩
  | succ k ih =>
    intro r c s h hs
    obtain ⟨d, hd, hp⟩ := h
    exact ⟨d, hd, ih d c s hp hs⟩

theorem pathN_reverse {f g : Id → List Id} (hfg : ∀ a b, b ∈ f a → a ∈ g b) :
    ∀ (n : Nat) (s r : Id), PathN f n s r → PathN g n r s := by
  intro n
  induction n with
  | zero => intro s r h; exact (h : s = r).symm
  | succ k ih =>
    intro s r h
    obtain ⟨c, hc, hp⟩ := h
    exact pathN_snoc k r c s (ih c r hp) (hfg s c hc)

/-- **`id+N`, end to end**: in a loaded history an upward relative walk that returns a revision
returns one from which exactly `N` `down_revision` links, as written in the revision files, lead
down to the start. -/
theorem walk_up_history {h : Hist} {o : LoadOpts} {m : LMap} (hl : load h o = .ok m)
    (hu : (h.map (·.id)).Nodup) (hd : ∀ r ∈ h, ∀ d ∈ r.down, d ∈ h.map (·.id))
    (label : Option String) (n : Nat) (s r : Id)
    (hw : walk.go m (1 : Int) label true n (some s) false = .ok (some (some r))) :
    stepsDown h n r (some s) = true := by
  have L := loaded_of_load hl hu hd
  have hp := walk_up_exact m label n s r hw
  have hrev : PathN m.downOf n r s :=
    pathN_reverse (fun a b hb => ((nextrev_iff m L.ids_nodup a b).mp hb).2) n s r hp
  exact (stepsDown_iff h n r s).mpr (pathN_congr (fun i => downOf_eq_downParents hl hu i) n r s hrev)


/-! ### relative upgrade targets: where the count starts and where it ends -/

theorem walk_go_pos (m : LMap) (rel : Int) (hpos : rel > 0) (label : Option String) (b : Bool) :
    ∀ (n : Nat) (c : Option Id) (mk : Bool), walk.go m rel label b n c mk = walk.go m (1 : Int) label b n c mk := by
  intro n
  induction n with
  | zero => intro c mk; simp [walk.go]
  | succ k ih =>
    intro c mk
    simp only [walk.go]
    have h1 : decide (rel > 0) = true := by simpa using hpos
    have h2 : decide ((1 : Int) > 0) = true := by decide
    simp only [h1, h2, ih]

theorem walk_go_neg (m : LMap) (rel : Int) (hneg : ¬ rel > 0) (label : Option String) (b : Bool) :
    ∀ (n : Nat) (c : Option Id) (mk : Bool), walk.go m rel label b n c mk = walk.go m (-1 : Int) label b n c mk := by
  intro n
  induction n with
  | zero => intro c mk; simp [walk.go]
  | succ k ih =>
    intro c mk
    simp only [walk.go]
    have h1 : decide (rel > 0) = false := by simpa using hneg
    have h2 : decide ((-1 : Int) > 0) = false := by decide
    simp only [h1, h2, ih]

/-- the result of the upward walk inside `_parse_upgrade_target`, as the three cases of its `match` -/
theorem up_result {w : Option (Option Id)} {i : Id}
    (h : (match w with
          | none => (throw Err.revisionError : Except Err (List Id))
          | some none => throw Err.assertion
          | some (some x) => pure [x]) = .ok [i]) : w = some (some i) := by
  match w, h with
  | some (some x), h =>
    simp only [pure, Except.pure, Except.ok.injEq, List.cons.injEq, and_true] at h
    rw [h]
  | some none, h => simp [throw, throwThe, MonadExceptOf.throw] at h
  | none, h => simp [throw, throwThe, MonadExceptOf.throw] at h

/-- **`rev+N` names the revision exactly `N` links above `rev`**: for every loaded history, every
target string the relative-identifier pattern splits into (no label, `rev`, `+N`) with `rev` a full
revision id, whatever the current rows: if `_parse_upgrade_target` answers a revision, exactly `N`
`down_revision` links, as written in the revision files, lead from it down to `rev`. -/
theorem rel_up_id {h : Hist} {o : LoadOpts} {m : LMap} (hl : load h o = .ok m)
    (hu : (h.map (·.id)).Nodup) (hd : ∀ r ∈ h, ∀ d ∈ r.down, d ∈ h.map (·.id))
    (rows : List Id) (t : String) (sym : Id) (rel : Int) (i : Id)
    (hm : matchRelative t = some (none, some sym, rel)) (hpos : rel > 0)
    (hs : sym ∈ m.ids) (hp : Plain sym)
    (hres : parseUpgradeTarget m rows t = .ok [i]) :
    stepsDown h rel.natAbs i (some sym) = true := by
  unfold parseUpgradeTarget at hres
  simp only [hm, hpos, if_true, bind, Except.bind, (full_id m sym hs hp).2] at hres
  unfold walk at hres
  rw [walk_go_pos m rel hpos] at hres
  cases hw : walk.go m (1 : Int) none true rel.natAbs (some sym) false with
  | error e => simp [hw] at hres
  | ok w =>
    simp only [hw] at hres
    match w, hres with
    | some (some x), hres =>
      simp only [pure, Except.pure, Except.ok.injEq, List.cons.injEq, and_true] at hres
      subst hres
      exact walk_up_history hl hu hd none rel.natAbs sym x hw
    | some none, hres => simp [throw, throwThe, MonadExceptOf.throw] at hres
    | none, hres => simp [throw, throwThe, MonadExceptOf.throw] at hres

/-- **`+N` counts from the single current row**: with one row `r` in the version table, the
target `+N` (no label, no revision) answers a revision exactly `N` `down_revision` links above `r`. -/
theorem rel_up_row {h : Hist} {o : LoadOpts} {m : LMap} (hl : load h o = .ok m)
    (hu : (h.map (·.id)).Nodup) (hd : ∀ r ∈ h, ∀ d ∈ r.down, d ∈ h.map (·.id))
    (r : Id) (t : String) (rel : Int) (i : Id)
    (hm : matchRelative t = some (none, none, rel)) (hpos : rel > 0)
    (hr : r ∈ m.ids) (hp : Plain r)
    (hres : parseUpgradeTarget m [r] t = .ok [i]) :
    stepsDown h rel.natAbs i (some r) = true := by
  unfold parseUpgradeTarget at hres
  simp only [hm, hpos, if_true, bind, Except.bind, (full_id m r hr hp).2, pure, Except.pure] at hres
  unfold walk at hres
  rw [walk_go_pos m rel hpos] at hres
  cases hw : walk.go m (1 : Int) none true rel.natAbs (some r) false with
  | error e => simp [hw] at hres
  | ok w =>
    simp only [hw] at hres
    have := up_result hres
    subst this
    exact walk_up_history hl hu hd none rel.natAbs r i hw

/-- **`rev-N` as an upgrade target names the revision exactly `N` links below `rev`** -/
theorem rel_down_id {h : Hist} {o : LoadOpts} {m : LMap} (hl : load h o = .ok m)
    (hu : (h.map (·.id)).Nodup)
    (rows : List Id) (t : String) (sym : Id) (rel : Int) (i : Id)
    (hm : matchRelative t = some (none, some sym, rel)) (hneg : ¬ rel > 0)
    (hs : sym ∈ m.ids) (hp : Plain sym)
    (hres : parseUpgradeTarget m rows t = .ok [i]) :
    stepsDown h rel.natAbs sym (some i) = true := by
  unfold parseUpgradeTarget at hres
  simp only [hm, hneg, if_false, bind, Except.bind, (full_id m sym hs hp).2] at hres
  unfold walk at hres
  rw [walk_go_neg m rel hneg] at hres
  cases hw : walk.go m (-1 : Int) none true rel.natAbs (some sym) false with
  | error e => simp [hw] at hres
  | ok w =>
    simp only [hw] at hres
    match w, hres with
    | some (some x), hres =>
      simp only [pure, Except.pure, Except.ok.injEq, List.cons.injEq, and_true] at hres
      subst hres
      exact walk_down_history hl hu none rel.natAbs sym x hw
    | some none, hres => simp [throw, throwThe, MonadExceptOf.throw] at hres
    | none, hres => simp [throw, throwThe, MonadExceptOf.throw] at hres

/-- the hypotheses are met by the ordinary spellings (the pattern is the model of
    `_relative_destination`) -/
example : matchRelative "ab12+2" = some (none, some "ab12", 2) ∧ matchRelative "+3" = some (none, none, 3) ∧
    matchRelative "ab12-1" = some (none, some "ab12", -1) := by decide +kernel


/-! ### relative downgrade targets -/

/-- **What a `true` verdict of the distance oracle means for base**: `r` is `n - 1` links above a
revision without `down_revision` (so that `n` steps down end exactly at base). -/
theorem stepsDown_base_iff (h : Hist) : ∀ (n : Nat) (r : Id),
    stepsDown h (n + 1) r none = true ↔ ∃ root, PathN (downParents h) n r root ∧ downParents h root = [] := by
  intro n
  induction n with
  | zero =>
    intro r
    simp only [stepsDown, PathN]
    constructor
    · intro hh
      simp only [Bool.or_eq_true, Bool.and_eq_true, List.isEmpty_iff, List.any_eq_true] at hh
      rcases hh with ⟨_, he⟩ | ⟨p, _, hp⟩
      · exact ⟨r, rfl, he⟩
      · simp at hp
    · rintro ⟨root, rfl, he⟩
      simp [he]
  | succ k ih =>
    intro r
    simp only [stepsDown, PathN]
    constructor
    · intro hh
      simp only [Bool.or_eq_true, Bool.and_eq_true, List.any_eq_true] at hh
      rcases hh with ⟨hk, _⟩ | ⟨p, hp, hs⟩
      · simp at hk
      · have : stepsDown h (k + 1) p none = true := by simpa [stepsDown] using hs
        obtain ⟨root, hpr, he⟩ := (ih p).mp this
        exact ⟨root, ⟨p, hp, hpr⟩, he⟩
    · rintro ⟨root, ⟨p, hp, hpr⟩, he⟩
      have := (ih p).mpr ⟨root, hpr, he⟩
      simp only [Bool.or_eq_true, Bool.and_eq_true, List.any_eq_true]
      exact Or.inr ⟨p, hp, by simpa [stepsDown] using this⟩

/-- **`rev-N` as a downgrade target**: for every loaded history and every target string the
relative-identifier pattern splits into (no label, `rev`, `-N`) with `rev` a full revision id: the
answer of `_parse_downgrade_target` is the revision exactly `N` `down_revision` links below
`rev`, or base when `rev` is `N - 1` links above a revision without `down_revision`; the branch
restriction stays empty. -/
theorem rel_dgrade_id {h : Hist} {o : LoadOpts} {m : LMap} (hl : load h o = .ok m)
    (hu : (h.map (·.id)).Nodup)
    (rows : List Id) (t : String) (sym : Id) (rel : Int) (b : Option String) (tgt : Option Id)
    (hm : matchRelative t = some (none, some sym, rel)) (hneg : rel < 0)
    (hs : sym ∈ m.ids) (hp : Plain sym)
    (hres : parseDowngradeTarget m rows t = .ok (b, tgt)) :
    b = none ∧ stepsDown h rel.natAbs sym tgt = true := by
  unfold parseDowngradeTarget at hres
  have h0 : ¬ rel ≥ 0 := by omega
  simp only [hm, h0, if_false, bind, Except.bind, pure, Except.pure, (full_id m sym hs hp).2] at hres
  unfold walk at hres
  rw [walk_go_neg m rel (by omega)] at hres
  cases hw : walk.go m (-1 : Int) none true rel.natAbs (some sym) false with
  | error e => simp [hw] at hres
  | ok w =>
    simp only [hw] at hres
    match w, hres with
    | none, hres => simp [throw, throwThe, MonadExceptOf.throw] at hres
    | some r, hres =>
      simp only [Except.ok.injEq, Prod.mk.injEq] at hres
      obtain ⟨hb, ht⟩ := hres
      subst hb; subst ht
      refine ⟨rfl, ?_⟩
      cases r with
      | some x => exact walk_down_history hl hu none rel.natAbs sym x hw
      | none =>
        obtain ⟨root, hn, hpth, hroot⟩ := walk_down_exact m none rel.natAbs sym none hw
        obtain ⟨k, hk⟩ : ∃ k, rel.natAbs = k + 1 := ⟨rel.natAbs - 1, by omega⟩
        rw [hk] at hpth ⊢
        refine (stepsDown_base_iff h k sym).mpr ⟨root, ?_, ?_⟩
        · exact pathN_congr (fun i => downOf_eq_downParents hl hu i) k sym root (by simpa using hpth)
        · rw [← downOf_eq_downParents hl hu root]; exact hroot


theorem span_loop_stop {α} (p : α → Bool) : ∀ (l acc : List α) (x : α) (rest : List α), (∀ c ∈ l, p c = true) → p x = false →
    List.span.loop p (l ++ x :: rest) acc = (acc.reverse ++ l, x :: rest)
  | [], acc, x, rest, _, hx => by simp [List.span.loop, hx]
  | a :: r, acc, x, rest, h, hx => by
    have ha : p a = true := h a List.mem_cons_self
    simp only [List.cons_append, List.span.loop, ha]
    rw [span_loop_stop p r (a :: acc) x rest (fun c hc => h c (List.mem_cons_of_mem _ hc)) hx]
    simp

/-- `"<b>@<x>".split("@", 1)` when `b` has no `@` -/
theorem splitFirstAt_at (b x : String) (hb : '@' ∉ b.toList) : splitFirstAt (b ++ "@" ++ x) = (some b, x) := by
  unfold splitFirstAt
  have e : (b ++ "@" ++ x).toList = b.toList ++ '@' :: x.toList := by simp [String.toList_append]
  have : (b ++ "@" ++ x).toList.span (· != '@') = (b.toList, '@' :: x.toList) := by
    rw [e]
    unfold List.span
    rw [span_loop_stop _ b.toList [] '@' x.toList (by intro c hc; simp; intro e; subst e; exact hb hc) (by simp)]
    simp
  rw [this]
  simp

/-- **`<id>@<id>` is that revision** (the form `_parse_downgrade_target` builds for a bare `-N`
from the first current row) -/
theorem self_qualified (m : LMap) (r : Id) (hr : r ∈ m.ids) (hp : Plain r) :
    getRevision m (r ++ "@" ++ r) = .ok (some r) := by
  unfold getRevision resolveFuel
  have hsplit := splitFirstAt_at r r hp.1
  have hres : resolveRevisionNumber m 12 (r ++ "@" ++ r) = .ok ([r], some r) := by
    unfold resolveRevisionNumber
    simp only [hsplit, bind, Except.bind, pure, Except.pure]
    simp [hp.2.1, hp.2.2.1, hp.2.2.2.1]
  simp only [hres, bind, Except.bind]
  unfold revisionForIdent
  have hshare : sharesLineage m r [r] false = true := by
    unfold sharesLineage
    have : r ∈ m.ancestorsNoDeps [r] := (mem_ancestorsNoDeps_iff m [r] r).mpr ⟨r, by simp, Reach.refl r⟩
    simp [this]
  by_cases he : r.isEmpty
  · simp [he, lookup_id m r hr, bind, Except.bind, pure, Except.pure]
  · have hb : resolveBranch m 11 r = .ok (some r) := by
      unfold resolveBranch; simp [lookup_id m r hr]
    simp [he, hb, lookup_id m r hr, hshare, bind, Except.bind, pure, Except.pure]


/-- **A bare `-N` counts from the first current row and stays on its branch**: for every loaded
history and every target string the pattern splits into (no label, no revision, `-N`), with the
first row `r` of the version table a full revision id: the answer of `_parse_downgrade_target` is
restricted to the branch of `r`, and names the revision exactly `N` `down_revision` links below
`r` (base when `r` is `N - 1` links above a revision without `down_revision`). -/
theorem rel_dgrade_row {h : Hist} {o : LoadOpts} {m : LMap} (hl : load h o = .ok m)
    (hu : (h.map (·.id)).Nodup)
    (r : Id) (rows : List Id) (t : String) (rel : Int) (b : Option String) (tgt : Option Id)
    (hm : matchRelative t = some (none, none, rel)) (hneg : rel < 0)
    (hr : r ∈ m.ids) (hp : Plain r)
    (hres : parseDowngradeTarget m (r :: rows) t = .ok (b, tgt)) :
    b = some r ∧ stepsDown h rel.natAbs r tgt = true := by
  unfold parseDowngradeTarget at hres
  have h0 : ¬ rel ≥ 0 := by omega
  simp only [hm, h0, if_false, bind, Except.bind, pure, Except.pure, self_qualified m r hr hp] at hres
  unfold walk at hres
  rw [walk_go_neg m rel (by omega)] at hres
  cases hw : walk.go m (-1 : Int) none true rel.natAbs (some r) false with
  | error e => simp [hw] at hres
  | ok w =>
    simp only [hw] at hres
    match w, hres with
    | none, hres => simp [throw, throwThe, MonadExceptOf.throw] at hres
    | some x, hres =>
      simp only [Except.ok.injEq, Prod.mk.injEq] at hres
      obtain ⟨hb, ht⟩ := hres
      subst hb; subst ht
      refine ⟨rfl, ?_⟩
      cases x with
      | some x => exact walk_down_history hl hu none rel.natAbs r x hw
      | none =>
        obtain ⟨root, hn, hpth, hroot⟩ := walk_down_exact m none rel.natAbs r none hw
        obtain ⟨k, hk⟩ : ∃ k, rel.natAbs = k + 1 := ⟨rel.natAbs - 1, by omega⟩
        rw [hk] at hpth ⊢
        refine (stepsDown_base_iff h k r).mpr ⟨root, ?_, ?_⟩
        · exact pathN_congr (fun i => downOf_eq_downParents hl hu i) k r root (by simpa using hpth)
        · rw [← downOf_eq_downParents hl hu root]; exact hroot

example : matchRelative "-2" = some (none, none, -2) ∧ matchRelative "ab12-3" = some (none, some "ab12", -3) := by decide +kernel


/-! ### branch-qualified symbolic targets -/

theorem filterAuxM_pure {α} (p : α → Bool) (f : α → Except Err Bool) : ∀ (l acc : List α), (∀ x ∈ l, f x = .ok (p x)) →
    l.filterAuxM f acc = .ok ((l.filter p).reverse ++ acc)
  | [], acc, _ => by simp [List.filterAuxM, pure, Except.pure]
  | a :: r, acc, h => by
    have ha := h a List.mem_cons_self
    simp only [List.filterAuxM, bind, Except.bind, ha]
    rw [filterAuxM_pure p f r _ (fun x hx => h x (List.mem_cons_of_mem _ hx))]
    cases hp : p a <;> simp [List.filter_cons, hp]

theorem filterM_pure {α} (p : α → Bool) (l : List α) (f : α → Except Err Bool) (h : ∀ x ∈ l, f x = .ok (p x)) :
    l.filterM f = .ok (l.filter p) := by
  simp [List.filterM, filterAuxM_pure p f l [] h, bind, Except.bind, pure, Except.pure]

/-- a name without `@` that is a key of the map (a branch label or a full revision id) -/
def BranchName (m : LMap) (L : String) (br : Id) : Prop :=
  '@' ∉ L.toList ∧ L ≠ "" ∧ L ≠ "heads" ∧ L ≠ "head" ∧ L ≠ "base" ∧ m.lookup L = some br

theorem resolveShares_name (m : LMap) (n : Nat) (L : String) (br : Id) (hb : BranchName m L br) :
    resolveShares m (n + 3) L = .ok [br] := by
  obtain ⟨hat, hne, h1, h2, h3, hlk⟩ := hb
  unfold resolveShares resolveRevisionNumber
  simp only [splitFirstAt_noat L hat, bind, Except.bind, pure, Except.pure]
  simp only [beq_iff_eq, h1, h2, h3, if_false, List.nil_append, List.mapM_cons, List.mapM_nil, bind, Except.bind, pure, Except.pure]
  unfold revisionForIdent
  simp [hlk, bind, Except.bind, pure, Except.pure]

theorem filterKeys_name (m : LMap) (n : Nat) (L : String) (br : Id) (hb : BranchName m L br)
    (l : List Id) (hl : ∀ x ∈ l, x ∈ m.ids) :
    filterForLineageKeys m (n + 4) l L false = .ok (l.filter (fun t => sharesLineage m t [br] false)) := by
  unfold filterForLineageKeys
  simp only [resolveShares_name m n L br hb, bind, Except.bind]
  apply filterM_pure
  intro x hx
  simp [revisionForIdent_id m (n + 2) x (hl x hx), bind, Except.bind, pure, Except.pure]

/-- **`<branch>@head` is the one head of that branch**: for every loaded history and every branch
name that is a key of the map (a branch label, or a full revision id) for revision `br`:
`get_revisions("<branch>@head")` answers nothing when no head shares `br`'s `down_revision`
lineage, and otherwise the single head that does; two such heads are refused (`MultipleHeads`),
never silently narrowed to one. -/
theorem branch_head {h : Hist} {o : LoadOpts} {m : LMap} (hl : load h o = .ok m)
    (hsub : ∀ x ∈ m.heads, x ∈ m.ids) (L : String) (br : Id) (hb : BranchName m L br)
    (rs : List (Option Id)) (hr : getRevisions m (L ++ "@head") = .ok rs) :
    (rs = [] ∧ ∀ y ∈ m.heads, sharesLineage m y [br] false = false) ∨
    ∃ x, rs = [some x] ∧ x ∈ m.heads ∧ sharesLineage m x [br] false = true ∧
      ∀ y ∈ m.heads, sharesLineage m y [br] false = true → y = x := by
  have hb' := hb
  obtain ⟨hat, hne, h1, h2, h3, hlk⟩ := hb
  have hLe : L.isEmpty = false := by
    cases hq : L.isEmpty
    · rfl
    · exact absurd (String.isEmpty_iff.mp hq) hne
  unfold getRevisions resolveFuel at hr
  have hsplit := splitFirstAt_at L "head" hat
  have hfk := filterKeys_name m 6 L br hb' m.heads hsub
  cases hf : m.heads.filter (fun t => sharesLineage m t [br] false) with
  | nil =>
    left
    have hres : resolveRevisionNumber m 12 (L ++ "@" ++ "head") = .ok ([], some L) := by
      unfold resolveRevisionNumber currentHead
      simp [hsplit, hLe, hfk, hf, bind, Except.bind, pure, Except.pure]
    have e : L ++ "@head" = L ++ "@" ++ "head" := by simp [String.append_assoc]
    rw [e, hres] at hr
    simp only [bind, Except.bind, List.mapM_nil, pure, Except.pure] at hr
    refine ⟨by simpa using hr.symm, ?_⟩
    intro y hy
    have := List.filter_eq_nil_iff.mp hf y hy
    simpa using this
  | cons x rest =>
    cases rest with
    | cons x2 r2 =>
      exfalso
      have hres : resolveRevisionNumber m 12 (L ++ "@" ++ "head") = .error .multipleHeads := by
        unfold resolveRevisionNumber currentHead
        simp [hsplit, hLe, hfk, hf, bind, Except.bind, pure, Except.pure, throw, throwThe, MonadExceptOf.throw]
      have e : L ++ "@head" = L ++ "@" ++ "head" := by simp [String.append_assoc]
      rw [e, hres] at hr
      simp [bind, Except.bind] at hr
    | nil =>
      right
      have hxm : x ∈ m.heads.filter (fun t => sharesLineage m t [br] false) := by rw [hf]; exact List.mem_cons_self
      obtain ⟨hxh, hxs⟩ := List.mem_filter.mp hxm
      have hres : resolveRevisionNumber m 12 (L ++ "@" ++ "head") = .ok ([x], some L) := by
        unfold resolveRevisionNumber currentHead
        simp [hsplit, hLe, hfk, hf, bind, Except.bind, pure, Except.pure]
      have e : L ++ "@head" = L ++ "@" ++ "head" := by simp [String.append_assoc]
      rw [e, hres] at hr
      have hneg : negInt? x = none := load_ids_legal hl x (hsub x hxh)
      have hrb : resolveBranch m 11 L = .ok (some br) := by unfold resolveBranch; simp [hlk]
      have hrev : revisionForIdent m 12 x (some L) = .ok (some x) := by
        unfold revisionForIdent
        simp [hLe, hrb, lookup_id m x (hsub x hxh), hxs, bind, Except.bind, pure, Except.pure]
      simp only [bind, Except.bind, List.mapM_cons, List.mapM_nil, pure, Except.pure, hneg, hrev] at hr
      refine ⟨x, by simpa using hr.symm, hxh, hxs, ?_⟩
      intro y hy hys
      have : y ∈ m.heads.filter (fun t => sharesLineage m t [br] false) := List.mem_filter.mpr ⟨hy, hys⟩
      rw [hf] at this
      simpa using this

/-- **`<branch>@head` with two heads on the branch is refused**: the statement read the other way
round — whenever two different heads share the branch's lineage, no answer comes back at all
(seeded change C16-l let the first of them through). -/
theorem branch_head_ambiguous {h : Hist} {o : LoadOpts} {m : LMap} (hl : load h o = .ok m)
    (hsub : ∀ x ∈ m.heads, x ∈ m.ids) (L : String) (br : Id) (hb : BranchName m L br)
    (x y : Id) (hx : x ∈ m.heads) (hy : y ∈ m.heads) (hxy : x ≠ y)
    (sx : sharesLineage m x [br] false = true) (sy : sharesLineage m y [br] false = true) :
    ∀ rs, getRevisions m (L ++ "@head") ≠ .ok rs := by
  intro rs hr
  rcases branch_head hl hsub L br hb rs hr with ⟨_, hnone⟩ | ⟨z, _, _, _, huniq⟩
  · have := hnone x hx
    rw [sx] at this
    cases this
  · exact hxy ((huniq x hx sx).trans (huniq y hy sy).symm)

theorem mapM_ok_map {α β} (f : α → Except Err β) (g : α → β) : ∀ (l : List α), (∀ x ∈ l, f x = .ok (g x)) →
    l.mapM f = .ok (l.map g)
  | [], _ => rfl
  | a :: r, h => by
    simp only [List.mapM_cons, bind, Except.bind, pure, Except.pure, h a List.mem_cons_self,
      mapM_ok_map f g r (fun x hx => h x (List.mem_cons_of_mem _ hx)), List.map_cons]

/-- **`<branch>@heads` is every head of that branch**: for every loaded history and every branch
name that is a key of the map (a branch label, or a full revision id) for revision `br`,
`get_revisions("<branch>@heads")` answers exactly the heads that share `br`'s `down_revision`
lineage, in the order of `heads` — none is left out, none from another branch is let in. -/
theorem branch_heads {h : Hist} {o : LoadOpts} {m : LMap} (hl : load h o = .ok m)
    (hsub : ∀ x ∈ m.heads, x ∈ m.ids) (L : String) (br : Id) (hb : BranchName m L br) :
    getRevisions m (L ++ "@heads") =
      .ok ((m.heads.filter (fun t => sharesLineage m t [br] false)).map some) := by
  have hb' := hb
  obtain ⟨hat, hne, h1, h2, h3, hlk⟩ := hb
  have hLe : L.isEmpty = false := by
    cases hq : L.isEmpty
    · rfl
    · exact absurd (String.isEmpty_iff.mp hq) hne
  have hsplit := splitFirstAt_at L "heads" hat
  have hfk := filterKeys_name m 7 L br hb' m.heads hsub
  have hres : resolveRevisionNumber m 12 (L ++ "@" ++ "heads") =
      .ok (m.heads.filter (fun t => sharesLineage m t [br] false), some L) := by
    unfold resolveRevisionNumber
    simp [hsplit, hLe, hfk, bind, Except.bind, pure, Except.pure]
  have e : L ++ "@heads" = L ++ "@" ++ "heads" := by simp [String.append_assoc]
  have hrb : resolveBranch m 11 L = .ok (some br) := by unfold resolveBranch; simp [hlk]
  have hrev : ∀ x ∈ m.heads.filter (fun t => sharesLineage m t [br] false),
      revisionForIdent m 12 x (some L) = .ok (some x) := by
    intro x hx
    obtain ⟨hxh, hxs⟩ := List.mem_filter.mp hx
    unfold revisionForIdent
    simp [hLe, hrb, lookup_id m x (hsub x hxh), hxs, bind, Except.bind, pure, Except.pure]
  have hplain := mapM_ok_map (fun i => revisionForIdent m 12 i (some L)) some _ hrev
  unfold getRevisions resolveFuel
  rw [e, hres]
  simp only [bind, Except.bind]
  cases hf : m.heads.filter (fun t => sharesLineage m t [br] false) with
  | nil => rfl
  | cons x rest =>
    rw [hf] at hplain hrev
    cases rest with
    | nil =>
      have hxh : x ∈ m.heads := (List.mem_filter.mp (by rw [hf]; exact List.mem_cons_self)).1
      have hneg : negInt? x = none := load_ids_legal hl x (hsub x hxh)
      simp only [hneg]
      exact hplain
    | cons y r2 => exact hplain

/-! ### `<branch>@heads` / `<branch>@head` in terms of the history as written -/

theorem reach_flip {f g : Id → List Id} (hfg : ∀ a b, b ∈ f a → a ∈ g b) {a b : Id} (hr : Reach f a b) : Reach g b a := by
  induction hr with
  | refl _ => exact Reach.refl _
  | step hs _ ih => exact Reach.trans _ ih (Reach.single _ (hfg _ _ hs))

theorem downParents_nil (h : Hist) (i : Id) (hi : i ∉ ids h) : downParents h i = [] := by
  unfold downParents revOf
  have : h.find? (·.id == i) = none := by
    rw [List.find?_eq_none]; intro r hr; simp; intro e; exact hi (by unfold ids; exact List.mem_map.mpr ⟨r, hr, e⟩)
  simp [this]

theorem downChildren_iff (h : Hist) (i c : Id) : c ∈ downChildren h i ↔ i ∈ downParents h c := by
  unfold downChildren
  simp only [List.mem_filter, decide_eq_true_eq]
  constructor
  · exact fun hc => hc.2
  · intro hp
    refine ⟨?_, hp⟩
    apply Classical.byContradiction
    intro hn
    rw [downParents_nil h c hn] at hp
    simp at hp

/-- **the model's lineage test is the oracle's**: "shares the `down_revision` lineage of `br`" as
`_shares_lineage(x, [br], include_dependencies=False)` computes it on the loaded map is being an
ancestor or a descendant of `br` along the `down_revision` links written in the files. -/
theorem sharesLineage_history {h : Hist} {o : LoadOpts} {m : LMap} (hl : load h o = .ok m)
    (hu : (h.map (·.id)).Nodup) (hd : ∀ r ∈ h, ∀ d ∈ r.down, d ∈ h.map (·.id)) (x br : Id) :
    sharesLineage m x [br] false = downLineage h br x := by
  have L := loaded_of_load hl hu hd
  have hdn : ∀ i, m.downOf i = downParents h i := fun i => downOf_eq_downParents hl hu i
  have hidseq : m.ids = ids h := by
    obtain ⟨m1, _, hp1, _, _, _, _, hids, _⟩ := load_graph hl
    obtain ⟨_, _, _, _, _, hids1, _⟩ := phase1_graph hp1 hu
    rw [hids, hids1]; rfl
  have hnx : ∀ a b, b ∈ m.nextrev a ↔ a ∈ m.downOf b := by
    intro a b
    rw [nextrev_iff m L.ids_nodup a b]
    constructor
    · exact fun hh => hh.2
    · intro hp
      refine ⟨?_, hp⟩
      apply Classical.byContradiction
      intro hn
      rw [downOf_nil m b hn] at hp
      simp at hp
  have hnil : ∀ i, i ∉ m.ids → m.nextrev i = [] := by
    intro i hi
    apply List.eq_nil_iff_forall_not_mem.mpr
    intro y hy
    have hy' := (hnx i y).mp hy
    rw [hdn y] at hy'
    -- `i` is a down revision written in a file, hence a revision of the history
    unfold downParents at hy'
    cases hrev : revOf h y with
    | none => simp [hrev] at hy'
    | some rv =>
      simp only [hrev, Option.map_some, Option.getD_some] at hy'
      unfold revOf at hrev
      have hm := List.mem_of_find?_eq_some hrev
      exact hi (by rw [hidseq]; exact hd rv hm i hy')
  have hA : br ∈ m.descendantsNoDeps [x] ↔ x ∈ downAncSet h [br] := by
    have h1 : br ∈ m.descendantsNoDeps [x] ↔ ∃ t ∈ [x], Reach m.nextrev t br :=
      mem_closureOf_iff m.nextrev m.ids [x] hnil br
    have h2 : x ∈ downAncSet h [br] ↔ ∃ r ∈ [br], Reach (downParents h) r x := by
      unfold downAncSet Spec.Rev.closure
      exact mem_closureOf_iff (downParents h) (ids h) [br] (downParents_nil h) x
    rw [h1, h2]
    simp only [List.mem_singleton, exists_eq_left]
    constructor
    · intro hr
      exact reach_mono (fun i p hp => by rw [← hdn i]; exact hp) (reach_flip (fun a b hb => (hnx a b).mp hb) hr)
    · intro hr
      exact reach_flip (fun a b hb => (hnx b a).mpr (by rw [hdn a]; exact hb)) hr
  have hB : br ∈ m.ancestorsNoDeps [x] ↔ x ∈ downDescSet h [br] := by
    have h1 := mem_ancestorsNoDeps_iff m [x] br
    have h2 : x ∈ downDescSet h [br] ↔ ∃ r ∈ [br], Reach (downChildren h) r x := by
      unfold downDescSet Spec.Rev.closure
      apply mem_closureOf_iff
      intro i hi
      apply List.eq_nil_iff_forall_not_mem.mpr
      intro c hc
      have hc' := (downChildren_iff h i c).mp hc
      unfold downParents at hc'
      cases hrev : revOf h c with
      | none => simp [hrev] at hc'
      | some rv =>
        simp only [hrev, Option.map_some, Option.getD_some] at hc'
        unfold revOf at hrev
        have hm := List.mem_of_find?_eq_some hrev
        exact hi (hd rv hm i hc')
    rw [h1, h2]
    simp only [List.mem_singleton, exists_eq_left]
    constructor
    · intro hr
      exact reach_flip (fun a b hb => (downChildren_iff h b a).mpr (by rw [← hdn a]; exact hb)) hr
    · intro hr
      exact reach_mono (fun i p hp => by rw [hdn i]; exact hp) (reach_flip (fun a b hb => (downChildren_iff h a b).mp hb) hr)
  apply Bool.eq_iff_iff.mpr
  unfold sharesLineage downLineage
  simp only [List.isEmpty_cons, Bool.false_eq_true, if_false, List.any_cons, List.any_nil, Bool.or_false,
    Bool.or_eq_true, decide_eq_true_eq]
  rw [hA, hB]

/-- **`<branch>@heads`, end to end**: what `get_revisions("<branch>@heads")` answers are exactly the
revisions no file names as `down_revision` that are ancestors or descendants of the branch's
revision along the `down_revision` links written in the files — the set `Spec.Rev.refTargets`
gives the oracle for that spelling. -/
theorem branch_heads_history {h : Hist} {o : LoadOpts} {m : LMap} (hl : load h o = .ok m)
    (hu : (h.map (·.id)).Nodup) (hd : ∀ r ∈ h, ∀ d ∈ r.down, d ∈ h.map (·.id))
    (L : String) (br : Id) (hb : BranchName m L br) :
    ∃ rs : List Id, getRevisions m (L ++ "@heads") = .ok (rs.map some) ∧
      ∀ x, x ∈ rs ↔ x ∈ (headsOf h).filter (downLineage h br) := by
  have hh := (C15.heads_bases_history hl hu hd).1
  have hsub : ∀ x ∈ m.heads, x ∈ m.ids := by
    intro x hx
    have hx' := (hh x).mp hx
    have hidseq : m.ids = ids h := by
      obtain ⟨m1, _, hp1, _, _, _, _, hids, _⟩ := load_graph hl
      obtain ⟨_, _, _, _, _, hids1, _⟩ := phase1_graph hp1 hu
      rw [hids, hids1]; rfl
    rw [hidseq]
    unfold headsOf at hx'
    exact (List.mem_filter.mp hx').1
  refine ⟨_, branch_heads hl hsub L br hb, ?_⟩
  intro x
  simp only [List.mem_filter, hh x, sharesLineage_history hl hu hd x br]

/-- **`<branch>@head`, end to end**: nothing when no head of the history (a revision no file names as
`down_revision`) lies on the branch's `down_revision` lineage as written in the files, that head
when there is exactly one, and no answer at all when there are two. -/
theorem branch_head_history {h : Hist} {o : LoadOpts} {m : LMap} (hl : load h o = .ok m)
    (hu : (h.map (·.id)).Nodup) (hd : ∀ r ∈ h, ∀ d ∈ r.down, d ∈ h.map (·.id))
    (L : String) (br : Id) (hb : BranchName m L br)
    (rs : List (Option Id)) (hr : getRevisions m (L ++ "@head") = .ok rs) :
    (rs = [] ∧ ∀ y ∈ headsOf h, downLineage h br y = false) ∨
    ∃ x, rs = [some x] ∧ x ∈ headsOf h ∧ downLineage h br x = true ∧
      ∀ y ∈ headsOf h, downLineage h br y = true → y = x := by
  have hh := (C15.heads_bases_history hl hu hd).1
  have hidseq : m.ids = ids h := by
    obtain ⟨m1, _, hp1, _, _, _, _, hids, _⟩ := load_graph hl
    obtain ⟨_, _, _, _, _, hids1, _⟩ := phase1_graph hp1 hu
    rw [hids, hids1]; rfl
  have hsub : ∀ x ∈ m.heads, x ∈ m.ids := by
    intro x hx
    have hx' := (hh x).mp hx
    rw [hidseq]
    unfold headsOf at hx'
    exact (List.mem_filter.mp hx').1
  have hs := fun x => sharesLineage_history hl hu hd x br
  rcases branch_head hl hsub L br hb rs hr with ⟨h1, h2⟩ | ⟨x, h1, h2, h3, h4⟩
  · left
    exact ⟨h1, fun y hy => by rw [← hs y]; exact h2 y ((hh y).mpr hy)⟩
  · right
    refine ⟨x, h1, (hh x).mp h2, by rw [← hs x]; exact h3, ?_⟩
    intro y hy hly
    exact h4 y ((hh y).mpr hy) (by rw [hs y]; exact hly)

/-! ### `+N` on an empty version table: the walk starts at the one base -/

/-- the first step up from the empty state goes to the single revision without `down_revision`
(`RevisionMap.bases`, dependent roots included); two such roots make the walk ambiguous -/
theorem walkStep_up_base (m : LMap) (nxt : Option Id) (mk : Bool)
    (h : walkStep m true none none false = .ok (some (nxt, mk))) :
    ∃ c, nxt = some c ∧ mk = false ∧ m.bases = [c] := by
  unfold walkStep at h
  simp only [if_true, bind, Except.bind, pure, Except.pure] at h
  obtain ⟨c, hc, h1, h2⟩ := children_single h
  exact ⟨c, h1, h2, hc⟩

theorem walk_up_from_base (m : LMap) (k : Nat) (r : Id)
    (h : walk.go m (1 : Int) none true (k + 1) none false = .ok (some (some r))) :
    ∃ b, m.bases = [b] ∧ PathN m.nextrev k b r := by
  simp only [walk.go, bind, Except.bind] at h
  have hdec : (decide ((1 : Int) > 0)) = true := by decide
  simp only [hdec] at h
  cases hv : walkStep m true none none false with
  | error e => simp [hv] at h
  | ok v =>
    simp only [hv] at h
    cases v with
    | none => simp [pure, Except.pure] at h
    | some pr =>
      obtain ⟨nxt, mk⟩ := pr
      simp only at h
      obtain ⟨c, h1, h2, h3⟩ := walkStep_up_base m nxt mk hv
      subst h1; subst h2
      exact ⟨c, h3, walk_up_exact m none k c r h⟩

/-- **`+N` on an empty version table counts from the one root**: for every loaded history and every
target the pattern splits into (no label, no revision, `+N`): if `_parse_upgrade_target` answers a
revision `i` while no row is in the table, then the history has exactly one revision without
`down_revision` (a root that carries `depends_on` counts: seeded change C16-m looked at
`_real_bases` and let the walk start on the other root) and exactly `N-1` `down_revision` links, as
written in the files, lead from `i` down to it. -/
theorem rel_up_empty {h : Hist} {o : LoadOpts} {m : LMap} (hl : load h o = .ok m)
    (hu : (h.map (·.id)).Nodup) (hd : ∀ r ∈ h, ∀ d ∈ r.down, d ∈ h.map (·.id))
    (t : String) (rel : Int) (i : Id)
    (hm : matchRelative t = some (none, none, rel)) (hpos : rel > 0)
    (hres : parseUpgradeTarget m [] t = .ok [i]) :
    ∃ b, (∀ x, x ∈ basesOf h ↔ x = b) ∧ stepsDown h (rel.natAbs - 1) i (some b) = true := by
  have L := loaded_of_load hl hu hd
  obtain ⟨k, hk⟩ : ∃ k, rel.natAbs = k + 1 := ⟨rel.natAbs - 1, by omega⟩
  unfold parseUpgradeTarget at hres
  simp only [hm, hpos, if_true, bind, Except.bind, pure, Except.pure] at hres
  unfold walk at hres
  rw [walk_go_pos m rel hpos, hk] at hres
  cases hw : walk.go m (1 : Int) none true (k + 1) none false with
  | error e => simp [hw] at hres
  | ok w =>
    simp only [hw] at hres
    have := up_result hres
    subst this
    obtain ⟨b, hb, hp⟩ := walk_up_from_base m k i hw
    refine ⟨b, ?_, ?_⟩
    · intro x
      rw [← (C15.heads_bases_history hl hu hd).2.2.1 x, hb]
      simp
    · have hrev : PathN m.downOf k i b :=
        pathN_reverse (fun a c hc => ((nextrev_iff m L.ids_nodup a c).mp hc).2) k b i hp
      rw [hk]
      exact (stepsDown_iff h k i b).mpr (pathN_congr (fun j => downOf_eq_downParents hl hu j) k i b hrev)

/-- the hypotheses of `rel_up_empty` are met by a history with a single root; with a second root
that carries `depends_on` the same target is refused (the walk is ambiguous) -/
example : (match (load [⟨"a", [], [], []⟩, ⟨"b", ["a"], [], []⟩, ⟨"c", ["b"], [], []⟩]).bind (fun m => parseUpgradeTarget m [] "+2") with
    | .ok r => r == ["b"] | .error _ => false) = true := by decide +kernel
example : (match (load [⟨"a", [], [], []⟩, ⟨"b", ["a"], [], []⟩, ⟨"x", [], ["a"], []⟩]).bind (fun m => parseUpgradeTarget m [] "+1") with
    | .ok _ => false | .error _ => true) = true := by decide +kernel

/-! ### `<branch>@+N` on an empty version table: the walk starts at the one root of that branch -/

theorem ancestors_nil (m : LMap) : m.ancestors [] = [] := by
  apply List.eq_nil_iff_forall_not_mem.mpr
  intro x hx
  obtain ⟨t, ht, _⟩ := (mem_ancestors_iff m [] x).mp hx
  simp at ht

theorem walkStep_up_base_label (m : LMap) (L : String) (br : Id) (hb : BranchName m L br)
    (nxt : Option Id) (mk : Bool)
    (h : walkStep m true (some L) none false = .ok (some (nxt, mk))) :
    ∃ c, nxt = some c ∧ mk = false ∧ m.bases.filter (fun t => sharesLineage m t [br] false) = [c] := by
  have hLe : L.isEmpty = false := by
    cases hq : L.isEmpty
    · rfl
    · exact absurd (String.isEmpty_iff.mp hq) hb.2.1
  have hf := filterForLineage_of_shares m m.bases L false [br] (by unfold resolveFuel; exact resolveShares_name m 9 L br hb)
  unfold walkStep at h
  simp only [if_true, bind, Except.bind, pure, Except.pure, hLe, Bool.false_eq_true, if_false, hf] at h
  obtain ⟨c, hc, h1, h2⟩ := children_single h
  exact ⟨c, h1, h2, hc⟩

theorem walk_up_from_base_label (m : LMap) (L : String) (br : Id) (hb : BranchName m L br) (k : Nat) (r : Id)
    (h : walk.go m (1 : Int) (some L) true (k + 1) none false = .ok (some (some r))) :
    ∃ b, m.bases.filter (fun t => sharesLineage m t [br] false) = [b] ∧ PathN m.nextrev k b r := by
  simp only [walk.go, bind, Except.bind] at h
  have hdec : (decide ((1 : Int) > 0)) = true := by decide
  simp only [hdec] at h
  cases hv : walkStep m true (some L) none false with
  | error e => simp [hv] at h
  | ok v =>
    simp only [hv] at h
    cases v with
    | none => simp [pure, Except.pure] at h
    | some pr =>
      obtain ⟨nxt, mk⟩ := pr
      simp only at h
      obtain ⟨c, h1, h2, h3⟩ := walkStep_up_base_label m L br hb nxt mk hv
      subst h1; subst h2
      exact ⟨c, h3, walk_up_exact m (some L) k c r h⟩

/-- **`<branch>@+N` on an empty version table counts from the one root of that branch**: for every
loaded history, every branch name that is a key of the map for revision `br`, and every target
the pattern splits into (`<branch>`, no revision, `+N`): if `_parse_upgrade_target` answers a
revision `i` while no row is in the table, then exactly one revision without `down_revision`
lies on `br`'s `down_revision` lineage as written in the files (dependent roots count), and
exactly `N-1` links lead from `i` down to it — the clause of `Spec.Rev.relUpOk` for that form. -/
theorem rel_up_empty_label {h : Hist} {o : LoadOpts} {m : LMap} (hl : load h o = .ok m)
    (hu : (h.map (·.id)).Nodup) (hd : ∀ r ∈ h, ∀ d ∈ r.down, d ∈ h.map (·.id))
    (t : String) (L : String) (br : Id) (hb : BranchName m L br) (rel : Int) (i : Id)
    (hm : matchRelative t = some (some L, none, rel)) (hpos : rel > 0)
    (hres : parseUpgradeTarget m [] t = .ok [i]) :
    ∃ b, (∀ x, x ∈ (basesOf h).filter (downLineage h br) ↔ x = b) ∧
      stepsDown h (rel.natAbs - 1) i (some b) = true := by
  have Ld := loaded_of_load hl hu hd
  have hLe : L.isEmpty = false := by
    cases hq : L.isEmpty
    · rfl
    · exact absurd (String.isEmpty_iff.mp hq) hb.2.1
  have hsh : resolveShares m resolveFuel L = .ok [br] := by unfold resolveFuel; exact resolveShares_name m 9 L br hb
  obtain ⟨k, hk⟩ : ∃ k, rel.natAbs = k + 1 := ⟨rel.natAbs - 1, by omega⟩
  unfold parseUpgradeTarget at hres
  simp only [hm, hpos, if_true, bind, Except.bind, pure, Except.pure, hLe, Bool.false_eq_true, if_false,
    getRevisionsMany, List.mapM_nil, List.flatten_nil, List.filterMap_nil,
    filterForLineage_of_shares m [] L false [br] hsh, List.filter_nil, List.isEmpty_nil, Bool.not_true,
    ancestors_nil, List.reverse_nil, List.flatMap_nil, dedupe] at hres
  unfold walk at hres
  rw [walk_go_pos m rel hpos, hk] at hres
  cases hw : walk.go m (1 : Int) (some L) true (k + 1) none false with
  | error e => simp [hw] at hres
  | ok w =>
    simp only [hw] at hres
    have := up_result hres
    subst this
    obtain ⟨b, hbs, hp⟩ := walk_up_from_base_label m L br hb k i hw
    refine ⟨b, ?_, ?_⟩
    · intro x
      have hB := (C15.heads_bases_history hl hu hd).2.2.1
      have : x ∈ m.bases.filter (fun t => sharesLineage m t [br] false) ↔ x = b := by rw [hbs]; simp
      rw [← this]
      simp only [List.mem_filter, hB x, sharesLineage_history hl hu hd x br]
    · have hrev : PathN m.downOf k i b :=
        pathN_reverse (fun a c hc => ((nextrev_iff m Ld.ids_nodup a c).mp hc).2) k b i hp
      rw [hk]
      exact (stepsDown_iff h k i b).mpr (pathN_congr (fun j => downOf_eq_downParents hl hu j) k i b hrev)

/-! ### completeness of the partial lookup: a unique prefix resolves -/

/-- label keys are never revision ids (`_map_branch_labels` refuses a label that is already a key) -/
theorem mapBranchLabels_keys_fresh (ids : List Id) : ∀ (revs : List Rev) (acc out : List (String × Id)),
    (∀ e ∈ acc, e.1 ∉ ids) → mapBranchLabels ids revs acc = .ok out → ∀ e ∈ out, e.1 ∉ ids := by
  intro revs
  induction revs with
  | nil => intro acc out hacc h; simp [mapBranchLabels] at h; subst h; exact hacc
  | cons r rest ih =>
    intro acc out hacc h
    simp only [mapBranchLabels] at h
    split at h
    · simp at h
    · rename_i acc' hadd
      refine ih acc' out ?_ h
      have key : ∀ (ls : List String) (a a' : List (String × Id)), (∀ e ∈ a, e.1 ∉ ids) →
          mapBranchLabels.addLabels ids r ls a = .ok a' → ∀ e ∈ a', e.1 ∉ ids := by
        intro ls
        induction ls with
        | nil => intro a a' ha h; simp [mapBranchLabels.addLabels] at h; subst h; exact ha
        | cons l ls ih2 =>
          intro a a' ha h
          simp only [mapBranchLabels.addLabels] at h
          split at h
          · simp at h
          · rename_i hcond
            apply ih2 _ _ _ h
            intro e he
            rcases List.mem_append.mp he with h1 | h1
            · exact ha e h1
            · simp at h1; subst h1
              intro hmem
              exact hcond (Or.inl hmem)
      exact key _ _ _ hacc hadd

theorem load_labelKeys_fresh {h : Hist} {o : LoadOpts} {m : LMap} (hl : load h o = .ok m) :
    ∀ e ∈ m.labelKeys, e.1 ∉ m.ids := by
  obtain ⟨m1, lk, h1, hrevs, hlk, hchk, hdc, hids, _⟩ := load_graph hl
  obtain ⟨m1', h1', _, hm⟩ := load_ok hl
  have : m1' = m1 := by rw [h1] at h1'; exact (Except.ok.inj h1').symm
  subst this
  obtain ⟨lk', hlk', _, hrevs', hlkeq⟩ := phase1_ok h1
  obtain ⟨f3, hk3, hn3, hm3⟩ := addBranches_eq (withNorm o m1')
  have hL : m.labelKeys = m1'.labelKeys := by rw [hm, hm3]; rfl
  have hids1 : m1'.ids = h.map (·.id) := by
    simp [LMap.ids, hrevs', phase1Revs, List.map_map, Function.comp_def]
  intro e he
  rw [hL, hlkeq] at he
  rw [hids, hids1]
  exact mapBranchLabels_keys_fresh (h.map (·.id)) _ [] lk' (by simp) hlk' e he

theorem filter_eq_singleton : ∀ (l : List Id) (x : Id), x ∈ l → l.Nodup → l.filter (fun i => decide (i = x)) = [x]
  | [], _, hx, _ => by simp at hx
  | a :: r, x, hx, hnd => by
    have hnd' := List.nodup_cons.mp hnd
    by_cases e : a = x
    · subst e
      have : r.filter (fun i => decide (i = a)) = [] := by
        rw [List.filter_eq_nil_iff]; intro y hy; simp; intro e; subst e; exact hnd'.1 hy
      simp [List.filter_cons, this]
    · have hxr : x ∈ r := by
        rcases List.mem_cons.mp hx with h1 | h1
        · exact absurd h1.symm e
        · exact h1
      simp only [List.filter_cons, e, decide_false, Bool.false_eq_true, if_false]
      exact filter_eq_singleton r x hxr hnd'.2

/-- the partial lookup itself: exactly one candidate -/
theorem revisionForIdent_prefix {h : Hist} {o : LoadOpts} {m : LMap} (hl : load h o = .ok m)
    (hu : (h.map (·.id)).Nodup) (hd : ∀ r ∈ h, ∀ d ∈ r.down, d ∈ h.map (·.id))
    (ident : String) (hk : m.lookup ident = none)
    (x : Id) (hx : x ∈ m.ids) (hlen : x.length > 3) (hpre : startsWithL x ident = true)
    (huniq : ∀ y ∈ m.ids, y.length > 3 → startsWithL y ident = true → y = x) :
    ∀ n, revisionForIdent m (n + 1) ident none = .ok (some x) := by
  have L := loaded_of_load hl hu hd
  have hfresh := load_labelKeys_fresh hl
  -- the candidate list of the partial lookup is exactly `[x]`
  have hcands : (m.keys.filter (fun k => k.1.length > 3 && startsWithL k.1 ident && k.2 == k.1)).map (·.1) = [x] := by
    unfold LMap.keys
    rw [List.filter_append, List.map_append]
    have hlab : (m.labelKeys.filter (fun k => k.1.length > 3 && startsWithL k.1 ident && k.2 == k.1)) = [] := by
      rw [List.filter_eq_nil_iff]
      intro e he
      simp only [Bool.and_eq_true, decide_eq_true_eq, beq_iff_eq, not_and]
      intro _ h21
      have h2 := load_labelKeys hl e he
      exact hfresh e he (by rw [← h21]; exact h2)
    rw [hlab, List.map_nil, List.append_nil, List.filter_map, List.map_map]
    have hfun : ((fun (x : String × Id) => x.1) ∘ fun (i : Id) => (i, i)) = id := by funext i; rfl
    rw [hfun, List.map_id]
    -- a duplicate-free list filtered by a predicate that holds exactly of `x`
    have hpred : ∀ i ∈ m.ids, ((fun k : String × Id => k.1.length > 3 && startsWithL k.1 ident && k.2 == k.1) ∘ fun i => (i, i)) i = decide (i = x) := by
      intro i hi
      simp only [Function.comp, beq_self_eq_true, Bool.and_true]
      by_cases e : i = x
      · subst e; simp [hlen, hpre]
      · simp only [e, decide_false]
        cases h1 : decide (i.length > 3) <;> cases h2 : startsWithL i ident <;> simp_all
    rw [List.filter_congr hpred]
    exact filter_eq_singleton m.ids x hx L.ids_nodup
  intro n
  unfold revisionForIdent
  simp only [bind, Except.bind, pure, Except.pure, hk, hcands, lookup_id m x hx]

/-- **A unique prefix resolves** (the converse of `plain_sound`, the half seeded change C01-m broke): in a
loaded history, a plain identifier that is not a key of the map and is a prefix of exactly one revision id of
more than three characters resolves to that revision — whether or not the revision carries branch labels. -/
theorem prefix_unique_resolves {h : Hist} {o : LoadOpts} {m : LMap} (hl : load h o = .ok m)
    (hu : (h.map (·.id)).Nodup) (hd : ∀ r ∈ h, ∀ d ∈ r.down, d ∈ h.map (·.id))
    (ident : String) (hp : Plain ident) (hk : m.lookup ident = none)
    (x : Id) (hx : x ∈ m.ids) (hlen : x.length > 3) (hpre : startsWithL x ident = true)
    (huniq : ∀ y ∈ m.ids, y.length > 3 → startsWithL y ident = true → y = x) :
    getRevisions m ident = .ok [some x] := by
  have hrev := revisionForIdent_prefix hl hu hd ident hk x hx hlen hpre huniq 11
  unfold getRevisions resolveFuel
  simp only [resolveNumber_plain m 11 ident hp, bind, Except.bind, List.mapM_cons, List.mapM_nil, pure, Except.pure,
    hp.2.2.2.2]
  simp [hrev]

/-- the same for `get_revision` (one revision expected) -/
theorem prefix_unique_resolves_single {h : Hist} {o : LoadOpts} {m : LMap} (hl : load h o = .ok m)
    (hu : (h.map (·.id)).Nodup) (hd : ∀ r ∈ h, ∀ d ∈ r.down, d ∈ h.map (·.id))
    (ident : String) (hp : Plain ident) (hk : m.lookup ident = none)
    (x : Id) (hx : x ∈ m.ids) (hlen : x.length > 3) (hpre : startsWithL x ident = true)
    (huniq : ∀ y ∈ m.ids, y.length > 3 → startsWithL y ident = true → y = x) :
    getRevision m ident = .ok (some x) := by
  have hrev := revisionForIdent_prefix hl hu hd ident hk x hx hlen hpre huniq 11
  unfold getRevision resolveFuel
  simp [resolveNumber_plain m 11 ident hp, hrev, bind, Except.bind]

/-- the hypotheses of `prefix_unique_resolves` on a labelled revision (the shape of seed C01-m) -/
example : (match load [⟨"abcd12", [], [], ["lib"]⟩, ⟨"ffff00", ["abcd12"], [], []⟩] with
    | .ok m => (match getRevisions m "abcd" with | .ok [some x] => x == "abcd12" | _ => false) &&
               (match m.lookup "abcd" with | none => true | some _ => false)
    | .error _ => false) = true := by decide +kernel

/-! ### `<branch>@<revision id>`: the revision when it is on the branch, an error otherwise -/

/-- **`<branch>@<id>` never answers a revision outside the named branch — and answers the revision when it
is on it**: for every loaded history, every branch name that is a key of the map for revision `br`
and every full revision id `i`: `get_revisions("<branch>@<i>")` is `i` exactly when `i` shares `br`'s
`down_revision` lineage (ancestor or descendant along the links written in the files,
`sharesLineage_history`), and an error otherwise. -/
theorem branch_id {h : Hist} {o : LoadOpts} {m : LMap} (hl : load h o = .ok m)
    (L : String) (br : Id) (hb : BranchName m L br) (i : Id) (hi : i ∈ m.ids) (hp : Plain i) :
    (sharesLineage m i [br] false = true → getRevisions m (L ++ "@" ++ i) = .ok [some i]) ∧
    (sharesLineage m i [br] false = false → getRevisions m (L ++ "@" ++ i) = .error .resolution) := by
  obtain ⟨hat, hne, h1, h2, h3, hlk⟩ := hb
  have hLe : L.isEmpty = false := by
    cases hq : L.isEmpty
    · rfl
    · exact absurd (String.isEmpty_iff.mp hq) hne
  have hsplit := splitFirstAt_at L i hat
  have hres : resolveRevisionNumber m 12 (L ++ "@" ++ i) = .ok ([i], some L) := by
    unfold resolveRevisionNumber
    simp [hsplit, hp.2.1, hp.2.2.1, hp.2.2.2.1, bind, Except.bind, pure, Except.pure]
  have hrb : resolveBranch m 11 L = .ok (some br) := by unfold resolveBranch; simp [hlk]
  constructor
  · intro hs
    have hrev : revisionForIdent m 12 i (some L) = .ok (some i) := by
      unfold revisionForIdent
      simp [hLe, hrb, lookup_id m i hi, hs, bind, Except.bind, pure, Except.pure]
    unfold getRevisions resolveFuel
    rw [hres]
    simp [bind, Except.bind, pure, Except.pure, hp.2.2.2.2, hrev]
  · intro hs
    have hrev : revisionForIdent m 12 i (some L) = .error .resolution := by
      unfold revisionForIdent
      simp [hLe, hrb, lookup_id m i hi, hs, bind, Except.bind, pure, Except.pure, throw, throwThe, MonadExceptOf.throw]
    unfold getRevisions resolveFuel
    rw [hres]
    simp [bind, Except.bind, pure, Except.pure, hp.2.2.2.2, hrev]

/-- the same against the history as written: on the branch = ancestor or descendant of the branch's
revision along the `down_revision` links in the files -/
theorem branch_id_history {h : Hist} {o : LoadOpts} {m : LMap} (hl : load h o = .ok m)
    (hu : (h.map (·.id)).Nodup) (hd : ∀ r ∈ h, ∀ d ∈ r.down, d ∈ h.map (·.id))
    (L : String) (br : Id) (hb : BranchName m L br) (i : Id) (hi : i ∈ m.ids) (hp : Plain i) :
    (downLineage h br i = true → getRevisions m (L ++ "@" ++ i) = .ok [some i]) ∧
    (downLineage h br i = false → getRevisions m (L ++ "@" ++ i) = .error .resolution) := by
  rw [← sharesLineage_history hl hu hd i br]
  exact branch_id hl L br hb i hi hp

/-! ### the absolute downgrade target `<branch>@<revision id>` -/

/-- `"<b>@<x>".rpartition("@")` when `x` has no `@` -/
theorem rpartitionAt_at (b x : String) (hx : '@' ∉ x.toList) : rpartitionAt (b ++ "@" ++ x) = (b, x) := by
  unfold rpartitionAt
  have e : (b ++ "@" ++ x).toList.reverse = x.toList.reverse ++ '@' :: b.toList.reverse := by
    simp [String.toList_append]
  have : (b ++ "@" ++ x).toList.reverse.span (· != '@') = (x.toList.reverse, '@' :: b.toList.reverse) := by
    rw [e]
    unfold List.span
    rw [span_loop_stop _ x.toList.reverse [] '@' b.toList.reverse
      (by intro c hc; simp; intro e; subst e; exact hx (List.mem_reverse.mp hc)) (by simp)]
    simp
  simp only [this, List.reverse_reverse, String.ofList_toList]

/-- **`downgrade <branch>@<revision id>`**: for a target the relative pattern does not match, written as a
non-empty branch qualifier, `@`, and a full revision id, `_parse_downgrade_target` answers that revision
and keeps the qualifier as the branch restriction — it does not ask whether the revision lies on that
branch (the absolute form resolves the id alone; seeded change C02-m made it resolve `<branch>@<id>` and
so refuse an unrelated qualifier). -/
theorem parse_dgrade_qualified (m : LMap) (rows : List Id) (L : String) (i : Id) (hi : i ∈ m.ids) (hp : Plain i)
    (hL : L.isEmpty = false) (hm : matchRelative (L ++ "@" ++ i) = none) :
    parseDowngradeTarget m rows (L ++ "@" ++ i) = .ok (some L, some i) := by
  unfold parseDowngradeTarget
  simp [hm, rpartitionAt_at L i hp.1, (full_id m i hi hp).2, hL, bind, Except.bind, pure, Except.pure]

example : matchRelative "lib@abcd12" = none ∧ rpartitionAt "lib@abcd12" = ("lib", "abcd12") := by decide +kernel

/-! ### upgrading to a partial identifier is upgrading to the revision it names -/

/-- the upgrade plan depends on the target string only through the revisions it resolves to -/
theorem upgradeRevs_congr (m : LMap) (rows : List Id) (t1 t2 : String)
    (h : parseUpgradeTarget m rows t1 = parseUpgradeTarget m rows t2) :
    upgradeRevs m rows t1 = upgradeRevs m rows t2 := by
  unfold upgradeRevs collectUpgrade
  rw [h]

/-- **`upgrade <unique prefix>` is `upgrade <that revision>`**: in a loaded history, for a plain identifier
that is not a key of the map, that the relative pattern does not match, and that is a prefix of exactly one
revision id `x` of more than three characters, the plan `upgrade` computes is the plan for `x` itself —
in particular it is not refused (seeded change C01-m refused it when `x` carries a branch label). -/
theorem upgrade_prefix_eq_full {h : Hist} {o : LoadOpts} {m : LMap} (hl : load h o = .ok m)
    (hu : (h.map (·.id)).Nodup) (hd : ∀ r ∈ h, ∀ d ∈ r.down, d ∈ h.map (·.id))
    (rows : List Id) (ident : String) (hp : Plain ident) (hk : m.lookup ident = none)
    (x : Id) (hx : x ∈ m.ids) (hpx : Plain x) (hlen : x.length > 3) (hpre : startsWithL x ident = true)
    (huniq : ∀ y ∈ m.ids, y.length > 3 → startsWithL y ident = true → y = x)
    (hm1 : matchRelative ident = none) (hm2 : matchRelative x = none) :
    upgradeRevs m rows ident = upgradeRevs m rows x := by
  apply upgradeRevs_congr
  unfold parseUpgradeTarget
  simp only [hm1, hm2, prefix_unique_resolves hl hu hd ident hp hk x hx hlen hpre huniq, (full_id m x hx hpx).1]

/-! ### downgrading to a partial identifier is downgrading to the revision it names -/

theorem rpartitionAt_noat (s : String) (h : '@' ∉ s.toList) : rpartitionAt s = ("", s) := by
  unfold rpartitionAt
  have : s.toList.reverse.span (· != '@') = (s.toList.reverse, []) := by
    unfold List.span
    rw [span_loop_all _ s.toList.reverse [] (by intro c hc; simp; intro e; subst e; exact h (List.mem_reverse.mp hc))]
    simp
  simp only [this, List.reverse_reverse, String.ofList_toList]

theorem downgradeRevs_congr (m : LMap) (rows : List Id) (t1 t2 : String)
    (h : parseDowngradeTarget m rows t1 = parseDowngradeTarget m rows t2) :
    downgradeRevs m rows t1 = downgradeRevs m rows t2 := by
  unfold downgradeRevs collectDowngrade
  rw [h]

/-- **`downgrade <unique prefix>` is `downgrade <that revision>`** (same hypotheses as
`upgrade_prefix_eq_full`): the revisions removed, and whether the request is refused, are those of the
revision the prefix names. -/
theorem downgrade_prefix_eq_full {h : Hist} {o : LoadOpts} {m : LMap} (hl : load h o = .ok m)
    (hu : (h.map (·.id)).Nodup) (hd : ∀ r ∈ h, ∀ d ∈ r.down, d ∈ h.map (·.id))
    (rows : List Id) (ident : String) (hp : Plain ident) (hk : m.lookup ident = none)
    (x : Id) (hx : x ∈ m.ids) (hpx : Plain x) (hlen : x.length > 3) (hpre : startsWithL x ident = true)
    (huniq : ∀ y ∈ m.ids, y.length > 3 → startsWithL y ident = true → y = x)
    (hm1 : matchRelative ident = none) (hm2 : matchRelative x = none) :
    downgradeRevs m rows ident = downgradeRevs m rows x := by
  apply downgradeRevs_congr
  unfold parseDowngradeTarget
  simp only [hm1, hm2, rpartitionAt_noat ident hp.1, rpartitionAt_noat x hpx.1,
    prefix_unique_resolves_single hl hu hd ident hp hk x hx hlen hpre huniq, (full_id m x hx hpx).2]

/-! ### stamping a partial identifier is stamping the revision it names -/

theorem resolveShares_plain_id (m : LMap) (x : Id) (hx : x ∈ m.ids) (hpx : Plain x) :
    resolveShares m 12 x = .ok [x] := by
  unfold resolveShares
  simp [resolveNumber_plain m 10 x hpx, revisionForIdent_id m 10 x hx, bind, Except.bind, pure, Except.pure]

/-! ### plain `head` -/

/-- **`head`**: nothing when the history has no head, the head when it has exactly one, and
`MultipleHeads` when it has two or more — never one of several picked silently. -/
theorem symbolic_head {h : Hist} {o : LoadOpts} {m : LMap} (hl : load h o = .ok m)
    (hsub : ∀ x ∈ m.heads, x ∈ m.ids) :
    (m.heads = [] → getRevisions m "head" = .ok []) ∧
    (∀ x, m.heads = [x] → getRevisions m "head" = .ok [some x]) ∧
    (∀ x y r, m.heads = x :: y :: r → getRevisions m "head" = .error .multipleHeads) := by
  have hsplit := splitFirstAt_noat "head" (by decide)
  refine ⟨?_, ?_, ?_⟩
  · intro he
    unfold getRevisions resolveFuel resolveRevisionNumber currentHead
    simp [hsplit, he, bind, Except.bind, pure, Except.pure]
  · intro x he
    have hxi : x ∈ m.ids := hsub x (by rw [he]; exact List.mem_cons_self)
    have hneg : negInt? x = none := load_ids_legal hl x hxi
    unfold getRevisions resolveFuel resolveRevisionNumber currentHead
    simp [hsplit, he, hneg, revisionForIdent_id m 11 x hxi, bind, Except.bind, pure, Except.pure]
  · intro x y r he
    unfold getRevisions resolveFuel resolveRevisionNumber currentHead
    simp [hsplit, he, bind, Except.bind, pure, Except.pure, throw, throwThe, MonadExceptOf.throw]

end C16
