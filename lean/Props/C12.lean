import Spec.Offline
import Props.C03
import Lemmas.Offline.Split
import Lemmas.Offline.Literal
import Lemmas.Offline.Run
import Lemmas.Offline.Linear
import Lemmas.Offline.Frame
import Props.C18
/-!
# C12 — the offline SQL script has the same effect as the online run
-/
namespace C12
open Model.Offline Lemmas.Offline Spec.Offline

/-- **C12.split.** Splitting an emitted script at the command terminator outside string
literals, quoted identifiers and comments recovers exactly the emitted statements, for
every list of `static_output` items whose statement texts are lexically closed (all quotes
closed, no terminator / comment outside them) — whatever the literals and quoted identifiers
contain (`;`, `--`, newlines, quotes, any Unicode). -/
theorem split (items : List Item) (h : ∀ i ∈ items, itemOk i = true) :
    Model.Offline.split (emit items) = stmtsOf items := by
  unfold Model.Offline.split
  rw [foldl_emit items [] h]
  simp [finish, curOf]

/-- **C12.literal.** Reading back a rendered literal gives the value: for NULL, every integer
and **every** string (any characters: quotes, `;`, `--`, newlines, backslashes, non-ASCII). -/
theorem literal (v : Val) : parseLiteral (renderLit v) = some v := by
  cases v with
  | null => decide
  | int i =>
    cases i with
    | ofNat n =>
      have h := parseInt_renderInt (Int.ofNat n)
      simp only [renderInt] at h
      simp [parseLiteral, renderLit, renderInt, lex_natDigits, litOf, natDigits_ne_NULL, h]
    | negSucc n =>
      have h := parseInt_renderInt (Int.negSucc n)
      simp only [renderInt] at h
      have hne : ('-' :: natDigits (n + 1)) ≠ k_NULL := by simp [k_NULL]
      simp [parseLiteral, renderLit, renderInt, lex_neg, litOf, hne, h]
  | str s => simp [parseLiteral, renderLit, lex_str, litOf]

/-- non-vacuity: an awkward string survives, and the reader rejects an unterminated literal -/
example : parseLiteral (renderLit (.str ['o', '\'', 'b', ';', '\n', '-', '-', 'x', '\\', 'é'])) =
    some (.str ['o', '\'', 'b', ';', '\n', '-', '-', 'x', '\\', 'é']) := by decide
example : renderLit (.str ['o', '\'', 'b']) = ['\'', 'o', '\'', '\'', 'b', '\''] := by decide
example : parseLiteral ['\'', 'a'] = none := by decide

/-! ## statements are recovered and read back -/

/-- **C12.closed.** Every statement of the language renders to a lexically closed text — for
every table / column / index name and every value (strings with `;`, `--`, quotes, newlines …):
so `C12.split` applies to every script the offline interpreter can emit. -/
theorem closed (q : Str → Bool) (hq : BareSafe q) (s : Stmt) (h : isOther s = false) :
    Closed (renderStmt q s) = true := closed_stmt q hq s h

/-- **C12.lex_roundtrip.** The reader's lexer gives back exactly the tokens that were rendered
(names, literals, keywords), for every statement of the language. -/
theorem lex_roundtrip (q : Str → Bool) (hq : BareSafe q) (s : Stmt) :
    lex (flat (stmtP q s)) = toks (stmtP q s) := lex_stmtP q hq s

/-- SQLite's quoting policy satisfies the assumption made on `q` -/
theorem sqlite_bareSafe : BareSafe sqliteNeedsQuote := by
  intro n h
  simp only [sqliteNeedsQuote, Bool.or_eq_false_iff, Bool.not_eq_false'] at h
  obtain ⟨⟨⟨_, h2⟩, h3⟩, _⟩ := h
  refine ⟨?_, h3⟩
  cases n with
  | nil => simp at h2
  | cons c r =>
    simp only [List.all_cons, Bool.and_eq_true] at h3
    simp [validWord, h3.1, h3.2]

/-- **C12.reads_back_vt.** The version-table statements (CREATE / DROP / INSERT / UPDATE /
DELETE with `literal_column("'%s'" % version)`) are read back as themselves, for every version
string without a quote character (they are pasted unescaped). -/
theorem reads_back_vt (q : Str → Bool) (hq : BareSafe q) (s : Stmt) (hv : isVt s = true) :
    parseStmt q (renderStmt q s) = s := parse_vt q hq s hv

/-- **C12.reads_back.** Every statement of the language — CREATE TABLE with any columns, DROP
TABLE, ALTER TABLE … ADD COLUMN, CREATE INDEX, DROP INDEX, INSERT … VALUES with any values
(NULL, integers, arbitrary strings), and the version-table statements — is read back from its
rendered text as exactly itself, for every name (quoted or bare, any characters) and every
quoting policy that is safe for bare names.  `stmtWf` only asks for non-empty column / value
lists and user tables not named `alembic_version`. -/
theorem reads_back (q : Str → Bool) (hq : BareSafe q) (s : Stmt) (h : stmtWf s = true) :
    parseStmt q (renderStmt q s) = s := parse_render q hq s h

/-- non-vacuity / the reader rejects what is not a statement of the language -/
example : stmtWf (.insert ['t'] [['a'], ['b']] [.null, .str ['x', '\'', ';']]) = true := by decide
example : parseStmt (fun _ => true) ['D', 'R', 'O', 'P', ' ', 'x'] = .other ['D', 'R', 'O', 'P', ' ', 'x'] := by
  decide +kernel

/-! ## same effect -/

theorem bind_prefix (o : Option (List Stmt)) (pre : List Stmt) (d : DB) :
    (o.map (fun rest => pre ++ rest)).bind (fun l => execAll l d) =
    (execAll pre d).bind (fun d' => o.bind (fun l => execAll l d')) := by
  cases o with
  | none => cases execAll pre d <;> rfl
  | some rest => simp only [Option.map_some, Option.bind_some, execAll_append]

theorem sameOutcome_refl (a : Option DB) : sameOutcome a a := by
  cases a <;> simp [sameOutcome, sameDb]

/-- where the two runs stand before a step: the same database whose version rows are the
tracked heads, or (only before the first step of a run from base) the offline database still
lacks the version table the online run has already created -/
def Rel (heads : List Str) (steps : List Step) (dOff d : DB) : Prop :=
  (dOff = d ∧ (heads ≠ [] ∨ steps = [])) ∨ (heads = [] ∧ steps ≠ [] ∧ execStmt .vtCreate dOff = some d)

theorem run_agree (q : Str → Bool) (steps : List Step) : ∀ (heads : List Str) (d dOff : DB),
    steps.all (stepOk q) = true → d.version = some heads → Rel heads steps dOff d → midOk heads steps = true →
    sameOutcome ((offlineStmts q heads steps).bind (fun l => execAll l dOff))
      ((onlineSteps q (heads, d) steps).map (fun s => s.2)) := by
  induction steps with
  | nil =>
    intro heads d dOff _ hd hR _
    rcases hR with ⟨e, _⟩ | ⟨_, h, _⟩
    · subst e
      simp only [offlineStmts, onlineSteps, Option.bind_some, Option.map_some]
      split
      · rename_i he
        have : heads = [] := by simpa using he
        subst this
        simp [execAll, execStmt, DB.vtDrop, hd, sameOutcome, sameDb]
      · simp [execAll, sameOutcome, sameDb]
    · exact absurd rfl h
  | cons st r ih =>
    intro heads d dOff hok hd hR hmid
    simp only [List.all_cons, Bool.and_eq_true] at hok
    have hst := hok.1
    simp only [stepOk, Bool.and_eq_true] at hst
    -- both runs execute `body ++ ver` from `d`
    have hpre : ∀ l, execAll (stepStmts q heads st ++ l) dOff =
        execAll ((bodyStmts q st.body ++ st.ver.map verStmt) ++ l) d := by
      intro l
      rcases hR with ⟨e, hne⟩ | ⟨e, _, hc⟩
      · subst e
        have : heads ≠ [] := by rcases hne with h | h; exact h; simp at h
        have : heads.isEmpty = false := by cases heads <;> simp_all
        simp [stepStmts, this]
      · subst e
        simp [stepStmts, execAll, hc]
    simp only [offlineStmts, onlineSteps, onlineStep, midOk] at hmid ⊢
    rw [onlineOps_eq]
    cases hm : hmAll heads st.ver with
    | none =>
      simp only [Option.bind_none]
      cases hb : execAll (bodyStmts q st.body) d with
      | none => simp [sameOutcome]
      | some d1 =>
        have hv1 : d1.version = some heads := by
          rw [execAll_version _ d d1 (body_not_vt q st.body hst.1.2) hb, hd]
        have := ver_all st.ver heads d1 hv1
        simp only [hm] at this
        simp [this, sameOutcome]
    | some h' =>
      simp only [hm, Bool.and_eq_true] at hmid
      have hoff : ((offlineStmts q h' r).map (fun rest => stepStmts q heads st ++ rest)).bind (fun l => execAll l dOff) =
          ((offlineStmts q h' r).map (fun rest => (bodyStmts q st.body ++ st.ver.map verStmt) ++ rest)).bind
            (fun l => execAll l d) := by
        cases offlineStmts q h' r with
        | none => rfl
        | some rest => simp only [Option.map_some, Option.bind_some]; exact hpre rest
      simp only []
      rw [hoff, bind_prefix, execAll_append]
      cases hb : execAll (bodyStmts q st.body) d with
      | none => simp [sameOutcome]
      | some d1 =>
        have hv1 : d1.version = some heads := by
          rw [execAll_version _ d d1 (body_not_vt q st.body hst.1.2) hb, hd]
        have := ver_all st.ver heads d1 hv1
        simp only [hm] at this
        obtain ⟨d', e1, e2, e3⟩ := this
        simp only [Option.bind_some, e1, e2]
        have hR' : Rel h' r d' d' := by
          refine Or.inl ⟨rfl, ?_⟩
          have hm1 := hmid.1
          simp only [Bool.or_eq_true, Bool.not_eq_true'] at hm1
          rcases hm1 with h | h
          · right; simpa using h
          · left; intro e; subst e; simp at h
        exact ih h' d' d' hok.2 e3 hR' hmid.2

theorem vtOk (q : Str → Bool) (hq : BareSafe q) : VtOk q := by
  refine ⟨?_, ?_⟩
  · simp only [stmtOk, stmtWf, Bool.true_and]
    have : renderStmt q .vtCreate = renderStmt (fun _ => true) .vtCreate := rfl
    rw [this]; decide
  · simp only [stmtOk, stmtWf, Bool.true_and]
    have : renderStmt q .vtDrop = renderStmt (fun _ => true) .vtDrop := rfl
    rw [this]; decide

/-- **C12.same_effect (partial form).** For every quoting policy that is safe for bare names, every
list of migration steps with bodies from the language, every version bookkeeping per step (any
list of insert / update / delete, so branched and merged plans are covered as a parameter), every
assumed start and every database whose version rows are that start: executing the offline script
statement by statement leaves the same tables, rows, indexes and version rows as the online run
(or both runs raise).  Hypotheses (`stepOk`, all decidable):
* no TAB in a rendered statement — genuinely needed: `same_effect_counterexample`, finding C12-TAB;
* the statements are statements of the language (`stmtWf`: non-empty column / value lists, user
  tables not called `alembic_version`, version numbers without `'`); that each of them is read
  back as itself is no longer assumed but proved (`reads_back`);
* `op.execute` texts are plain single statements (`plainText`);
* the head set is empty only before the first / after the last step (`midOk`) — proved for
  linear histories in `same_effect_linear_upgrade` / `same_effect_linear_downgrade`. -/
theorem same_effect_partial (q : Str → Bool) (hq : BareSafe q) (start : List Str) (steps : List Step) (db₀ : DB)
    (hsteps : steps.all (stepOk q) = true)
    (hdb : db₀.version = if start.isEmpty then none else some start)
    (hne : start.isEmpty = true → steps ≠ [])
    (hmid : midOk start steps = true) :
    sameOutcome ((offline q start steps).bind (fun script => execScript q script db₀)) (online q steps db₀) := by
  have hv : VtOk q := vtOk q hq
  -- the script executes as its statements
  have h1 : (offline q start steps).bind (fun script => execScript q script db₀) =
      (offlineStmts q start steps).bind (fun l => execAll l db₀) := by
    have := Reads_offline q hq hv steps start hsteps
    simp only [offline]
    cases hi : offlineItems q start steps <;> cases hs : offlineStmts q start steps <;> simp only [hi, hs] at this
    all_goals first
      | rfl
      | exact this.elim
      | simp [exec_script_eq q _ _ this db₀]
  rw [h1]
  cases hs : start.isEmpty with
  | false =>
    simp only [hs] at hdb
    have hne' : start ≠ [] := by intro e; subst e; simp at hs
    have : online q steps db₀ = (onlineSteps q (start, db₀) steps).map (fun s => s.2) := by
      simp [online, hdb, hs]
    rw [this]
    exact run_agree q steps start db₀ db₀ hsteps hdb (Or.inl ⟨rfl, Or.inl hne'⟩) hmid
  | true =>
    have e : start = [] := by simpa using hs
    subst e
    simp only [List.isEmpty_nil, if_true] at hdb
    have : online q steps db₀ = (onlineSteps q ([], db₀.ensureVT) steps).map (fun s => s.2) := by
      simp [online, hdb]
    rw [this]
    refine run_agree q steps [] db₀.ensureVT db₀ hsteps (by simp [DB.ensureVT, hdb]) ?_ hmid
    exact Or.inr ⟨rfl, hne rfl, by simp [execStmt, DB.vtCreate, DB.ensureVT, hdb]⟩

/-! ## linear histories: no hypothesis on the plan -/

/-- **C12.same_effect_linear_upgrade.** `upgrade --sql prev:end` over a linear history: for every
list of revisions to apply (bodies from the language, no TAB, plain `execute` texts: `revOk`),
every assumed start `prev` (`none` = base) and every database at `prev`, the offline script has
the same effect as the online upgrade.  The plan, its version statements, `midOk` and `stepOk`
are all derived, not assumed. -/
theorem same_effect_linear_upgrade (q : Str → Bool) (hq : BareSafe q) (prev : Option Str) (revs : List Rev) (db₀ : DB)
    (hrev : revs.all (revOk q) = true) (hprev : ∀ p, prev = some p → idOk p = true)
    (hdb : db₀.version = prev.map (fun p => [p])) (hne : prev = none → revs ≠ []) :
    sameOutcome ((offline q prev.toList (upSteps prev revs)).bind (fun script => execScript q script db₀))
      (online q (upSteps prev revs) db₀) := by
  refine same_effect_partial q hq prev.toList (upSteps prev revs) db₀ (stepOk_up q revs prev hprev hrev) ?_ ?_
    (midOk_up revs prev)
  · cases prev <;> simpa using hdb
  · intro he
    cases prev with
    | none =>
      cases revs with
      | nil => exact absurd rfl (hne rfl)
      | cons r rs => simp [upSteps]
    | some p => simp at he

/-- **C12.same_effect_linear_downgrade.** `downgrade --sql head:tgt` over a linear history:
for every non-empty list of revisions to revert (current head first), every target (`none` =
base) and every database at the head, the offline script has the same effect as the online
downgrade (at base the offline script drops the version table, the online run leaves it empty:
the version *rows* agree). -/
theorem same_effect_linear_downgrade (q : Str → Bool) (hq : BareSafe q) (r : Rev) (revs : List Rev) (tgt : Option Str)
    (db₀ : DB) (hrev : (r :: revs).all (revOk q) = true) (htgt : ∀ t, tgt = some t → idOk t = true)
    (hdb : db₀.version = some [r.id]) :
    sameOutcome ((offline q [r.id] (downSteps (r :: revs) tgt)).bind (fun script => execScript q script db₀))
      (online q (downSteps (r :: revs) tgt) db₀) := by
  refine same_effect_partial q hq [r.id] (downSteps (r :: revs) tgt) db₀ (stepOk_down q revs r tgt htgt hrev) ?_ ?_
    (midOk_down revs r tgt)
  · simpa using hdb
  · intro he; simp at he

theorem all_take_drop (q : Str → Bool) (h : List Rev) (i n : Nat) (hh : h.all (revOk q) = true) :
    ((h.drop i).take n).all (revOk q) = true := by
  rw [List.all_eq_true] at hh ⊢
  intro x hx
  exact hh x (List.mem_of_mem_drop (List.mem_of_mem_take hx))

theorem idOk_getElem? (q : Str → Bool) (h : List Rev) (k : Nat) (hh : h.all (revOk q) = true) :
    ∀ p, (h[k]?).map (fun r => r.id) = some p → idOk p = true := by
  intro p hp
  cases hk : h[k]? with
  | none => simp [hk] at hp
  | some r =>
    simp only [hk, Option.map_some, Option.some.injEq] at hp
    subst hp
    rw [List.all_eq_true] at hh
    have := hh r (List.mem_of_getElem? hk)
    simp only [revOk, Bool.and_eq_true] at this
    exact this.1.1

/-- **C12.same_effect_linear_range.** The same for every `start:end` range `i:j` of every linear
history `h` (positions counted from 1, `0` = base) all of whose revisions are `revOk`. -/
theorem same_effect_linear_range (q : Str → Bool) (hq : BareSafe q) (h : List Rev) (i j : Nat) (db₀ : DB)
    (hh : h.all (revOk q) = true)
    (hdb : db₀.version = (upgradeRange h i j).1.map (fun p => [p]))
    (hne : (upgradeRange h i j).1 = none → (upgradeRange h i j).2 ≠ []) :
    sameOutcome
      ((offline q (upgradeRange h i j).1.toList (upSteps (upgradeRange h i j).1 (upgradeRange h i j).2)).bind
        (fun script => execScript q script db₀))
      (online q (upSteps (upgradeRange h i j).1 (upgradeRange h i j).2) db₀) := by
  refine same_effect_linear_upgrade q hq _ _ db₀ (all_take_drop q h i (j - i) hh) ?_ hdb hne
  intro p hp
  simp only [upgradeRange] at hp
  split at hp
  · simp at hp
  · exact idOk_getElem? q h (i - 1) hh p hp

/-- the downgrade range `j:i` (`j > i`) of every linear history -/
theorem same_effect_linear_range_downgrade (q : Str → Bool) (hq : BareSafe q) (h : List Rev) (j i : Nat) (db₀ : DB)
    (r : Rev) (revs : List Rev) (hh : h.all (revOk q) = true)
    (hr : (downgradeRange h j i).1 = r :: revs) (hdb : db₀.version = some [r.id]) :
    sameOutcome
      ((offline q [r.id] (downSteps (r :: revs) (downgradeRange h j i).2)).bind (fun script => execScript q script db₀))
      (online q (downSteps (r :: revs) (downgradeRange h j i).2) db₀) := by
  refine same_effect_linear_downgrade q hq r revs _ db₀ ?_ ?_ hdb
  · rw [← hr]
    simp only [downgradeRange, List.all_reverse]
    exact all_take_drop q h i (j - i) hh
  · intro t ht
    simp only [downgradeRange] at ht
    split at ht
    · simp at ht
    · exact idOk_getElem? q h (i - 1) hh t ht

/-- non-vacuity: a two-revision history with awkward names and values satisfies `revOk`, and
    its ranges are the expected ones -/
def demoHistory : List Rev :=
  [⟨['a', '1'], [.createTable ['t', ';', '"'] [⟨['i', 'd'], .integer, false⟩, ⟨['s', ' ', 'x'], .varchar 50, true⟩]],
      [.dropTable ['t', ';', '"']]⟩,
   ⟨['b', '2'], [.bulkInsert ['t', ';', '"'] [['i', 'd'], ['s', ' ', 'x']] [[.int 1, .str ['o', '\'', ';', '-', '-', '\n']], [.int (-2), .null]]],
      [.execute ['D', 'E', 'L', 'E', 'T', 'E', ' ', 'F', 'R', 'O', 'M', ' ', 'x']]⟩]

example : demoHistory.all (revOk (fun _ => true)) = true := by decide +kernel
example : (upgradeRange demoHistory 1 2).1 = some ['a', '1'] ∧ ((upgradeRange demoHistory 1 2).2.map (fun r => r.id)) = [['b', '2']] := by
  decide +kernel
example : ((downgradeRange demoHistory 2 0).1.map (fun r => r.id)) = [['b', '2'], ['a', '1']] ∧ (downgradeRange demoHistory 2 0).2 = none := by
  decide +kernel

/-- the full-strength statement: `same_effect_partial` without the "no TAB" hypothesis
    (`stepOk` replaced by its TAB-free-less variant is what the property text asks for) -/
def same_effect_statement : Prop :=
  ∀ (q : Str → Bool), BareSafe q → ∀ (start : List Str) (steps : List Step) (db₀ : DB),
    db₀.version = (if start.isEmpty then none else some start) → (start.isEmpty = true → steps ≠ []) →
    midOk start steps = true →
    sameOutcome ((offline q start steps).bind (fun script => execScript q script db₀)) (online q steps db₀)

/-- witness of finding C12-TAB: one revision creating `t (s TEXT)` and inserting the value `a<TAB>b` -/
def tabWitness : List Step :=
  [⟨['u'], [.createTable ['t'] [⟨['s'], .text, true⟩], .bulkInsert ['t'] [['s']] [[.str ['a', '\t', 'b']]]],
    [.insert ['r']]⟩]

/-- **C12.same_effect_counterexample** (known finding C12-TAB): `_exec` replaces TABs in the whole
statement, string literals included, so the offline script inserts `a    b` where the online run
inserts `a<TAB>b`. -/
theorem same_effect_counterexample :
    ¬ sameOutcome ((offline (fun _ => true) [] tabWitness).bind (fun script => execScript (fun _ => true) script DB.empty))
      (online (fun _ => true) tabWitness DB.empty) := by
  rw [← sameOutcomeB_iff]
  decide +kernel

set_option maxRecDepth 8192 in
theorem same_effect_statement_false : ¬ same_effect_statement := by
  intro h
  have hb : BareSafe (fun _ => true) := fun n hn => by simp at hn
  have h1 : DB.empty.version = (if ([] : List Str).isEmpty then none else some []) := rfl
  have h2 : ([] : List Str).isEmpty = true → tabWitness ≠ [] := fun _ => by simp [tabWitness]
  have h3 : midOk [] tabWitness = true := by decide +kernel
  exact same_effect_counterexample (h _ hb [] tabWitness DB.empty h1 h2 h3)

/-- non-vacuity of `same_effect_partial`: the same migration with a TAB-free value satisfies
    every hypothesis -/
example : [⟨['u'], [.createTable ['t'] [⟨['s'], .text, true⟩], .bulkInsert ['t'] [['s']] [[.str ['a', ';', '\'', 'b']]]],
    [.insert ['r']]⟩].all (stepOk (fun _ => true)) = true := by decide +kernel


/-! ## every plan of every history: `midOk` derived from the bookkeeping invariant of C03 -/
open Model.Rev (LMap Id runSteps updateToStep applyStmts applyStmt stepStmts)

/-- the version-table statement of the bookkeeping model (`Model.Rev`, property C03) as a version
    operation of the script model -/
def verOf : Model.Rev.Stmt → VerOp
  | .ins v => .insert v.toList
  | .del v => .delete v.toList
  | .upd a b => .update a.toList b.toList

/-- the version operations of each step of a run, as `HeadMaintainer.update_to_step` issues them
    from the rows it finds -/
def verLists (m : LMap) : List Id → List Model.Rev.Step → List (List VerOp)
  | _, [] => []
  | rows, s :: r =>
    match updateToStep m rows s with
    | .ok (rows', st) => st.map verOf :: verLists m rows' r
    | .error _ => []

/-- the head set of the script model and the rows of the bookkeeping model hold the same ids -/
def SameSet (h : List Str) (rows : List Id) : Prop := ∀ x : Id, x.toList ∈ h ↔ x ∈ rows

theorem sameSet_nonempty {h : List Str} {rows : List Id} (hs : SameSet h rows) (hne : rows ≠ []) : h.isEmpty = false := by
  cases rows with
  | nil => exact absurd rfl hne
  | cons x r =>
    have : x.toList ∈ h := (hs x).mpr List.mem_cons_self
    cases h with
    | nil => simp at this
    | cons _ _ => rfl

theorem hmStep_apply {h : List Str} {rows rows' : List Id} (hs : SameSet h rows) (st : Model.Rev.Stmt)
    (ha : applyStmt rows st = .ok rows') : ∃ h', hmStep h (verOf st) = some h' ∧ SameSet h' rows' := by
  cases st with
  | ins v =>
    simp only [applyStmt, Model.Rev.insertVersion] at ha
    split at ha
    · simp at ha
    · rename_i hv
      simp only [Except.ok.injEq] at ha; subst ha
      have hv' : v.toList ∉ h := fun hh => hv ((hs v).mp hh)
      refine ⟨h ++ [v.toList], by simp [verOf, hmStep, hv'], ?_⟩
      intro x
      simp only [List.mem_append, List.mem_singleton, String.toList_inj, hs x]
  | del v =>
    simp only [applyStmt, Model.Rev.deleteVersion] at ha
    split at ha
    · rename_i hv
      simp only [Except.ok.injEq] at ha; subst ha
      have hv' : v.toList ∈ h := (hs v).mpr hv
      refine ⟨h.filter (fun x => x ≠ v.toList), by simp [verOf, hmStep, hv'], ?_⟩
      intro x
      simp only [List.mem_filter, hs x, ne_eq, decide_not, Bool.not_eq_eq_eq_not, Bool.not_true, decide_eq_false_iff_not,
        String.toList_inj, bne_iff_ne]
    · simp at ha
  | upd a b =>
    simp only [applyStmt, Model.Rev.updateVersion] at ha
    split at ha
    · simp at ha
    · rename_i hb
      split at ha
      · rename_i hain
        simp only [Except.ok.injEq] at ha; subst ha
        have hb' : b.toList ∉ h := fun hh => hb ((hs b).mp hh)
        have ha' : a.toList ∈ h := (hs a).mpr hain
        refine ⟨h.map (fun x => if x = a.toList then b.toList else x), by simp [verOf, hmStep, hb', ha'], ?_⟩
        intro x
        simp only [List.mem_map, List.mem_append, List.mem_filter, List.mem_singleton, bne_iff_ne, ne_eq]
        constructor
        · rintro ⟨y, hy, hyx⟩
          by_cases e : y = a.toList
          · simp only [e, if_true] at hyx
            exact Or.inr (String.toList_inj.mp hyx.symm)
          · simp only [e, if_false] at hyx
            subst hyx
            exact Or.inl ⟨(hs x).mp hy, fun e2 => e (by rw [e2])⟩
        · rintro (⟨hx, hxa⟩ | rfl)
          · exact ⟨x.toList, (hs x).mpr hx, by simp [String.toList_inj, hxa]⟩
          · exact ⟨a.toList, ha', by simp⟩
      · simp at ha

theorem hmAll_apply : ∀ (sts : List Model.Rev.Stmt) {h : List Str} {rows rows' : List Id}, SameSet h rows →
    applyStmts rows sts = .ok rows' → ∃ h', hmAll h (sts.map verOf) = some h' ∧ SameSet h' rows'
  | [], h, rows, rows', hs, ha => by
    simp only [applyStmts, Except.ok.injEq] at ha; subst ha
    exact ⟨h, rfl, hs⟩
  | st :: r, h, rows, rows', hs, ha => by
    simp only [applyStmts] at ha
    cases h1 : applyStmt rows st with
    | error e => simp [h1] at ha
    | ok rows1 =>
      simp only [h1] at ha
      obtain ⟨h1', e1, s1⟩ := hmStep_apply hs st h1
      obtain ⟨h2, e2, s2⟩ := hmAll_apply r s1 ha
      exact ⟨h2, by simp [hmAll, e1, e2], s2⟩

/-- **From the bookkeeping run to the script model**: if the bookkeeping model records a plan
without a failing statement and the version table is non-empty after every step but the last,
then the same version operations satisfy `midOk` in the script model. -/
theorem midOk_of_run (m : LMap) : ∀ (steps : List Model.Rev.Step) (R : List Id) (tr : List (List Id)) (h0 : List Str)
    (osteps : List Step), runSteps m R steps = .ok tr → SameSet h0 R →
    osteps.map (·.ver) = verLists m R steps → (∀ rows ∈ tr.dropLast, rows ≠ []) → midOk h0 osteps = true := by
  intro steps
  induction steps with
  | nil =>
    intro R tr h0 osteps _ _ hv _
    cases osteps with
    | nil => rfl
    | cons o os => simp [verLists] at hv
  | cons s rest ih =>
    intro R tr h0 osteps hrun hs hv hne
    simp only [runSteps] at hrun
    cases hu : updateToStep m R s with
    | error e => simp [hu] at hrun
    | ok pr =>
      obtain ⟨rows', st⟩ := pr
      simp only [hu] at hrun
      cases hr : runSteps m rows' rest with
      | error e => simp [hr] at hrun
      | ok tr' =>
        simp only [hr, Except.ok.injEq] at hrun
        subst hrun
        simp only [verLists, hu] at hv
        cases osteps with
        | nil => simp at hv
        | cons o os =>
          simp only [List.map_cons, List.cons.injEq] at hv
          obtain ⟨hov, hosv⟩ := hv
          -- the statements of this step, applied
          have happ : applyStmts R st = .ok rows' := by
            unfold updateToStep at hu
            cases h1 : stepStmts m R s with
            | error e => simp [h1] at hu
            | ok st1 =>
              simp only [h1] at hu
              cases h2 : applyStmts R st1 with
              | error e => simp [h2] at hu
              | ok r2 =>
                simp only [h2, Except.ok.injEq, Prod.mk.injEq] at hu
                obtain ⟨e1, e2⟩ := hu
                subst e1; subst e2; exact h2
          obtain ⟨h', eh, sh⟩ := hmAll_apply st hs happ
          simp only [midOk, hov, eh]
          have hrec := ih rows' tr' h' os hr sh hosv (by
            intro rows hrows
            apply hne
            cases tr' with
            | nil => simp at hrows
            | cons t ts => simp only [List.dropLast_cons_cons, List.mem_cons]; exact Or.inr hrows)
          simp only [hrec, Bool.and_true, Bool.or_eq_true, List.isEmpty_iff, Bool.not_eq_true']
          by_cases hos : os = []
          · exact Or.inl hos
          · right
            -- more steps follow, so `rows'` is not the last entry of the trace
            have hrest : rest ≠ [] := by
              intro e; subst e; simp [verLists] at hosv; exact hos hosv
            have htr' : tr' ≠ [] := by
              intro e; subst e
              cases rest with
              | nil => exact hrest rfl
              | cons s2 r2 =>
                simp only [runSteps] at hr
                cases h3 : updateToStep m rows' s2 with
                | error e => simp [h3] at hr
                | ok p3 =>
                  simp only [h3] at hr
                  cases h4 : runSteps m p3.1 r2 with
                  | error e => simp [h4] at hr
                  | ok t4 => simp [h4] at hr
            have : rows' ≠ [] := by
              apply hne
              cases tr' with
              | nil => exact absurd rfl htr'
              | cons t ts => simp
            exact sameSet_nonempty sh this

open Lemmas.Rev C03

theorem sameSet_map (R : List Id) : SameSet (R.map String.toList) R := by
  intro x
  simp only [List.mem_map, String.toList_inj]
  constructor
  · rintro ⟨y, hy, rfl⟩; exact hy
  · intro hx; exact ⟨x, hx, rfl⟩

/-- after every step of an upgrade the version table is non-empty -/
theorem trace_nonempty_up {m : LMap} (L : Loaded m) : ∀ (plan A : List Id) (tr : List (List Id)),
    TraceInv m A (plan.map (·, true)) tr → ∀ rows ∈ tr, rows ≠ [] := by
  intro plan
  induction plan with
  | nil =>
    intro A tr h rows hr
    cases tr with
    | nil => simp at hr
    | cons _ _ => simp [TraceInv] at h
  | cons r rest ih =>
    intro A tr h rows hr
    cases tr with
    | nil => simp [TraceInv] at h
    | cons t ts =>
      simp only [List.map_cons, TraceInv, if_true] at h
      obtain ⟨inv, hrest⟩ := h
      rcases List.mem_cons.mp hr with rfl | hr'
      · obtain ⟨hmx, hmax, _⟩ := exists_max_above L (r :: A) r List.mem_cons_self
        intro e
        have := (inv.rows hmx).mpr hmax
        rw [e] at this; simp at this
      · exact ih (r :: A) ts hrest rows hr'

/-- during a downgrade the version table is empty at most after the last step -/
theorem trace_nonempty_down {m : LMap} (L : Loaded m) : ∀ (plan A : List Id) (tr : List (List Id)), plan.Nodup →
    (∀ x ∈ plan, x ∈ A) → TraceInv m A (plan.map (·, false)) tr → ∀ rows ∈ tr.dropLast, rows ≠ [] := by
  intro plan
  induction plan with
  | nil =>
    intro A tr _ _ h rows hr
    cases tr with
    | nil => simp at hr
    | cons _ _ => simp [TraceInv] at h
  | cons r rest ih =>
    intro A tr hnd hsub h rows hr
    cases tr with
    | nil => simp [TraceInv] at h
    | cons t ts =>
      simp only [List.map_cons, TraceInv, Bool.false_eq_true, if_false] at h
      obtain ⟨inv, hrest⟩ := h
      have hnd' := (List.nodup_cons.mp hnd)
      have hsub' : ∀ x ∈ rest, x ∈ A.filter (· != r) := by
        intro x hx
        refine List.mem_filter.mpr ⟨hsub x (List.mem_cons_of_mem _ hx), ?_⟩
        simp only [bne_iff_ne, ne_eq]
        intro e; subst e; exact hnd'.1 hx
      cases ts with
      | nil => simp at hr
      | cons t2 ts2 =>
        simp only [List.dropLast_cons_cons, List.mem_cons] at hr
        rcases hr with rfl | hr'
        · -- more steps follow: some revision of the plan is still applied
          cases rest with
          | nil => simp [TraceInv] at hrest
          | cons x xs =>
            have hxA := hsub' x List.mem_cons_self
            obtain ⟨hmx, hmax, _⟩ := exists_max_above L _ x hxA
            intro e
            have := (inv.rows hmx).mpr hmax
            rw [e] at this; simp at this
        · exact ih (A.filter (· != r)) (t2 :: ts2) hnd'.2 hsub' hrest rows (by simpa using hr')

/-- **`midOk` for every upgrade plan**: whatever the history (branches, merge points, several
roots, dependencies), from a version table consistent with the applied set, the version
operations of the plan Alembic computes leave the head set non-empty after every step. -/
theorem midOk_upgrade_plan {m : LMap} (L : Loaded m) {A R targets plan : List Id} (inv : RowsInv m A R)
    (hplan : C01.UpgradePlan m R targets plan) (osteps : List Step)
    (hv : osteps.map (·.ver) = verLists m R (plan.map (Model.Rev.Step.rev · true))) :
    midOk (R.map String.toList) osteps = true := by
  obtain ⟨tr, hrun, htr⟩ := upgrade_run L inv hplan
  exact midOk_of_run m _ R tr _ osteps hrun (sameSet_map R) hv
    (fun rows hr => trace_nonempty_up L plan A tr htr rows (List.dropLast_subset tr hr))

/-- **`midOk` for every downgrade plan**: the head set becomes empty at most after the last step. -/
theorem midOk_downgrade_plan {m : LMap} (L : Loaded m) {A R roots plan : List Id} (inv : RowsInv m A R)
    (hplan : C02.DowngradePlan m R roots plan) (osteps : List Step)
    (hv : osteps.map (·.ver) = verLists m R (plan.map (Model.Rev.Step.rev · false))) :
    midOk (R.map String.toList) osteps = true := by
  obtain ⟨tr, hrun, htr⟩ := downgrade_run L inv hplan
  refine midOk_of_run m _ R tr _ osteps hrun (sameSet_map R) hv
    (trace_nonempty_down L plan A tr hplan.nodup ?_ htr)
  intro x hx
  exact (applied_iff_requires L inv x).mpr ((hplan.exact x).mp hx).2

/-- **C12.same_effect_upgrade_plan.** `upgrade --sql` over ANY history: for every loaded revision
map (branches, merge points, several roots, dependencies), every version table `R` consistent
with an applied set, every plan Alembic computes for it (`C01.UpgradePlan`), and every list of
script steps whose version operations are the ones `HeadMaintainer` issues along that plan
(bodies, comments arbitrary but `stepOk`): executing the offline script statement by statement
has the same effect as the online run.  `midOk` is derived (from C03's invariant), not assumed. -/
theorem same_effect_upgrade_plan (q : Str → Bool) (hq : BareSafe q) {m : LMap} (L : Loaded m) {A R targets plan : List Id}
    (inv : RowsInv m A R) (hplan : C01.UpgradePlan m R targets plan) (osteps : List Step) (db₀ : DB)
    (hsteps : osteps.all (stepOk q) = true)
    (hv : osteps.map (·.ver) = verLists m R (plan.map (Model.Rev.Step.rev · true)))
    (hdb : db₀.version = if (R.map String.toList).isEmpty then none else some (R.map String.toList))
    (hne : (R.map String.toList).isEmpty = true → osteps ≠ []) :
    sameOutcome ((offline q (R.map String.toList) osteps).bind (fun script => execScript q script db₀)) (online q osteps db₀) :=
  same_effect_partial q hq _ osteps db₀ hsteps hdb hne (midOk_upgrade_plan L inv hplan osteps hv)

/-- **C12.same_effect_downgrade_plan.** The same for `downgrade --sql` and every plan Alembic
computes (`C02.DowngradePlan`). -/
theorem same_effect_downgrade_plan (q : Str → Bool) (hq : BareSafe q) {m : LMap} (L : Loaded m) {A R roots plan : List Id}
    (inv : RowsInv m A R) (hplan : C02.DowngradePlan m R roots plan) (osteps : List Step) (db₀ : DB)
    (hsteps : osteps.all (stepOk q) = true)
    (hv : osteps.map (·.ver) = verLists m R (plan.map (Model.Rev.Step.rev · false)))
    (hdb : db₀.version = if (R.map String.toList).isEmpty then none else some (R.map String.toList))
    (hne : (R.map String.toList).isEmpty = true → osteps ≠ []) :
    sameOutcome ((offline q (R.map String.toList) osteps).bind (fun script => execScript q script db₀)) (online q osteps db₀) :=
  same_effect_partial q hq _ osteps db₀ hsteps hdb hne (midOk_downgrade_plan L inv hplan osteps hv)


/-! non-vacuity: two roots and a merge (`a`, `b`, `c <- (a, b)`): the version operations of `upgrade heads` from the empty
    table are insert, insert, (delete + update), and `midOk` holds for them -/
def exMerge : Model.Rev.Hist := [⟨"a", [], [], []⟩, ⟨"b", [], [], []⟩, ⟨"c", ["a", "b"], [], []⟩]

example : (match Model.Rev.load exMerge with
    | .ok m =>
      let vl := verLists m [] (["a", "b", "c"].map (Model.Rev.Step.rev · true))
      decide (vl = [[.insert "a".toList], [.insert "b".toList], [.delete "a".toList, .update "b".toList "c".toList]]) &&
        midOk [] (vl.map (fun v => { comment := [], body := [], ver := v }))
    | .error _ => false) = true := by decide +kernel

/-! ## the framed script (BEGIN / COMMIT written by `begin_transaction`, including the frame closed after `run_migrations`) -/

open Model.Txn (Cfg emitsBlock)

/-- **C12.frame_transparent.** For every framing C18 allows (`Model.Txn.emitsBlock`: one block around the whole
script, one block per migration section, or none), every list of sections and every trailer: replaying the framed
script on a database with transactions leaves durably exactly what replaying the bare statements leaves, and no
transaction open (or both replays raise). -/
theorem frame_transparent (cfg : Cfg) (secs : List (List Stmt)) (tr : List Stmt) (db : DB) :
    execF (framed cfg secs tr) ⟨db, none⟩ = (execAll (secs.flatten ++ tr) db).map (fun d => ⟨d, none⟩) :=
  execF_framed cfg secs tr db

/-- **C12.unclosed_frame_loses.** What an incomplete script loses (seed C12-m: the trailing `COMMIT;` written after
`run_migrations` returned never reached the buffer): a `BEGIN` that no `COMMIT` closes makes the whole replay
non-durable - the database is what it was. -/
theorem unclosed_frame_loses (l : List Stmt) (db w : DB) (h : execAll l db = some w) :
    durable (execF (FStmt.begin :: stmtsF l) ⟨db, none⟩) = some db := by
  have := execF_open l [] db db
  simp only [List.append_nil] at this
  simp [execF, this, h, durable]

/-- the text script executes as the statements of its sections (first half of `same_effect_partial`) -/
theorem script_as_stmts (q : Str → Bool) (hq : BareSafe q) (start : List Str) (steps : List Step) (db₀ : DB)
    (hsteps : steps.all (stepOk q) = true) :
    (offline q start steps).bind (fun script => execScript q script db₀) =
      (offlineStmts q start steps).bind (fun l => execAll l db₀) := by
  have := Reads_offline q hq (vtOk q hq) steps start hsteps
  simp only [offline]
  cases hi : offlineItems q start steps <;> cases hs : offlineStmts q start steps <;> simp only [hi, hs] at this
  all_goals first
    | rfl
    | exact this.elim
    | simp [exec_script_eq q _ _ this db₀]

/-- **C12.same_effect_framed.** The statement of `same_effect_partial` for the WHOLE script as `--sql` writes it under
any `transactional_ddl` / `transaction_per_migration` setting: sections (CREATE of the version table, migration body,
version statements) in the blocks `begin_transaction` opens and closes - including the enclosing block that is closed
only after `run_migrations` has returned - and the trailing DROP of the version table.  What is durable after replaying
the framed script equals the result of the online run (or both raise). -/
theorem same_effect_framed (cfg : Cfg) (q : Str → Bool) (hq : BareSafe q) (start : List Str) (steps : List Step) (db₀ : DB)
    (hsteps : steps.all (stepOk q) = true)
    (hdb : db₀.version = if start.isEmpty then none else some start)
    (hne : start.isEmpty = true → steps ≠ [])
    (hmid : midOk start steps = true) :
    sameOutcome
      ((offlineSections q start steps).bind (fun p => durable (execF (framed cfg p.1 p.2) ⟨db₀, none⟩)))
      (online q steps db₀) := by
  have h := same_effect_partial q hq start steps db₀ hsteps hdb hne hmid
  rw [script_as_stmts q hq start steps db₀ hsteps, ← offlineSections_flat q steps start] at h
  have e : (offlineSections q start steps).bind (fun p => durable (execF (framed cfg p.1 p.2) ⟨db₀, none⟩)) =
      ((offlineSections q start steps).map (fun p => p.1.flatten ++ p.2)).bind (fun l => execAll l db₀) := by
    cases offlineSections q start steps with
    | none => rfl
    | some p =>
      simp only [Option.bind_some, Option.map_some, frame_transparent, durable]
      cases execAll (p.1.flatten ++ p.2) db₀ <;> rfl
  rw [e]
  exact h

/-- non-vacuity: a two-section script in each of the three framings replays to the same durable database, and the
    same script without its closing COMMIT leaves nothing -/
def exSecs : List (List Stmt) :=
  [[.vtCreate, .createTable ['t'] [⟨['i'], .integer, true⟩], .vtInsert ['a']], [.insert ['t'] [['i']] [.int 1], .vtUpdate ['a'] ['b']]]

example : [({ tddl := true, perMig := false } : Cfg), { tddl := true, perMig := true }, { tddl := false, perMig := false }].all (fun cfg =>
    durable (execF (framed cfg exSecs []) ⟨DB.empty, none⟩) == execAll exSecs.flatten DB.empty) = true := by decide +kernel
example : (execAll exSecs.flatten DB.empty).isSome = true ∧
    durable (execF (FStmt.begin :: stmtsF exSecs.flatten) ⟨DB.empty, none⟩) = some DB.empty := by decide +kernel
example : framed { tddl := true, perMig := false } [[.vtDrop]] [] = [.begin, .stmt .vtDrop, .commit] ∧
    framed { tddl := true, perMig := true } [[.vtCreate]] [.vtDrop] = [.begin, .stmt .vtCreate, .commit, .stmt .vtDrop] := by decide

/-! ## the framing C18's model emits is one of the placements `framed` allows -/

open Spec.Txn (markers pairs totalAuto autoSections)
open Model.Txn (runToks loopToks migToks innerToks bodyToks segToks Mig Seg)

abbrev TTok := Model.Txn.Tok

theorem fmarkers_append (a b : List FStmt) : fmarkers (a ++ b) = fmarkers a ++ fmarkers b := by
  induction a with
  | nil => rfl
  | cons x r ih => cases x <;> simp [fmarkers, ih]

theorem fmarkers_stmtsF (l : List Stmt) : fmarkers (stmtsF l) = [] := by
  induction l with
  | nil => rfl
  | cons s r ih => simpa [stmtsF, fmarkers] using ih

/-- markers of `k` blocks, or none -/
def blocks (b : Bool) (k : Nat) : List TTok := if b then pairs k else []

/-- an enclosing block around inner markers, or none -/
def around (b : Bool) (inner : List TTok) : List TTok := if b then Model.Txn.Tok.begin :: (inner ++ [Model.Txn.Tok.commit]) else inner

theorem fmarkers_bodyF (cfg : Cfg) (secs : List (List Stmt)) :
    fmarkers (bodyF cfg secs) = blocks (emitsBlock cfg true) secs.length := by
  induction secs with
  | nil => cases h : emitsBlock cfg true <;> simp [bodyF, fmarkers, blocks, h, pairs]
  | cons sec r ih =>
    cases h : emitsBlock cfg true <;>
      simp_all [bodyF, wrap, fmarkers_append, fmarkers_stmtsF, fmarkers, blocks, pairs]

theorem fmarkers_framed (cfg : Cfg) (secs : List (List Stmt)) (tr : List Stmt) :
    fmarkers (framed cfg secs tr) = around (emitsBlock cfg false) (blocks (emitsBlock cfg true) secs.length) := by
  cases h : emitsBlock cfg false <;>
    simp [framed, wrap, h, around, fmarkers_append, fmarkers_bodyF, fmarkers_stmtsF, fmarkers]

theorem markers_nil : markers ([] : List TTok) = [] := rfl

theorem markers_cons (t : TTok) (r : List TTok) :
    markers (t :: r) = if Spec.Txn.isMarker t then t :: markers r else markers r := by
  simp only [markers, List.filter_cons]

theorem markers_replicate (n : Nat) (t : TTok) (h : Spec.Txn.isMarker t = false) : markers (List.replicate n t) = [] := by
  simp only [markers, List.filter_eq_nil_iff]
  intro x hx
  rw [List.eq_of_mem_replicate hx]
  simp [h]

theorem markers_body (cfg : Cfg) (i : Nat) (segs : List Seg) (h : autoSections segs = 0) :
    markers (bodyToks cfg i segs) = [] := by
  induction segs with
  | nil => rfl
  | cons sg r ih =>
    cases sg with
    | auto n => simp [autoSections] at h
    | plain n =>
      simp only [autoSections] at h
      simp [bodyToks, segToks, C18.markers_append, markers_replicate n (Model.Txn.Tok.stmt i) rfl, ih h]

theorem markers_mig (cfg : Cfg) (i : Nat) (m : Mig) (h : autoSections m.segs = 0) :
    markers (migToks cfg i m) = blocks (emitsBlock cfg true) 1 := by
  have hin : markers (innerToks cfg i m) = [] := by
    cases hc : m.createVT <;>
      simp [innerToks, hc, C18.markers_append, markers_body cfg i m.segs h,
        markers_replicate m.nver (Model.Txn.Tok.version i) rfl, Spec.Txn.isMarker, markers_cons, markers_nil]
  cases hb : emitsBlock cfg true <;>
    simp [migToks, hb, blocks, pairs, C18.markers_append, hin, markers_cons, markers_nil, Spec.Txn.isMarker]

theorem pairs_add (a b : Nat) : pairs a ++ pairs b = pairs (a + b) := by
  induction a with
  | zero => simp [pairs]
  | succ a ih => simp [pairs, Nat.succ_add, ih]

theorem markers_loop (cfg : Cfg) : ∀ (migs : List Mig) (i : Nat), totalAuto migs = 0 →
    markers (loopToks cfg i migs) = blocks (emitsBlock cfg true) migs.length := by
  intro migs
  induction migs with
  | nil => intro i _; cases h : emitsBlock cfg true <;> simp [loopToks, markers_nil, blocks, h, pairs]
  | cons m r ih =>
    intro i h
    simp only [totalAuto] at h
    have h1 : autoSections m.segs = 0 := by omega
    have h2 : totalAuto r = 0 := by omega
    rw [loopToks, C18.markers_append, markers_mig cfg i m h1, ih (i + 1) h2]
    cases hb : emitsBlock cfg true
    · simp [blocks]
    · simp only [blocks, if_true, List.length_cons]
      rw [pairs_add]; congr 1; omega

/-- **C12.c18_framing_is_framed.** For every configuration and every run of C18's framing model without autocommit
sections: the BEGIN / COMMIT markers of the script the C18 model emits are exactly the markers of C12's `framed`
script for the same configuration and the same number of sections - an enclosing block, one block per migration
section, or none (`around`/`blocks` name the three placements).  Hence `same_effect_framed` speaks about every script
C18's model emits for such runs. -/
theorem c18_framing_is_framed (cfg : Cfg) (migs : List Mig) (dropVT : Bool) (hauto : totalAuto migs = 0)
    (secs : List (List Stmt)) (tr : List Stmt) (hlen : secs.length = migs.length) :
    markers (runToks cfg migs dropVT) = fmarkers (framed cfg secs tr) ∧
      fmarkers (framed cfg secs tr) = around (emitsBlock cfg false) (blocks (emitsBlock cfg true) migs.length) := by
  have hr : markers (runToks cfg migs dropVT) = around (emitsBlock cfg false) (blocks (emitsBlock cfg true) migs.length) := by
    have hl := markers_loop cfg migs 0 hauto
    cases hb : emitsBlock cfg false <;> cases dropVT <;>
      simp [runToks, hb, around, C18.markers_append, hl, markers_cons, markers_nil, Spec.Txn.isMarker]
  rw [fmarkers_framed, hlen]
  exact ⟨hr, rfl⟩

/-- non-vacuity: a per-migration run of C18's model and C12's framed script of two sections plus trailer -/
example : markers (runToks { tddl := true, perMig := true } [⟨[.plain 2], 1, true⟩, ⟨[], 2, false⟩] true) =
    fmarkers (framed { tddl := true, perMig := true } [[.vtCreate, .vtInsert ['a']], [.vtUpdate ['a'] ['b']]] [.vtDrop]) := by
  decide

end C12
