import Spec.Offline
import Lemmas.Offline.Split
/-!
# C12 — the offline SQL script has the same effect as the online run
-/
namespace C12
open Model.Offline Lemmas.Offline

/-- **C12.split.** Splitting an emitted script at the command terminator outside string
literals, quoted identifiers and comments recovers exactly the emitted statements, for
every list of `static_output` items whose statement texts are lexically closed (all quotes
closed, no terminator / comment outside them) — whatever the literals and quoted identifiers
contain (`;`, `--`, newlines, quotes, any Unicode). -/
theorem split (items : List Item) (h : ∀ i ∈ items, itemOk i = true) :
    Model.Offline.split (emit items) = stmtsOf items := by
  unfold Model.Offline.split
  rw [foldl_emit items [] h]
  simp [finish, curOf]

end C12
