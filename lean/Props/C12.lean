import Spec.Offline
import Lemmas.Offline.Split
import Lemmas.Offline.Literal
import Lemmas.Offline.Run
import Lemmas.Offline.Linear
/-!
# C12 — the offline SQL script has the same effect as the online run
-/
namespace C12
open Model.Offline Lemmas.Offline Spec.Offline

/-- **C12.split.** Splitting an emitted script at the command terminator outside string
literals, quoted identifiers and comments recovers exactly the emitted statements, for
every list of `static_output` items whose statement texts are lexically closed (all quotes
closed, no terminator / comment outside them) — whatever the literals and quoted identifiers
contain (`;`, `--`, newlines, quotes, any Unicode). -/
theorem split (items : List Item) (h : ∀ i ∈ items, itemOk i = true) :
    Model.Offline.split (emit items) = stmtsOf items := by
  unfold Model.Offline.split
  rw [foldl_emit items [] h]
  simp [finish, curOf]

/-- **C12.literal.** Reading back a rendered literal gives the value: for NULL, every integer
and **every** string (any characters: quotes, `;`, `--`, newlines, backslashes, non-ASCII). -/
theorem literal (v : Val) : parseLiteral (renderLit v) = some v := by
  cases v with
  | null => decide
  | int i =>
    cases i with
    | ofNat n =>
      have h := parseInt_renderInt (Int.ofNat n)
      simp only [renderInt] at h
      simp [parseLiteral, renderLit, renderInt, lex_natDigits, litOf, natDigits_ne_NULL, h]
    | negSucc n =>
      have h := parseInt_renderInt (Int.negSucc n)
      simp only [renderInt] at h
      have hne : ('-' :: natDigits (n + 1)) ≠ k_NULL := by simp [k_NULL]
      simp [parseLiteral, renderLit, renderInt, lex_neg, litOf, hne, h]
  | str s => simp [parseLiteral, renderLit, lex_str, litOf]

/-- non-vacuity: an awkward string survives, and the reader rejects an unterminated literal -/
example : parseLiteral (renderLit (.str ['o', '\'', 'b', ';', '\n', '-', '-', 'x', '\\', 'é'])) =
    some (.str ['o', '\'', 'b', ';', '\n', '-', '-', 'x', '\\', 'é']) := by decide
example : renderLit (.str ['o', '\'', 'b']) = ['\'', 'o', '\'', '\'', 'b', '\''] := by decide
example : parseLiteral ['\'', 'a'] = none := by decide

/-! ## statements are recovered and read back -/

/-- **C12.closed.** Every statement of the language renders to a lexically closed text — for
every table / column / index name and every value (strings with `;`, `--`, quotes, newlines …):
so `C12.split` applies to every script the offline interpreter can emit. -/
theorem closed (q : Str → Bool) (hq : BareSafe q) (s : Stmt) (h : isOther s = false) :
    Closed (renderStmt q s) = true := closed_stmt q hq s h

/-- **C12.lex_roundtrip.** The reader's lexer gives back exactly the tokens that were rendered
(names, literals, keywords), for every statement of the language. -/
theorem lex_roundtrip (q : Str → Bool) (hq : BareSafe q) (s : Stmt) :
    lex (flat (stmtP q s)) = toks (stmtP q s) := lex_stmtP q hq s

/-- SQLite's quoting policy satisfies the assumption made on `q` -/
theorem sqlite_bareSafe : BareSafe sqliteNeedsQuote := by
  intro n h
  simp only [sqliteNeedsQuote, Bool.or_eq_false_iff, Bool.not_eq_false'] at h
  obtain ⟨⟨⟨_, h2⟩, h3⟩, _⟩ := h
  refine ⟨?_, h3⟩
  cases n with
  | nil => simp at h2
  | cons c r =>
    simp only [List.all_cons, Bool.and_eq_true] at h3
    simp [validWord, h3.1, h3.2]

/-- **C12.reads_back_vt.** The version-table statements (CREATE / DROP / INSERT / UPDATE /
DELETE with `literal_column("'%s'" % version)`) are read back as themselves, for every version
string without a quote character (they are pasted unescaped). -/
theorem reads_back_vt (q : Str → Bool) (hq : BareSafe q) (s : Stmt) (hv : isVt s = true) :
    parseStmt q (renderStmt q s) = s := parse_vt q hq s hv

/-- **C12.reads_back.** Every statement of the language — CREATE TABLE with any columns, DROP
TABLE, ALTER TABLE … ADD COLUMN, CREATE INDEX, DROP INDEX, INSERT … VALUES with any values
(NULL, integers, arbitrary strings), and the version-table statements — is read back from its
rendered text as exactly itself, for every name (quoted or bare, any characters) and every
quoting policy that is safe for bare names.  `stmtWf` only asks for non-empty column / value
lists and user tables not named `alembic_version`. -/
theorem reads_back (q : Str → Bool) (hq : BareSafe q) (s : Stmt) (h : stmtWf s = true) :
    parseStmt q (renderStmt q s) = s := parse_render q hq s h

/-- non-vacuity / the reader rejects what is not a statement of the language -/
example : stmtWf (.insert ['t'] [['a'], ['b']] [.null, .str ['x', '\'', ';']]) = true := by decide
example : parseStmt (fun _ => true) ['D', 'R', 'O', 'P', ' ', 'x'] = .other ['D', 'R', 'O', 'P', ' ', 'x'] := by
  decide +kernel

/-! ## same effect -/

theorem bind_prefix (o : Option (List Stmt)) (pre : List Stmt) (d : DB) :
    (o.map (fun rest => pre ++ rest)).bind (fun l => execAll l d) =
    (execAll pre d).bind (fun d' => o.bind (fun l => execAll l d')) := by
  cases o with
  | none => cases execAll pre d <;> rfl
  | some rest => simp only [Option.map_some, Option.bind_some, execAll_append]

theorem sameOutcome_refl (a : Option DB) : sameOutcome a a := by
  cases a <;> simp [sameOutcome, sameDb]

/-- where the two runs stand before a step: the same database whose version rows are the
tracked heads, or (only before the first step of a run from base) the offline database still
lacks the version table the online run has already created -/
def Rel (heads : List Str) (steps : List Step) (dOff d : DB) : Prop :=
  (dOff = d ∧ (heads ≠ [] ∨ steps = [])) ∨ (heads = [] ∧ steps ≠ [] ∧ execStmt .vtCreate dOff = some d)

theorem run_agree (q : Str → Bool) (steps : List Step) : ∀ (heads : List Str) (d dOff : DB),
    steps.all (stepOk q) = true → d.version = some heads → Rel heads steps dOff d → midOk heads steps = true →
    sameOutcome ((offlineStmts q heads steps).bind (fun l => execAll l dOff))
      ((onlineSteps q (heads, d) steps).map (fun s => s.2)) := by
  induction steps with
  | nil =>
    intro heads d dOff _ hd hR _
    rcases hR with ⟨e, _⟩ | ⟨_, h, _⟩
    · subst e
      simp only [offlineStmts, onlineSteps, Option.bind_some, Option.map_some]
      split
      · rename_i he
        have : heads = [] := by simpa using he
        subst this
        simp [execAll, execStmt, DB.vtDrop, hd, sameOutcome, sameDb]
      · simp [execAll, sameOutcome, sameDb]
    · exact absurd rfl h
  | cons st r ih =>
    intro heads d dOff hok hd hR hmid
    simp only [List.all_cons, Bool.and_eq_true] at hok
    have hst := hok.1
    simp only [stepOk, Bool.and_eq_true] at hst
    -- both runs execute `body ++ ver` from `d`
    have hpre : ∀ l, execAll (stepStmts q heads st ++ l) dOff =
        execAll ((bodyStmts q st.body ++ st.ver.map verStmt) ++ l) d := by
      intro l
      rcases hR with ⟨e, hne⟩ | ⟨e, _, hc⟩
      · subst e
        have : heads ≠ [] := by rcases hne with h | h; exact h; simp at h
        have : heads.isEmpty = false := by cases heads <;> simp_all
        simp [stepStmts, this]
      · subst e
        simp [stepStmts, execAll, hc]
    simp only [offlineStmts, onlineSteps, onlineStep, midOk] at hmid ⊢
    rw [onlineOps_eq]
    cases hm : hmAll heads st.ver with
    | none =>
      simp only [Option.bind_none]
      cases hb : execAll (bodyStmts q st.body) d with
      | none => simp [sameOutcome]
      | some d1 =>
        have hv1 : d1.version = some heads := by
          rw [execAll_version _ d d1 (body_not_vt q st.body hst.1.2) hb, hd]
        have := ver_all st.ver heads d1 hv1
        simp only [hm] at this
        simp [this, sameOutcome]
    | some h' =>
      simp only [hm, Bool.and_eq_true] at hmid
      have hoff : ((offlineStmts q h' r).map (fun rest => stepStmts q heads st ++ rest)).bind (fun l => execAll l dOff) =
          ((offlineStmts q h' r).map (fun rest => (bodyStmts q st.body ++ st.ver.map verStmt) ++ rest)).bind
            (fun l => execAll l d) := by
        cases offlineStmts q h' r with
        | none => rfl
        | some rest => simp only [Option.map_some, Option.bind_some]; exact hpre rest
      simp only []
      rw [hoff, bind_prefix, execAll_append]
      cases hb : execAll (bodyStmts q st.body) d with
      | none => simp [sameOutcome]
      | some d1 =>
        have hv1 : d1.version = some heads := by
          rw [execAll_version _ d d1 (body_not_vt q st.body hst.1.2) hb, hd]
        have := ver_all st.ver heads d1 hv1
        simp only [hm] at this
        obtain ⟨d', e1, e2, e3⟩ := this
        simp only [Option.bind_some, e1, e2]
        have hR' : Rel h' r d' d' := by
          refine Or.inl ⟨rfl, ?_⟩
          have hm1 := hmid.1
          simp only [Bool.or_eq_true, Bool.not_eq_true'] at hm1
          rcases hm1 with h | h
          · right; simpa using h
          · left; intro e; subst e; simp at h
        exact ih h' d' d' hok.2 e3 hR' hmid.2

theorem vtOk (q : Str → Bool) (hq : BareSafe q) : VtOk q := by
  refine ⟨?_, ?_⟩
  · simp only [stmtOk, stmtWf, Bool.true_and]
    have : renderStmt q .vtCreate = renderStmt (fun _ => true) .vtCreate := rfl
    rw [this]; decide
  · simp only [stmtOk, stmtWf, Bool.true_and]
    have : renderStmt q .vtDrop = renderStmt (fun _ => true) .vtDrop := rfl
    rw [this]; decide

/-- **C12.same_effect (partial form).** For every quoting policy that is safe for bare names, every
list of migration steps with bodies from the language, every version bookkeeping per step (any
list of insert / update / delete, so branched and merged plans are covered as a parameter), every
assumed start and every database whose version rows are that start: executing the offline script
statement by statement leaves the same tables, rows, indexes and version rows as the online run
(or both runs raise).  Hypotheses (`stepOk`, all decidable):
* no TAB in a rendered statement — genuinely needed: `same_effect_counterexample`, finding C12-TAB;
* the statements are statements of the language (`stmtWf`: non-empty column / value lists, user
  tables not called `alembic_version`, version numbers without `'`); that each of them is read
  back as itself is no longer assumed but proved (`reads_back`);
* `op.execute` texts are plain single statements (`plainText`);
* the head set is empty only before the first / after the last step (`midOk`) — proved for
  linear histories in `same_effect_linear_upgrade` / `same_effect_linear_downgrade`. -/
theorem same_effect_partial (q : Str → Bool) (hq : BareSafe q) (start : List Str) (steps : List Step) (db₀ : DB)
    (hsteps : steps.all (stepOk q) = true)
    (hdb : db₀.version = if start.isEmpty then none else some start)
    (hne : start.isEmpty = true → steps ≠ [])
    (hmid : midOk start steps = true) :
    sameOutcome ((offline q start steps).bind (fun script => execScript q script db₀)) (online q steps db₀) := by
  have hv : VtOk q := vtOk q hq
  -- the script executes as its statements
  have h1 : (offline q start steps).bind (fun script => execScript q script db₀) =
      (offlineStmts q start steps).bind (fun l => execAll l db₀) := by
    have := Reads_offline q hq hv steps start hsteps
    simp only [offline]
    cases hi : offlineItems q start steps <;> cases hs : offlineStmts q start steps <;> simp only [hi, hs] at this
    all_goals first
      | rfl
      | exact this.elim
      | simp [exec_script_eq q _ _ this db₀]
  rw [h1]
  cases hs : start.isEmpty with
  | false =>
    simp only [hs] at hdb
    have hne' : start ≠ [] := by intro e; subst e; simp at hs
    have : online q steps db₀ = (onlineSteps q (start, db₀) steps).map (fun s => s.2) := by
      simp [online, hdb, hs]
    rw [this]
    exact run_agree q steps start db₀ db₀ hsteps hdb (Or.inl ⟨rfl, Or.inl hne'⟩) hmid
  | true =>
    have e : start = [] := by simpa using hs
    subst e
    simp only [List.isEmpty_nil, if_true] at hdb
    have : online q steps db₀ = (onlineSteps q ([], db₀.ensureVT) steps).map (fun s => s.2) := by
      simp [online, hdb]
    rw [this]
    refine run_agree q steps [] db₀.ensureVT db₀ hsteps (by simp [DB.ensureVT, hdb]) ?_ hmid
    exact Or.inr ⟨rfl, hne rfl, by simp [execStmt, DB.vtCreate, DB.ensureVT, hdb]⟩

/-! ## linear histories: no hypothesis on the plan -/

/-- **C12.same_effect_linear_upgrade.** `upgrade --sql prev:end` over a linear history: for every
list of revisions to apply (bodies from the language, no TAB, plain `execute` texts: `revOk`),
every assumed start `prev` (`none` = base) and every database at `prev`, the offline script has
the same effect as the online upgrade.  The plan, its version statements, `midOk` and `stepOk`
are all derived, not assumed. -/
theorem same_effect_linear_upgrade (q : Str → Bool) (hq : BareSafe q) (prev : Option Str) (revs : List Rev) (db₀ : DB)
    (hrev : revs.all (revOk q) = true) (hprev : ∀ p, prev = some p → idOk p = true)
    (hdb : db₀.version = prev.map (fun p => [p])) (hne : prev = none → revs ≠ []) :
    sameOutcome ((offline q prev.toList (upSteps prev revs)).bind (fun script => execScript q script db₀))
      (online q (upSteps prev revs) db₀) := by
  refine same_effect_partial q hq prev.toList (upSteps prev revs) db₀ (stepOk_up q revs prev hprev hrev) ?_ ?_
    (midOk_up revs prev)
  · cases prev <;> simpa using hdb
  · intro he
    cases prev with
    | none =>
      cases revs with
      | nil => exact absurd rfl (hne rfl)
      | cons r rs => simp [upSteps]
    | some p => simp at he

/-- **C12.same_effect_linear_downgrade.** `downgrade --sql head:tgt` over a linear history:
for every non-empty list of revisions to revert (current head first), every target (`none` =
base) and every database at the head, the offline script has the same effect as the online
downgrade (at base the offline script drops the version table, the online run leaves it empty:
the version *rows* agree). -/
theorem same_effect_linear_downgrade (q : Str → Bool) (hq : BareSafe q) (r : Rev) (revs : List Rev) (tgt : Option Str)
    (db₀ : DB) (hrev : (r :: revs).all (revOk q) = true) (htgt : ∀ t, tgt = some t → idOk t = true)
    (hdb : db₀.version = some [r.id]) :
    sameOutcome ((offline q [r.id] (downSteps (r :: revs) tgt)).bind (fun script => execScript q script db₀))
      (online q (downSteps (r :: revs) tgt) db₀) := by
  refine same_effect_partial q hq [r.id] (downSteps (r :: revs) tgt) db₀ (stepOk_down q revs r tgt htgt hrev) ?_ ?_
    (midOk_down revs r tgt)
  · simpa using hdb
  · intro he; simp at he

theorem all_take_drop (q : Str → Bool) (h : List Rev) (i n : Nat) (hh : h.all (revOk q) = true) :
    ((h.drop i).take n).all (revOk q) = true := by
  rw [List.all_eq_true] at hh ⊢
  intro x hx
  exact hh x (List.mem_of_mem_drop (List.mem_of_mem_take hx))

theorem idOk_getElem? (q : Str → Bool) (h : List Rev) (k : Nat) (hh : h.all (revOk q) = true) :
    ∀ p, (h[k]?).map (fun r => r.id) = some p → idOk p = true := by
  intro p hp
  cases hk : h[k]? with
  | none => simp [hk] at hp
  | some r =>
    simp only [hk, Option.map_some, Option.some.injEq] at hp
    subst hp
    rw [List.all_eq_true] at hh
    have := hh r (List.mem_of_getElem? hk)
    simp only [revOk, Bool.and_eq_true] at this
    exact this.1.1

/-- **C12.same_effect_linear_range.** The same for every `start:end` range `i:j` of every linear
history `h` (positions counted from 1, `0` = base) all of whose revisions are `revOk`. -/
theorem same_effect_linear_range (q : Str → Bool) (hq : BareSafe q) (h : List Rev) (i j : Nat) (db₀ : DB)
    (hh : h.all (revOk q) = true)
    (hdb : db₀.version = (upgradeRange h i j).1.map (fun p => [p]))
    (hne : (upgradeRange h i j).1 = none → (upgradeRange h i j).2 ≠ []) :
    sameOutcome
      ((offline q (upgradeRange h i j).1.toList (upSteps (upgradeRange h i j).1 (upgradeRange h i j).2)).bind
        (fun script => execScript q script db₀))
      (online q (upSteps (upgradeRange h i j).1 (upgradeRange h i j).2) db₀) := by
  refine same_effect_linear_upgrade q hq _ _ db₀ (all_take_drop q h i (j - i) hh) ?_ hdb hne
  intro p hp
  simp only [upgradeRange] at hp
  split at hp
  · simp at hp
  · exact idOk_getElem? q h (i - 1) hh p hp

/-- the downgrade range `j:i` (`j > i`) of every linear history -/
theorem same_effect_linear_range_downgrade (q : Str → Bool) (hq : BareSafe q) (h : List Rev) (j i : Nat) (db₀ : DB)
    (r : Rev) (revs : List Rev) (hh : h.all (revOk q) = true)
    (hr : (downgradeRange h j i).1 = r :: revs) (hdb : db₀.version = some [r.id]) :
    sameOutcome
      ((offline q [r.id] (downSteps (r :: revs) (downgradeRange h j i).2)).bind (fun script => execScript q script db₀))
      (online q (downSteps (r :: revs) (downgradeRange h j i).2) db₀) := by
  refine same_effect_linear_downgrade q hq r revs _ db₀ ?_ ?_ hdb
  · rw [← hr]
    simp only [downgradeRange, List.all_reverse]
    exact all_take_drop q h i (j - i) hh
  · intro t ht
    simp only [downgradeRange] at ht
    split at ht
    · simp at ht
    · exact idOk_getElem? q h (i - 1) hh t ht

/-- non-vacuity: a two-revision history with awkward names and values satisfies `revOk`, and
    its ranges are the expected ones -/
def demoHistory : List Rev :=
  [⟨['a', '1'], [.createTable ['t', ';', '"'] [⟨['i', 'd'], .integer, false⟩, ⟨['s', ' ', 'x'], .varchar 50, true⟩]],
      [.dropTable ['t', ';', '"']]⟩,
   ⟨['b', '2'], [.bulkInsert ['t', ';', '"'] [['i', 'd'], ['s', ' ', 'x']] [[.int 1, .str ['o', '\'', ';', '-', '-', '\n']], [.int (-2), .null]]],
      [.execute ['D', 'E', 'L', 'E', 'T', 'E', ' ', 'F', 'R', 'O', 'M', ' ', 'x']]⟩]

example : demoHistory.all (revOk (fun _ => true)) = true := by decide +kernel
example : (upgradeRange demoHistory 1 2).1 = some ['a', '1'] ∧ ((upgradeRange demoHistory 1 2).2.map (fun r => r.id)) = [['b', '2']] := by
  decide +kernel
example : ((downgradeRange demoHistory 2 0).1.map (fun r => r.id)) = [['b', '2'], ['a', '1']] ∧ (downgradeRange demoHistory 2 0).2 = none := by
  decide +kernel

/-- the full-strength statement: `same_effect_partial` without the "no TAB" hypothesis
    (`stepOk` replaced by its TAB-free-less variant is what the property text asks for) -/
def same_effect_statement : Prop :=
  ∀ (q : Str → Bool), BareSafe q → ∀ (start : List Str) (steps : List Step) (db₀ : DB),
    db₀.version = (if start.isEmpty then none else some start) → (start.isEmpty = true → steps ≠ []) →
    midOk start steps = true →
    sameOutcome ((offline q start steps).bind (fun script => execScript q script db₀)) (online q steps db₀)

/-- witness of finding C12-TAB: one revision creating `t (s TEXT)` and inserting the value `a<TAB>b` -/
def tabWitness : List Step :=
  [⟨['u'], [.createTable ['t'] [⟨['s'], .text, true⟩], .bulkInsert ['t'] [['s']] [[.str ['a', '\t', 'b']]]],
    [.insert ['r']]⟩]

/-- **C12.same_effect_counterexample** (known finding C12-TAB): `_exec` replaces TABs in the whole
statement, string literals included, so the offline script inserts `a    b` where the online run
inserts `a<TAB>b`. -/
theorem same_effect_counterexample :
    ¬ sameOutcome ((offline (fun _ => true) [] tabWitness).bind (fun script => execScript (fun _ => true) script DB.empty))
      (online (fun _ => true) tabWitness DB.empty) := by
  rw [← sameOutcomeB_iff]
  decide +kernel

set_option maxRecDepth 8192 in
theorem same_effect_statement_false : ¬ same_effect_statement := by
  intro h
  have hb : BareSafe (fun _ => true) := fun n hn => by simp at hn
  have h1 : DB.empty.version = (if ([] : List Str).isEmpty then none else some []) := rfl
  have h2 : ([] : List Str).isEmpty = true → tabWitness ≠ [] := fun _ => by simp [tabWitness]
  have h3 : midOk [] tabWitness = true := by decide +kernel
  exact same_effect_counterexample (h _ hb [] tabWitness DB.empty h1 h2 h3)

/-- non-vacuity of `same_effect_partial`: the same migration with a TAB-free value satisfies
    every hypothesis -/
example : [⟨['u'], [.createTable ['t'] [⟨['s'], .text, true⟩], .bulkInsert ['t'] [['s']] [[.str ['a', ';', '\'', 'b']]]],
    [.insert ['r']]⟩].all (stepOk (fun _ => true)) = true := by decide +kernel

end C12
