import Lemmas.Diff.ConvergeSchema
import Lemmas.Diff.Callable
import Lemmas.Diff.Batch
/-!
# C06 — autogenerate is quiet on a matching database and converges in one pass (SQLite)

`Model.Diff.diff` mirrors `_compare_tables` and everything below it; `createAll` / `reflect`
are the SQLite round trip `MetaData.create_all` → inspector.  The theorems quantify over
**all** schemas of the class (`WF`: names unique per namespace; `SchemaOk cfg`: every column's
type reflects by name when types are compared, every default is plain when defaults are
compared), with any number of tables, columns, constraints, and arbitrary type arguments and
default texts.
-/
namespace C06
open Model.Diff Spec.Diff Lemmas.Diff

/-! ## types -/

theorem compareType_self (d : DTy) : compareType d d = false := Lemmas.Diff.compareType_self d

/-- full-strength statement of the type part: a column is never reported as having changed
its type against the database created from it. -/
def types_quiet_statement : Prop := ∀ t : MdTy, compareType (reflTy (declTy t)) (ddlTy t) = false

/-- it is false on the unchanged tree: type names SQLAlchemy's SQLite dialect reflects through
affinity rules (CLOB, BINARY, VARBINARY, DOUBLE PRECISION, UUID) come back as another type. -/
theorem types_quiet_counterexample : ¬ types_quiet_statement := by
  intro h
  have := h { fam := .CLOB, args := [] }
  revert this
  decide

/-- for every type of the catalogue that reflects by name, with arbitrary length / precision /
scale arguments -/
theorem types_quiet_partial (t : MdTy) (h : known (declTy t) = true) :
    compareType (reflTy (declTy t)) (ddlTy t) = false := compareType_refl_known t h

example : known (declTy ⟨.Numeric, [12, 4], none⟩) = true := by decide
example : known (declTy ⟨.String, [120], some .nocase⟩) = true := by decide
example : known (declTy ⟨.DOUBLE_PRECISION, [], none⟩) = false := by decide

/-! ## server defaults (F9) -/

/-- full-strength statement of the default part -/
def defaults_quiet_statement : Prop :=
  ∀ d : Dflt, compareDefault (some (reflectDefault d)) (some d) = false

def its : List Char := ['i', 't', '\'', 's']

/-- **F9**: false on the unchanged tree.  `server_default="it's"` is reported as changed against
the database created from it (the same witness is replayed on the real code on every run). -/
theorem defaults_quiet_counterexample : ¬ defaults_quiet_statement := by
  intro h
  have := h (.str its)
  revert this
  decide

/-- further members of the family: empty string, `(abc)`, and the expression `((1))` -/
example : compareDefault (some (reflectDefault (.str []))) (some (.str [])) = true := by decide
example : compareDefault (some (reflectDefault (.str ['(', 'a', ')']))) (some (.str ['(', 'a', ')'])) = true := by decide
example : compareDefault (some (reflectDefault (.expr ['(', '(', '1', ')', ')']))) (some (.expr ['(', '(', '1', ')', ')'])) = true := by decide

/-- every plain default - string (`DefaultsPlain`: non-empty, no `'`, no newline, not `(...)`)
or expression (unpadded, at most one enclosing pair of parentheses) - of any length compares
equal to its own reflection -/
theorem defaults_quiet_partial (d : Dflt) (h : dfltPlain (some d) = true) :
    compareDefault (some (reflectDefault d)) (some d) = false := by
  have := compareDefault_quiet (some d) h
  simpa [reflectDefault] using this

example : dfltPlain (some (.str ['a', ' ', 'b'])) = true := by decide
example : dfltPlain (some (.expr ['(', '1', ' ', '+', ' ', '2', ')'])) = true := by decide
example : dfltPlain (some (.str its)) = false := by decide

/-! ## quiet -/

theorem reflect_names (a : Schema) : (reflect (createAll a)).map (·.name) = a.map (·.name) := by
  simp [reflect, createAll, List.map_map, Function.comp_def, reflectTable, createTable]

/-- full-strength statement: `diff (reflect (db A)) A = []` for every well-formed schema and
every compare_type / compare_server_default setting -/
def quiet_statement : Prop :=
  ∀ (cfg : Cfg) (a : Schema), WF a → diff cfg (reflect (createAll a)) a = []

def witness : Schema :=
  [{ name := "t", cols := [{ name := "c", ty := { fam := .String, args := [20] }, nullable := true, dflt := some (.str its) }] }]

theorem witness_wf : WF witness := by
  constructor
  · simp [witness]
  · intro t ht
    simp [witness] at ht
    subst ht
    constructor <;> simp [namedNames, namedOf]

theorem witness_diff : diff {} (reflect (createAll witness)) witness = [Op.modifyDefault "t" "c" (some (.str its))] := by
  have h : compareDefault (some (reflectDefault (.str its))) (some (.str its)) = true := by decide
  simp [diff, witness, reflect, createAll, createTable, reflectTable, findTable, sortTablesByName, compareTable,
    addedCols, alteredCols, removedCols, compareIxUq, compareFks, namedOf, createCol, reflectCol, findRCol,
    compareCol, sortNames, Lemmas.Diff.compareType_self, reflTy, known, knownName, ddlTy, declTy, h, reflectDefault] at *

/-- **F9 at schema level**: a one-table model with `server_default="it's"` is not quiet -/
theorem quiet_counterexample : ¬ quiet_statement := by
  intro h
  have := h {} witness witness_wf
  rw [witness_diff] at this
  cases this

/-- **C06.quiet** for the class: every well-formed schema whose columns are in the class for
the chosen settings yields an empty diff against the database created from it. -/
theorem quiet_partial (cfg : Cfg) (a : Schema) (hwf : WF a) (hok : SchemaOk cfg a) :
    diff cfg (reflect (createAll a)) a = [] := by
  unfold diff
  rw [reflect_names]
  have h1 : a.filter (fun t => !(a.map (·.name)).contains t.name) = [] := by
    apply filter_nil_of_forall
    intro t ht
    simp only [contains_of_mem _ _ (List.mem_map_of_mem (f := (·.name)) ht), Bool.not_true]
  have h2 : (reflect (createAll a)).filter (fun t => !(a.map (·.name)).contains t.name) = [] := by
    apply filter_nil_of_forall
    intro t ht
    have : t.name ∈ (reflect (createAll a)).map (·.name) := List.mem_map_of_mem (f := (·.name)) ht
    rw [reflect_names] at this
    simp only [contains_of_mem _ _ this, Bool.not_true]
  simp only [h1, h2, List.flatMap_nil, List.nil_append]
  apply flatMap_nil_of_forall
  intro p hp
  have hp' := by unfold sortTablesByName at hp; exact List.mem_mergeSort.mp hp
  obtain ⟨ct, hct, hfm⟩ := List.mem_filterMap.mp hp'
  simp only [reflect, createAll, List.map_map, List.mem_map, Function.comp_apply] at hct
  obtain ⟨t0, ht0, rfl⟩ := hct
  have hfind : findTable a (reflectTable (createTable t0)).name = some t0 := by
    unfold findTable
    exact find?_key_of_nodup (·.name) a hwf.tables_nodup t0 ht0
  rw [hfind] at hfm
  simp only [Option.map_some, Option.some.injEq] at hfm
  subst hfm
  exact compareTable_self cfg t0 (hwf.table_wf t0 ht0).cols_nodup (hok t0 ht0)

/-- the class is not empty and contains non-trivial members -/
example : WF witness := witness_wf

end C06

/-! ## converge -/
namespace C06
open Model.Diff Spec.Diff Lemmas.Diff

/-- full-strength statement of the second sentence of C06: for every pair of well-formed
schemas, run the autogenerated upgrade against the database of the first; a second autogenerate
against the second reports nothing -/
def converge_statement : Prop :=
  ∀ (cfg : Cfg) (a b : Schema), WF a → WF b →
    diff cfg (reflect (applyAll (createAll a) (diff cfg (reflect (createAll a)) b))) b = []

/-- **F9 again**: it is false on the unchanged tree - with `server_default="it's"` the upgrade
re-sets the default and the second autogenerate reports the column again -/
theorem converge_counterexample : ¬ converge_statement := by
  intro h
  have := h {} witness witness witness_wf witness_wf
  rw [witness_diff] at this
  have happ : applyAll (createAll witness) [Op.modifyDefault "t" "c" (some (.str its))] = createAll witness := by
    simp [applyAll, apply, updTable, updCol, createAll, createTable, createCol, witness]
  rw [happ, witness_diff] at this
  cases this

/-- a one-column table holding column `c` -/
def oneCol (t : String) (c : DCol) : Db := [{ name := t, cols := [c] }]

/-- the column after the upgrade, field by field -/
def afterCol (cfg : Cfg) (a : DCol) (b : Col) : DCol :=
  { name := a.name
    ty := if cfg.compareType && compareType (reflTy a.ty) (ddlTy b.ty) then declTy b.ty else a.ty
    nullable := if a.nullable != b.nullable then b.nullable else a.nullable
    dflt := if cfg.compareDefault && compareDefault (a.dflt.map autogenReflect) b.dflt
            then b.dflt.map (fun v => sqliteStore (ddlDefault v)) else a.dflt
    pk := a.pk }

/-- **one pass is enough, column level**: take *any* database column `a` (any type, any
nullability, any default - plain or not) and any model column `b` of the class with the same
name; apply the alter ops autogenerate emits for the pair; comparing the resulting column
with `b` again yields nothing - for every compare_type / compare_server_default setting. -/
theorem converge_column (cfg : Cfg) (t : String) (a : DCol) (b : Col) (hn : a.name = b.name)
    (hb : colOk cfg b = true) :
    ∃ a' : DCol, applyAll (oneCol t a) (compareCol cfg t (reflectCol a) b) = oneCol t a' ∧
      compareCol cfg t (reflectCol (afterCol cfg a b)) b = [] := by
  simp only [colOk, Bool.and_eq_true, Bool.or_eq_true, Bool.not_eq_true'] at hb
  obtain ⟨hty, hdf⟩ := hb
  refine ⟨afterCol cfg a b, ?_, ?_⟩
  · simp only [compareCol, reflectCol, afterCol, oneCol]
    by_cases h1 : (cfg.compareType && compareType (reflTy a.ty) (ddlTy b.ty)) = true <;>
    by_cases h2 : (a.nullable != b.nullable) = true <;>
    by_cases h3 : (cfg.compareDefault && compareDefault (a.dflt.map autogenReflect) b.dflt) = true <;>
    simp [h1, h2, h3, applyAll, apply, updTable, updCol, hn] <;>
    (cases a; simp_all)
  · have e1 : (cfg.compareType && compareType (reflectCol (afterCol cfg a b)).ty (ddlTy b.ty)) = false := by
      simp only [reflectCol, afterCol]
      by_cases h1 : (cfg.compareType && compareType (reflTy a.ty) (ddlTy b.ty)) = true
      · simp only [h1, if_true]
        rcases hty with h | h
        · simp [h] at h1
        · simp [compareType_refl_known b.ty h]
      · simp only [h1]
        simpa using h1
    have e2 : ((reflectCol (afterCol cfg a b)).nullable != b.nullable) = false := by
      simp only [reflectCol, afterCol]
      by_cases h2 : (a.nullable != b.nullable) = true
      · simp [h2]
      · simp only [h2]; simpa using h2
    have e3 : (cfg.compareDefault && compareDefault (reflectCol (afterCol cfg a b)).dflt b.dflt) = false := by
      simp only [reflectCol, afterCol]
      by_cases h3 : (cfg.compareDefault && compareDefault (a.dflt.map autogenReflect) b.dflt) = true
      · simp only [h3, if_true]
        rcases hdf with h | h
        · simp [h] at h3
        · simp only [compareDefault_quiet b.dflt h, Bool.and_false]
      · simp only [h3]
        simpa using h3
    simp only [compareCol, e1, e2, e3]
    rfl

/-- non-vacuity: a VARCHAR(10) NULL column against `Integer NOT NULL DEFAULT 'abc'` needs all
three alterations -/
example : (compareCol {} "t" (reflectCol { name := "c", ty := ⟨.varchar, [], [10]⟩, nullable := true })
    { name := "c", ty := { fam := .Integer, args := [] }, nullable := false, dflt := some (.str ['a', 'b', 'c']) }).length = 3 := by
  decide

end C06

namespace C06
open Model.Diff Spec.Diff Lemmas.Diff

/-- **C06.converge** for the class: for every pair of well-formed schemas `a`, `b` (any sizes)
with `b` in the class for the chosen settings (`a` is arbitrary: its types and defaults need not
be plain), run the autogenerated upgrade `diff (reflect (db a)) b` against `db a`; a second
autogenerate against `b` reports nothing.  For every compare_type / compare_server_default
setting. -/
theorem converge_partial (cfg : Cfg) (a b : Schema) (hwfA : WF a) (hwfB : WF b) (hok : SchemaOk cfg b) :
    diff cfg (reflect (applyAll (createAll a) (diff cfg (reflect (createAll a)) b))) b = [] := by
  have hT := tblOf_final cfg a b hwfA hwfB
  have hN := names_final_nodup cfg a b hwfA hwfB
  generalize applyAll (createAll a) (diff cfg (reflect (createAll a)) b) = D at hT hN ⊢
  have hDn : (reflect D).map (·.name) = D.map (·.name) := by
    simp [reflect, List.map_map, Function.comp_def, reflectTable]
  have hsome_mem : ∀ n x, tblOf D n = some x → n ∈ D.map (·.name) := by
    intro n x h
    unfold tblOf at h
    exact List.mem_map.mpr ⟨x, List.mem_of_find?_eq_some h, by simpa using List.find?_some h⟩
  unfold diff
  rw [hDn]
  -- no table to create
  have h1 : b.filter (fun t => !(D.map (·.name)).contains t.name) = [] := by
    apply filter_nil_of_forall
    intro tb htb
    have hf : findTable b tb.name = some tb := (findTable_some_iff b hwfB.tables_nodup _ _).mpr ⟨htb, rfl⟩
    have := hT tb.name
    rw [hf] at this
    simp only [contains_of_mem _ _ (hsome_mem _ _ this), Bool.not_true]
  -- no table to drop
  have h2 : (reflect D).filter (fun t => !(b.map (·.name)).contains t.name) = [] := by
    apply filter_nil_of_forall
    intro rt hrt
    simp only [reflect, List.mem_map] at hrt
    obtain ⟨dt, hdt, rfl⟩ := hrt
    have hfd : tblOf D dt.name = some dt := find?_key_of_nodup (fun x : DTable => x.name) D hN dt hdt
    have := hT dt.name
    rw [hfd] at this
    cases hb : findTable b dt.name with
    | none => rw [hb] at this; cases this
    | some tb =>
      have hmem := (findTable_some_iff b hwfB.tables_nodup _ _).mp hb
      have : dt.name ∈ b.map (·.name) := hmem.2 ▸ List.mem_map_of_mem (f := (·.name)) hmem.1
      show (!(b.map (·.name)).contains dt.name) = false
      simp only [contains_of_mem _ _ this, Bool.not_true]
  simp only [h1, h2, List.flatMap_nil, List.nil_append]
  -- every remaining table compares equal
  apply flatMap_nil_of_forall
  intro p hp
  have hp' := by unfold sortTablesByName at hp; exact List.mem_mergeSort.mp hp
  obtain ⟨rt, hrt, hfm⟩ := List.mem_filterMap.mp hp'
  simp only [reflect, List.mem_map] at hrt
  obtain ⟨dt, hdt, rfl⟩ := hrt
  have hfd : tblOf D dt.name = some dt := find?_key_of_nodup (fun x : DTable => x.name) D hN dt hdt
  have hTn := hT dt.name
  rw [hfd] at hTn
  have hname : (reflectTable dt).name = dt.name := rfl
  rw [hname] at hfm
  cases hb : findTable b dt.name with
  | none => rw [hb] at hTn; cases hTn
  | some tb =>
    rw [hb] at hfm hTn
    simp only [Option.map_some, Option.some.injEq] at hfm hTn
    subst hfm
    have htb := (findTable_some_iff b hwfB.tables_nodup _ _).mp hb
    have hwt := hwfB.table_wf tb htb.1
    cases ha : findTable a dt.name with
    | some ta =>
      rw [ha] at hTn
      simp only at hTn
      rw [hTn]
      have hta := (findTable_some_iff a hwfA.tables_nodup _ _).mp ha
      have hwa := hwfA.table_wf ta hta.1
      exact converge_table cfg (createTable ta) tb hwt.cols_nodup (hok tb htb.1) hwa.named_nodup hwt.named_nodup
        hwa.fk_names_nodup
    | none =>
      rw [ha] at hTn
      simp only at hTn
      rw [hTn]
      exact newTable_quiet cfg tb hwt.cols_nodup (hok tb htb.1) hwt.named_nodup

end C06

/-! ### comparison callables that defer -/
namespace C06
open Model.Diff Spec.Diff Lemmas.Diff

/-- quiet and converge also hold when `compare_type` / `compare_server_default` are callables that
answer `None` for every column (they compute the default diff) -/
theorem quiet_partial_deferring (cfg : Cfg) (a : Schema) (hwf : WF a) (hok : SchemaOk cfg a) :
    diffV {} cfg (reflect (createAll a)) a = [] := by
  rw [diffV_nil]; exact quiet_partial cfg a hwf hok

theorem converge_partial_deferring (cfg : Cfg) (a b : Schema) (hwfA : WF a) (hwfB : WF b) (hok : SchemaOk cfg b) :
    diffV {} cfg (reflect (applyAll (createAll a) (diffV {} cfg (reflect (createAll a)) b))) b = [] := by
  rw [diffV_nil, diffV_nil]; exact converge_partial cfg a b hwfA hwfB hok

end C06

/-! ### class boundary (primary keys) and the batch recreate decision -/
namespace C06
open Model.Diff Spec.Diff Lemmas.Diff

/-- the class of C06 pairs as one predicate: both schemas well-formed, the target inside the class for
the settings, and no surviving column changes primary-key membership (`PkStable`; the harness's
`pair_wf` evaluates its decidable form through the driver's `pkStableB`) -/
structure PairOk (cfg : Cfg) (a b : Schema) : Prop where
  wfA : WF a
  wfB : WF b
  ok : SchemaOk cfg b
  pk : PkStable a b

theorem pkStableB_iff (a b : Schema) : pkStableB a b = true ↔ PkStable a b := Spec.Diff.pkStableB_iff a b

/-- **C06.converge** stated over the pair class -/
theorem converge_of_pairOk (cfg : Cfg) (a b : Schema) (h : PairOk cfg a b) :
    diff cfg (reflect (applyAll (createAll a) (diff cfg (reflect (createAll a)) b))) b = [] :=
  converge_partial cfg a b h.wfA h.wfB h.ok

example : PkStable witness witness := by
  intro ta hta tb htb _ ca hca cb hcb hc
  simp [witness] at hta htb
  subst hta; subst htb
  simp at hca hcb
  subst hca; subst hcb
  rfl

/-- a pair outside the class: `c` is a key column in the first schema and an ordinary column in the second -/
example : pkStableB
    [{ name := "t", cols := [{ name := "c", ty := { fam := .Integer, args := [] }, nullable := false, pk := true }] }]
    [{ name := "t", cols := [{ name := "c", ty := { fam := .Integer, args := [] }, nullable := false, pk := false }] }] = false := by
  decide

/-- **the batch recreate decision is order independent** (`SQLiteImpl.requires_recreate_in_batch` is an
`any` over the operations of the block): permuting the operations does not change it -/
theorem batch_decision_perm {l1 l2 : List Op} (h : l1.Perm l2) : batchRecreates l1 = batchRecreates l2 :=
  batchRecreates_perm h

/-- ... and an operation that needs move-and-copy decides it wherever it stands in the block, e.g. after
added columns with plain string defaults (no early exit) -/
theorem batch_decision_any (pre post : List Op) (o : Op) (h : needsRecreate o = true) :
    batchRecreates (pre ++ o :: post) = true := batchRecreates_of_mem pre post o h

example : batchRecreates
    [Op.addColumn "t" { name := "n", ty := { fam := .String, args := [10] }, nullable := true, dflt := some (.str ['a']) },
     Op.modifyNullable "t" "c" false] = true := by decide
example : batchRecreates
    [Op.addColumn "t" { name := "n", ty := { fam := .String, args := [10] }, nullable := true, dflt := some (.str ['a']) },
     Op.addIndex "t" { name := "ix", cols := ["n"], unique := false }] = false := by decide

end C06

namespace C06
open Model.Diff Spec.Diff Lemmas.Diff

theorem alter_pk (cfg : Cfg) (r : RCol) (c : Col) (k : DCol) : (alter cfg r c k).pk = k.pk := rfl

/-- **primary keys need no change inside the class**: for a pair with `PkStable`, every column of the
upgraded database that the target model also has carries the target's primary-key flag - the one
attribute autogenerate neither compares nor alters -/
theorem pk_preserved (cfg : Cfg) (a b : Schema) (hwfA : WF a) (hwfB : WF b) (hpk : PkStable a b)
    (n : String) (dt : DTable) (tb : Table) (c : Col) (k : DCol)
    (hd : tblOf (applyAll (createAll a) (diff cfg (reflect (createAll a)) b)) n = some dt)
    (hb : findTable b n = some tb) (hc : c ∈ tb.cols) (hk : colOf dt.cols c.name = some k) : k.pk = c.pk := by
  have hT := tblOf_final cfg a b hwfA hwfB n
  rw [hd, hb] at hT
  simp only [Option.some.injEq] at hT
  have htb := (findTable_some_iff b hwfB.tables_nodup n tb).mp hb
  have hnd := (hwfB.table_wf tb htb.1).cols_nodup
  cases ha : findTable a n with
  | some ta =>
    rw [ha] at hT
    simp only at hT
    subst hT
    have hta := (findTable_some_iff a hwfA.tables_nodup n ta).mp ha
    have hcol := colOf_transform cfg (createTable ta) tb hnd c.name
    rw [find?_self_of_nodup tb.cols hnd c hc, hk] at hcol
    simp only [Option.some.injEq] at hcol
    cases h0 : colOf (createTable ta).cols c.name with
    | none => rw [h0] at hcol; simp only at hcol; rw [hcol]; rfl
    | some k0 =>
      rw [h0] at hcol
      simp only at hcol
      rw [hcol, alter_pk]
      -- k0 is the created column of a model column of `ta` with the same name
      unfold colOf at h0
      have hmem := List.mem_of_find?_eq_some h0
      have hname : k0.name = c.name := by simpa using List.find?_some h0
      simp only [createTable, List.mem_map] at hmem
      obtain ⟨ca, hca, rfl⟩ := hmem
      exact hpk ta hta.1 tb htb.1 (hta.2.trans htb.2.symm) ca hca c hc hname
  | none =>
    rw [ha] at hT
    simp only at hT
    subst hT
    have hf := foldl_named_fields (compareIxUq tb.name true [] (namedOf tb.uqs tb.ixs)) { createTable tb with ixs := [] }
      (fun op hop => (compareIxUq_ops _ _ _ _ op hop).1)
    have hcols : (newTable tb).cols = tb.cols.map createCol := hf.1
    rw [hcols] at hk
    unfold colOf at hk
    rw [find?_map_key createCol (·.name) (·.name) (fun _ => rfl) c.name tb.cols, find?_self_of_nodup tb.cols hnd c hc] at hk
    simp only [Option.map_some, Option.some.injEq] at hk
    rw [← hk]; rfl

end C06
