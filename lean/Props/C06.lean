import Spec.Diff
/-!
# C06 — autogenerate is quiet on a matching database and converges in one pass (SQLite)
-/
namespace C06
open Model.Diff Spec.Diff

/-! ## types -/

theorem compareType_self (d : DTy) : compareType d d = false := by
  simp [compareType, typesMatch, argsMatch]

/-- full-strength statement of the type part: a column is never reported as having changed
its type against the database created from it. -/
def types_quiet_statement : Prop := ∀ t : MdTy, compareType (reflTy (ddlTy t)) (ddlTy t) = false

/-- it is false on the unchanged tree: type names SQLAlchemy's SQLite dialect reflects through
affinity rules (CLOB, BINARY, VARBINARY, DOUBLE PRECISION, UUID) come back as another type. -/
theorem types_quiet_counterexample : ¬ types_quiet_statement := by
  intro h
  have := h ⟨.CLOB, []⟩
  revert this
  decide

/-- for every type of the catalogue that reflects by name, with arbitrary length / precision /
scale arguments -/
theorem types_quiet_partial (t : MdTy) (h : known (ddlTy t) = true) :
    compareType (reflTy (ddlTy t)) (ddlTy t) = false := by
  simp [reflTy, h, compareType_self]

example : known (ddlTy ⟨.Numeric, [12, 4]⟩) = true := by decide
example : known (ddlTy ⟨.DOUBLE_PRECISION, []⟩) = false := by decide

end C06
