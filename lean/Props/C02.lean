import Lemmas.Rev.PlanFacts
import Props.C01
/-!
# C02 — the downgrade plan removes exactly the applied dependents, children first

About `Model.Rev.downgradeRevs` (mirror of `ScriptDirectory._downgrade_revs` →
`_collect_downgrade_revisions` + `_topological_sort`).
-/
namespace C02
open Model.Rev Spec.Rev Lemmas.Rev C01

/-- `x` builds on one of `roots`: it is one of them or descends from / depends on one -/
def BuildsOn (m : LMap) (roots : List Id) (x : Id) : Prop := ∃ r ∈ roots, Reach m.allDownOf x r

/-- `plan` removes the applied revisions that build on `roots` from a database at `cur` -/
structure DowngradePlan (m : LMap) (cur roots plan : List Id) : Prop where
  nodup : plan.Nodup
  /-- exactly the applied revisions that build on the roots -/
  exact : ∀ x, x ∈ plan ↔ BuildsOn m roots x ∧ Requires m cur x
  /-- no revision is downgraded while an applied revision that needs it remains -/
  order : ∀ pre x post, plan = pre ++ x :: post →
    ∀ c, c ∈ m.ids → x ∈ m.allDownOf c → Requires m cur c → c ∈ pre

theorem allNextrev_nil {m : LMap} (L : Loaded m) (x : Id) (hx : x ∉ m.ids) : m.allNextrev x = [] := by
  apply List.eq_nil_iff_forall_not_mem.mpr
  intro y hy
  have := (allNextrev_iff m L.ids_nodup x y).mp hy
  exact hx (L.refs_closed y x this.2)

/-- children-edges are the inverse of parent-edges -/
theorem reach_inv {m : LMap} (L : Loaded m) (a b : Id) :
    Reach m.allNextrev a b ↔ Reach m.allDownOf b a := by
  constructor
  · intro h
    induction h with
    | refl _ => exact Reach.refl _
    | step hs _ ih =>
      have := (allNextrev_iff m L.ids_nodup _ _).mp hs
      exact Reach.trans _ ih (Reach.single _ this.2)
  · intro h
    induction h with
    | refl _ => exact Reach.refl _
    | @step x p c hs _ ih =>
      have hx : x ∈ m.ids := by
        apply Classical.byContradiction
        intro hn; rw [allDownOf_nil m x hn] at hs; simp at hs
      have : x ∈ m.allNextrev p := (allNextrev_iff m L.ids_nodup p x).mpr ⟨hx, hs⟩
      exact Reach.trans _ ih (Reach.single _ this)

theorem mem_descendants_iff {m : LMap} (L : Loaded m) (roots : List Id) (x : Id) :
    x ∈ m.descendants roots ↔ BuildsOn m roots x := by
  unfold LMap.descendants LMap.closure BuildsOn
  rw [mem_closureOf_iff m.allNextrev m.ids roots (fun y hy => allNextrev_nil L y hy)]
  constructor
  · rintro ⟨r, hr, h⟩; exact ⟨r, hr, (reach_inv L r x).mp h⟩
  · rintro ⟨r, hr, h⟩; exact ⟨r, hr, (reach_inv L r x).mpr h⟩

theorem mem_downgradeSet {m : LMap} (L : Loaded m) (roots heads : List Id) (x : Id) :
    x ∈ downgradeSet m roots heads ↔ BuildsOn m roots x ∧ Requires m heads x := by
  unfold downgradeSet
  rw [mem_dedupe, List.mem_filter, mem_descendants_iff L, decide_eq_true_eq, mem_ancestors_iff,
    requires_iff_norm L]

/-- the set/sort core: for any roots and any resolved current heads -/
theorem plan_of_set {m : LMap} (L : Loaded m) (roots heads : List Id) :
    ∃ plan, topoSort m (downgradeSet m roots heads) heads = .ok plan ∧ DowngradePlan m heads roots plan := by
  have hset := mem_downgradeSet L roots heads
  have hconv : Convex m.normDownOf (dedupe (downgradeSet m roots heads)) := by
    intro t c p ht hc hcp hpt
    rw [mem_dedupe] at ht hc ⊢
    obtain ⟨⟨r, hr, htr⟩, _⟩ := (hset t).mp ht
    obtain ⟨_, hcreq⟩ := (hset c).mp hc
    obtain ⟨hd, hhd, hhdc⟩ := (requires_iff_norm L heads c).mp hcreq
    refine (hset p).mpr ⟨⟨r, hr, ?_⟩, (requires_iff_norm L heads p).mpr ⟨hd, hhd, Reach.trans _ hhdc hcp⟩⟩
    exact Reach.trans _ ((reach_norm_iff_all L p t).mp hpt) htr
  have hcov : ∀ t ∈ downgradeSet m roots heads, ∃ hd ∈ heads, hd ∈ downgradeSet m roots heads ∧
      Reach m.normDownOf hd t := by
    intro t ht
    obtain ⟨⟨r, hr, htr⟩, hreq⟩ := (hset t).mp ht
    obtain ⟨hd, hhd, hhdt⟩ := (requires_iff_norm L heads t).mp hreq
    refine ⟨hd, hhd, (hset hd).mpr ⟨⟨r, hr, ?_⟩, ⟨hd, hhd, Reach.refl _⟩⟩, hhdt⟩
    exact Reach.trans _ ((reach_norm_iff_all L hd t).mp hhdt) htr
  obtain ⟨plan, hs, hnd, hmem, hpw⟩ := topoSort_ok L _ heads hconv hcov
  obtain ⟨rank, hrank⟩ := L.ranked
  refine ⟨plan, hs, { nodup := hnd, exact := fun x => by rw [hmem, hset], order := ?_ }⟩
  intro pre x post hplan c hcids hxc hcreq
  have hx : x ∈ downgradeSet m roots heads := by rw [← hmem, hplan]; simp
  obtain ⟨⟨r, hr, hxr⟩, _⟩ := (hset x).mp hx
  have hcset : c ∈ downgradeSet m roots heads :=
    (hset c).mpr ⟨⟨r, hr, Reach.step hxc hxr⟩, hcreq⟩
  have hcplan : c ∈ pre ++ x :: post := by rw [← hplan, hmem]; exact hcset
  have hne : c ≠ x := by
    intro e; subst e
    have := hrank _ _ hxc; omega
  have hcx : Reach m.normDownOf c x := (reach_norm_iff_all L c x).mpr (Reach.single _ hxc)
  rcases List.mem_append.mp hcplan with h | h
  · exact h
  · rcases List.mem_cons.mp h with h | h
    · exact absurd h hne
    · rw [hplan, List.pairwise_append] at hpw
      have hp2 := List.pairwise_cons.mp hpw.2.1
      exact absurd ⟨hcx, hne⟩ (hp2.1 c h)

/-- **C02.** Whenever `downgrade` produces a plan: the target resolved, the rows resolved to
`cur`, and the plan is exactly the applied revisions that build on the roots (the target's
down-revision children, or every revision without down-revision for `base`, narrowed to the
named branch as `downgradeRoots` says), each once, children first. -/
theorem plan {h : Hist} {o : LoadOpts} {m : LMap} (hl : load h o = .ok m)
    (hu : (h.map (·.id)).Nodup) (hd : ∀ r ∈ h, ∀ d ∈ r.down, d ∈ h.map (·.id))
    (rows : List Id) (target : String) (plan : List Id)
    (hp : downgradeRevs m rows target = .ok plan) :
    ∃ label tgt roots cur, parseDowngradeTarget m rows target = .ok (label, tgt) ∧
      downgradeRoots m label tgt = .ok roots ∧ resolveRows m rows = .ok cur ∧
      DowngradePlan m cur roots plan ∧
      (∀ t, tgt = some t → plan = [] → t ∈ cur) := by
  have L := loaded_of_load hl hu hd
  unfold downgradeRevs collectDowngrade at hp
  simp only [bind, Except.bind] at hp
  split at hp
  · simp at hp
  · rename_i v hv
    split at hv
    · simp at hv
    · rename_i lt hlt
      obtain ⟨label, tgt⟩ := lt
      split at hv
      · simp at hv
      · rename_i roots hroots
        split at hv
        · simp at hv
        · rename_i cur hcur
          obtain ⟨plan', hs, hplan⟩ := plan_of_set L roots cur
          cases tgt with
          | none =>
            simp only [pure, Except.pure, Except.ok.injEq] at hv
            subst hv
            simp only [hs, Except.ok.injEq] at hp
            subst hp
            exact ⟨label, none, roots, cur, hlt, hroots, hcur, hplan, by simp⟩
          | some t =>
            simp only at hv
            split at hv
            · simp [throw, throwThe, MonadExceptOf.throw] at hv
            · rename_i hcond
              simp only [pure, Except.pure, Except.ok.injEq] at hv
              subst hv
              simp only [hs, Except.ok.injEq] at hp
              subst hp
              refine ⟨label, some t, roots, cur, hlt, hroots, hcur, hplan, ?_⟩
              intro t' ht' hempty
              cases ht'
              apply Classical.byContradiction
              intro hnt
              apply hcond
              have : downgradeSet m roots cur = [] := by
                apply List.eq_nil_iff_forall_not_mem.mpr
                intro x hx
                have := (hplan.exact x).mpr ((mem_downgradeSet L roots cur x).mp hx)
                rw [hempty] at this; simp at this
              simp [this, hnt]

/-- **The target and its own prerequisites are never downgraded** (roots = down-revision
children of the target). -/
theorem target_safe {m : LMap} (L : Loaded m) (t : Id) (roots cur plan : List Id)
    (hroots : ∀ r ∈ roots, r ∈ m.nextrev t) (hplan : DowngradePlan m cur roots plan) :
    ∀ x ∈ plan, ¬ Reach m.allDownOf t x := by
  intro x hx hreach
  obtain ⟨⟨r, hr, hxr⟩, _⟩ := (hplan.exact x).mp hx
  have hrt := (nextrev_iff m L.ids_nodup t r).mp (hroots r hr)
  have htr : t ∈ m.allDownOf r := L.norm_sub_all r t (L.down_sub_norm r t hrt.2)
  obtain ⟨rank, hrank⟩ := L.ranked
  have h1 := reach_rank_le' hrank (Reach.trans _ hreach hxr)
  have h2 := hrank r t htr
  omega

/-! ### non-vacuity -/

example : okIs ((load demo).bind (fun m => downgradeRevs m ["d", "e"] "a")) ["d", "b", "e", "c"] = true := by
  decide +kernel
example : okIs ((load demo).bind (fun m => downgradeRevs m ["d", "e"] "lbl@base")) ["d", "b", "e", "c", "a"] = true := by
  decide +kernel

/-! ### C02 in terms of the history as written -/

/-- children-edges of the history are the inverse of its parent-edges -/
theorem reach_children_iff (h : Hist) (a b : Id) : Reach (children h) a b ↔ Reach (parents h) b a := by
  have hmem : ∀ i c, c ∈ children h i ↔ i ∈ parents h c := by
    intro i c
    unfold children
    simp only [List.mem_filter, decide_eq_true_eq]
    constructor
    · exact fun hc => hc.2
    · intro hp
      refine ⟨?_, hp⟩
      -- a revision with a prerequisite is a revision of the history
      unfold parents at hp
      cases hrev : revOf h c with
      | none => simp [hrev] at hp
      | some rv =>
        unfold revOf at hrev
        have hm := List.mem_of_find?_eq_some hrev
        have he := List.find?_some hrev
        simp only [beq_iff_eq] at he
        unfold ids
        exact List.mem_map.mpr ⟨rv, hm, he⟩
  constructor
  · intro hr
    induction hr with
    | refl _ => exact Reach.refl _
    | step hs _ ih => exact Reach.trans _ ih (Reach.single _ ((hmem _ _).mp hs))
  · intro hr
    induction hr with
    | refl _ => exact Reach.refl _
    | step hs _ ih => exact Reach.trans _ ih (Reach.single _ ((hmem _ _).mpr hs))

theorem buildsOn_iff_isDesc {h : Hist} {o : LoadOpts} {m : LMap} (hl : load h o = .ok m)
    (hu : (h.map (·.id)).Nodup) (roots : List Id) (x : Id) : BuildsOn m roots x ↔ IsDesc h roots x := by
  unfold BuildsOn IsDesc
  constructor
  · rintro ⟨r, hr, hreach⟩
    exact ⟨r, hr, (reach_children_iff h r x).mpr ((reach_allDown_iff_parents hl hu x r).mp hreach)⟩
  · rintro ⟨r, hr, hreach⟩
    exact ⟨r, hr, (reach_allDown_iff_parents hl hu x r).mpr ((reach_children_iff h r x).mp hreach)⟩

/-- **C02 in the words of the property**: the plan holds exactly the applied revisions (ancestors
of the current rows) that descend — through down-revision and depends-on links as written in
the files — from the revisions to be removed first, each once, and every revision is removed only
after all applied revisions that name it as a prerequisite. -/
theorem plan_history {h : Hist} {o : LoadOpts} {m : LMap} (hl : load h o = .ok m)
    (hu : (h.map (·.id)).Nodup) (hd : ∀ r ∈ h, ∀ d ∈ r.down, d ∈ h.map (·.id))
    (rows : List Id) (target : String) (plan : List Id)
    (hp : downgradeRevs m rows target = .ok plan) :
    ∃ label tgt roots cur, parseDowngradeTarget m rows target = .ok (label, tgt) ∧
      Model.Rev.downgradeRoots m label tgt = .ok roots ∧ resolveRows m rows = .ok cur ∧
      plan.Nodup ∧ (∀ x, x ∈ plan ↔ IsDesc h roots x ∧ IsAnc h cur x) ∧
      (∀ pre x post, plan = pre ++ x :: post → ∀ c ∈ children h x, IsAnc h cur c → c ∈ pre) := by
  obtain ⟨label, tgt, roots, cur, h1, h2, h3, hplan, _⟩ := C02.plan hl hu hd rows target plan hp
  refine ⟨label, tgt, roots, cur, h1, h2, h3, hplan.nodup, ?_, ?_⟩
  · intro x
    rw [hplan.exact x, buildsOn_iff_isDesc hl hu, requires_iff_isAnc hl hu]
  · intro pre x post hsplit c hc hca
    have hcp : x ∈ parents h c := by
      unfold children at hc
      simpa using (List.mem_filter.mp hc).2
    have hcm : c ∈ m.ids := by
      apply Classical.byContradiction
      intro hn
      have := (allDownOf_mem_iff_parents hl hu c x).mpr hcp
      rw [allDownOf_nil m c hn] at this
      simp at this
    exact hplan.order pre x post hsplit c hcm ((allDownOf_mem_iff_parents hl hu c x).mpr hcp)
      ((requires_iff_isAnc hl hu cur c).mpr hca)

/-! ### the oracle `Spec.Rev.downgradeOk`, evaluated on the implementation's plans -/

theorem childrenFirst_spec (h : Hist) (applied : List Id) : ∀ (plan done : List Id),
    childrenFirst h applied done plan = true →
    ∀ pre x post, plan = pre ++ x :: post → ∀ c ∈ children h x, c ∈ applied → c ∈ done ∨ c ∈ pre := by
  intro plan
  induction plan with
  | nil => intro done _ pre x post e; cases pre <;> simp at e
  | cons y rest ih =>
    intro done hok pre x post e c hc hca
    simp only [childrenFirst, Bool.and_eq_true, List.all_eq_true, Bool.or_eq_true, Bool.not_eq_true',
      decide_eq_false_iff_not, decide_eq_true_eq] at hok
    cases pre with
    | nil =>
      simp only [List.nil_append, List.cons.injEq] at e
      obtain ⟨e1, _⟩ := e
      subst e1
      rcases hok.1 c hc with h1 | h1
      · exact absurd hca h1
      · exact Or.inl h1
    | cons p pre' =>
      simp only [List.cons_append, List.cons.injEq] at e
      obtain ⟨e1, e2⟩ := e
      subst e1
      rcases ih (y :: done) hok.2 pre' x post e2 c hc hca with h1 | h1
      · rcases List.mem_cons.mp h1 with h2 | h2
        · exact Or.inr (h2 ▸ List.mem_cons_self)
        · exact Or.inl h2
      · exact Or.inr (List.mem_cons_of_mem _ h1)

/-- **What a `true` verdict of the downgrade oracle means**: the plan is duplicate-free, holds
exactly the applied revisions that descend from the revisions to be removed first, never the
target or one of its ancestors, and removes every revision only after all applied revisions that
name it as a prerequisite. -/
theorem downgradeOk_sound (h : Hist) (hd : ∀ c ∈ ids h, ∀ p ∈ parents h c, p ∈ ids h)
    (rows : List Id) (target branch : Option Id) (plan : List Id)
    (hok : downgradeOk h rows target branch plan = true) :
    plan.Nodup ∧
    (∀ x, x ∈ plan ↔ IsDesc h (Spec.Rev.downgradeRoots h target branch) x ∧ IsAnc h rows x) ∧
    (∀ pre x post, plan = pre ++ x :: post → ∀ c ∈ children h x, IsAnc h rows c → c ∈ pre) ∧
    (∀ t, target = some t → ∀ a, IsAnc h [t] a → a ∉ plan) := by
  unfold downgradeOk at hok
  simp only [Bool.and_eq_true] at hok
  obtain ⟨⟨⟨h1, h2⟩, h3⟩, h4⟩ := hok
  unfold sameSet at h2
  simp only [Bool.and_eq_true, List.all_eq_true, decide_eq_true_eq, List.mem_filter] at h2
  refine ⟨(nodupB_iff _).mp h1, ?_, ?_, ?_⟩
  · intro x
    constructor
    · intro hx
      obtain ⟨a, b⟩ := h2.1 x hx
      exact ⟨(mem_descSet_iff h hd _ x).mp a, (mem_ancSet_iff h rows x).mp b⟩
    · rintro ⟨a, b⟩
      exact h2.2 x ⟨(mem_descSet_iff h hd _ x).mpr a, (mem_ancSet_iff h rows x).mpr b⟩
  · intro pre x post e c hc hca
    rcases childrenFirst_spec h _ plan [] h3 pre x post e c hc ((mem_ancSet_iff h rows c).mpr hca) with h' | h'
    · simp at h'
    · exact h'
  · intro t ht a ha hap
    subst ht
    simp only [Bool.and_eq_true, Bool.not_eq_true', decide_eq_false_iff_not, List.all_eq_true] at h4
    exact h4.2 a ((mem_ancSet_iff h [t] a).mpr ha) hap

end C02
