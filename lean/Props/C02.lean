import Spec.Rev
import Model.Rev.Heads
/-! # C02 (theorems: work in progress) -/
namespace C02
end C02
