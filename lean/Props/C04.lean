import Lemmas.Online.Concrete
import Lemmas.Online.Rounds
import Lemmas.Online.Orphan
/-!
# C04 — a failing migration never leaves the version table out of step

All theorems are about `Model.Online.runFinal ap c pre (oracle kd plan k pos) db`: what a fresh
connection sees after the `env.py` shape was run on database `db`, where migrations
`0 … k-1` of `plan` ran completely and migration `k` raised an exception of kind `kd`
(`Exception`, `KeyboardInterrupt`, `SystemExit`, other `BaseException`: every theorem is
universally quantified over it) at atom position `pos`
(before/between/after each statement, around autocommit blocks, inside or after the version
update).  They hold for **every** state type `σ`, statement payload `α` and statement
semantics `ap`, every plan length, every `k`, every `pos`.

`PerMigRegime c`  = not external ∧ (`transactional_ddl` false ∨ `transaction_per_migration`)
`SingleRegime c`  = external transaction ∨ (`transactional_ddl` ∧ ¬`transaction_per_migration`)
(the two regimes cover all four `(transactional_ddl, transaction_per_migration)` settings).
-/
namespace C04
open Model.Online Spec.Online

variable {α σ ρ : Type} (ap : α → σ → σ) (kd : FailKind)

/-! ### plumbing: from the `env.py` shape to the loop -/

/-- the state in which the loop starts -/
def loopStart (c : Cfg) (pre : List (Stmt α)) (db : σ) : St σ :=
  execAll ap c.mode pre (autobegin c.mode (startSt c db))

theorem runMigrations_eq (c : Cfg) (pre : List (Stmt α)) (progs : List (List (Atom α))) (db : σ) :
    runMigrations ap c pre progs (startSt c db) = runLoop ap c progs (loopStart ap c pre db) := by
  unfold runMigrations ensureVT loopStart execAll
  cases pre with
  | nil => simp
  | cons s r => simp

theorem runMigrations_eq' (c : Cfg) (pre : List (Stmt α)) (progs : List (List (Atom α))) (db : σ) :
    runMigrations ap c pre progs (beginTransaction c false (initSt c db)).2 = runLoop ap c progs (loopStart ap c pre db) :=
  runMigrations_eq ap c pre progs db

theorem loopStart_auto (c : Cfg) (pre : List (Stmt α)) (db : σ) : (loopStart ap c pre db).auto = none := by
  simp [loopStart]

theorem loopStart_working (c : Cfg) (pre : List (Stmt α)) (db : σ) :
    (loopStart ap c pre db).working = applyAll ap (pre.map (·.act)) db := by
  simp [loopStart]

theorem loopStart_txn (c : Cfg) (h : PerMigRegime c) (pre : List (Stmt α)) (db : σ) : (loopStart ap c pre db).txn = false := by
  simp [loopStart, startSt, begin_outer_perMig c h, initSt]

theorem loopStart_inv (c : Cfg) (pre : List (Stmt α)) (db : σ) (Cp Wp : σ → Prop) (hWC : ∀ x, Wp x → Cp x)
    (hp : ∀ s ∈ pre, ∀ x, Wp x → Wp (ap s.act x)) (hc : Cp db) (hw : Wp db) :
    Cp (loopStart ap c pre db).committed := by
  have := runAtoms_inv ap c.mode Cp Wp hWC (pre.map .stmt) (autobegin c.mode (startSt c db))
    (fun s hs => by
      simp only [List.mem_map] at hs
      obtain ⟨s', hs', e⟩ := hs
      cases e; exact hp _ hs')
    (by simp [hc])
    (by simp [hw])
  rw [runAtoms_stmts] at this
  exact this.1

theorem loopStart_committed_transactional (c : Cfg) (hm : c.mode = .transactional) (pre : List (Stmt α)) (db : σ) :
    (loopStart ap c pre db).committed = db := by
  have := runAtoms_transactional_noAuto ap (pre.map .stmt) (autobegin c.mode (startSt c db))
    (by simp [noAuto, isAutoAtom]) (by simp)
  rw [← hm, runAtoms_stmts] at this
  simpa [loopStart, Outcome.st] using this.1

/-- after a failure, the observation is the `committed` component the loop ended with -/
theorem final_eq (c : Cfg) (pre : List (Stmt α)) (plan : List (Mig α)) (k pos : Nat) (m : Mig α) (db : σ)
    (hk : plan[k]? = some m) :
    runFinal ap c pre (oracle kd plan k pos) db =
      (runLoop ap c ((plan.take k).map migAtoms ++ [(migAtoms m).take pos ++ [.raise kd]]) (loopStart ap c pre db)).st.committed := by
  rw [runFinal_of_raised, runMigrations_eq', oracle_eq kd plan k pos m hk]
  rw [runMigrations_eq', oracle_eq kd plan k pos m hk]
  exact runLoop_raises ap kd c _ _ _

/-- the run raises: the exception reaches the caller (it is never swallowed) -/
theorem failure_propagates (c : Cfg) (pre : List (Stmt α)) (plan : List (Mig α)) (k pos : Nat) (m : Mig α) (db : σ)
    (hk : plan[k]? = some m) : runRaised ap c pre (oracle kd plan k pos) db = true := by
  unfold runRaised
  have := runLoop_raises ap kd c ((plan.take k).map migAtoms) ((migAtoms m).take pos) (loopStart ap c pre db)
  rw [runMigrations_eq', oracle_eq kd plan k pos m hk]
  cases h : runLoop ap c ((plan.take k).map migAtoms ++ [(migAtoms m).take pos ++ [.raise kd]]) (loopStart ap c pre db) with
  | ok s => rw [h] at this; simp [Outcome.isRaised] at this
  | raised s => rfl

theorem take_eq_nil_iff_zero (plan : List (Mig α)) (k : Nat) (m : Mig α) (hk : plan[k]? = some m) :
    plan.take k = [] ↔ k = 0 := by
  constructor
  · intro h
    cases plan with
    | nil => simp at hk
    | cons a r => cases k with
      | zero => rfl
      | succ n => simp at h
  · intro h; subst h; simp

/-! ### the property -/

/-- **Transactional DDL, one enclosing transaction** (also: the caller's own transaction):
    after the failure, schema, data and version table are exactly as before the command.
    Scope: no `autocommit_block` was entered before the failure (such a block commits the
    enclosing transaction by design, see `single_txn_autocommit_block_commits`). -/
theorem single_txn (c : Cfg) (pre : List (Stmt α)) (plan : List (Mig α)) (k pos : Nat) (m : Mig α) (db : σ)
    (hmode : c.mode = .transactional) (hreg : SingleRegime c) (hk : plan[k]? = some m)
    (hna : ∀ m' ∈ plan.take k, noAuto (migAtoms m') = true) (hnaf : noAuto ((migAtoms m).take pos) = true) :
    runFinal ap c pre (oracle kd plan k pos) db = db := by
  rw [final_eq ap kd c pre plan k pos m db hk, runLoop_single_exact ap c hmode hreg _ _ _ (loopStart_auto ap c pre db),
    loopStart_committed_transactional ap c hmode]
  intro p hp
  rcases List.mem_append.mp hp with h | h
  · obtain ⟨m', hm', e⟩ := List.mem_map.mp h
    rw [← e]; exact hna m' hm'
  · simp only [List.mem_singleton] at h
    subst h
    simp only [noAuto, List.all_append, Bool.and_eq_true] at hnaf ⊢
    exact ⟨hnaf, by simp [isAutoAtom]⟩

/-- **Transactional DDL, transaction per migration**: exactly the completed migrations are
    applied and recorded, the failed one leaves no trace (if the very first migration fails
    even the creation of the version table is rolled back).  Scope: the failed migration
    entered no `autocommit_block` before the failure (earlier migrations may have). -/
theorem per_migration (c : Cfg) (pre : List (Stmt α)) (plan : List (Mig α)) (k pos : Nat) (m : Mig α) (db : σ)
    (hmode : c.mode = .transactional) (hreg : PerMigRegime c) (hk : plan[k]? = some m)
    (hnaf : noAuto ((migAtoms m).take pos) = true) :
    runFinal ap c pre (oracle kd plan k pos) db = if k = 0 then db else stateAt ap pre plan k db := by
  rw [final_eq ap kd c pre plan k pos m db hk,
    runLoop_perMig_exact ap kd c hmode hreg m pos hnaf _ _ (loopStart_auto ap c pre db) (loopStart_txn ap c hreg pre db),
    loopStart_committed_transactional ap c hmode, loopStart_working]
  simp only [take_eq_nil_iff_zero plan k m hk, stateAt, applied]

/-- **Per-migration regime, any backend mode, autocommit blocks allowed**: the version
    rows (any observation `π` that migration bodies and the housekeeping do not touch) are
    exactly those of the completed migrations. -/
theorem recorded_exactly_completed (π : σ → ρ) (c : Cfg) (pre : List (Stmt α)) (plan : List (Mig α)) (k pos : Nat)
    (m : Mig α) (db : σ) (hreg : PerMigRegime c) (hk : plan[k]? = some m)
    (hpre : ∀ s ∈ pre, ∀ x, π (ap s.act x) = π x)
    (hbody : ∀ s, Atom.stmt s ∈ bodyAtoms m.segs → ∀ x, π (ap s.act x) = π x) :
    π (runFinal ap c pre (oracle kd plan k pos) db) = π (stateAt ap pre plan k db) := by
  rw [final_eq ap kd c pre plan k pos m db hk,
    runLoop_perMig_proj ap kd π c hreg m pos hbody _ _ (loopStart_auto ap c pre db) (loopStart_txn ap c hreg pre db),
    loopStart_working]
  · rfl
  · rw [loopStart_working, applyAll_preserve ap π]
    · exact loopStart_inv ap c pre db (fun x => π x = π db) (fun x => π x = π db) (fun _ h => h)
        (fun s hs x hx => by rw [hpre s hs x]; exact hx) rfl rfl
    · intro a ha x
      obtain ⟨s, hs, e⟩ := List.mem_map.mp ha
      rw [← e]; exact hpre s hs x

/-- **Without transactional DDL** (`impl.transactional_ddl` false; every backend mode, with
    or without `transaction_per_migration`): the table still records exactly the completed
    migrations. -/
theorem nontransactional (π : σ → ρ) (c : Cfg) (pre : List (Stmt α)) (plan : List (Mig α)) (k pos : Nat)
    (m : Mig α) (db : σ) (htddl : c.tddl = false) (hext : c.external = false) (hk : plan[k]? = some m)
    (hpre : ∀ s ∈ pre, ∀ x, π (ap s.act x) = π x)
    (hbody : ∀ s, Atom.stmt s ∈ bodyAtoms m.segs → ∀ x, π (ap s.act x) = π x) :
    π (runFinal ap c pre (oracle kd plan k pos) db) = π (stateAt ap pre plan k db) :=
  recorded_exactly_completed ap kd π c pre plan k pos m db ⟨hext, Or.inl htddl⟩ hk hpre hbody

/-- **Every configuration** (all backend modes, all four settings, external transaction,
    autocommit blocks, flag/backend mismatches): the version rows after the failure are
    those of a migration boundary `j ≤ k` — recorded = a prefix of the migrations whose
    function returned (those whose transaction committed), never a partial version update. -/
theorem rows_at_boundary (π : σ → ρ) (c : Cfg) (pre : List (Stmt α)) (plan : List (Mig α)) (k pos : Nat)
    (m : Mig α) (db : σ) (hk : plan[k]? = some m)
    (hcong : ∀ a x y, π x = π y → π (ap a x) = π (ap a y))
    (hpre : ∀ s ∈ pre, ∀ x, π (ap s.act x) = π x)
    (hbody : ∀ m' ∈ plan.take k ++ [m], ∀ s, Atom.stmt s ∈ bodyAtoms m'.segs → ∀ x, π (ap s.act x) = π x) :
    ∃ j, j ≤ k ∧ π (runFinal ap c pre (oracle kd plan k pos) db) = π (stateAt ap pre plan j db) := by
  rw [final_eq ap kd c pre plan k pos m db hk]
  have hbase : π (applyAll ap (pre.map (·.act)) db) = π db := by
    rw [applyAll_preserve ap π]
    intro a ha x
    obtain ⟨s, hs, e⟩ := List.mem_map.mp ha
    rw [← e]; exact hpre s hs x
  have := runLoop_boundary ap kd π c hcong m pos (plan.take k) hbody (fun y => y = π (applyAll ap (pre.map (·.act)) db))
    (applyAll ap (pre.map (·.act)) db) (loopStart ap c pre db) (loopStart_auto ap c pre db)
    (by
      rw [hbase]
      exact loopStart_inv ap c pre db (fun x => π x = π db) (fun x => π x = π db) (fun _ h => h)
        (fun s hs x hx => by rw [hpre s hs x]; exact hx) rfl rfl)
    (by rw [loopStart_working]) rfl
  rcases this with h | ⟨j, hj, h⟩
  · exact ⟨0, Nat.zero_le _, by rw [h]; simp [stateAt, applied, planActs, applyAll]⟩
  · have hjk : j ≤ k := by
      have := List.length_take_le k plan
      omega
    refine ⟨j, hjk, ?_⟩
    rw [h, List.take_take, Nat.min_eq_left hjk]
    rfl

/-- **The failed revision is never named (upgrade) nor dropped (downgrade)**: whatever
    "the version table names revision r" means (`names`, e.g. membership of `r` in the
    ancestor closure of the rows), if at every migration boundary up to the failed step the
    table names the failed revision iff `e` (upgrade: `e = False`, it is not applied yet;
    downgrade: `e = True`, it is still applied), then so it does after the failure. -/
theorem never_names_failed (π : σ → ρ) (names : ρ → Nat → Prop) (e : Prop) (c : Cfg) (pre : List (Stmt α))
    (plan : List (Mig α)) (k pos : Nat) (m : Mig α) (db : σ) (hk : plan[k]? = some m)
    (hcong : ∀ a x y, π x = π y → π (ap a x) = π (ap a y))
    (hpre : ∀ s ∈ pre, ∀ x, π (ap s.act x) = π x)
    (hbody : ∀ m' ∈ plan.take k ++ [m], ∀ s, Atom.stmt s ∈ bodyAtoms m'.segs → ∀ x, π (ap s.act x) = π x)
    (hb : ∀ j, j ≤ k → (names (π (stateAt ap pre plan j db)) m.rev ↔ e)) :
    names (π (runFinal ap c pre (oracle kd plan k pos) db)) m.rev ↔ e := by
  obtain ⟨j, hj, h⟩ := rows_at_boundary ap kd π c pre plan k pos m db hk hcong hpre hbody
  rw [h]; exact hb j hj

/-! ### the Bool checker that judges the implementation is implied by the theorems -/

theorem imp_or {a b : Bool} (h : a = true → b = true) : (!a || b) = true := by
  cases a <;> simp_all
theorem imp_or2 {a b c : Bool} (h : a = true → (b || c) = true) : (!a || b || c) = true := by
  cases a <;> simp_all

/-- `Spec.Online.check` — the decidable form evaluated on the *implementation's* observation
    by the driver — holds on the model's output for every configuration, plan, failure
    position and start state, provided bodies/housekeeping do not write version rows
    (`wfPlan`) and the failed revision's status is constant over the earlier boundaries
    (`namesHyp`, evaluated on every generated case). -/
theorem model_satisfies_check (c : Cfg) (upgrade : Bool) (parents : List (Nat × List Nat)) (pre : List (Stmt Act))
    (plan : List (Mig Act)) (k pos : Nat) (m : Mig Act) (db : Db) (hk : plan[k]? = some m)
    (hwf : wfPlan pre plan = true) (hn : namesHyp parents pre plan db m.rev upgrade k = true) :
    (check c upgrade parents pre plan k pos db (runFinal applyAct c pre (oracle kd plan k pos) db)).holds = true := by
  simp only [wfPlan, Bool.and_eq_true, List.all_eq_true] at hwf
  obtain ⟨hwpre, hwplan⟩ := hwf
  have hpre : ∀ s ∈ pre, ∀ x, (applyAct s.act x).rows = x.rows :=
    fun s hs x => applyAct_rows_objOnly _ (hwpre s hs) x
  have hbodyOf : ∀ m' ∈ plan, ∀ s, Atom.stmt s ∈ bodyAtoms m'.segs → ∀ x, (applyAct s.act x).rows = x.rows :=
    fun m' hm' s hs x => applyAct_rows_objOnly _ (hwplan m' hm' _ (stmt_mem_bodyAtoms hs)) x
  have hm : m ∈ plan := List.mem_of_getElem? hk
  have hbody : ∀ m' ∈ plan.take k ++ [m], ∀ s, Atom.stmt s ∈ bodyAtoms m'.segs → ∀ x, (applyAct s.act x).rows = x.rows := by
    intro m' hm'
    rcases List.mem_append.mp hm' with h | h
    · exact hbodyOf m' (List.mem_of_mem_take h)
    · simp only [List.mem_singleton] at h; subst h; exact hbodyOf m' hm
  simp only [check, hk, Verdict.holds, Bool.and_eq_true]
  refine ⟨⟨⟨⟨?_, ?_⟩, ?_⟩, ?_⟩, ?_⟩
  · obtain ⟨j, hj, h⟩ := rows_at_boundary applyAct kd Db.rows c pre plan k pos m db hk applyAct_rows_cong hpre hbody
    exact boundaryRows_of pre plan db _ k j hj h.symm
  · obtain ⟨j, hj, h⟩ := rows_at_boundary applyAct kd Db.rows c pre plan k pos m db hk applyAct_rows_cong hpre hbody
    rw [h, namesHyp_at parents pre plan db m.rev upgrade k j hj hn]
    simp
  · apply imp_or; intro hc
    simp only [Bool.and_eq_true] at hc
    obtain ⟨⟨h1, h2⟩, h5, h6⟩ := hc
    have hreg : SingleRegime c := by
      unfold SingleRegime
      cases hx : c.external <;> cases ht : c.tddl <;> cases hp : c.perMig <;> simp_all
    rw [single_txn applyAct kd c pre plan k pos m db (by simpa using h1) hreg hk
      (fun m' hm' => by
        simp only [List.all_eq_true, List.mem_map] at h5
        exact h5 _ ⟨m', hm', rfl⟩) h6]
    simp
  · apply imp_or2; intro hc
    simp only [Bool.and_eq_true] at hc
    obtain ⟨⟨⟨h1, h3⟩, h4⟩, h5⟩ := hc
    have hreg : PerMigRegime c := by
      unfold PerMigRegime
      cases hx : c.external <;> cases ht : c.tddl <;> cases hp : c.perMig <;> simp_all
    rw [per_migration applyAct kd c pre plan k pos m db (by simpa using h1) hreg hk h5]
    by_cases hk0 : k = 0
    · subst hk0; simp [applied, planActs, applyAll]
    · simp [hk0]
  · apply imp_or; intro hc
    simp only [Bool.and_eq_true] at hc
    rw [nontransactional applyAct kd Db.rows c pre plan k pos m db (by simpa using hc.1) (by simpa using hc.2) hk hpre (hbodyOf m hm)]
    simp

/-- **Earlier migrations are recorded exactly when their effects are durable** — the
    effects half, for every backend mode (also without transactional DDL) in the
    per-migration regime: an object that neither the housekeeping nor the *failed*
    migration's body mentions exists after the failure iff it exists after the completed
    migrations `0 … k-1`.  (`recorded_exactly_completed` with the observation
    "object `n` exists"; together with `nontransactional` for the rows.) -/
theorem earlier_effects_durable (c : Cfg) (pre : List (Stmt Act)) (plan : List (Mig Act)) (k pos : Nat)
    (m : Mig Act) (db : Db) (n : Nat) (hreg : PerMigRegime c) (hk : plan[k]? = some m)
    (hpre : ∀ s ∈ pre, touches s.act n = false)
    (hbody : ∀ a ∈ bodyActs m.segs, touches a n = false) :
    n ∈ (runFinal applyAct c pre (oracle kd plan k pos) db).objs ↔ n ∈ (stateAt applyAct pre plan k db).objs := by
  have := recorded_exactly_completed applyAct kd (fun x : Db => decide (n ∈ x.objs)) c pre plan k pos m db hreg hk
    (fun s hs x => applyAct_objs_untouched _ n (hpre s hs) x)
    (fun s hs x => applyAct_objs_untouched _ n (hbody _ (stmt_mem_bodyAtoms hs)) x)
  simpa using this

/-! ### env.py variants: the theorems above (about `runFinal`) carry over -/

theorem shape_stock_same (c : Cfg) (pre : List (Stmt α)) (progs : List (List (Atom α))) (db : σ) :
    runShape ap .stock c pre progs db = (runFinal ap c pre progs db, runRaised ap c pre progs db) := by
  unfold runShape runFinal runRaised finish
  cases runMigrations ap c pre progs (beginTransaction c false (initSt c db)).2 <;> rfl

theorem autobegin_idem (md : Mode) (st : St σ) : autobegin md (autobegin md st) = autobegin md st := by
  unfold autobegin
  cases h : st.sa
  · simp [saBegin]
  · simp [h]

/-- A statement executed on the connection between `configure()` and `begin_transaction()`
    changes nothing, in every configuration: the autobegun transaction is adopted. -/
theorem shape_preStmt_same (c : Cfg) (pre : List (Stmt α)) (progs : List (List (Atom α))) (db : σ) :
    runShape ap .preStmt c pre progs db = runShape ap .stock c pre progs db := by
  have h1 : (beginTransaction c false (autobegin c.mode (initSt c db))).1 = (beginTransaction c false (initSt c db)).1 := by
    unfold beginTransaction
    cases c.external <;> cases c.tddl <;> cases c.perMig <;> simp [initSt, autobegin, saBegin]
  have h2 : autobegin c.mode (beginTransaction c false (autobegin c.mode (initSt c db))).2 =
      autobegin c.mode (beginTransaction c false (initSt c db)).2 := by
    unfold beginTransaction
    cases hx : c.external <;> cases c.tddl <;> cases c.perMig <;>
      simp [initSt, autobegin, saBegin, hx]
  unfold runShape runMigrations
  simp only [h1, h2]

/-- Calling `run_migrations()` without the outer `with context.begin_transaction():` changes
    nothing in the per-migration regime (that level is a `nullcontext()` there). -/
theorem shape_noOuter_same (c : Cfg) (h : PerMigRegime c) (pre : List (Stmt α)) (progs : List (List (Atom α))) (db : σ) :
    runShape ap .noOuter c pre progs db = runShape ap .stock c pre progs db := by
  unfold runShape
  simp only [begin_outer_perMig c h]

/-! ### several configure()/begin_transaction()/run_migrations() rounds on ONE connection -/

/-- **A completed round leaves the connection outside any transaction** (per-migration regime,
    at least one migration, entered on a connection outside a transaction): the state handed
    to the next round is a fresh connection on the database with the round's migrations
    applied and recorded — so the next `MigrationContext.__init__` computes
    `_in_external_transaction = False`. -/
theorem run_leaves_no_txn (c : Cfg) (hreg : PerMigRegime c) (pre : List (Stmt α)) (m : Mig α) (rest : List (Mig α)) (db : σ) :
    roundOutcome ap c pre ((m :: rest).map migAtoms) (freshSt db) =
      .ok (freshSt (stateAt ap pre (m :: rest) (m :: rest).length db)) := by
  unfold roundOutcome
  rw [roundCfg_fresh c hreg.1 db, ← initSt_fresh c hreg.1 db, runMigrations_eq', begin_outer_perMig c hreg,
    runLoop_complete_perMig ap c hreg m rest _ (loopStart_auto ap c pre db) (loopStart_txn ap c hreg pre db), loopStart_working]
  simp [exitIf, stateAt, applied]

/-- ... whereas a round with NOTHING to do does leave it inside the transaction that
    `get_current_heads()` autobegan (nobody commits it): the next context on that connection
    would see `connection.in_transaction()` true.  (Concrete witness; the harness' rounds all
    contain migrations.) -/
theorem round_without_migrations_leaves_txn :
    (roundOutcome applyAct { mode := .pysqlite, tddl := false, perMig := false, external := false }
      ([] : List (Stmt Act)) [] (freshSt ({ objs := [], rows := [0], vt := true } : Db))).st.sa = true := by decide

/-- A round entered on a connection outside a transaction that fails is exactly the
    standalone run the other theorems are about. -/
theorem round_failure_eq_standalone (c : Cfg) (h : c.external = false) (pre : List (Stmt α))
    (progs : List (List (Atom α))) (db : σ) (hr : (roundOutcome ap c pre progs (freshSt db)).isRaised = true) :
    (roundOutcome ap c pre progs (freshSt db)).st.committed = runFinal ap c pre progs db := by
  unfold roundOutcome runFinal at *
  rw [roundCfg_fresh c h db, ← initSt_fresh c h db] at *
  cases hm : runMigrations ap c pre progs (beginTransaction c false (initSt c db)).2 with
  | ok s => rw [hm] at hr; simp [Outcome.isRaised] at hr
  | raised s => simp [Outcome.st, closeConn_exc_committed]

/-- the rounds of one env.py run: settings, housekeeping statements and plan of each -/
abbrev Round (α : Type) := Cfg × List (Stmt α) × List (Mig α)

/-- the connection state after the rounds ran one after another on the same connection -/
def roundsSt : List (Round α) → St σ → Option (St σ)
  | [], st => some st
  | (c, pre, plan) :: r, st =>
    match roundOutcome ap c pre (plan.map migAtoms) st with
    | .ok s => roundsSt r s
    | .raised _ => none

/-- the database after the rounds, each taken as a standalone complete run -/
def roundsDb : List (Round α) → σ → σ
  | [], db => db
  | (_, pre, plan) :: r, db => roundsDb r (stateAt ap pre plan plan.length db)

/-- **Rounds are independent**: if every round is in the per-migration regime and has at least
    one migration, then running them one after another on ONE connection is the same as
    running each as a standalone command: every round is entered on a fresh connection over
    the database its predecessors left (so all theorems above apply to it verbatim, see
    `round_failure_eq_standalone`), and the whole sequence ends outside a transaction. -/
theorem rounds_independent (rounds : List (Round α)) (h : ∀ r ∈ rounds, PerMigRegime r.1 ∧ r.2.2 ≠ []) (db : σ) :
    roundsSt ap rounds (freshSt db) = some (freshSt (roundsDb ap rounds db)) := by
  induction rounds generalizing db with
  | nil => rfl
  | cons r rest ih =>
    obtain ⟨c, pre, plan⟩ := r
    have hr := h (c, pre, plan) List.mem_cons_self
    cases plan with
    | nil => exact absurd rfl hr.2
    | cons m ms =>
      simp only [roundsSt, roundsDb]
      rw [run_leaves_no_txn ap c hr.1 pre m ms db]
      exact ih (fun r' hr' => h r' (List.mem_cons_of_mem _ hr')) _

/-- One-enclosing-transaction regime (transactional DDL, no per-migration transactions, no
    external transaction), plan WITHOUT autocommit blocks: a completed round also ends outside
    any transaction, with everything applied and recorded.  (Also for an empty plan: the outer
    `_ProxyTransaction` commits the autobegun transaction.) -/
theorem run_leaves_no_txn_single_partial (c : Cfg) (h1 : c.external = false) (h2 : c.tddl = true) (h3 : c.perMig = false)
    (pre : List (Stmt α)) (plan : List (Mig α)) (hp : ∀ m ∈ plan, allPlain m.segs = true) (db : σ) :
    roundOutcome ap c pre (plan.map migAtoms) (freshSt db) = .ok (freshSt (stateAt ap pre plan plan.length db)) := by
  have hb : beginTransaction c false (initSt c db) = (true, { autobegin c.mode (initSt c db) with txn := true }) := by
    simp [beginTransaction, h1, h2, h3]
  have htxn : (loopStart ap c pre db).txn = true := by simp [loopStart, startSt, hb]
  obtain ⟨s', e, w, t, a⟩ := runLoop_external_complete ap c (Or.inr ⟨h2, h3⟩) plan hp (loopStart ap c pre db)
  unfold roundOutcome
  rw [roundCfg_fresh c h1 db, ← initSt_fresh c h1 db, runMigrations_eq', e]
  rw [htxn] at t
  rw [loopStart_auto] at a
  simp [hb, exitIf, proxyExit, t, commit, freshSt, a, w, loopStart_working, stateAt, applied]

/-- a round the two lemmas cover: per-migration regime with at least one migration, or the
    one-enclosing-transaction regime with no autocommit block in its migrations -/
def RoundOk (r : Round α) : Prop :=
  (PerMigRegime r.1 ∧ r.2.2 ≠ []) ∨
  (r.1.external = false ∧ r.1.tddl = true ∧ r.1.perMig = false ∧ ∀ m ∈ r.2.2, allPlain m.segs = true)

/-- `rounds_independent` extended to the one-enclosing-transaction regime.  PARTIAL: rounds of
    that regime must not contain autocommit blocks (missing: the complete-migration lemma for
    autocommit blocks when the transaction was opened at the env.py level), and per-migration
    rounds still need at least one migration (false otherwise: finding C04-F2). -/
theorem rounds_independent_partial (rounds : List (Round α)) (h : ∀ r ∈ rounds, RoundOk r) (db : σ) :
    roundsSt ap rounds (freshSt db) = some (freshSt (roundsDb ap rounds db)) := by
  induction rounds generalizing db with
  | nil => rfl
  | cons r rest ih =>
    obtain ⟨c, pre, plan⟩ := r
    have ih' := fun db' => ih (fun r' hr' => h r' (List.mem_cons_of_mem _ hr')) db'
    rcases h (c, pre, plan) List.mem_cons_self with ⟨hreg, hne⟩ | ⟨h1, h2, h3, hp⟩
    · cases plan with
      | nil => exact absurd rfl hne
      | cons m ms =>
        simp only [roundsSt, roundsDb]
        rw [run_leaves_no_txn ap c hreg pre m ms db]
        exact ih' _
    · simp only [roundsSt, roundsDb]
      rw [run_leaves_no_txn_single_partial ap c h1 h2 h3 pre plan hp db]
      exact ih' _

/-! ### finding C04-F2 as a theorem of the model -/

theorem start_extInv (π : σ → ρ) (c : Cfg) (hx : c.external = true) (pre : List (Stmt α)) (db : σ)
    (hpre : ∀ s ∈ pre, s.kind = .ddl → ∀ x, π (ap s.act x) = π x) (hmd : c.mode ≠ .autocommitDDL) :
    ExtInv π db (ensureVT ap c.mode pre (autobegin c.mode (beginTransaction c false (initSt c db)).2)) := by
  have h0 : ExtInv π db (initSt c db) := ⟨rfl, fun _ => rfl, rfl, rfl, by simp [initSt, hx]⟩
  have hb : (beginTransaction c false (initSt c db)).2 = initSt c db := by simp [beginTransaction, hx]
  have ha : autobegin c.mode (initSt c db) = initSt c db := by simp [autobegin, initSt, hx]
  rw [hb, ha]
  have := runAtoms_extInv ap π db c.mode hmd (pre.map .stmt) (initSt c db)
    (fun s hs => by
      obtain ⟨s', hs', e⟩ := List.mem_map.mp hs
      cases e; exact hpre _ hs') h0
  rw [runAtoms_stmts] at this
  unfold ensureVT
  cases pre with
  | nil => simpa using h0
  | cons s r => simpa [initSt, hx, execAll, Outcome.st] using this

/-- **C04-F2, positively**: a run that alembic believes to be inside the caller's transaction
    (`external`) while nobody owns that transaction (`orphan`: it was autobegun by an earlier
    context on the same connection) NEVER records anything — whether its migrations all
    complete or one of them raises, after the connection is closed the version rows (any
    observation `π` that DDL statements leave alone) are exactly those from before the run,
    on `transactional` and `pysqlite` backends; non-transactional DDL executed before the
    first DML of the run stays applied (see the example below): applied but not recorded. -/
theorem orphan_round_loses_rows (π : σ → ρ) (c : Cfg) (hx : c.external = true) (ho : c.orphan = true)
    (hmd : c.mode ≠ .autocommitDDL) (pre : List (Stmt α)) (progs : List (List (Atom α))) (db : σ)
    (hpre : ∀ s ∈ pre, s.kind = .ddl → ∀ x, π (ap s.act x) = π x)
    (hp : ∀ p ∈ progs, ∀ s, Atom.stmt s ∈ p → s.kind = .ddl → ∀ x, π (ap s.act x) = π x) :
    π (runFinal ap c pre progs db) = π db := by
  have hinv := runLoop_extInv ap π db c hx hmd progs _ hp (start_extInv ap π c hx pre db hpre hmd)
  have hb : (beginTransaction c false (initSt c db)).1 = false := by simp [beginTransaction, hx]
  unfold runFinal runMigrations
  cases hq : runLoop ap c progs (ensureVT ap c.mode pre (autobegin c.mode (beginTransaction c false (initSt c db)).2)) with
  | ok s => rw [hq] at hinv; simpa [hb, exitIf, closeConn, ho, rollback, Outcome.st] using hinv.1
  | raised s => rw [hq] at hinv; simpa [hb, exitIf, closeConn, rollback, Outcome.st] using hinv.1

/-- **The complement**: inside a transaction the caller really owns and commits (`external`,
    not `orphan`), a run whose migrations all complete (no autocommit block, which would raise
    there) leaves every migration applied and recorded once the caller has committed — in
    every backend mode.  The only difference to `orphan_round_loses_rows` is who owns the
    transaction. -/
theorem owned_external_keeps (c : Cfg) (hx : c.external = true) (ho : c.orphan = false) (pre : List (Stmt α))
    (plan : List (Mig α)) (h : ∀ m ∈ plan, allPlain m.segs = true) (db : σ) :
    runFinal ap c pre (plan.map migAtoms) db = stateAt ap pre plan plan.length db := by
  have hb : (beginTransaction c false (initSt c db)).1 = false := by simp [beginTransaction, hx]
  obtain ⟨s', e, w, _, _⟩ := runLoop_external_complete ap c (Or.inl hx) plan h (loopStart ap c pre db)
  unfold runFinal
  rw [runMigrations_eq', e]
  simp [hb, exitIf, closeConn, hx, ho, commit, w, loopStart_working, stateAt, applied]

/-! ### statements whose effect is the identity (a migration that reads the current heads) -/

/-- `plan'` is `plan` with identity statements inserted anywhere in the bodies -/
def PlanInsertId : List (Mig α) → List (Mig α) → Prop
  | [], [] => True
  | m :: r, m' :: r' => m'.vstmts = m.vstmts ∧ InsertId ap (bodyActs m.segs) (bodyActs m'.segs) ∧ PlanInsertId r r'
  | _, _ => False

theorem planActs_take_insertId : ∀ (plan plan' : List (Mig α)) (j : Nat), PlanInsertId ap plan plan' →
    InsertId ap (planActs (plan.take j)) (planActs (plan'.take j))
  | [], [], j, _ => by simp [planActs]; exact .nil
  | m :: r, m' :: r', 0, _ => by simp [planActs]; exact .nil
  | m :: r, m' :: r', j + 1, h => by
    obtain ⟨hv, hb, hr⟩ := h
    simp only [List.take_succ_cons, planActs, migActs]
    refine insertId_append ap (insertId_append ap hb ?_) (planActs_take_insertId r r' j hr)
    rw [hv]; exact insertId_refl ap _
  | [], _ :: _, _, h => by cases h
  | _ :: _, [], _, h => by cases h

/-- **Identity statements are invisible at every migration boundary**: inserting statements
    whose effect is the identity (the harness' "read the current heads" statement) anywhere
    in the bodies changes no `stateAt j`, hence nothing the specification compares with. -/
theorem read_noop (pre : List (Stmt α)) (plan plan' : List (Mig α)) (h : PlanInsertId ap plan plan') (j : Nat) (db : σ) :
    stateAt ap pre plan' j db = stateAt ap pre plan j db := by
  unfold stateAt applied
  exact applyAll_insertId ap (planActs_take_insertId ap plan plan' j h) _

/-- ... and therefore, with transactional DDL and per-migration transactions, the database
    after a failure is the same with and without the inserted statements, wherever they are
    inserted and wherever in migration `k` the failure strikes (positions `pos`, `pos'`). -/
theorem read_noop_per_migration (c : Cfg) (pre : List (Stmt α)) (plan plan' : List (Mig α)) (k pos pos' : Nat)
    (m m' : Mig α) (db : σ) (h : PlanInsertId ap plan plan') (hmode : c.mode = .transactional) (hreg : PerMigRegime c)
    (hk : plan[k]? = some m) (hk' : plan'[k]? = some m')
    (hna : noAuto ((migAtoms m).take pos) = true) (hna' : noAuto ((migAtoms m').take pos') = true) :
    runFinal ap c pre (oracle kd plan' k pos') db = runFinal ap c pre (oracle kd plan k pos) db := by
  rw [per_migration ap kd c pre plan' k pos' m' db hmode hreg hk' hna',
    per_migration ap kd c pre plan k pos m db hmode hreg hk hna, read_noop ap pre plan plan' h]

/-! ### several `configure()` calls in one env.py run: which settings does the k-th context get? -/

/-- `transaction_per_migration` of a context is the argument of *its own* `configure()` call,
    whatever earlier calls of the same env.py run passed. -/
theorem configure_perMig_own (o : CtxOpts) (calls : List ConfigureArgs) (a : ConfigureArgs) :
    (configureAll o (calls ++ [a])).perMig = a.perMig := by
  simp [configureAll, configureCall]

/-- Full statement for `transactional_ddl` (each context gets its own setting) ... -/
def configure_tddl_own_statement : Prop :=
  ∀ (dflt : Bool) (calls : List ConfigureArgs) (a : ConfigureArgs),
    (effective dflt (configureAll {} (calls ++ [a]))).1 = (effective dflt (configureCall {} a)).1

/-- ... is FALSE on the unchanged tree (known finding C04-F1): `transactional_ddl=True` given
    to an earlier `configure()` stays in `context_opts` and is inherited by a later call that
    does not pass the argument. -/
theorem configure_tddl_own_counterexample : ¬ configure_tddl_own_statement := by
  intro h
  have := h false [{ tddl := some true, perMig := false }] { tddl := none, perMig := false }
  revert this
  decide

/-- What does hold: a call that *passes* `transactional_ddl` gets what it passed. -/
theorem configure_tddl_own_partial (o : CtxOpts) (calls : List ConfigureArgs) (a : ConfigureArgs) (b : Bool)
    (h : a.tddl = some b) : (configureAll o (calls ++ [a])).tddl = some b := by
  simp [configureAll, configureCall, h]

/-! ### non-vacuity: the hypotheses are satisfiable, the checker rejects bad observations -/

section Examples

/-- `a <- b`: `a` creates a table, inserts a row, creates a table; `b` likewise -/
def exPlan : List (Mig Act) :=
  [ { rev := 0, segs := [.plain [⟨.ddl, .add 0⟩, ⟨.dml, .add 1⟩, ⟨.ddl, .add 2⟩]], vstmts := [.vins 0] },
    { rev := 1, segs := [.plain [⟨.ddl, .add 4⟩, ⟨.dml, .add 3⟩]], vstmts := [.vupd 0 1] } ]
def exPre : List (Stmt Act) := [⟨.ddl, .createVT⟩]
def exDb : Db := { objs := [], rows := [], vt := false }
def exParents : List (Nat × List Nat) := [(0, []), (1, [0])]
def cfg (md : Mode) (tddl perMig : Bool) : Cfg := { mode := md, tddl := tddl, perMig := perMig, external := false }

-- migration `b` fails after its first statement
-- transactional DDL, one transaction: everything as before (theorem `single_txn` applies: no autocommit block)
example : runFinal applyAct (cfg .transactional true false) exPre (oracle .keyboardInterrupt exPlan 1 1) exDb = exDb := by decide
-- transactional DDL, per migration: `a` applied and recorded, nothing of `b`
example : runFinal applyAct (cfg .transactional true true) exPre (oracle .systemExit exPlan 1 1) exDb =
    { objs := [0, 1, 2], rows := [0], vt := true } := by decide
-- sqlite3 legacy mode, `transactional_ddl` false: `a` recorded, `b`'s first table is durable
example : runFinal applyAct (cfg .pysqlite false false) exPre (oracle .baseException exPlan 1 1) exDb =
    { objs := [0, 1, 2, 4], rows := [0], vt := true } := by decide
-- the hypotheses of `model_satisfies_check` hold for this plan
example : wfPlan exPre exPlan = true ∧ namesHyp exParents exPre exPlan exDb 1 true 1 = true := by decide
-- the checker rejects an observation that names the failed revision ...
example : (check (cfg .pysqlite false false) true exParents exPre exPlan 1 1 exDb
    { objs := [0, 1, 2, 4], rows := [1], vt := true }).holds = false := by decide
-- ... one that lost the completed migration's row ...
example : (check (cfg .pysqlite false false) true exParents exPre exPlan 1 1 exDb
    { objs := [0, 1, 2, 4], rows := [], vt := true }).holds = false := by decide
-- ... and, with real transactional DDL, one in which the failed migration left a trace
example : (check (cfg .transactional true true) true exParents exPre exPlan 1 1 exDb
    { objs := [0, 1, 2, 4], rows := [0], vt := true }).holds = false := by decide

-- rounds on one connection: two per-migration rounds end outside a transaction, on the database both left
example : (roundsSt applyAct [(cfg .pysqlite false false, exPre, exPlan), (cfg .transactional true true, [], exPlan)]
      (freshSt exDb)).map (fun s => (s.committed, s.sa, s.txn)) =
    some (({ objs := [0, 1, 2, 3, 4], rows := [1], vt := true } : Db), false, false) := by decide
example : PerMigRegime (cfg .pysqlite false false) ∧ PerMigRegime (cfg .transactional true true) := by
  constructor <;> simp [PerMigRegime, cfg]
-- a plan with "read the current heads" statements inserted before / between / after the statements of `b`
def exPlanRead : List (Mig Act) :=
  [ exPlan[0],
    { rev := 1, segs := [.plain [⟨.ddl, .read⟩, ⟨.ddl, .add 4⟩, ⟨.ddl, .read⟩, ⟨.dml, .add 3⟩, ⟨.ddl, .read⟩]], vstmts := [.vupd 0 1] } ]
example : PlanInsertId applyAct exPlan exPlanRead :=
  ⟨rfl, insertId_refl applyAct _, rfl,
    .skip _ (fun _ => rfl) (.cons _ (.skip _ (fun _ => rfl) (.cons _ (.skip _ (fun _ => rfl) .nil)))), trivial⟩
example : runFinal applyAct (cfg .transactional true true) exPre (oracle .exception exPlanRead 1 3) exDb =
    runFinal applyAct (cfg .transactional true true) exPre (oracle .exception exPlan 1 1) exDb := by decide

-- a one-enclosing-transaction round without autocommit blocks satisfies the hypothesis of rounds_independent_partial
example : RoundOk (cfg .transactional true false, exPre, exPlan) :=
  Or.inr ⟨rfl, rfl, rfl, by
    intro m hm
    simp only [exPlan, List.mem_cons, List.not_mem_nil, or_false] at hm
    rcases hm with rfl | rfl <;> rfl⟩
-- C04-F2: orphaned external transaction on sqlite3 legacy mode, both migrations complete: the first table is applied
-- (DDL before the first DML autocommits), nothing is recorded
example : runFinal applyAct { mode := .pysqlite, tddl := false, perMig := false, external := true, orphan := true } exPre
    (exPlan.map migAtoms) exDb = { objs := [0], rows := [], vt := true } := by decide
-- the same run inside a transaction the caller really owns and commits: everything applied and recorded
example : runFinal applyAct { mode := .pysqlite, tddl := false, perMig := false, external := true, orphan := false } exPre
    (exPlan.map migAtoms) exDb = { objs := [0, 1, 2, 3, 4], rows := [1], vt := true } := by decide

/-- Why `single_txn` excludes autocommit blocks: `autocommit_block` commits the enclosing
    transaction *by design* (documented warning in its docstring).  Here migration `b`
    opens one and fails afterwards: `a` stays applied **and recorded**, `b`'s statements up
    to the end of the block stay — the version table is still not out of step
    (`rows_at_boundary`, `never_names_failed` cover this case), but "as before the command"
    does not hold. -/
theorem single_txn_autocommit_block_commits :
    runFinal applyAct (cfg .transactional true false) exPre
      (oracle .exception
        [exPlan[0], { rev := 1, segs := [.plain [⟨.ddl, .add 4⟩], .auto [⟨.ddl, .add 6⟩], .plain [⟨.dml, .add 3⟩]],
                      vstmts := [.vupd 0 1] }] 1 4) exDb
      = { objs := [0, 1, 2, 4, 6], rows := [0], vt := true } := by decide

end Examples

end C04
