import Spec.Online
/-! # C04 (theorems follow) -/
namespace C04
end C04
