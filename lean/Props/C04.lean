import Lemmas.Online.Loop
/-!
# C04 — a failing migration never leaves the version table out of step

All theorems are about `Model.Online.runFinal ap c pre (oracle plan k pos) db`: what a fresh
connection sees after the `env.py` shape was run on database `db`, where migrations
`0 … k-1` of `plan` ran completely and migration `k` raised at atom position `pos`
(before/between/after each statement, around autocommit blocks, inside or after the version
update).  They hold for **every** state type `σ`, statement payload `α` and statement
semantics `ap`, every plan length, every `k`, every `pos`.

`PerMigRegime c`  = not external ∧ (`transactional_ddl` false ∨ `transaction_per_migration`)
`SingleRegime c`  = external transaction ∨ (`transactional_ddl` ∧ ¬`transaction_per_migration`)
(the two regimes cover all four `(transactional_ddl, transaction_per_migration)` settings).
-/
namespace C04
open Model.Online Spec.Online

variable {α σ ρ : Type} (ap : α → σ → σ)

/-! ### plumbing: from the `env.py` shape to the loop -/

/-- the state in which the loop starts -/
def loopStart (c : Cfg) (pre : List (Stmt α)) (db : σ) : St σ :=
  execAll ap c.mode pre (autobegin c.mode (startSt c db))

theorem runMigrations_eq (c : Cfg) (pre : List (Stmt α)) (progs : List (List (Atom α))) (db : σ) :
    runMigrations ap c pre progs (startSt c db) = runLoop ap c progs (loopStart ap c pre db) := by
  unfold runMigrations ensureVT loopStart execAll
  cases pre with
  | nil => simp
  | cons s r => simp

theorem loopStart_auto (c : Cfg) (pre : List (Stmt α)) (db : σ) : (loopStart ap c pre db).auto = none := by
  simp [loopStart]

theorem loopStart_working (c : Cfg) (pre : List (Stmt α)) (db : σ) :
    (loopStart ap c pre db).working = applyAll ap (pre.map (·.act)) db := by
  simp [loopStart]

theorem loopStart_txn (c : Cfg) (h : PerMigRegime c) (pre : List (Stmt α)) (db : σ) : (loopStart ap c pre db).txn = false := by
  simp [loopStart, startSt, begin_outer_perMig c h, initSt]

theorem loopStart_inv (c : Cfg) (pre : List (Stmt α)) (db : σ) (Cp Wp : σ → Prop) (hWC : ∀ x, Wp x → Cp x)
    (hp : ∀ s ∈ pre, ∀ x, Wp x → Wp (ap s.act x)) (hc : Cp db) (hw : Wp db) :
    Cp (loopStart ap c pre db).committed := by
  have := runAtoms_inv ap c.mode Cp Wp hWC (pre.map .stmt) (autobegin c.mode (startSt c db))
    (fun s hs => by
      simp only [List.mem_map] at hs
      obtain ⟨s', hs', e⟩ := hs
      cases e; exact hp _ hs')
    (by simp [hc])
    (by simp [hw])
  rw [runAtoms_stmts] at this
  exact this.1

theorem loopStart_committed_transactional (c : Cfg) (hm : c.mode = .transactional) (pre : List (Stmt α)) (db : σ) :
    (loopStart ap c pre db).committed = db := by
  have := runAtoms_transactional_noAuto ap (pre.map .stmt) (autobegin c.mode (startSt c db))
    (by simp [noAuto, isAutoAtom]) (by simp)
  rw [← hm, runAtoms_stmts] at this
  simpa [loopStart, Outcome.st] using this.1

/-- after a failure, the observation is the `committed` component the loop ended with -/
theorem final_eq (c : Cfg) (pre : List (Stmt α)) (plan : List (Mig α)) (k pos : Nat) (m : Mig α) (db : σ)
    (hk : plan[k]? = some m) :
    runFinal ap c pre (oracle plan k pos) db =
      (runLoop ap c ((plan.take k).map migAtoms ++ [(migAtoms m).take pos ++ [.raise]]) (loopStart ap c pre db)).st.committed := by
  rw [runFinal_of_raised, runMigrations_eq, oracle_eq plan k pos m hk]
  rw [runMigrations_eq, oracle_eq plan k pos m hk]
  exact runLoop_raises ap c _ _ _

/-- the run raises: the exception reaches the caller (it is never swallowed) -/
theorem failure_propagates (c : Cfg) (pre : List (Stmt α)) (plan : List (Mig α)) (k pos : Nat) (m : Mig α) (db : σ)
    (hk : plan[k]? = some m) : runRaised ap c pre (oracle plan k pos) db = true := by
  unfold runRaised
  have := runLoop_raises ap c ((plan.take k).map migAtoms) ((migAtoms m).take pos) (loopStart ap c pre db)
  rw [runMigrations_eq, oracle_eq plan k pos m hk]
  cases h : runLoop ap c ((plan.take k).map migAtoms ++ [(migAtoms m).take pos ++ [.raise]]) (loopStart ap c pre db) with
  | ok s => rw [h] at this; simp [Outcome.isRaised] at this
  | raised s => rfl

theorem take_eq_nil_iff_zero (plan : List (Mig α)) (k : Nat) (m : Mig α) (hk : plan[k]? = some m) :
    plan.take k = [] ↔ k = 0 := by
  constructor
  · intro h
    cases plan with
    | nil => simp at hk
    | cons a r => cases k with
      | zero => rfl
      | succ n => simp at h
  · intro h; subst h; simp

/-! ### the property -/

/-- **Transactional DDL, one enclosing transaction** (also: the caller's own transaction):
    after the failure, schema, data and version table are exactly as before the command.
    Scope: no `autocommit_block` was entered before the failure (such a block commits the
    enclosing transaction by design, see `single_txn_autocommit_block_commits`). -/
theorem single_txn (c : Cfg) (pre : List (Stmt α)) (plan : List (Mig α)) (k pos : Nat) (m : Mig α) (db : σ)
    (hmode : c.mode = .transactional) (hreg : SingleRegime c) (hk : plan[k]? = some m)
    (hna : ∀ m' ∈ plan.take k, noAuto (migAtoms m') = true) (hnaf : noAuto ((migAtoms m).take pos) = true) :
    runFinal ap c pre (oracle plan k pos) db = db := by
  rw [final_eq ap c pre plan k pos m db hk, runLoop_single_exact ap c hmode hreg _ _ _ (loopStart_auto ap c pre db),
    loopStart_committed_transactional ap c hmode]
  intro p hp
  rcases List.mem_append.mp hp with h | h
  · obtain ⟨m', hm', e⟩ := List.mem_map.mp h
    rw [← e]; exact hna m' hm'
  · simp only [List.mem_singleton] at h
    subst h
    simp only [noAuto, List.all_append, Bool.and_eq_true] at hnaf ⊢
    exact ⟨hnaf, by simp [isAutoAtom]⟩

/-- **Transactional DDL, transaction per migration**: exactly the completed migrations are
    applied and recorded, the failed one leaves no trace (if the very first migration fails
    even the creation of the version table is rolled back).  Scope: the failed migration
    entered no `autocommit_block` before the failure (earlier migrations may have). -/
theorem per_migration (c : Cfg) (pre : List (Stmt α)) (plan : List (Mig α)) (k pos : Nat) (m : Mig α) (db : σ)
    (hmode : c.mode = .transactional) (hreg : PerMigRegime c) (hk : plan[k]? = some m)
    (hnaf : noAuto ((migAtoms m).take pos) = true) :
    runFinal ap c pre (oracle plan k pos) db = if k = 0 then db else stateAt ap pre plan k db := by
  rw [final_eq ap c pre plan k pos m db hk,
    runLoop_perMig_exact ap c hmode hreg m pos hnaf _ _ (loopStart_auto ap c pre db) (loopStart_txn ap c hreg pre db),
    loopStart_committed_transactional ap c hmode, loopStart_working]
  simp only [take_eq_nil_iff_zero plan k m hk, stateAt, applied]

/-- **Per-migration regime, any backend mode, autocommit blocks allowed**: the version
    rows (any observation `π` that migration bodies and the housekeeping do not touch) are
    exactly those of the completed migrations. -/
theorem recorded_exactly_completed (π : σ → ρ) (c : Cfg) (pre : List (Stmt α)) (plan : List (Mig α)) (k pos : Nat)
    (m : Mig α) (db : σ) (hreg : PerMigRegime c) (hk : plan[k]? = some m)
    (hpre : ∀ s ∈ pre, ∀ x, π (ap s.act x) = π x)
    (hbody : ∀ s, Atom.stmt s ∈ bodyAtoms m.segs → ∀ x, π (ap s.act x) = π x) :
    π (runFinal ap c pre (oracle plan k pos) db) = π (stateAt ap pre plan k db) := by
  rw [final_eq ap c pre plan k pos m db hk,
    runLoop_perMig_proj ap π c hreg m pos hbody _ _ (loopStart_auto ap c pre db) (loopStart_txn ap c hreg pre db),
    loopStart_working]
  · rfl
  · rw [loopStart_working, applyAll_preserve ap π]
    · exact loopStart_inv ap c pre db (fun x => π x = π db) (fun x => π x = π db) (fun _ h => h)
        (fun s hs x hx => by rw [hpre s hs x]; exact hx) rfl rfl
    · intro a ha x
      obtain ⟨s, hs, e⟩ := List.mem_map.mp ha
      rw [← e]; exact hpre s hs x

/-- **Without transactional DDL** (`impl.transactional_ddl` false; every backend mode, with
    or without `transaction_per_migration`): the table still records exactly the completed
    migrations. -/
theorem nontransactional (π : σ → ρ) (c : Cfg) (pre : List (Stmt α)) (plan : List (Mig α)) (k pos : Nat)
    (m : Mig α) (db : σ) (htddl : c.tddl = false) (hext : c.external = false) (hk : plan[k]? = some m)
    (hpre : ∀ s ∈ pre, ∀ x, π (ap s.act x) = π x)
    (hbody : ∀ s, Atom.stmt s ∈ bodyAtoms m.segs → ∀ x, π (ap s.act x) = π x) :
    π (runFinal ap c pre (oracle plan k pos) db) = π (stateAt ap pre plan k db) :=
  recorded_exactly_completed ap π c pre plan k pos m db ⟨hext, Or.inl htddl⟩ hk hpre hbody

/-- **Every configuration** (all backend modes, all four settings, external transaction,
    autocommit blocks, flag/backend mismatches): the version rows after the failure are
    those of a migration boundary `j ≤ k` — recorded = a prefix of the migrations whose
    function returned (those whose transaction committed), never a partial version update. -/
theorem rows_at_boundary (π : σ → ρ) (c : Cfg) (pre : List (Stmt α)) (plan : List (Mig α)) (k pos : Nat)
    (m : Mig α) (db : σ) (hk : plan[k]? = some m)
    (hcong : ∀ a x y, π x = π y → π (ap a x) = π (ap a y))
    (hpre : ∀ s ∈ pre, ∀ x, π (ap s.act x) = π x)
    (hbody : ∀ m' ∈ plan.take k ++ [m], ∀ s, Atom.stmt s ∈ bodyAtoms m'.segs → ∀ x, π (ap s.act x) = π x) :
    ∃ j, j ≤ k ∧ π (runFinal ap c pre (oracle plan k pos) db) = π (stateAt ap pre plan j db) := by
  rw [final_eq ap c pre plan k pos m db hk]
  have hbase : π (applyAll ap (pre.map (·.act)) db) = π db := by
    rw [applyAll_preserve ap π]
    intro a ha x
    obtain ⟨s, hs, e⟩ := List.mem_map.mp ha
    rw [← e]; exact hpre s hs x
  have := runLoop_boundary ap π c hcong m pos (plan.take k) hbody (fun y => y = π (applyAll ap (pre.map (·.act)) db))
    (applyAll ap (pre.map (·.act)) db) (loopStart ap c pre db) (loopStart_auto ap c pre db)
    (by
      rw [hbase]
      exact loopStart_inv ap c pre db (fun x => π x = π db) (fun x => π x = π db) (fun _ h => h)
        (fun s hs x hx => by rw [hpre s hs x]; exact hx) rfl rfl)
    (by rw [loopStart_working]) rfl
  rcases this with h | ⟨j, hj, h⟩
  · exact ⟨0, Nat.zero_le _, by rw [h]; simp [stateAt, applied, planActs, applyAll]⟩
  · have hjk : j ≤ k := by
      have := List.length_take_le k plan
      omega
    refine ⟨j, hjk, ?_⟩
    rw [h, List.take_take, Nat.min_eq_left hjk]
    rfl

/-- **The failed revision is never named (upgrade) nor dropped (downgrade)**: whatever
    "the version table names revision r" means (`names`, e.g. membership of `r` in the
    ancestor closure of the rows), if at every migration boundary up to the failed step the
    table names the failed revision iff `e` (upgrade: `e = False`, it is not applied yet;
    downgrade: `e = True`, it is still applied), then so it does after the failure. -/
theorem never_names_failed (π : σ → ρ) (names : ρ → Nat → Prop) (e : Prop) (c : Cfg) (pre : List (Stmt α))
    (plan : List (Mig α)) (k pos : Nat) (m : Mig α) (db : σ) (hk : plan[k]? = some m)
    (hcong : ∀ a x y, π x = π y → π (ap a x) = π (ap a y))
    (hpre : ∀ s ∈ pre, ∀ x, π (ap s.act x) = π x)
    (hbody : ∀ m' ∈ plan.take k ++ [m], ∀ s, Atom.stmt s ∈ bodyAtoms m'.segs → ∀ x, π (ap s.act x) = π x)
    (hb : ∀ j, j ≤ k → (names (π (stateAt ap pre plan j db)) m.rev ↔ e)) :
    names (π (runFinal ap c pre (oracle plan k pos) db)) m.rev ↔ e := by
  obtain ⟨j, hj, h⟩ := rows_at_boundary ap π c pre plan k pos m db hk hcong hpre hbody
  rw [h]; exact hb j hj

end C04
