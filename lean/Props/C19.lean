import Lemmas.Files.Walk
import Lemmas.Files.Load
import Lemmas.Files.RevMap
import Lemmas.Files.Split
import Lemmas.Files.Twin
import Lemmas.Files.Cache
import Lemmas.Files.Twice
/-!
# C19 — every revision file in the configured locations is loaded exactly once

Theorems about `Model.Files.load` (mirror of `ScriptDirectory._load_revisions` /
`Script._list_py_dir` / `Script._from_filename` and of the duplicate bookkeeping in
`RevisionMap._revision_map`) against `Spec.Files.Expected`, for **every** abstract filesystem
(`FS.node`, `FS.exists_` arbitrary functions), every number and shape of version locations
(arbitrary `Dir` trees, overlapping or not, entries resolving to arbitrary canonical files), and
both settings of `sourceless` and `recursive_version_locations`.
-/
namespace C19
open Model.Files Spec.Files Lemmas.Files

theorem load_ok {fs : FS} {cfg : Cfg} {locs : List Dir} {r : Result} (h : load fs cfg locs = .ok r) :
    loadLoop fs cfg (allListed cfg locs) [] = .ok (r.loaded, r.twice) ∧
    r.keys = (revMapLoop r.loaded []).1 ∧ r.dupWarn = (revMapLoop r.loaded []).2 := by
  unfold load at h
  cases hl : loadLoop fs cfg (allListed cfg locs) [] with
  | error x => rw [hl] at h; cases h
  | ok p =>
    obtain ⟨l, t⟩ := p
    rw [hl] at h
    simp only [Except.ok.injEq] at h
    subst h
    exact ⟨rfl, rfl, rfl⟩

/-- the canonical files of the loaded scripts -/
def nodesOf (r : Result) : List Nat := r.loaded.map (·.node)

/-! ## exactly once -/

/-- **Once.** No canonical file is loaded twice, however often and through whatever names,
symlinks or overlapping locations it is reached. -/
theorem loaded_once (fs : FS) (cfg : Cfg) (locs : List Dir) (r : Result)
    (h : load fs cfg locs = .ok r) : (nodesOf r).Nodup :=
  (loadLoop_ok_inv fs cfg _ [] r.loaded r.twice (load_ok h).1).2.1

/-- **Nothing else.** Every loaded script comes from a revision file (by the documented
rules) that is present in the configured locations. -/
theorem loaded_sound (fs : FS) (cfg : Cfg) (locs : List Dir) (r : Result) (hroots : RootsOk locs)
    (h : load fs cfg locs = .ok r) : ∀ n ∈ nodesOf r, Expected fs cfg locs n := by
  intro n hn
  obtain ⟨s, hs, rfl⟩ := List.mem_map.mp hn
  obtain ⟨_, _, h3, _⟩ := loadLoop_ok_inv fs cfg _ [] r.loaded r.twice (load_ok h).1
  obtain ⟨hlisted, hf⟩ := h3 s hs
  exact ⟨(listed_iff_reached cfg locs hroots s.node).mp hlisted,
    accepts_isRevFile fs cfg s.node ((fromFilename_some fs cfg s.node s).mp hf).1⟩

/-- Each script carries the revision id its file defines. -/
theorem ids_right (fs : FS) (cfg : Cfg) (locs : List Dir) (r : Result)
    (h : load fs cfg locs = .ok r) : ∀ s ∈ r.loaded, definesId fs s.node = some s.rev := by
  intro s hs
  obtain ⟨_, _, h3, _⟩ := loadLoop_ok_inv fs cfg _ [] r.loaded r.twice (load_ok h).1
  exact ((fromFilename_some fs cfg s.node s).mp (h3 s hs).2).2.2

/-- **Every one.** Every revision file (by the documented rules) that is present in the
configured locations is loaded. -/
theorem loaded_complete (fs : FS) (cfg : Cfg) (locs : List Dir) (r : Result) (hroots : RootsOk locs)
    (h : load fs cfg locs = .ok r) : ∀ n, Expected fs cfg locs n → n ∈ nodesOf r := by
  intro n ⟨hreach, hrev⟩
  obtain ⟨_, _, _, h4⟩ := loadLoop_ok_inv fs cfg _ [] r.loaded r.twice (load_ok h).1
  obtain ⟨e, he, hn⟩ := (listed_iff_reached cfg locs hroots n).mpr hreach
  have hacc : accepts fs cfg e.node = true := by
    rw [hn]; exact isRevFile_accepts fs cfg n hrev
  obtain ⟨s, hs, hsn⟩ := h4 e he (by simp) hacc
  exact List.mem_map.mpr ⟨s, hs, by rw [hsn, hn]⟩

/-- **Exactly once.** The loaded canonical files are exactly the revision files present in the
configured locations, each once. -/
theorem exact (fs : FS) (cfg : Cfg) (locs : List Dir) (r : Result)
    (hroots : RootsOk locs) (h : load fs cfg locs = .ok r) :
    (∀ n, n ∈ nodesOf r ↔ Expected fs cfg locs n) ∧ (nodesOf r).Nodup :=
  ⟨fun n => ⟨loaded_sound fs cfg locs r hroots h n, loaded_complete fs cfg locs r hroots h n⟩,
   loaded_once fs cfg locs r h⟩

/-! ## failures are loud -/

/-- If loading fails, some file that must be loaded cannot be: the error names it. -/
theorem error_loud (fs : FS) (cfg : Cfg) (locs : List Dir) (x : Err) (hroots : RootsOk locs)
    (h : load fs cfg locs = .error x) :
    ∃ n, Expected fs cfg locs n ∧ definesId fs n = none ∧ (x = .loadFailed n ∨ x = .noRevisionId n) := by
  unfold load at h
  cases hl : loadLoop fs cfg (allListed cfg locs) [] with
  | ok p => rw [hl] at h; cases h
  | error y =>
    rw [hl] at h
    simp only [Except.error.injEq] at h
    subst h
    obtain ⟨e, he, hf⟩ := loadLoop_error fs cfg _ [] y hl
    obtain ⟨hacc, hdef, hy⟩ := (fromFilename_error fs cfg e.node y).mp hf
    refine ⟨e.node, ⟨(listed_iff_reached cfg locs hroots e.node).mp ⟨e, he, rfl⟩, accepts_isRevFile fs cfg e.node hacc⟩, hdef, ?_⟩
    rw [hy]
    unfold loadErr
    cases (fs.node e.node).content <;> simp

/-- If every file that must be loaded can be, loading succeeds. -/
theorem loads_when_loadable (fs : FS) (cfg : Cfg) (locs : List Dir) (hroots : RootsOk locs)
    (hok : ∀ n, Expected fs cfg locs n → definesId fs n ≠ none) : ∃ r, load fs cfg locs = .ok r := by
  cases h : load fs cfg locs with
  | ok r => exact ⟨r, rfl⟩
  | error x =>
    obtain ⟨n, hexp, hdef, _⟩ := error_loud fs cfg locs x hroots h
    exact absurd hdef (hok n hexp)

/-! ## duplicate revision ids are reported -/

/-- **Duplicates reported.** A "Revision X is present more than once" warning is produced
if and only if two *different* loaded files define the id X. -/
theorem dup_id (fs : FS) (cfg : Cfg) (locs : List Dir) (r : Result) (h : load fs cfg locs = .ok r) (x : Name) :
    x ∈ r.dupWarn ↔
      ∃ n ∈ nodesOf r, ∃ m ∈ nodesOf r, n ≠ m ∧ definesId fs n = some x ∧ definesId fs m = some x := by
  obtain ⟨_, _, hw⟩ := load_ok h
  rw [hw, revMapLoop_warn x r.loaded []]
  simp only [List.not_mem_nil, if_false]
  rw [two_le_cnt_iff x r.loaded (loaded_once fs cfg locs r h)]
  have hid := ids_right fs cfg locs r h
  constructor
  · rintro ⟨s, hs, t, ht, hne, hsx, htx⟩
    refine ⟨s.node, List.mem_map.mpr ⟨s, hs, rfl⟩, t.node, List.mem_map.mpr ⟨t, ht, rfl⟩, hne, ?_, ?_⟩
    · rw [hid s hs, hsx]
    · rw [hid t ht, htx]
  · rintro ⟨n, hn, m, hm, hne, hdn, hdm⟩
    obtain ⟨s, hs, rfl⟩ := List.mem_map.mp hn
    obtain ⟨t, ht, rfl⟩ := List.mem_map.mp hm
    refine ⟨s, hs, t, ht, hne, ?_, ?_⟩
    · have := hid s hs; rw [hdn] at this; exact (Option.some.inj this).symm
    · have := hid t ht; rw [hdm] at this; exact (Option.some.inj this).symm

/-- **Duplicates reported**, in terms of the files that must be loaded: the warning for `x` is
produced if and only if two different revision files of the configured locations define `x`. -/
theorem dup_id_expected (fs : FS) (cfg : Cfg) (locs : List Dir) (r : Result) (hroots : RootsOk locs)
    (h : load fs cfg locs = .ok r) (x : Name) :
    x ∈ r.dupWarn ↔
      ∃ n m, n ≠ m ∧ Expected fs cfg locs n ∧ Expected fs cfg locs m ∧
        definesId fs n = some x ∧ definesId fs m = some x := by
  rw [dup_id fs cfg locs r h x]
  have hex := (exact fs cfg locs r hroots h).1
  constructor
  · rintro ⟨n, hn, m, hm, hne, h1, h2⟩
    exact ⟨n, m, hne, (hex n).mp hn, (hex m).mp hm, h1, h2⟩
  · rintro ⟨n, m, hne, hn, hm, h1, h2⟩
    exact ⟨n, (hex n).mpr hn, m, (hex m).mpr hm, hne, h1, h2⟩

/-- The keys of the revision map are exactly the ids of the loaded scripts, each key once. -/
theorem map_keys (fs : FS) (cfg : Cfg) (locs : List Dir) (r : Result) (h : load fs cfg locs = .ok r) :
    (∀ x, x ∈ r.keys ↔ ∃ s ∈ r.loaded, s.rev = x) ∧ r.keys.Nodup := by
  obtain ⟨_, hk, _⟩ := load_ok h
  rw [hk]
  refine ⟨fun x => ?_, revMapLoop_keys_nodup r.loaded [] List.nodup_nil⟩
  rw [revMapLoop_keys x r.loaded []]
  simp

/-! ## `version_locations` splitting -/

/-- **Splitting, named separators.** For every valid `version_path_separator` value `opt`
(mapping to the character `c`; `os` ↦ the platform's `os.pathsep`), an option string made of
listed paths joined by `c` — each path non-empty, not containing `c`, without surrounding white
space — is split into exactly the listed paths. -/
theorem split (pathsep : Char) (opt : String) (c : Char)
    (hopt : sepOfOption pathsep (some opt) = some (.char c))
    (paths : List Name) (hne : paths ≠ []) (h : ∀ p ∈ paths, CleanFor c p) :
    configLocations pathsep (some opt) (some (joinSep [c] paths)) = some (some paths) := by
  have hj := joinSep_ne_nil [c] paths hne (fun p hp => (h p hp).1)
  have hs := splitLocations_char c paths h
  unfold configLocations versionLocations
  cases hjs : joinSep [c] paths with
  | nil => exact absurd hjs hj
  | cons x xs =>
    simp only [hopt]
    rw [← hjs, hs]
    cases paths with
    | nil => exact absurd rfl hne
    | cons _ _ => rfl

/-- **Splitting, legacy.** Without `version_path_separator`, listed paths (non-empty, without
space and comma) joined by a run of spaces or by a comma followed by spaces are split into exactly
the listed paths. -/
theorem split_legacy (pathsep : Char) (j : Name) (hj : LegacyJoiner j)
    (paths : List Name) (hne : paths ≠ []) (h : ∀ p ∈ paths, CleanLegacy p) :
    configLocations pathsep none (some (joinSep j paths)) = some (some paths) := by
  have hjn := joinSep_ne_nil j paths hne (fun p hp => (h p hp).1)
  have hs := legacySplit_joinSep j hj paths hne h false
  unfold configLocations versionLocations
  cases hjs : joinSep j paths with
  | nil => exact absurd hjs hjn
  | cons x xs =>
    simp only [sepOfOption, splitLocations, legacySplit]
    rw [← hjs, hs]
    cases paths with
    | nil => exact absurd rfl hne
    | cons _ _ => rfl

/-- the separator table of `from_config` (a finite table) -/
example : sepOfOption ':' (some "space") = some (.char ' ') ∧ sepOfOption ':' (some "newline") = some (.char '\n') ∧
    sepOfOption ':' (some "os") = some (.char ':') ∧ sepOfOption ';' (some "os") = some (.char ';') ∧
    sepOfOption ':' (some ":") = some (.char ':') ∧ sepOfOption ':' (some ";") = some (.char ';') ∧
    sepOfOption ':' (some "comma") = none := by decide
example : CleanFor ':' "/a/b c".toList ∧ CleanLegacy "/a/b".toList ∧ LegacyJoiner ", ".toList :=
  ⟨⟨by decide, by decide, by decide⟩, ⟨by decide, by decide, by decide⟩, Or.inr ⟨1, rfl⟩⟩
example : configLocations ':' (some "os") (some "/a/b c:/d".toList) = some (some ["/a/b c".toList, "/d".toList]) := by decide

/-! ## the oracle applied to the implementation's output is the specification -/

/-- The list computed by the driver's `files.spec` op is the set `Expected`. -/
theorem checker_expected (fs : FS) (cfg : Cfg) (locs : List Dir) (n : Nat) :
    n ∈ expectedNodes fs cfg locs ↔ Expected fs cfg locs n := mem_expectedNodes_iff fs cfg locs n

/-- `judge`'s fields `once`, `onlyExpected`, `allExpected` hold of a reported result iff the
reported canonical files are exactly the expected ones, each once. -/
theorem checker_exact (fs : FS) (cfg : Cfg) (locs : List Dir)
    (loaded : List (Nat × Name)) (keys dupWarn : List Name) :
    ((judge fs cfg locs loaded keys dupWarn).once = true ∧
     (judge fs cfg locs loaded keys dupWarn).onlyExpected = true ∧
     (judge fs cfg locs loaded keys dupWarn).allExpected = true) ↔
    ((loaded.map (·.1)).Nodup ∧ ∀ n, n ∈ loaded.map (·.1) ↔ Expected fs cfg locs n) :=
  judge_exact_iff fs cfg locs loaded keys dupWarn

/-! ## file names -/

/-- **Name rule.** The file-name regexes accept exactly the names the documented rule calls
revision file names: every `.py` (sourceless: also `.pyc`/`.pyo`) name that is neither an Emacs lock
file `.#…` nor the module `__init__` — whatever else the name starts with. -/
theorem name_rule (sourceless : Bool) (n : Name) :
    (matchRevFile sourceless n).isSome = isRevName sourceless n := by
  unfold matchRevFile lookaheadRejects isRevName isLock isInitModule
  cases startsWith lockPrefix n <;> cases startsWith (initPrefix ++ ['.']) n <;>
    cases endsWith dotPy n <;> cases sourceless <;> cases endsWith dotPyc n <;>
    cases endsWith dotPyo n <;> simp

/-- a revision file (rule with siblings) always has a revision file name -/
theorem isRevFile_name (fs : FS) (cfg : Cfg) (n : Nat) (h : isRevFile fs cfg n = true) :
    isRevName cfg.sourceless (fs.node n).name = true := by
  unfold isRevFile at h
  unfold isRevName
  simp only [Bool.and_eq_true, Bool.not_eq_true', Bool.or_eq_true] at h ⊢
  obtain ⟨⟨h1, h2⟩, hk⟩ := h
  refine ⟨⟨h1, h2⟩, ?_⟩
  rcases hk with (hk | ⟨⟨hs, hc⟩, _⟩) | ⟨⟨⟨hs, ho⟩, _⟩, _⟩
  · exact Or.inl hk
  · exact Or.inr ⟨hs, Or.inl hc⟩
  · exact Or.inr ⟨hs, Or.inr ho⟩

example : isRevName false ".a3_local.py".toList = true ∧ isRevName false "#b3_wip.py".toList = true ∧
    isRevName false ".#a3.py".toList = false ∧ isRevName false "__init__.py".toList = false ∧
    isRevName false "__init__x.py".toList = true ∧ isRevName false "a.pyc".toList = false ∧
    isRevName true "a.pyc".toList = true := by decide

/-- **Compiled files only in sourceless mode.** Without `sourceless`, every loaded script comes from a file
whose real name ends in `.py`: no `.pyc` / `.pyo`, no `__pycache__` entry is ever loaded. -/
theorem only_source_unless_sourceless (fs : FS) (cfg : Cfg) (locs : List Dir) (r : Result)
    (h : load fs cfg locs = .ok r) (hs : cfg.sourceless = false) :
    ∀ n ∈ nodesOf r, endsWith dotPy (fs.node n).name = true := by
  intro n hn
  obtain ⟨s, hs', rfl⟩ := List.mem_map.mp hn
  obtain ⟨_, _, h3, _⟩ := loadLoop_ok_inv fs cfg _ [] r.loaded r.twice (load_ok h).1
  have hrev := accepts_isRevFile fs cfg s.node ((fromFilename_some fs cfg s.node s).mp (h3 s hs').2).1
  unfold isRevFile at hrev
  simp only [hs, Bool.false_and, Bool.or_false, Bool.and_eq_true] at hrev
  exact hrev.2

/-! ## the same file reached twice -/

/-- **"Loaded twice" warnings.** A "File … loaded twice! ignoring" warning names canonical file `n` if and
only if at least two of the listed paths (over all version locations, through whatever names, symlinks or
overlapping locations) resolve to `n` — whether or not `n` is a revision file. -/
theorem twice_warning (fs : FS) (cfg : Cfg) (locs : List Dir) (r : Result) (h : load fs cfg locs = .ok r) (n : Nat) :
    n ∈ r.twice ↔ 2 ≤ listedCount n (allListed cfg locs) := by
  have := loadLoop_twice fs cfg n (allListed cfg locs) [] r.loaded r.twice (load_ok h).1
  simpa using this

/-! ## `__pycache__` entries in sourceless mode (`x.<tag>.pyc`, `x.<tag>.opt-1.pyc`, …) -/

/-- **Listing rule of `__pycache__`.** What `_list_py_dir` adds for a directory `d` from its `__pycache__`
depends on an entry only through its *stem* (text before the first dot): the entry is listed iff
`sourceless` is on and no non-directory entry of `d` itself has that stem.  The rest of the entry's name —
interpreter tag, `.opt-1` / `.opt-2` suffix — plays no role. -/
theorem pycache_listing_rule (cfg : Cfg) (d c : Dir) (hc : d.sub? pycacheName = some c) (e : Entry)
    (he : e ∈ c.files) (hne : e ∉ d.files) :
    e ∈ listDir cfg d ↔ (cfg.sourceless = true ∧ ∀ f ∈ d.files, stem f.name ≠ stem e.name) := by
  unfold listDir cacheExtras
  rw [hc]
  cases hs : cfg.sourceless with
  | false => simp [hne]
  | true =>
    simp only [if_true, List.mem_append, hne, false_or, List.mem_filter, he, true_and, Bool.not_eq_true']
    constructor
    · intro h f hf heq
      have : (List.map (fun e => stem e.name) d.files).contains (stem e.name) = true :=
        List.contains_iff_mem.mpr (List.mem_map.mpr ⟨f, hf, heq⟩)
      rw [this] at h; cases h
    · intro h
      cases hcon : (List.map (fun e => stem e.name) d.files).contains (stem e.name) with
      | false => rfl
      | true =>
        obtain ⟨f, hf, heq⟩ := List.mem_map.mp (List.contains_iff_mem.mp hcon)
        exact absurd heq (h f hf)

/-- **Optimised and tagged byte code is loaded, exactly once.** In sourceless mode, take any searched
directory `d` of a configured location and any entry of its `__pycache__` named
`<m>.<mid>.pyc` — `mid` arbitrary: `cpython-312`, `cpython-312.opt-1`, `cpython-312.opt-2`, another
interpreter's tag — where `<m>` is a non-empty dot-free module name other than `__init__`.  If no entry of
`d` itself has the stem `<m>` (no `m.py`, no old-style `m.pyc`, …), the entry is a regular file, and no
`<m>.<mid>.py` lies next to it, then the load succeeding means this file is among the loaded scripts
**exactly once** — however many other ways (symlinks, overlapping locations) reach it. -/
theorem pycache_entry_loaded_once (fs : FS) (cfg : Cfg) (locs : List Dir) (r : Result)
    (hroots : RootsOk locs) (h : load fs cfg locs = .ok r) (hs : cfg.sourceless = true)
    (root : Dir) (hroot : root ∈ locs) (d : Dir) (hd : InScope cfg root d)
    (c : Dir) (hc : d.sub? pycacheName = some c) (e : Entry) (he : e ∈ c.files)
    (m mid : Name) (hm0 : m ≠ []) (hmdot : '.' ∉ m) (hminit : m ≠ initPrefix)
    (hlisted : e.name = cacheName m mid) (hreal : (fs.node e.node).name = cacheName m mid)
    (hstem : ∀ f ∈ d.files, stem f.name ≠ m)
    (htwin : fs.exists_ (fs.node e.node).dir (cacheName m mid).dropLast = false) :
    (nodesOf r).count e.node = 1 := by
  have hexp : Expected fs cfg locs e.node := by
    refine ⟨⟨root, hroot, d, hd, Or.inr ⟨hs, c, hc, e, he, rfl, ?_⟩⟩, ?_⟩
    · intro f hf
      rw [hlisted, stem_cacheName m mid hmdot]
      exact hstem f hf
    · unfold isRevFile
      simp only [hreal, not_lock_cacheName m mid hm0 hmdot, not_init_cacheName m mid hmdot hminit,
        endsWith_pyc_cacheName, hs, htwin]
      simp
  exact count_eq_one_of_nodup_mem _ _ (loaded_once fs cfg locs r h)
    (loaded_complete fs cfg locs r hroots h e.node hexp)

/-- **… and shadowed otherwise.** If the directory itself holds an entry with the stem `<m>` (`m.py`, an
old-style `m.pyc`, …), `_list_py_dir` does not list `__pycache__/<m>.<mid>.pyc` for that directory, in any mode. -/
theorem pycache_entry_shadowed (cfg : Cfg) (d c : Dir) (hc : d.sub? pycacheName = some c) (e : Entry)
    (he : e ∈ c.files) (hne : e ∉ d.files) (m mid : Name) (hmdot : '.' ∉ m) (hlisted : e.name = cacheName m mid)
    (f : Entry) (hf : f ∈ d.files) (hfs : stem f.name = m) : e ∉ listDir cfg d := by
  intro hin
  have := ((pycache_listing_rule cfg d c hc e he hne).mp hin).2 f hf
  rw [hlisted, stem_cacheName m mid hmdot] at this
  exact this hfs

/-- the spellings in question are instances of `cacheName`, and are revision file names -/
example : cacheName "a1".toList "cpython-312.opt-1".toList = "a1.cpython-312.opt-1.pyc".toList ∧
    cacheName "a1".toList "cpython-312".toList = "a1.cpython-312.pyc".toList ∧
    isRevName true "a1.cpython-312.opt-2.pyc".toList = true ∧ stem "a1.cpython-312.opt-1.pyc".toList = "a1".toList := by decide

/-- non-vacuity: a version location `va` whose `__pycache__` holds `a1.cpython-312.opt-1.pyc` (and nothing else):
    all hypotheses of `pycache_entry_loaded_once` hold and the model loads it -/
def optFS : FS :=
  { node := fun _ => { dir := 1, name := "a1.cpython-312.opt-1.pyc".toList, content := .rev ['o', '1'] }
    exists_ := fun _ _ => false }
def optLocs : List Dir :=
  [⟨"va".toList, [], .cons pycacheName [⟨"a1.cpython-312.opt-1.pyc".toList, 0⟩] .nil .nil⟩]
example : load optFS ⟨true, false⟩ optLocs = .ok ⟨[⟨0, ['o', '1']⟩], [], [['o', '1']], []⟩ := by rfl
example : (nodesOf ⟨[⟨0, ['o', '1']⟩], [], [['o', '1']], []⟩).count 0 = 1 :=
  pycache_entry_loaded_once optFS ⟨true, false⟩ optLocs _ (by intro r hr; simp only [optLocs, List.mem_singleton] at hr; subst hr; decide)
    (by rfl) rfl _ (List.mem_singleton.mpr rfl) _ (.root (by decide))
    ⟨pycacheName, [⟨"a1.cpython-312.opt-1.pyc".toList, 0⟩], .nil⟩ (by rfl)
    ⟨"a1.cpython-312.opt-1.pyc".toList, 0⟩ (List.mem_singleton.mpr rfl)
    "a1".toList "cpython-312.opt-1".toList (by decide) (by decide) (by decide) (by decide) (by decide)
    (by intro f hf; cases hf) rfl
/-- without sourceless mode the same entry is not listed (and nothing is loaded; `only_source_unless_sourceless`) -/
example : load optFS ⟨false, false⟩ optLocs = .ok ⟨[], [], [], []⟩ := by rfl

/-! ## a source file wins over its compiled form -/

/-- `_from_filename` never imports a `.pyc`/`.pyo` whose `.py` sibling exists (sourceless mode or
not), and never a `.pyo` whose `.pyc` sibling exists. -/
theorem compiled_needs_no_source (fs : FS) (cfg : Cfg) (n : Nat) (h : accepts fs cfg n = true) :
    (endsWith dotPyc (fs.node n).name = true ∨ endsWith dotPyo (fs.node n).name = true) →
      fs.exists_ (fs.node n).dir (fs.node n).name.dropLast = false ∧
      (endsWith dotPyo (fs.node n).name = true →
        fs.exists_ (fs.node n).dir ((fs.node n).name.dropLast ++ ['c']) = false) := by
  intro hk
  have hr := accepts_isRevFile fs cfg n h
  unfold isRevFile at hr
  simp only [Bool.and_eq_true, Bool.not_eq_true', Bool.or_eq_true] at hr
  obtain ⟨_, hk'⟩ := hr
  rcases hk' with (hpy | ⟨⟨_, hpyc⟩, hex⟩) | ⟨⟨⟨_, hpyo⟩, hex⟩, hexc⟩
  · rcases hk with hc | ho
    · exact (not_py_and_pyc _ hpy hc).elim
    · exact (not_py_and_pyo _ hpy ho).elim
  · exact ⟨hex, fun ho => (not_pyc_and_pyo _ hpyc ho).elim⟩
  · exact ⟨hex, fun _ => hexc⟩

/-- `load_python_file` loads the source whenever the source exists. -/
theorem load_prefers_source (cacheExists legacyExists : Bool) :
    loadPythonFile .py true cacheExists legacyExists = .self := rfl

/-! ## non-vacuity -/

/-- a layout exercising symlink de-duplication, `.py` over `.pyc`, `__init__.py`, a lock file and
a duplicate id: the hypotheses of the theorems are satisfiable and the model loads what one expects -/
def sampleFS : FS :=
  { node := fun i =>
      match i with
      | 0 => { dir := 0, name := "a.py".toList, content := .rev ['a'] }
      | 1 => { dir := 0, name := "a.pyc".toList, content := .rev ['z'] }
      | 2 => { dir := 0, name := "__init__.py".toList, content := .noRev }
      | 3 => { dir := 0, name := ".#a.py".toList, content := .broken }
      | 4 => { dir := 1, name := "b.py".toList, content := .rev ['a'] }
      | _ => { dir := 1, name := "c.pyc".toList, content := .rev ['c'] }
    exists_ := fun d n => (d == 0 && n == "a.py".toList) }
def sampleLocs : List Dir :=
  [⟨"va".toList, [⟨".#a.py".toList, 3⟩, ⟨"__init__.py".toList, 2⟩, ⟨"a.py".toList, 0⟩, ⟨"a.pyc".toList, 1⟩, ⟨"ln.py".toList, 4⟩],
      .cons "sub".toList [⟨"b.py".toList, 4⟩, ⟨"c.pyc".toList, 5⟩] .nil .nil⟩]

example : load sampleFS ⟨true, true⟩ sampleLocs =
    .ok ⟨[⟨0, ['a']⟩, ⟨4, ['a']⟩, ⟨5, ['c']⟩], [4], [['a'], ['c']], [['a']]⟩ := by rfl
/-- in `sampleLocs`, `b.py` (canonical file 4) is listed twice (as `ln.py` and as `sub/b.py`), `a.py` once -/
example : listedCount 4 (allListed ⟨true, true⟩ sampleLocs) = 2 ∧ listedCount 0 (allListed ⟨true, true⟩ sampleLocs) = 1 := by decide

example : RootsOk sampleLocs := by
  intro r hr; simp only [sampleLocs, List.mem_singleton] at hr; subst hr; decide
example : (judge sampleFS ⟨true, true⟩ sampleLocs [(0, ['a']), (4, ['a']), (5, ['c'])] [['a'], ['c']] [['a']]).holds = true := by decide
/-- a file whose name merely starts with `__init__` is a revision file and is loaded
(regression guard for the fixed finding C19-F13) -/
def initPrefixedFS : FS :=
  { node := fun _ => { dir := 0, name := "__init__x.py".toList, content := .rev ['r', '1'] }
    exists_ := fun _ _ => false }
def initPrefixedLocs : List Dir := [⟨"va".toList, [⟨"__init__x.py".toList, 0⟩], .nil⟩]
example : load initPrefixedFS ⟨false, false⟩ initPrefixedLocs = .ok ⟨[⟨0, ['r', '1']⟩], [], [['r', '1']], []⟩ := by rfl
example : isRevFile initPrefixedFS ⟨false, false⟩ 0 = true := by decide
/-- the recogniser rejects an output that skips a file, loads one twice, or hides the duplicate -/
example : (judge sampleFS ⟨true, true⟩ sampleLocs [(0, ['a']), (5, ['c'])] [['a'], ['c']] []).allExpected = false := by decide
example : (judge sampleFS ⟨true, true⟩ sampleLocs [(0, ['a']), (4, ['a']), (4, ['a']), (5, ['c'])] [['a'], ['c']] [['a']]).once = false := by decide
example : (judge sampleFS ⟨true, true⟩ sampleLocs [(0, ['a']), (4, ['a']), (5, ['c'])] [['a'], ['c']] []).dupReported = false := by decide
example : (judge sampleFS ⟨true, true⟩ sampleLocs [(1, ['z']), (4, ['a']), (5, ['c'])] [['z'], ['a'], ['c']] []).onlyExpected = false := by decide

end C19
