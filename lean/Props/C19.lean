import Spec.Files
namespace C19
open Model.Files Spec.Files

end C19
