import Lemmas.Ident.Mysql
/-!
# C14 — emitted DDL quotes every identifier and honours the schema
-/
namespace C14
open Model.Ident Spec.Ident Lemmas.Ident

/-- `Good k r c`: the construct has a visitor on dialect `k`, the compiled text followed by the
    command terminator tokenises (dialect lexer) into exactly the shape the request demands, and every name
    the request passed as `quoted_name(…, quote=True)` occurs as a delimited identifier (`forcedQuoted`).
    This is `Spec.Ident.c14Ok` (the oracle evaluated on the implementation's text) on the model's text. -/
def Good (k : Kind) (r : Str → Bool) (c : Construct) : Prop :=
  ∃ s items, render k r c = some s ∧ shape k c = some items ∧ emittedOk k r items (s ++ terminator k) = true ∧
    forcedQuoted k c (s ++ terminator k) = true

/-- `Good` is exactly the oracle `c14Ok` applied to the model's statement -/
theorem good_iff_c14Ok (k : Kind) (r : Str → Bool) (c : Construct) :
    Good k r c ↔ ∃ s, render k r c = some s ∧ c14Ok k r c (s ++ terminator k) = true := by
  unfold Good c14Ok
  constructor
  · rintro ⟨s, items, h1, h2, h3, h4⟩
    exact ⟨s, h1, by simp [h2, h3, h4]⟩
  · rintro ⟨s, h1, h⟩
    cases h2 : shape k c with
    | none => simp [h2] at h
    | some items =>
      simp only [h2, Bool.and_eq_true] at h
      exact ⟨s, items, h1, rfl, h.1, h.2⟩

theorem good_of_pieces (k : Kind) (r : Str → Bool) (c : Construct) (ps : List Piece)
    (hr : render k r c = some (renderPs k r ps)) (hs : shape k c = some (itemsPs ps))
    (hwf : wf k ps = true) (hok : PiecesOK k ps)
    (hcov : ∀ n ∈ identNames c, n.qn = some (some true) → n.s = [] ∨ n ∈ chainNames ps) : Good k r c := by
  refine ⟨_, _, hr, hs, ?_, forced_pieces k r c ps hwf hok hcov⟩
  have := pieces_ok k r ps (terminator k) hwf hok (sepHead_term k) (noDot_term k)
  simp only [emittedOk, lex, this, beq_self_eq_true]

/-! ## round trips: quoting / escaping against the dialect lexer -/

/-- **Delimiter doubling round-trips, for every dialect and EVERY name** (any length, any characters,
    including the empty name and the delimiters themselves): the delimited form followed by anything
    that does not start with the close delimiter lexes to exactly the identifier `n`. -/
theorem delimit_roundtrip (k : Kind) (n rest : Str) (h : rest.head? ≠ some (closeQ k)) :
    lex k (openQ k :: (escapeClose (closeQ k) n ++ closeQ k :: rest)) = .qid n :: lex k rest :=
  lexFrom_delimited k n rest h

example : lex .mssql ("[a]]b]".toList ++ ", x".toList) = .qid "a]b".toList :: lex .mssql ", x".toList := by decide
example : lex .mssql "[a]b]".toList ≠ [.qid "a]b".toList] := by decide   -- forgetting to double is rejected

/-- full-strength statement for what SQLAlchemy's `quote_identifier` writes in an offline script -/
def quote_roundtrip_statement : Prop :=
  ∀ (k : Kind) (n rest : Str), rest.head? ≠ some (closeQ k) → lex k (quoteIdent k n ++ rest) = .qid n :: lex k rest

/-- it fails: on dialects whose default driver uses format/pyformat parameters a `%` is written `%%` -/
theorem quote_roundtrip_counterexample : ¬ quote_roundtrip_statement := by
  intro h
  have := h .postgresql "a%b".toList [] (by simp)
  revert this
  decide

/-- … and holds whenever the dialect does not double `%` or the name has no `%` -/
theorem quote_roundtrip_partial (k : Kind) (n rest : Str) (hp : dblPercent k = false ∨ '%' ∉ n)
    (h : rest.head? ≠ some (closeQ k)) : lex k (quoteIdent k n ++ rest) = .qid n :: lex k rest :=
  lex_quoteIdent k n rest hp h

example : dblPercent .mssql = false ∨ '%' ∉ "50%".toList := Or.inl rfl

def needs_quotes_statement : Prop :=
  ∀ (k : Kind) (r : Str → Bool) (n rest : Str), requiresQuotes k r n = false →
    (∀ c, rest.head? = some c → isWordChar c = false) →
    lex k (n ++ rest) = .word n :: lex k rest ∧ denote r (.word n) = some n

/-- SQLAlchemy's `LEGAL_CHARACTERS` regex lets one trailing newline through -/
theorem needs_quotes_counterexample : ¬ needs_quotes_statement := by
  intro h
  have := (h .sqlite (fun _ => false) "a\n".toList [] (by decide) (by simp)).1
  revert this
  decide

/-- **If `_requires_quotes` says no, the bare name is read back as itself** (one bare word that is not
    reserved and not case-folded), for every name not ending in a newline. -/
theorem needs_quotes_partial (k : Kind) (r : Str → Bool) (n rest : Str) (hq : requiresQuotes k r n = false)
    (hl : n.getLast? ≠ some '\n') (hs : ∀ c, rest.head? = some c → isWordChar c = false) :
    lex k (n ++ rest) = .word n :: lex k rest ∧ denote r (.word n) = some n := by
  refine ⟨lex_bare k r n rest hq hl hs, ?_⟩
  have := denote_nameTok k r { s := n }
  simpa [nameTok, hq] using this

example : requiresQuotes .oracle (fun _ => false) "abc_1".toList = false := by decide
example : requiresQuotes .oracle (fun _ => false) "_abc".toList = true := by decide

/-- **Single-quote doubling round-trips** for every string (backslash-free on MySQL/MariaDB, whose
    literals also have backslash escapes). -/
theorem literal_roundtrip (k : Kind) (s rest : Str) (hb : backslashEscapes k = false ∨ '\\' ∉ s)
    (h : rest.head? ≠ some '\'') : lex k (sqlLiteral s ++ rest) = .str s :: lex k rest :=
  lex_sqlLiteral k s rest hb h

/-- what Alembic's MSSQL visitors write (`'` ++ `_quote_in_literal(s)` ++ `'`) reads back as `s`, for EVERY `s` -/
theorem mssql_literal_roundtrip (s rest : Str) (h : rest.head? ≠ some '\'') :
    lex .mssql ('\'' :: (quoteInLiteral s ++ '\'' :: rest)) = .str s :: lex .mssql rest :=
  lex_quotedLiteral s rest h

example : lex .mssql "'it's'".toList ≠ [.str "it's".toList] := by decide   -- the pre-fix form is rejected
example : lex .mssql (sqlLiteral "it's".toList) = [.str "it's".toList] := by decide

/-- discharges the four obligations of `good_of_pieces` for `pieces k c` on a concrete dialect -/
syntax "c14_pieces" term "," term "," term : tactic
macro_rules
  | `(tactic| c14_pieces $k , $r , $c) => `(tactic|
      (refine good_of_pieces $k $r $c (pieces $k $c) ?_ ?_ ?_ ?_ ?_
       · unfold render
         simp only [pieces, colspecP, optP, AT, alterTable_eq, alterColumn_oracle, alterColumn_sqlite, alterColumn_postgresql,
           alterColumn_mssql, mysqlColspec, formatColumnName, formatTableName_none, renderPs, render_tblP, render_tblColP,
           render_nameP, render_L, render_opq, List.append_assoc, List.append_nil, List.cons_append, List.nil_append,
           String.toList_empty, if_true, if_false, Bool.false_eq_true, List.isEmpty_nil, List.isEmpty_cons]
         try simp
       · simp [shape, pieces, colspecP, optP, AT, itemsPs, itemsP, L, T, TX, tblP, nameP, tblColP, tableRef, nameRef, optText]
       · rfl
       · simp [pieces, colspecP, optP, AT, piecesOK_cons, piecesOK_append, piecesOK_nil, pieceOK_L, pieceOK_opq, *]
       · intro n hn hq
         simp only [identNames, List.mem_append, List.mem_cons, List.not_mem_nil, or_false, Option.mem_toList,
           Option.mem_def, beq_iff_eq, if_true, if_false, reduceCtorEq, or_assoc] at hn
         simp only [pieces, colspecP, optP, AT, L, chainNames, tblP, tblColP, nameP, List.mem_append, List.mem_cons,
           List.not_mem_nil, or_false, List.append_nil, List.nil_append, if_true, if_false, Bool.false_eq_true]
         first
         | (rcases hn with h | h | h | h <;>
             first
             | (subst h; simp [chainNames])
             | (rcases schema_cov _ n h hq with e | e <;> simp [e, chainNames]))
         | (rcases hn with h | h | h <;>
             first
             | (subst h; simp [chainNames])
             | (rcases schema_cov _ n h hq with e | e <;> simp [e, chainNames]))
         | (rcases hn with h | h <;>
             first
             | (subst h; simp [chainNames])
             | (rcases schema_cov _ n h hq with e | e <;> simp [e, chainNames]))))

/-- case split on the dialect; dialects excluded by a hypothesis `hk : k ∈ [...]` are closed by `simp at hk` -/
syntax "c14_all" ident "," term "," term "," ident : tactic
macro_rules
  | `(tactic| c14_all $k , $r , $c , $hk) => `(tactic|
      (cases $k:ident
       · first | (simp at $hk:ident; done) | c14_pieces Kind.sqlite, $r, $c
       · first | (simp at $hk:ident; done) | c14_pieces Kind.postgresql, $r, $c
       · first | (simp at $hk:ident; done) | c14_pieces Kind.mysql, $r, $c
       · first | (simp at $hk:ident; done) | c14_pieces Kind.mariadb, $r, $c
       · first | (simp at $hk:ident; done) | c14_pieces Kind.mssql, $r, $c
       · first | (simp at $hk:ident; done) | c14_pieces Kind.oracle, $r, $c))

/-! ## per-construct theorems: for ALL names (any length, any characters) meeting `NameOK`/`TgtOK`,
all opaque texts meeting `okText`, every reserved-word predicate `r` -/

theorem stmt_dropColumn (k : Kind) (r : Str → Bool) (g : Tgt) (col : Name) (hg : TgtOK k g) (hc : NameOK k col) :
    Good k r (.dropColumn g col) := by
  have h1 := ok_tblP k g hg
  have h2 := ok_nameP k col hc
  have hk : True := trivial
  c14_all k, r, (.dropColumn g col), hk

/-- `RenameTable` on every dialect but MSSQL (whose `sp_rename '…'` form is `stmt_mssql_*`) -/
theorem stmt_renameTable (k : Kind) (r : Str → Bool) (g : Tgt) (new : Name) (hk : k ≠ .mssql)
    (hg : TgtOK k g) (hn : NameOK k new) : Good k r (.renameTable g new) := by
  have h1 := ok_tblP k g hg
  have h2 := ok_nameP k new hn
  have h3 := ok_tblP k { g with t := new } ⟨hn, hg.schema⟩
  c14_all k, r, (.renameTable g new), hk

theorem stmt_addColumn (k : Kind) (r : Str → Bool) (g : Tgt) (col : Name) (spec : Str)
    (hg : TgtOK k g) (hc : NameOK k col) (hs : okText k spec = true) : Good k r (.addColumn g col spec) := by
  have h1 := ok_tblP k g hg
  have h2 := ok_nameP k col hc
  have hk : True := trivial
  c14_all k, r, (.addColumn g col spec), hk

theorem stmt_columnNullable (k : Kind) (r : Str → Bool) (g : Tgt) (col : Name) (nullable : Bool) (ety : Str)
    (hk : k ≠ .mysql ∧ k ≠ .mariadb) (hg : TgtOK k g) (hc : NameOK k col) (he : k = .mssql → okText k ety = true) :
    Good k r (.columnNullable g col nullable ety) := by
  have h1 := ok_tblP k g hg
  have h2 := ok_nameP k col hc
  cases nullable
  · c14_all k, r, (.columnNullable g col false ety), hk
  · c14_all k, r, (.columnNullable g col true ety), hk

theorem stmt_columnType (k : Kind) (r : Str → Bool) (g : Tgt) (col : Name) (ty : Str) (usng : Option Str)
    (hk : k ≠ .mysql ∧ k ≠ .mariadb) (hg : TgtOK k g) (hc : NameOK k col) (ht : okText k ty = true)
    (hu : ∀ u, usng = some u → u ≠ [] → okText k u = true) :
    Good k r (.columnType g col ty usng) := by
  have h1 := ok_tblP k g hg
  have h2 := ok_nameP k col hc
  match usng, hu with
  | none, _ => c14_all k, r, (.columnType g col ty none), hk
  | some [], _ => c14_all k, r, (.columnType g col ty (some [])), hk
  | some (c :: u), hu =>
    have h3 := hu (c :: u) rfl (by simp)
    c14_all k, r, (.columnType g col ty (some (c :: u))), hk

/-- `ColumnName` on every dialect with a visitor but MSSQL (`sp_rename '…'` form: `stmt_mssql_*`) -/
theorem stmt_columnName (k : Kind) (r : Str → Bool) (g : Tgt) (col new : Name)
    (hk : k ≠ .mysql ∧ k ≠ .mariadb ∧ k ≠ .mssql) (hg : TgtOK k g) (hc : NameOK k col) (hn : NameOK k new) :
    Good k r (.columnName g col new) := by
  have h1 := ok_tblP k g hg
  have h2 := ok_nameP k col hc
  have h3 := ok_nameP k new hn
  c14_all k, r, (.columnName g col new), hk

theorem stmt_columnDefault (k : Kind) (r : Str → Bool) (g : Tgt) (col : Name) (default : Option Str)
    (hk : k ≠ .mysql ∧ k ≠ .mariadb ∧ (k = .mssql → default ≠ none)) (hg : TgtOK k g) (hc : NameOK k col)
    (hd : ∀ d, default = some d → okText k d = true) : Good k r (.columnDefault g col default) := by
  have h1 := ok_tblP k g hg
  have h2 := ok_nameP k col hc
  match default, hd with
  | none, _ => c14_all k, r, (.columnDefault g col none), hk
  | some d, hd =>
    have h3 := hd d rfl
    c14_all k, r, (.columnDefault g col (some d)), hk

/-- `COMMENT ON COLUMN` (PostgreSQL and, since the fix of F6, Oracle): table and column quoted, schema honoured -/
theorem stmt_columnComment (k : Kind) (r : Str → Bool) (g : Tgt) (col : Name) (comment : Option Str)
    (hk : k = .postgresql ∨ k = .oracle) (hg : TgtOK k g) (hc : NameOK k col)
    (hd : ∀ d, comment = some d → okText k d = true) : Good k r (.columnComment g col comment) := by
  have h1 := ok_tblColP k g col hg hc
  match comment, hd with
  | none, _ => c14_all k, r, (.columnComment g col none), hk
  | some d, hd =>
    have h3 := hd d rfl
    c14_all k, r, (.columnComment g col (some d)), hk

theorem stmt_identity (k : Kind) (r : Str → Bool) (g : Tgt) (col : Name) (tail : Str)
    (hk : k = .postgresql ∨ k = .oracle) (hg : TgtOK k g) (hc : NameOK k col) (ht : okText k tail = true) :
    Good k r (.identity g col tail) := by
  have h1 := ok_tblP k g hg
  have h2 := ok_nameP k col hc
  c14_all k, r, (.identity g col tail), hk

theorem stmt_mysqlAlterDefault (k : Kind) (r : Str → Bool) (g : Tgt) (col : Name) (default : Option Str)
    (hk : k = .mysql ∨ k = .mariadb) (hg : TgtOK k g) (hc : NameOK k col)
    (hd : ∀ d, default = some d → okText k d = true) : Good k r (.mysqlAlterDefault g col default) := by
  have h1 := ok_tblP k g hg
  have h2 := ok_nameP k col hc
  match default, hd with
  | none, _ => c14_all k, r, (.mysqlAlterDefault g col none), hk
  | some d, hd =>
    have h3 := hd d rfl
    c14_all k, r, (.mysqlAlterDefault g col (some d)), hk

/-- the opaque texts of a MySQL column specification are lexically complete -/
def ColSpecOK (k : Kind) (cs : ColSpec) : Prop :=
  okText k cs.ty = true ∧ (∀ d, cs.default = some d → okText k d = true) ∧ (∀ c, cs.comment = some c → okText k c = true)

theorem stmt_mysqlModify (k : Kind) (r : Str → Bool) (g : Tgt) (col : Name) (cs : ColSpec)
    (hk : k = .mysql ∨ k = .mariadb) (hg : TgtOK k g) (hc : NameOK k col) (hcs : ColSpecOK k cs) :
    Good k r (.mysqlModify g col cs) := by
  have h1 := ok_tblP k g hg
  have h2 := ok_nameP k col hc
  obtain ⟨ty, nullable, autoinc, default, comment⟩ := cs
  obtain ⟨h3, h4, h5⟩ := hcs
  simp only at h3 h4 h5
  match nullable, autoinc, default, comment, h4, h5 with
  | false, false, none, none, _, _ => c14_all k, r, (.mysqlModify g col ⟨ty, false, false, none, none⟩), hk
  | false, false, some d, none, h4, _ =>
    have h6 := h4 d rfl
    c14_all k, r, (.mysqlModify g col ⟨ty, false, false, some d, none⟩), hk
  | false, false, none, some c, _, h5 =>
    have h7 := h5 c rfl
    c14_all k, r, (.mysqlModify g col ⟨ty, false, false, none, some c⟩), hk
  | false, false, some d, some c, h4, h5 =>
    have h6 := h4 d rfl
    have h7 := h5 c rfl
    c14_all k, r, (.mysqlModify g col ⟨ty, false, false, some d, some c⟩), hk
  | false, true, none, none, _, _ => c14_all k, r, (.mysqlModify g col ⟨ty, false, true, none, none⟩), hk
  | false, true, some d, none, h4, _ =>
    have h6 := h4 d rfl
    c14_all k, r, (.mysqlModify g col ⟨ty, false, true, some d, none⟩), hk
  | false, true, none, some c, _, h5 =>
    have h7 := h5 c rfl
    c14_all k, r, (.mysqlModify g col ⟨ty, false, true, none, some c⟩), hk
  | false, true, some d, some c, h4, h5 =>
    have h6 := h4 d rfl
    have h7 := h5 c rfl
    c14_all k, r, (.mysqlModify g col ⟨ty, false, true, some d, some c⟩), hk
  | true, false, none, none, _, _ => c14_all k, r, (.mysqlModify g col ⟨ty, true, false, none, none⟩), hk
  | true, false, some d, none, h4, _ =>
    have h6 := h4 d rfl
    c14_all k, r, (.mysqlModify g col ⟨ty, true, false, some d, none⟩), hk
  | true, false, none, some c, _, h5 =>
    have h7 := h5 c rfl
    c14_all k, r, (.mysqlModify g col ⟨ty, true, false, none, some c⟩), hk
  | true, false, some d, some c, h4, h5 =>
    have h6 := h4 d rfl
    have h7 := h5 c rfl
    c14_all k, r, (.mysqlModify g col ⟨ty, true, false, some d, some c⟩), hk
  | true, true, none, none, _, _ => c14_all k, r, (.mysqlModify g col ⟨ty, true, true, none, none⟩), hk
  | true, true, some d, none, h4, _ =>
    have h6 := h4 d rfl
    c14_all k, r, (.mysqlModify g col ⟨ty, true, true, some d, none⟩), hk
  | true, true, none, some c, _, h5 =>
    have h7 := h5 c rfl
    c14_all k, r, (.mysqlModify g col ⟨ty, true, true, none, some c⟩), hk
  | true, true, some d, some c, h4, h5 =>
    have h6 := h4 d rfl
    have h7 := h5 c rfl
    c14_all k, r, (.mysqlModify g col ⟨ty, true, true, some d, some c⟩), hk

theorem stmt_mysqlChange (k : Kind) (r : Str → Bool) (g : Tgt) (col new : Name) (cs : ColSpec)
    (hk : k = .mysql ∨ k = .mariadb) (hg : TgtOK k g) (hc : NameOK k col) (hn : NameOK k new) (hcs : ColSpecOK k cs) :
    Good k r (.mysqlChange g col new cs) := by
  have h1 := ok_tblP k g hg
  have h2 := ok_nameP k col hc
  have h8 := ok_nameP k new hn
  obtain ⟨ty, nullable, autoinc, default, comment⟩ := cs
  obtain ⟨h3, h4, h5⟩ := hcs
  simp only at h3 h4 h5
  match nullable, autoinc, default, comment, h4, h5 with
  | false, false, none, none, _, _ => c14_all k, r, (.mysqlChange g col new ⟨ty, false, false, none, none⟩), hk
  | false, false, some d, none, h4, _ =>
    have h6 := h4 d rfl
    c14_all k, r, (.mysqlChange g col new ⟨ty, false, false, some d, none⟩), hk
  | false, false, none, some c, _, h5 =>
    have h7 := h5 c rfl
    c14_all k, r, (.mysqlChange g col new ⟨ty, false, false, none, some c⟩), hk
  | false, false, some d, some c, h4, h5 =>
    have h6 := h4 d rfl
    have h7 := h5 c rfl
    c14_all k, r, (.mysqlChange g col new ⟨ty, false, false, some d, some c⟩), hk
  | false, true, none, none, _, _ => c14_all k, r, (.mysqlChange g col new ⟨ty, false, true, none, none⟩), hk
  | false, true, some d, none, h4, _ =>
    have h6 := h4 d rfl
    c14_all k, r, (.mysqlChange g col new ⟨ty, false, true, some d, none⟩), hk
  | false, true, none, some c, _, h5 =>
    have h7 := h5 c rfl
    c14_all k, r, (.mysqlChange g col new ⟨ty, false, true, none, some c⟩), hk
  | false, true, some d, some c, h4, h5 =>
    have h6 := h4 d rfl
    have h7 := h5 c rfl
    c14_all k, r, (.mysqlChange g col new ⟨ty, false, true, some d, some c⟩), hk
  | true, false, none, none, _, _ => c14_all k, r, (.mysqlChange g col new ⟨ty, true, false, none, none⟩), hk
  | true, false, some d, none, h4, _ =>
    have h6 := h4 d rfl
    c14_all k, r, (.mysqlChange g col new ⟨ty, true, false, some d, none⟩), hk
  | true, false, none, some c, _, h5 =>
    have h7 := h5 c rfl
    c14_all k, r, (.mysqlChange g col new ⟨ty, true, false, none, some c⟩), hk
  | true, false, some d, some c, h4, h5 =>
    have h6 := h4 d rfl
    have h7 := h5 c rfl
    c14_all k, r, (.mysqlChange g col new ⟨ty, true, false, some d, some c⟩), hk
  | true, true, none, none, _, _ => c14_all k, r, (.mysqlChange g col new ⟨ty, true, true, none, none⟩), hk
  | true, true, some d, none, h4, _ =>
    have h6 := h4 d rfl
    c14_all k, r, (.mysqlChange g col new ⟨ty, true, true, some d, none⟩), hk
  | true, true, none, some c, _, h5 =>
    have h7 := h5 c rfl
    c14_all k, r, (.mysqlChange g col new ⟨ty, true, true, none, some c⟩), hk
  | true, true, some d, some c, h4, h5 =>
    have h6 := h4 d rfl
    have h7 := h5 c rfl
    c14_all k, r, (.mysqlChange g col new ⟨ty, true, true, some d, some c⟩), hk

/-! ## MySQL / MariaDB `ALTER TABLE … DROP CHECK | CONSTRAINT | FOREIGN KEY | INDEX | PRIMARY KEY` -/

syntax "c14_mysql_drop" term "," term "," term "," term : tactic
macro_rules
  | `(tactic| c14_mysql_drop $k , $r , $c , $ps) => `(tactic|
      (refine good_of_pieces $k $r $c $ps ?_ ?_ ?_ ?_ ?_
       · unfold render
         simp only [AT, render_tblFlatP, render_nameP, render_L, renderPs, List.append_assoc, List.append_nil]
         try simp
       · simp [shape, AT, itemsPs, itemsP, L, T, tblFlatP, nameP, tableRef, nameRef]
       · rfl
       · simp [AT, piecesOK_cons, piecesOK_nil, pieceOK_L, *]
       · intro n hn hq
         simp only [identNames, List.mem_append, List.mem_cons, List.not_mem_nil, or_false, Option.mem_toList,
           beq_iff_eq, if_true, if_false, reduceCtorEq, or_assoc, List.nil_append, List.cons_append] at hn
         simp only [AT, L, chainNames, tblFlatP, nameP, List.mem_append, List.mem_cons, List.not_mem_nil, or_false,
           List.append_nil]
         first
         | (rcases hn with h | h | h <;>
             first
             | (subst h; simp)
             | (rcases schema_cov_flat _ n h with e | e <;> simp [e]))
         | (rcases hn with h | h <;>
             first
             | (subst h; simp)
             | (rcases schema_cov_flat _ n h with e | e <;> simp [e]))))

/-- MySQL/MariaDB drop of a CHECK / FOREIGN KEY / UNIQUE (index) / PRIMARY KEY constraint, for all names, provided
    the schema argument is ONE identifier (`TgtFlatOK.flat`: a `quoted_name`, or a plain str without a dot).
    Excluded case = open finding C14-MYSQL-DROP-DOTTED: for a dotted plain-str schema `format_table` quotes the whole
    schema as one name while every other construct treats it as multi-part. -/
theorem stmt_mysqlDropConstraint (k : Kind) (r : Str → Bool) (g : Tgt) (cname : Name) (kind : DropKind)
    (hk : k = .mysql ∨ k = .mariadb) (hg : TgtFlatOK k g) (hc : NameOK k cname) :
    Good k r (.mysqlDropConstraint g cname kind) := by
  have h1 := ok_tblFlatP k g hg
  have h2 := ok_nameP k cname hc
  rcases hk with rfl | rfl <;> cases kind
  · c14_mysql_drop Kind.mysql, r, (.mysqlDropConstraint g cname .check), [AT, tblFlatP g, L " DROP CHECK " "DROP CHECK", nameP cname]
  · c14_mysql_drop Kind.mysql, r, (.mysqlDropConstraint g cname .fk), [AT, tblFlatP g, L " DROP FOREIGN KEY " "DROP FOREIGN KEY", nameP cname]
  · c14_mysql_drop Kind.mysql, r, (.mysqlDropConstraint g cname .pk), [AT, tblFlatP g, L " DROP PRIMARY KEY " "DROP PRIMARY KEY"]
  · c14_mysql_drop Kind.mysql, r, (.mysqlDropConstraint g cname .unique), [AT, tblFlatP g, L " DROP INDEX " "DROP INDEX", nameP cname]
  · c14_mysql_drop Kind.mariadb, r, (.mysqlDropConstraint g cname .check), [AT, tblFlatP g, L " DROP CONSTRAINT " "DROP CONSTRAINT", nameP cname]
  · c14_mysql_drop Kind.mariadb, r, (.mysqlDropConstraint g cname .fk), [AT, tblFlatP g, L " DROP FOREIGN KEY " "DROP FOREIGN KEY", nameP cname]
  · c14_mysql_drop Kind.mariadb, r, (.mysqlDropConstraint g cname .pk), [AT, tblFlatP g, L " DROP PRIMARY KEY " "DROP PRIMARY KEY"]
  · c14_mysql_drop Kind.mariadb, r, (.mysqlDropConstraint g cname .unique), [AT, tblFlatP g, L " DROP INDEX " "DROP INDEX", nameP cname]

/-! ## MSSQL `_ExecDropConstraint` / `_ExecDropFKConstraint`: the three string literals -/

theorem objectId_literal (g : Tgt) :
    (match schemaGiven g.schema with
     | some s => quoteInLiteral s.s ++ ['.']
     | none => []) ++ quoteInLiteral g.t.s = quoteInLiteral (objectIdArg g) := by
  unfold objectIdArg schemaOf schemaGiven
  cases g.schema with
  | none => simp
  | some n =>
    by_cases h : n.s.isEmpty = true
    · simp [h]
    · simp [h, ← quoteInLiteral_dot]

/-- The three `'…'` literals of `_ExecDropConstraint` / `_ExecDropFKConstraint`: the statement tail is fixed text around
    `sqlLiteral (schema.table)`, `sqlLiteral column` and `sqlLiteral ("alter table <formatted table> drop constraint ")`. -/
theorem mssqlDropTail_literals (r : Str → Bool) (pfx : String) (g : Tgt) (col : Str) :
    mssqlDropTail .mssql r pfx g col =
      ("where " ++ pfx ++ "parent_object_id = object_id(").toList ++ sqlLiteral (objectIdArg g) ++
      ")\nand col_name(".toList ++ pfx.toList ++ "parent_object_id, ".toList ++ pfx.toList ++ "parent_column_id) = ".toList ++
      sqlLiteral col ++ "\nexec(".toList ++
      sqlLiteral ("alter table ".toList ++ formatTableName .mssql r g.t g.schema ++ " drop constraint ".toList) ++
      " + @const_name)".toList := by
  have e1 : quoteInLiteral ("alter table ".toList ++ formatTableName .mssql r g.t g.schema ++ " drop constraint ".toList) =
      "alter table ".toList ++ quoteInLiteral (formatTableName .mssql r g.t g.schema) ++ " drop constraint ".toList := by
    simp [quoteInLiteral, escapeClose_append, escapeClose]
  have e0 := objectId_literal g
  unfold mssqlDropTail sqlLiteral
  simp only [quoteInLiteral] at e0 e1 ⊢
  rw [e1, ← e0]
  simp [String.toList_append, List.append_assoc]
  cases schemaGiven g.schema <;> rfl

/-- … and each of them reads back as exactly the embedded text (instance of `mssql_literal_roundtrip`) -/
theorem mssqlDrop_objectId_reads_back (g : Tgt) (rest : Str) (h : rest.head? ≠ some '\'') :
    lex .mssql (sqlLiteral (objectIdArg g) ++ rest) = .str (objectIdArg g) :: lex .mssql rest :=
  literal_roundtrip .mssql _ rest (Or.inl rfl) h

example : mssqlDropTail .mssql (fun _ => false) "" { t := { s := "it's".toList }, schema := some { s := "s'x".toList } } "c'1".toList =
    ("where parent_object_id = object_id('s''x.it''s')\nand col_name(parent_object_id, parent_column_id) = 'c''1'\n" ++
     "exec('alter table [s''x].[it''s] drop constraint ' + @const_name)").toList := by decide +kernel

/-! ## decidable form of `Good` and the counterexamples (the same witnesses are replayed on the real code on every run) -/

def goodB (k : Kind) (r : Str → Bool) (c : Construct) : Bool :=
  match render k r c, shape k c with
  | some s, some items => emittedOk k r items (s ++ terminator k) && forcedQuoted k c (s ++ terminator k)
  | _, _ => false

theorem good_iff (k : Kind) (r : Str → Bool) (c : Construct) : Good k r c ↔ goodB k r c = true := by
  unfold Good goodB
  constructor
  · rintro ⟨s, items, h1, h2, h3, h4⟩
    simp [h1, h2, h3, h4]
  · intro h
    cases h1 : render k r c with
    | none => simp [h1] at h
    | some s =>
      cases h2 : shape k c with
      | none => simp [h1, h2] at h
      | some items =>
        have : emittedOk k r items (s ++ terminator k) = true ∧ forcedQuoted k c (s ++ terminator k) = true := by
          simpa [h1, h2] using h
        exact ⟨s, items, rfl, rfl, this.1, this.2⟩

def plainName (s : String) : Name := { s := s.toList }

theorem nameOK_of_dec (k : Kind) (n : Name) (h1 : n.s ≠ []) (h2 : dblPercent k = false ∨ '%' ∉ n.s)
    (h3 : n.s.getLast? ≠ some '\n') (h4 : '\t' ∉ n.s) (h5 : n.qn ≠ some (some false)) : NameOK k n := ⟨h1, h2, h3, h4, h5⟩

theorem tgtOK_noSchema (k : Kind) (t : Name) (h : NameOK k t) : TgtOK k { t := t } :=
  ⟨h, by intro n hn; simp [schemaNames, schemaGiven] at hn⟩

/-- MSSQL `sp_rename '<table>.<column>', <new>, 'COLUMN'` for ALL names (since the fix of F7 the formatted
    names go through `_quote_in_literal`): the literal's content is SQL naming exactly schema.table.column -/
theorem stmt_mssql_columnName (r : Str → Bool) (g : Tgt) (col new : Name) (hg : TgtOK .mssql g)
    (hc : NameOK .mssql col) (hn : NameOK .mssql new) : Good .mssql r (.columnName g col new) := by
  have hpk := ok_tblColP .mssql g col hg hc
  obtain ⟨hne, hnames, hitem⟩ := hpk
  have hm0 := match0_chain r (schemaNames g ++ [g.t, col]) (schemaParts g) [g.t.s, col.s] hne hnames (by simpa [itemOk] using hitem)
  have h2 := ok_nameP .mssql new hn
  let ps : List Piece := [L ", " ",", nameP new]
  have hps := pieces_ok_more .mssql r ps [T ",", .strIs "COLUMN".toList] ", 'COLUMN';".toList (by rfl)
    (by simp [ps, piecesOK_cons, piecesOK_nil, pieceOK_L, h2]) (by intro c hc; simp at hc; subst hc; decide)
    (by unfold noDot; decide)
  have hpsok : PiecesOK .mssql ps := by simp [ps, piecesOK_cons, piecesOK_nil, pieceOK_L, h2]
  refine ⟨_, _, by unfold render; rfl, rfl, ?_⟩
  have e : "EXEC sp_rename '".toList ++ quoteInLiteral (formatTableName .mssql r g.t g.schema) ++ '.' ::
        quoteInLiteral (formatColumnName .mssql r col) ++
        "', ".toList ++ formatColumnName .mssql r new ++ ", 'COLUMN'".toList ++ terminator .mssql =
      "EXEC sp_rename ".toList ++ ('\'' :: (quoteInLiteral (renderP .mssql r (tblColP g col)) ++ '\'' ::
        (renderPs .mssql r ps ++ ", 'COLUMN';".toList))) := by
    simp [ps, render_tblColP, renderPs, render_L, render_nameP, formatColumnName, terminator, ← quoteInLiteral_dot]
  have hl1 := lex_text_piece .mssql "EXEC sp_rename ".toList
    ('\'' :: (quoteInLiteral (renderP .mssql r (tblColP g col)) ++ '\'' :: (renderPs .mssql r ps ++ ", 'COLUMN';".toList)))
    (by decide) (Or.inl (by decide))
  have hl2 := lex_quotedLiteral (renderP .mssql r (tblColP g col)) (renderPs .mssql r ps ++ ", 'COLUMN';".toList)
    (by simp [ps, renderPs, render_L])
  have hfin : matchItems .mssql r [T ",", .strIs "COLUMN".toList] (lexFrom .mssql .none ", 'COLUMN';".toList) =
      some (lex .mssql (terminator .mssql)) := by rfl
  have hlex1 : lex .mssql "EXEC sp_rename ".toList = lex .mssql "EXEC sp_rename".toList := by decide
  have hitems : ([T "EXEC sp_rename", Item.strSql [.ref (schemaParts g) [g.t.s, col.s]], T ",", nameRef new, T ",",
      Item.strIs "COLUMN".toList] : List Item) =
      T "EXEC sp_rename" :: Item.strSql [.ref (schemaParts g) [g.t.s, col.s]] :: (itemsPs ps ++ [T ",", .strIs "COLUMN".toList]) := by
    simp [ps, itemsPs, itemsP, L, T, nameP, nameRef]
  refine ⟨?_, ?_⟩
  rotate_left
  · refine forced_literal_stmt r _ "EXEC sp_rename ".toList _ (schemaNames g ++ [g.t, col]) ps ", 'COLUMN';".toList
      (by rw [e, hl1, hl2]; rfl) hne hnames (by rfl) hpsok (by intro c hc; simp at hc; subst hc; decide) ?_
    intro n hn' hq
    simp only [identNames, List.mem_append, List.mem_cons, List.not_mem_nil, or_false, Option.mem_toList,
      or_assoc] at hn'
    rcases hn' with h | h | h | h
    · subst h; simp
    · subst h; simp
    · subst h; simp [ps, chainNames, L, nameP]
    · rcases schema_cov _ n h hq with e' | e' <;> simp [e']
  unfold emittedOk
  rw [lex, e, hl1, hl2, hlex1, hitems]
  simp only [T, match_text]
  simp only [matchItems]
  have hm0' : match0 .mssql r [.ref (schemaParts g) [g.t.s, col.s]] (lex .mssql (renderP .mssql r (tblColP g col))) = some [] := hm0
  simp only [hm0', beq_self_eq_true, if_true]
  simp only [T] at hps hfin
  rw [hps, hfin]
  simp

/-- MSSQL `sp_rename '<table>', <new>` for ALL names -/
theorem stmt_mssql_renameTable (r : Str → Bool) (g : Tgt) (new : Name) (hg : TgtOK .mssql g)
    (hn : NameOK .mssql new) : Good .mssql r (.renameTable g new) := by
  have hpk := ok_tblP .mssql g hg
  obtain ⟨hne, hnames, hitem⟩ := hpk
  have hm0 := match0_chain r (schemaNames g ++ [g.t]) (schemaParts g) [g.t.s] hne hnames (by simpa [itemOk] using hitem)
  have h2 := ok_nameP .mssql new hn
  let ps : List Piece := [L ", " ",", nameP new]
  have hps := pieces_ok_more .mssql r ps [] (terminator .mssql) (by rfl)
    (by simp [ps, piecesOK_cons, piecesOK_nil, pieceOK_L, h2]) (sepHead_term .mssql) (noDot_term .mssql)
  have hpsok : PiecesOK .mssql ps := by simp [ps, piecesOK_cons, piecesOK_nil, pieceOK_L, h2]
  refine ⟨_, _, by unfold render; rfl, rfl, ?_⟩
  have e : "EXEC sp_rename '".toList ++ quoteInLiteral (formatTableName .mssql r g.t g.schema) ++
        "', ".toList ++ formatTableName .mssql r new none ++ terminator .mssql =
      "EXEC sp_rename ".toList ++ ('\'' :: (quoteInLiteral (renderP .mssql r (tblP g)) ++ '\'' ::
        (renderPs .mssql r ps ++ terminator .mssql))) := by
    simp [ps, render_tblP, renderPs, render_L, render_nameP, formatTableName_none, terminator]
  have hl1 := lex_text_piece .mssql "EXEC sp_rename ".toList
    ('\'' :: (quoteInLiteral (renderP .mssql r (tblP g)) ++ '\'' :: (renderPs .mssql r ps ++ terminator .mssql)))
    (by decide) (Or.inl (by decide))
  have hl2 := lex_quotedLiteral (renderP .mssql r (tblP g)) (renderPs .mssql r ps ++ terminator .mssql)
    (by simp [ps, renderPs, render_L])
  have hlex1 : lex .mssql "EXEC sp_rename ".toList = lex .mssql "EXEC sp_rename".toList := by decide
  have hitems : ([T "EXEC sp_rename", Item.strSql [.ref (schemaParts g) [g.t.s]], T ",", nameRef new] : List Item) =
      T "EXEC sp_rename" :: Item.strSql [.ref (schemaParts g) [g.t.s]] :: (itemsPs ps ++ []) := by
    simp [ps, itemsPs, itemsP, L, T, nameP, nameRef]
  refine ⟨?_, ?_⟩
  rotate_left
  · refine forced_literal_stmt r _ "EXEC sp_rename ".toList _ (schemaNames g ++ [g.t]) ps (terminator .mssql)
      (by rw [e, hl1, hl2]; rfl) hne hnames (by rfl) hpsok (sepHead_term .mssql) ?_
    intro n hn' hq
    simp only [identNames, List.mem_append, List.mem_cons, List.not_mem_nil, or_false, Option.mem_toList,
      or_assoc] at hn'
    rcases hn' with h | h | h
    · subst h; simp
    · subst h; simp [ps, chainNames, L, nameP]
    · rcases schema_cov _ n h hq with e' | e' <;> simp [e']
  unfold emittedOk
  rw [lex, e, hl1, hl2, hlex1, hitems]
  simp only [T, match_text]
  simp only [matchItems]
  have hm0' : match0 .mssql r [.ref (schemaParts g) [g.t.s]] (lex .mssql (renderP .mssql r (tblP g))) = some [] := hm0
  simp only [hm0', beq_self_eq_true, if_true]
  rw [hps]
  simp [matchItems, lex]

/-- the statements hold on witnesses that used to fail before the fixes of F6/F7 (and the recogniser is not vacuous) -/
example : goodB .mssql (fun _ => false) (.columnName { t := plainName "it's" } (plainName "c") (plainName "d")) = true := by
  decide +kernel
example : goodB .oracle (fun _ => false) (.columnComment { t := plainName "My T", schema := some (plainName "My S") }
    (plainName "select") (some "'x'".toList)) = true := by decide +kernel
example : emittedOk .oracle (fun _ => false)
    ((shape .oracle (.columnComment { t := plainName "My T" } (plainName "c") (some "'x'".toList))).getD [])
    "COMMENT ON COLUMN My T.c IS 'x'".toList = false := by decide +kernel   -- the pre-fix text is rejected
example : emittedOk .mssql (fun _ => false)
    ((shape .mssql (.columnName { t := plainName "it's" } (plainName "c") (plainName "d"))).getD [])
    "EXEC sp_rename '[it's].c', d, 'COLUMN';".toList = false := by decide +kernel   -- the pre-fix text is rejected

/-- the same four statements are fine on the literal-free witness (the recogniser is not vacuous) -/
example : goodB .mssql (fun _ => false) (.columnName { t := plainName "My T", schema := some (plainName "dbo") }
    (plainName "c") (plainName "D")) = true := by decide
example : goodB .mssql (fun _ => false) (.mssqlDropFK { t := plainName "My T", schema := some (plainName "dbo") } "c".toList) = true := by
  decide +kernel

/-- SQLite `ALTER TABLE <schema>.<table> RENAME COLUMN <a> TO <b>` (seed C14-m dropped the schema here): the target is
    schema.table, both quoted when needed (dotted plain schema multi-part, quoted_name one identifier), for all names -/
theorem stmt_sqlite_renameColumn (r : Str → Bool) (g : Tgt) (col new : Name) (hg : TgtOK .sqlite g)
    (hc : NameOK .sqlite col) (hn : NameOK .sqlite new) : Good .sqlite r (.columnName g col new) :=
  stmt_columnName .sqlite r g col new (by decide) hg hc hn

/-- SQLite `ALTER TABLE <schema>.<table> RENAME TO <new>`: the target is schema-qualified, the new name is not -/
theorem stmt_sqlite_renameTable (r : Str → Bool) (g : Tgt) (new : Name) (hg : TgtOK .sqlite g)
    (hn : NameOK .sqlite new) : Good .sqlite r (.renameTable g new) :=
  stmt_renameTable .sqlite r g new (by decide) hg hn

-- non-vacuity: with a schema the statement is accepted, the schema-less text of seed C14-m is rejected
example : goodB .sqlite (fun _ => false) (.columnName { t := plainName "My T", schema := some (plainName "aux") }
    (plainName "a") (plainName "b")) = true := by decide +kernel
example : c14Ok .sqlite (fun _ => false) (.columnName { t := plainName "My T", schema := some (plainName "aux") }
    (plainName "a") (plainName "b")) "ALTER TABLE \"My T\" RENAME COLUMN a TO b;".toList = false := by decide +kernel

-- non-vacuity of the forced-quote clause: quoted_name("users", quote=True) must be delimited
example : goodB .oracle (fun _ => false) (.dropColumn { t := { s := "users".toList, qn := some (some true) } } (plainName "c")) = true := by
  decide +kernel
example : c14Ok .oracle (fun _ => false) (.dropColumn { t := { s := "users".toList, qn := some (some true) } } (plainName "c"))
    "ALTER TABLE users DROP COLUMN c".toList = false := by decide +kernel
example : c14Ok .oracle (fun _ => false) (.dropColumn { t := plainName "users" } (plainName "c"))
    "ALTER TABLE users DROP COLUMN c".toList = true := by decide +kernel

-- non-vacuity of stmt_mysqlDropConstraint: a quoted_name schema with a dot is ONE identifier and is accepted;
-- the excluded case (plain dotted str, finding C14-MYSQL-DROP-DOTTED) is rejected by the oracle
example : goodB .mysql (fun _ => false) (.mysqlDropConstraint
    { t := plainName "My T", schema := some { s := "corp.sales".toList, qn := some none } } (plainName "ck") .check) = true := by
  decide +kernel
example : goodB .mariadb (fun _ => false) (.mysqlDropConstraint { t := plainName "t", schema := some (plainName "s") }
    (plainName "fk 1") .fk) = true := by decide +kernel
example : goodB .mysql (fun _ => false) (.mysqlDropConstraint
    { t := plainName "t", schema := some (plainName "corp.sales") } (plainName "ck") .check) = false := by decide +kernel
example : FlatSchema { t := plainName "t", schema := some { s := "corp.sales".toList, qn := some none } } := by
  intro s h; cases h; exact Or.inl rfl

/-- `%` in a quoted name on PostgreSQL/MySQL (finding C14-PERCENT): excluded by `NameOK.pct` -/
theorem percent_counterexample :
    goodB .postgresql (fun _ => false) (.dropColumn { t := plainName "a%b" } (plainName "c")) = false := by decide

/-- a TAB in a name (finding C14-TAB): `DefaultImpl._exec` rewrites it, so what is *written* differs from
    `s ++ terminator`; excluded by `NameOK.tab` -/
theorem tab_counterexample :
    c14Ok .sqlite (fun _ => false) (.dropColumn { t := plainName "a\tb" } (plainName "c"))
      (emit .sqlite ((render .sqlite (fun _ => false) (.dropColumn { t := plainName "a\tb" } (plainName "c"))).getD [])) = false := by
  decide

end C14
