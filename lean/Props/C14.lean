import Spec.Ident
namespace C14
end C14
