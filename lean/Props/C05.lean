import Lemmas.Rev.HeadsFacts
import Props.C02
import Props.C16
/-!
# C05 — stamp moves only the branches that share lineage with the target

About `Model.Rev.stampDest` (the body of the `for dest in dests` loop of
`ScriptDirectory._stamp_revs`: classification delete / no-op / downgrade / upgrade / new
branch) followed by `updateToStep` for the resulting `StampStep`
(`StampStep.should_*`, `merge_branch_idents`, `unmerge_branch_idents`).
-/
namespace C05
open Model.Rev Spec.Rev Lemmas.Rev C01 C02

/-- `x` shares lineage with `d`: ancestor or descendant through down-revisions and dependencies -/
def Lineage (m : LMap) (d x : Id) : Prop := Reach m.allDownOf d x ∨ Reach m.allDownOf x d

/-- no row is implied by another row -/
def Antichain (m : LMap) (R : List Id) : Prop :=
  R.Nodup ∧ ∀ x ∈ R, ∀ y ∈ R, x ≠ y → ¬ Reach m.allDownOf x y

theorem mem_desc_single {m : LMap} (L : Loaded m) (d x : Id) : x ∈ m.descendants [d] ↔ Reach m.allDownOf x d := by
  rw [mem_descendants_iff L]; simp [BuildsOn]

theorem mem_anc_single {m : LMap} (L : Loaded m) (d x : Id) : x ∈ m.ancestors [d] ↔ Reach m.allDownOf d x := by
  rw [mem_ancestors_iff]; simp [reach_norm_iff_all L]

/-- `filter_for_lineage(heads, dest, include_dependencies=True)` selects the rows in `dest`'s lineage -/
theorem sharesLineage_iff {m : LMap} (L : Loaded m) (d x : Id) :
    sharesLineage m x [d] true = true ↔ Lineage m d x := by
  unfold sharesLineage Lineage
  simp only [List.isEmpty_cons, Bool.false_eq_true, if_false, if_true, List.any_cons, List.any_nil, Bool.or_false,
    Bool.or_eq_true, decide_eq_true_eq]
  rw [mem_desc_single L, mem_anc_single L]

theorem runSteps_single (m : LMap) (R R' : List Id) (s : Step) (st : List Stmt)
    (h : updateToStep m R s = .ok (R', st)) : runSteps m R [s] = .ok [R'] := by
  simp [runSteps, h]

/-- rows after replacing the rows `fs` (all present) by `d` (absent), through a `StampStep` -/
theorem stamp_fold {m : LMap} (R : List Id) (hn : R.Nodup) (fs : List Id) (hf : fs.Nodup) (hne : fs ≠ [])
    (hs : ∀ f ∈ fs, f ∈ R) (d : Id) (hd : d ∉ R) (up : Bool) :
    ∃ R' st, updateToStep m R (.stamp fs [d] up false) = .ok (R', st) ∧
      RowSet R' (fun x => (x ∈ R ∧ x ∉ fs) ∨ x = d) := by
  have hrun : ∀ st R', stepStmts m R (.stamp fs [d] up false) = .ok st → applyStmts R st = .ok R' →
      updateToStep m R (.stamp fs [d] up false) = .ok (R', st) := by
    intro st R' h1 h2; unfold updateToStep; rw [h1]; simp only; rw [h2]
  have hany : fs.any (· ∉ R) = false := by
    simp only [List.any_eq_false, decide_eq_true_eq, Classical.not_not]; exact hs
  by_cases hlen : fs.length > 1
  · obtain ⟨R', hok, hsr⟩ := fold_ok R hn fs hf hne hs d hd
    have hst : stepStmts m R (.stamp fs [d] up false) =
        .ok (fs.dropLast.map .del ++ [.upd (fs.getLast hne) d]) := by
      unfold stepStmts
      simp only [Bool.and_false, Bool.false_eq_true, if_false, Bool.false_or, hany, Bool.and_false, Bool.false_and, hlen,
        decide_true, if_true]
      cases hrev : fs.reverse with
      | nil => simp at hrev; exact absurd hrev hne
      | cons last initRev =>
        obtain ⟨_, h1, h2⟩ := reverse_cons_split hrev
        simp only [h1, h2]
    exact ⟨R', _, hrun _ _ hst hok, hsr⟩
  · match fs, hne, hlen with
    | [f], _, _ =>
      have hfR : f ∈ R := hs f List.mem_cons_self
      obtain ⟨R', hok, hsr⟩ := upd_ok hn hfR hd
      have hst : stepStmts m R (.stamp [f] [d] up false) = .ok [.upd f d] := by
        unfold stepStmts
        simp only [Bool.and_false, Bool.false_eq_true, if_false, Bool.false_or, hany, Bool.false_and]
        simp
      refine ⟨R', _, hrun _ _ hst hok, hsr.nodup, ?_⟩
      intro x; rw [hsr.iff x]; simp
    | _ :: _ :: _, _, hl => simp at hl

/-- one destination, the selected rows given as any duplicate-free list `F` of the rows in `d`'s
lineage (inside the loop over several destinations it is a filter of the *remaining* heads) -/
theorem single_gen {m : LMap} (L : Loaded m) (R : List Id) (hR : Antichain m R) (d : Id)
    (F : List Id) (hfn : F.Nodup) (hfmem : ∀ x, x ∈ F ↔ x ∈ R ∧ Lineage m d x) :
    ∃ steps tr, stampDest m F (some d) = .ok steps ∧
      runSteps m R steps = .ok tr ∧
      RowSet (tr.getLastD R) (fun x => (x ∈ R ∧ ¬ Lineage m d x) ∨ x = d) ∧
      Antichain m (tr.getLastD R) := by
  obtain ⟨rank, hrank⟩ := L.ranked
  have hanti : ∀ x y, x ∈ R → y ∈ R → Reach m.allDownOf x y → x = y := by
    intro x y hx hy hr
    apply Classical.byContradiction
    intro hne; exact hR.2 x hx y hy hne hr
  -- it is enough to produce the right row set; the antichain property follows
  suffices h : ∃ steps tr, stampDest m F (some d) = .ok steps ∧
      runSteps m R steps = .ok tr ∧ RowSet (tr.getLastD R) (fun x => (x ∈ R ∧ ¬ Lineage m d x) ∨ x = d) by
    obtain ⟨steps, tr, h1, h2, hs⟩ := h
    refine ⟨steps, tr, h1, h2, hs, hs.nodup, ?_⟩
    intro x hx y hy hne hreach
    rcases (hs.iff x).mp hx with ⟨hxR, hxl⟩ | hxd <;> rcases (hs.iff y).mp hy with ⟨hyR, hyl⟩ | hyd
    · exact hR.2 x hxR y hyR hne hreach
    · subst hyd; exact hxl (Or.inr hreach)
    · subst hxd; exact hyl (Or.inl hreach)
    · exact hne (hxd.trans hyd.symm)
  by_cases hdf : d ∈ F
  · -- already there: nothing to do
    have hdR : d ∈ R := ((hfmem d).mp hdf).1
    refine ⟨[], [], by simp [stampDest, hdf, pure, Except.pure], by simp [runSteps], hR.1, ?_⟩
    intro x
    simp only [List.getLastD_nil]
    constructor
    · intro hx
      by_cases e : x = d
      · exact Or.inr e
      · left; refine ⟨hx, ?_⟩
        rintro (h | h)
        · exact e (hanti d x hdR hx h).symm
        · exact e (hanti x d hx hdR h)
    · rintro (⟨hx, _⟩ | e)
      · exact hx
      · rw [e]; exact hdR
  · have hdR : d ∉ R := fun h => hdf ((hfmem d).mpr ⟨h, Or.inl (Reach.refl _)⟩)
    have hfsub : ∀ f ∈ F, f ∈ R := fun f hf => ((hfmem f).mp hf).1
    have hrows : ∀ R', RowSet R' (fun x => (x ∈ R ∧ x ∉ F) ∨ x = d) →
        RowSet R' (fun x => (x ∈ R ∧ ¬ Lineage m d x) ∨ x = d) := by
      intro R' hs
      refine ⟨hs.nodup, ?_⟩
      intro x; rw [hs.iff x]
      constructor
      · rintro (⟨h1, h2⟩ | h)
        · exact Or.inl ⟨h1, fun hl => h2 ((hfmem x).mpr ⟨h1, hl⟩)⟩
        · exact Or.inr h
      · rintro (⟨h1, h2⟩ | h)
        · exact Or.inl ⟨h1, fun hf => h2 ((hfmem x).mp hf).2⟩
        · exact Or.inr h
    by_cases hdesc : F.any (· ∈ m.descendants [d]) = true
    · -- heads above the destination: a single downgrade-like step
      have hnoanc : F.any (· ∈ m.ancestors [d]) = false := by
        simp only [List.any_eq_false, decide_eq_true_eq]
        intro f' hf' hanc
        simp only [List.any_eq_true, decide_eq_true_eq] at hdesc
        obtain ⟨f, hf, hfd⟩ := hdesc
        have h1 : Reach m.allDownOf f d := (mem_desc_single L d f).mp hfd
        have h2 : Reach m.allDownOf d f' := (mem_anc_single L d f').mp hanc
        have := hanti f f' (hfsub f hf) (hfsub f' hf') (Reach.trans _ h1 h2)
        subst this
        -- f both above and below d: f = d, but d is not a row
        have hle1 := reach_rank_le' hrank h1
        have hle2 := reach_rank_le' hrank h2
        have : f = d := by
          apply Classical.byContradiction
          intro hne
          have := reach_rank_lt' hrank h1 hne
          omega
        exact hdR (this ▸ hfsub f hf)
      have hne : F ≠ [] := by
        intro e; rw [e] at hdesc; simp at hdesc
      obtain ⟨R', st, hstep, hs⟩ := stamp_fold (m := m) R hR.1 _ hfn hne hfsub d hdR false
      refine ⟨[.stamp _ [d] false false], [R'], ?_, runSteps_single m R R' _ st hstep, ?_⟩
      · simp [stampDest, hdf, hdesc, hnoanc, pure, Except.pure]
      · simpa using hrows R' hs
    · by_cases hanc : F.any (· ∈ m.ancestors [d]) = true
      · have hne : F ≠ [] := by
          intro e; rw [e] at hanc; simp at hanc
        obtain ⟨R', st, hstep, hs⟩ := stamp_fold (m := m) R hR.1 _ hfn hne hfsub d hdR true
        refine ⟨[.stamp _ [d] true false], [R'], ?_, runSteps_single m R R' _ st hstep, ?_⟩
        · simp [stampDest, hdf, hdesc, hanc, pure, Except.pure]
        · simpa using hrows R' hs
      · -- no row in the lineage: a new branch
        have hnil : F = [] := by
          apply List.eq_nil_iff_forall_not_mem.mpr
          intro f hf
          have hl := ((hfmem f).mp hf).2
          rcases hl with h | h
          · apply hanc
            simp only [List.any_eq_true, decide_eq_true_eq]
            exact ⟨f, hf, (mem_anc_single L d f).mpr h⟩
          · apply hdesc
            simp only [List.any_eq_true, decide_eq_true_eq]
            exact ⟨f, hf, (mem_desc_single L d f).mpr h⟩
        obtain ⟨R', hok, hs⟩ := ins_ok hR.1 hdR
        have hst : stepStmts m R (.stamp [] [d] true true) = .ok [.ins d] := by
          unfold stepStmts; simp [hdR]
        have hstep : updateToStep m R (.stamp [] [d] true true) = .ok (R', [.ins d]) := by
          unfold updateToStep; rw [hst]; simp only; rw [hok]
        refine ⟨[.stamp [] [d] true true], [R'], ?_, runSteps_single m R R' _ _ hstep, ?_⟩
        · rw [hnil]; simp [stampDest, pure, Except.pure]
        · simp only [List.getLastD_cons, List.getLastD_nil]
          refine ⟨hs.nodup, ?_⟩
          intro x; rw [hs.iff x]
          constructor
          · rintro (h | h)
            · left; refine ⟨h, fun hl => ?_⟩
              have := (hfmem x).mpr ⟨h, hl⟩; rw [hnil] at this; simp at this
            · exact Or.inr h
          · rintro (⟨h, _⟩ | h)
            · exact Or.inl h
            · exact Or.inr h

/-- **C05, one destination.** From rows that form an antichain, stamping a revision `d` of the
history replaces every row in `d`'s lineage by `d` and leaves every other row untouched; every
statement hits exactly one row; the result is an antichain again. -/
theorem single {m : LMap} (L : Loaded m) (R : List Id) (hR : Antichain m R) (d : Id) :
    ∃ steps tr, stampDest m (R.filter (fun x => sharesLineage m x [d] true)) (some d) = .ok steps ∧
      runSteps m R steps = .ok tr ∧
      RowSet (tr.getLastD R) (fun x => (x ∈ R ∧ ¬ Lineage m d x) ∨ x = d) ∧
      Antichain m (tr.getLastD R) :=
  single_gen L R hR d _ (List.Pairwise.filter _ hR.1)
    (fun x => by rw [List.mem_filter, sharesLineage_iff L])

/-- **Stamping `base`** deletes every selected head (for plain `base` all rows are selected):
each statement hits one row and the table ends without them. -/
theorem base {m : LMap} (R : List Id) (hn : R.Nodup) :
    ∃ steps tr, stampDest m R none = .ok steps ∧ runSteps m R steps = .ok tr ∧ tr.getLastD R = [] := by
  -- generalised: deleting a duplicate-free sub-list `fs` of the rows one by one
  have key : ∀ (fs R : List Id), R.Nodup → fs.Nodup → (∀ f ∈ fs, f ∈ R) →
      ∃ tr, runSteps m R (fs.map (fun h => Step.stamp [h] [] false true)) = .ok tr ∧
        RowSet (tr.getLastD R) (fun x => x ∈ R ∧ x ∉ fs) := by
    intro fs
    induction fs with
    | nil => intro R hn _ _; exact ⟨[], by simp [runSteps], hn, by intro x; simp⟩
    | cons f rest ih =>
      intro R hn hf hs
      have hf' := List.nodup_cons.mp hf
      obtain ⟨R1, h1, s1⟩ := del_ok hn (hs f List.mem_cons_self)
      have hst : stepStmts m R (.stamp [f] [] false true) = .ok [.del f] := by
        unfold stepStmts; simp
      have hstep : updateToStep m R (.stamp [f] [] false true) = .ok (R1, [.del f]) := by
        unfold updateToStep; rw [hst]; simp only; rw [h1]
      obtain ⟨tr, htr, hs2⟩ := ih R1 s1.nodup hf'.2 (fun g hg =>
        (s1.iff g).mpr ⟨hs g (List.mem_cons_of_mem _ hg), fun e => hf'.1 (e ▸ hg)⟩)
      refine ⟨R1 :: tr, by simp [runSteps, hstep, htr], ?_⟩
      have hlast : (R1 :: tr).getLastD R = tr.getLastD R1 := by
        cases tr <;> simp [List.getLastD]
      rw [hlast]
      refine ⟨hs2.nodup, ?_⟩
      intro x; rw [hs2.iff x, s1.iff x]
      simp only [List.mem_cons, not_or]
      constructor
      · rintro ⟨⟨h1, h2⟩, h3⟩; exact ⟨h1, h2, h3⟩
      · rintro ⟨h1, h2, h3⟩; exact ⟨⟨h1, h2⟩, h3⟩
  obtain ⟨tr, htr, hs⟩ := key R R hn hn (fun f hf => hf)
  refine ⟨_, tr, by simp [stampDest, pure, Except.pure], htr, ?_⟩
  apply List.eq_nil_iff_forall_not_mem.mpr
  intro x hx
  exact ((hs.iff x).mp hx).2 ((hs.iff x).mp hx).1

/-! ### several destinations (`stamp a b`, `stamp heads`): the loop of `_stamp_revs` -/

theorem runSteps_append (m : LMap) : ∀ (s1 s2 : List Step) (R : List Id) (t1 t2 : List (List Id)),
    runSteps m R s1 = .ok t1 → runSteps m (t1.getLastD R) s2 = .ok t2 →
    runSteps m R (s1 ++ s2) = .ok (t1 ++ t2) := by
  intro s1
  induction s1 with
  | nil =>
    intro s2 R t1 t2 h1 h2
    simp only [runSteps, Except.ok.injEq] at h1
    subst h1
    simpa using h2
  | cons s rest ih =>
    intro s2 R t1 t2 h1 h2
    simp only [runSteps] at h1
    cases hu : updateToStep m R s with
    | error e => simp [hu] at h1
    | ok pr =>
      obtain ⟨R', st⟩ := pr
      simp only [hu] at h1
      cases hr : runSteps m R' rest with
      | error e => simp [hr] at h1
      | ok tr =>
        simp only [hr, Except.ok.injEq] at h1
        subst h1
        have hl : (R' :: tr).getLastD R = tr.getLastD R' := by cases tr <;> simp [List.getLastD]
        rw [hl] at h2
        simp only [List.cons_append, runSteps, hu, ih s2 R' tr t2 hr h2]

theorem getLastD_append' (t1 t2 : List (List Id)) (R : List Id) :
    (t1 ++ t2).getLastD R = t2.getLastD (t1.getLastD R) := by
  cases t2 with
  | nil => simp
  | cons a r => simp [List.getLastD_cons, List.getLast?_append]

/-- `filter_for_lineage(targets, d)` for a full revision id `d` -/
theorem filterForLineage_plain (m : LMap) (l : List Id) (d : Id) (hd : d ∈ m.ids) (hp : C16.Plain d) (b : Bool) :
    filterForLineage m l d b = .ok (l.filter (fun t => sharesLineage m t [d] b)) := by
  apply C16.filterForLineage_of_shares
  unfold resolveFuel resolveShares
  simp [C16.resolveNumber_plain m 10 d hp, revisionForIdent_id m 10 d hd, bind, Except.bind, pure, Except.pure]

/-- the destinations are pairwise outside each other's lineage (as the heads of a history are) -/
def Unrelated (m : LMap) (ds : List Id) : Prop :=
  ds.Nodup ∧ ∀ d ∈ ds, ∀ d' ∈ ds, d ≠ d' → ¬ Lineage m d d'

/-- **C05, several destinations.** `rem` is the list of heads still to be claimed (a
duplicate-free sub-list of the rows containing every row in the lineage of a destination).
From an antichain, stamping pairwise unrelated revisions `ds` one after the other replaces the
rows in the lineage of some destination by the destinations, leaves every other row untouched,
never fails on a statement, and ends in an antichain. -/
theorem several {m : LMap} (L : Loaded m) : ∀ (ds R rem : List Id), Antichain m R → Unrelated m ds →
    (∀ d ∈ ds, d ∈ m.ids ∧ C16.Plain d) → rem.Nodup → (∀ x ∈ rem, x ∈ R) →
    (∀ d ∈ ds, ∀ x ∈ R, Lineage m d x → x ∈ rem) →
    ∃ steps tr, stampLoop m rem (ds.map some) = .ok steps ∧ runSteps m R steps = .ok tr ∧
      RowSet (tr.getLastD R) (fun x => (x ∈ R ∧ ∀ d ∈ ds, ¬ Lineage m d x) ∨ x ∈ ds) ∧
      Antichain m (tr.getLastD R) := by
  intro ds
  induction ds with
  | nil =>
    intro R rem hR _ _ _ _ _
    refine ⟨[], [], by simp [stampLoop, pure, Except.pure], by simp [runSteps], ⟨hR.1, ?_⟩, hR⟩
    intro x; simp
  | cons d ds ih =>
    intro R rem hR hU hds hrn hrs hrl
    have hdU := List.nodup_cons.mp hU.1
    obtain ⟨hdm, hdp⟩ := hds d List.mem_cons_self
    -- the heads this destination claims
    have hfmem : ∀ x, x ∈ rem.filter (fun t => sharesLineage m t [d] true) ↔ x ∈ R ∧ Lineage m d x := by
      intro x; rw [List.mem_filter, sharesLineage_iff L]
      exact ⟨fun ⟨h1, h2⟩ => ⟨hrs x h1, h2⟩, fun ⟨h1, h2⟩ => ⟨hrl d List.mem_cons_self x h1 h2, h2⟩⟩
    obtain ⟨s1, t1, hs1, hr1, hrow1, hanti1⟩ :=
      single_gen L R hR d (rem.filter (fun t => sharesLineage m t [d] true)) (List.Pairwise.filter _ hrn) hfmem
    have hU' : Unrelated m ds :=
      ⟨hdU.2, fun a ha b hb => hU.2 a (List.mem_cons_of_mem _ ha) b (List.mem_cons_of_mem _ hb)⟩
    have hnot : ∀ d' ∈ ds, ¬ Lineage m d' d := by
      intro d' hd' hl
      exact hU.2 d' (List.mem_cons_of_mem _ hd') d List.mem_cons_self (fun e => hdU.1 (e ▸ hd')) hl
    obtain ⟨s2, t2, hs2, hr2, hrow2, hanti2⟩ := ih (t1.getLastD R)
      (rem.filter (fun x => decide (x ∉ rem.filter (fun t => sharesLineage m t [d] true)))) hanti1 hU'
      (fun d' hd' => hds d' (List.mem_cons_of_mem _ hd')) (List.Pairwise.filter _ hrn)
      (by
        intro x hx
        obtain ⟨hx1, hx2⟩ := List.mem_filter.mp hx
        simp only [decide_eq_true_eq] at hx2
        exact (hrow1.iff x).mpr (Or.inl ⟨hrs x hx1, fun hl => hx2 ((hfmem x).mpr ⟨hrs x hx1, hl⟩)⟩))
      (by
        intro d' hd' x hx hl
        rcases (hrow1.iff x).mp hx with ⟨hxR, hxl⟩ | hxd
        · refine List.mem_filter.mpr ⟨hrl d' (List.mem_cons_of_mem _ hd') x hxR hl, ?_⟩
          simp only [decide_eq_true_eq]
          exact fun hf => hxl ((hfmem x).mp hf).2
        · subst hxd; exact absurd hl (hnot d' hd'))
    refine ⟨s1 ++ s2, t1 ++ t2, ?_, runSteps_append m s1 s2 R t1 t2 hr1 hr2, ?_, ?_⟩
    · simp only [List.map_cons, stampLoop, filterForLineage_plain m rem d hdm hdp true, bind, Except.bind, pure,
        Except.pure, hs1, hs2]
    · rw [getLastD_append']
      refine ⟨hrow2.nodup, ?_⟩
      intro x; rw [hrow2.iff x, hrow1.iff x]
      constructor
      · rintro (⟨⟨hxR, hxl⟩ | hxd, hall⟩ | hxds)
        · left; refine ⟨hxR, ?_⟩
          intro d' hd'
          rcases List.mem_cons.mp hd' with e | h
          · subst e; exact hxl
          · exact hall d' h
        · right; rw [hxd]; exact List.mem_cons_self
        · right; exact List.mem_cons_of_mem _ hxds
      · rintro (⟨hxR, hall⟩ | hxds)
        · left; exact ⟨Or.inl ⟨hxR, hall d List.mem_cons_self⟩, fun d' hd' => hall d' (List.mem_cons_of_mem _ hd')⟩
        · rcases List.mem_cons.mp hxds with e | h
          · left; subst e; exact ⟨Or.inr rfl, hnot⟩
          · right; exact h
    · rw [getLastD_append']; exact hanti2

/-! ### end to end: `command.stamp` (`_stamp_revs` then the version-table bookkeeping) -/

/-- every identifier in the list is the full id of a revision (and not a symbolic name) -/
def FullIds (m : LMap) (l : List Id) : Prop := ∀ i ∈ l, i ∈ m.ids ∧ C16.Plain i ∧ i ≠ ""

theorem dedupe_of_nodup : ∀ (l : List String), l.Nodup → dedupe l = l
  | [], _ => rfl
  | x :: r, h => by
    have h' := List.nodup_cons.mp h
    simp only [dedupe, dedupe_of_nodup r h'.2]
    congr 1
    apply List.filter_eq_self.mpr
    intro a ha
    simp only [bne_iff_ne, ne_eq]
    exact fun e => h'.1 (e ▸ ha)

theorem mapM_getRevisions_full (m : LMap) : ∀ (l : List Id), FullIds m l →
    l.mapM (getRevisions m) = .ok (l.map (fun i => [some i]))
  | [], _ => rfl
  | a :: r, h => by
    have ha := h a List.mem_cons_self
    simp only [List.mapM_cons, bind, Except.bind, pure, Except.pure, (C16.full_id m a ha.1 ha.2.1).1,
      mapM_getRevisions_full m r (fun i hi => h i (List.mem_cons_of_mem _ hi)), List.map_cons]

theorem flatten_singletons {α} : ∀ (l : List α), (l.map (fun i => [some i])).flatten = l.map some
  | [] => rfl
  | a :: r => by simp [flatten_singletons r]

theorem getRevisionsMany_full (m : LMap) (l : List Id) (h : FullIds m l) :
    getRevisionsMany m l = .ok (l.map some) := by
  unfold getRevisionsMany
  simp only [mapM_getRevisions_full m l h, bind, Except.bind, pure, Except.pure, flatten_singletons]

theorem filterMap_id_map_some {α} : ∀ (l : List α), (l.map some).filterMap id = l
  | [] => rfl
  | a :: r => by simp [filterMap_id_map_some r]

theorem mapM_filter_full (m : LMap) (R : List Id) : ∀ (ds : List Id), FullIds m ds →
    ds.mapM (fun t => if t.isEmpty = true then (Except.ok [] : Except Err (List Id)) else filterForLineage m R t true) =
      .ok (ds.map (fun d => R.filter (fun t => sharesLineage m t [d] true)))
  | [], _ => rfl
  | d :: r, h => by
    obtain ⟨h1, h2, h3⟩ := h d List.mem_cons_self
    have he : d.isEmpty = false := by
      cases hb : d.isEmpty with
      | false => rfl
      | true => exact absurd (String.isEmpty_iff.mp hb) h3
    have ih := mapM_filter_full m R r (fun i hi => h i (List.mem_cons_of_mem _ hi))
    simp only [List.mapM_cons, he, Bool.false_eq_true, if_false, filterForLineage_plain m R d h1 h2 true, bind,
      Except.bind, pure, Except.pure, List.map_cons, ih]

/-- `_stamp_revs` for destinations given as full revision ids -/
theorem stampRevs_ids (m : LMap) (ds R : List Id) (hne : ds ≠ []) (hds : FullIds m ds) (hR : FullIds m R) :
    stampRevs m ds R = stampLoop m
      (dedupe (ds.map (fun d => R.filter (fun t => sharesLineage m t [d] true))).flatten) (ds.map some) := by
  unfold stampRevs
  have he : ds.isEmpty = false := by cases ds <;> simp_all
  have he' : (ds.map some).isEmpty = false := by cases ds <;> simp_all
  simp only [getRevisionsMany_full m R hR, getRevisionsMany_full m ds hds, bind, Except.bind, filterMap_id_map_some,
    he, he', Bool.false_eq_true, if_false, pure, Except.pure]
  rw [mapM_filter_full m R ds hds]

/-- **`stamp d1 d2 …`, the command** (one or several revision ids, pairwise unrelated): from an
antichain of rows the version table ends with exactly `(rows \ lineage(ds)) ∪ ds`, an
antichain, and no statement fails. -/
theorem stamp_several {m : LMap} (L : Loaded m) (R : List Id) (hR : Antichain m R) (hRf : FullIds m R)
    (ds : List Id) (hne : ds ≠ []) (hds : FullIds m ds) (hU : Unrelated m ds) :
    ∃ R', stamp m ds R = .ok R' ∧
      RowSet R' (fun x => (x ∈ R ∧ ∀ d ∈ ds, ¬ Lineage m d x) ∨ x ∈ ds) ∧ Antichain m R' := by
  have hmem : ∀ x, x ∈ dedupe (ds.map (fun d => R.filter (fun t => sharesLineage m t [d] true))).flatten ↔
      x ∈ R ∧ ∃ d ∈ ds, Lineage m d x := by
    intro x
    rw [mem_dedupe, List.mem_flatten]
    constructor
    · rintro ⟨l, hl, hx⟩
      obtain ⟨d, hd, rfl⟩ := List.mem_map.mp hl
      rw [List.mem_filter, sharesLineage_iff L] at hx
      exact ⟨hx.1, d, hd, hx.2⟩
    · rintro ⟨hx, d, hd, hl⟩
      exact ⟨_, List.mem_map.mpr ⟨d, hd, rfl⟩, List.mem_filter.mpr ⟨hx, (sharesLineage_iff L d x).mpr hl⟩⟩
  obtain ⟨steps, tr, h1, h2, h3, h4⟩ := several L ds R _ hR hU (fun d hd => ⟨(hds d hd).1, (hds d hd).2.1⟩)
    (dedupe_nodup _) (fun x hx => ((hmem x).mp hx).1) (fun d hd x hx hl => (hmem x).mpr ⟨hx, d, hd, hl⟩)
  refine ⟨tr.getLastD R, ?_, h3, h4⟩
  unfold stamp
  rw [stampRevs_ids m ds R hne hds hRf]
  simp [h1, h2, bind, Except.bind, pure, Except.pure]

/-- **`stamp d`, the command.** From an antichain of rows, `stamp d` for a revision id `d` ends
with exactly `(rows \ lineage(d)) ∪ {d}`, an antichain. -/
theorem stamp_one {m : LMap} (L : Loaded m) (R : List Id) (hR : Antichain m R) (hRf : FullIds m R)
    (d : Id) (hd : FullIds m [d]) :
    ∃ R', stamp m [d] R = .ok R' ∧ RowSet R' (fun x => (x ∈ R ∧ ¬ Lineage m d x) ∨ x = d) ∧ Antichain m R' := by
  obtain ⟨R', h1, h2, h3⟩ := stamp_several L R hR hRf [d] (by simp) hd ⟨by simp, by simp⟩
  refine ⟨R', h1, ⟨h2.nodup, ?_⟩, h3⟩
  intro x; rw [h2.iff x]; simp

theorem filterForLineage_base (m : LMap) (l : List Id) (b : Bool) : filterForLineage m l "base" b = .ok l := by
  have hs : resolveShares m resolveFuel "base" = .ok [] := by
    unfold resolveFuel resolveShares resolveRevisionNumber
    simp [splitFirstAt_noat "base" (by decide), bind, Except.bind, pure, Except.pure]
  rw [C16.filterForLineage_of_shares m l "base" b [] hs]
  simp [sharesLineage]

/-- **`stamp base`, the command**: the version table ends empty. -/
theorem stamp_base (m : LMap) (R : List Id) (hn : R.Nodup) (hRf : FullIds m R) :
    stamp m ["base"] R = .ok [] := by
  obtain ⟨steps, tr, h1, h2, h3⟩ := base (m := m) R hn
  unfold stamp stampRevs
  have hb : getRevisionsMany m ["base"] = .ok [] := by
    unfold getRevisionsMany
    simp [C16.symbolic_base m, bind, Except.bind, pure, Except.pure]
  simp [getRevisionsMany_full m R hRf, hb, filterForLineage_base, dedupe_of_nodup R hn,
    stampLoop, h1, h2, bind, Except.bind, pure, Except.pure]
  simpa using h3

theorem mapM_revisionForIdent_ids (m : LMap) (n : Nat) : ∀ (l : List Id), (∀ x ∈ l, x ∈ m.ids) →
    l.mapM (fun i => revisionForIdent m (n + 1) i none) = .ok (l.map some)
  | [], _ => rfl
  | a :: r, h => by
    simp only [List.mapM_cons, bind, Except.bind, pure, Except.pure, revisionForIdent_id m n a (h a List.mem_cons_self),
      mapM_revisionForIdent_ids m n r (fun x hx => h x (List.mem_cons_of_mem _ hx)), List.map_cons]

theorem resolveShares_heads (m : LMap) (hsub : ∀ x ∈ m.realHeads, x ∈ m.ids) :
    resolveShares m 12 "heads" = .ok m.realHeads := by
  unfold resolveShares resolveRevisionNumber
  simp only [splitFirstAt_noat "heads" (by decide), bind, Except.bind, pure, Except.pure, beq_self_eq_true, if_true,
    List.nil_append, mapM_revisionForIdent_ids m 10 m.realHeads hsub, filterMap_id_map_some]

/-- every row lies below a head, so `filter_for_lineage(rows, "heads")` keeps every row -/
theorem filterForLineage_heads {m : LMap} (L : Loaded m)
    (hrh : ∀ x, x ∈ m.realHeads ↔ x ∈ m.ids ∧ ∀ c ∈ m.ids, x ∉ m.allDownOf c)
    (R : List Id) (hR : ∀ x ∈ R, x ∈ m.ids) : filterForLineage m R "heads" true = .ok R := by
  rw [C16.filterForLineage_of_shares m R "heads" true m.realHeads
    (by unfold resolveFuel; exact resolveShares_heads m (fun x hx => ((hrh x).mp hx).1))]
  simp only [Except.ok.injEq]
  apply List.filter_eq_self.mpr
  intro x hx
  obtain ⟨hh, hmax, hreach⟩ := exists_max_above L m.ids x (hR x hx)
  have hhm : hh ∈ m.realHeads := (hrh hh).mpr hmax
  unfold sharesLineage
  have hne : m.realHeads.isEmpty = false := by cases hq : m.realHeads <;> simp_all
  simp only [hne, Bool.false_eq_true, if_false, if_true, List.any_eq_true, Bool.or_eq_true, decide_eq_true_eq]
  exact ⟨hh, hhm, Or.inl ((mem_desc_single L x hh).mpr hreach)⟩

/-- **`stamp heads`, the command**: from any antichain of rows the version table ends holding
exactly the heads of the history. -/
theorem stamp_heads {h : Hist} {o : LoadOpts} {m : LMap} (hl : load h o = .ok m)
    (hu : (h.map (·.id)).Nodup) (hd : ∀ r ∈ h, ∀ d ∈ r.down, d ∈ h.map (·.id))
    (hplain : FullIds m m.ids) (R : List Id) (hR : Antichain m R) (hsub : ∀ x ∈ R, x ∈ m.ids) :
    ∃ R', stamp m ["heads"] R = .ok R' ∧ RowSet R' (fun x => x ∈ m.realHeads) ∧ Antichain m R' := by
  have L := loaded_of_load hl hu hd
  have hrh := (C15.heads_bases hl hu hd).2.1
  have hRf : FullIds m R := fun i hi => hplain i (hsub i hi)
  have hHn : m.realHeads.Nodup := by rw [(load_heads hl).2.1]; exact List.Pairwise.filter _ L.ids_nodup
  have hHf : FullIds m m.realHeads := fun i hi => hplain i ((hrh i).mp hi).1
  have hcover : ∀ x ∈ R, ∃ hh ∈ m.realHeads, Lineage m hh x := by
    intro x hx
    obtain ⟨hh, hmax, hreach⟩ := exists_max_above L m.ids x (hsub x hx)
    exact ⟨hh, (hrh hh).mpr hmax, Or.inl hreach⟩
  have hUn : Unrelated m m.realHeads := by
    refine ⟨hHn, ?_⟩
    -- a head is nobody's prerequisite, so no other revision reaches down to it
    have key : ∀ a ∈ m.realHeads, ∀ b ∈ m.realHeads, a ≠ b → ¬ Reach m.allDownOf a b := by
      intro a ha b hb hne hr
      obtain ⟨c, hac, hbc⟩ := reach_last_edge hr hne
      have hcm : c ∈ m.ids := closedA_reach (A := m.ids) (fun x _ p hp => L.refs_closed x p hp) ((hrh a).mp ha).1 hac
      exact ((hrh b).mp hb).2 c hcm hbc
    intro a ha b hb hne
    rintro (hl' | hl')
    · exact key a ha b hb hne hl'
    · exact key b hb a ha (Ne.symm hne) hl'
  have hrevs : stampRevs m ["heads"] R = stampLoop m R
      (if (m.realHeads.map some).isEmpty then [none] else m.realHeads.map some) := by
    unfold stampRevs
    have hg : getRevisionsMany m ["heads"] = .ok (m.realHeads.map some) := by
      unfold getRevisionsMany
      simp [C16.symbolic_heads hl, bind, Except.bind, pure, Except.pure]
    have he : ("heads" : String).isEmpty = false := by decide
    simp only [getRevisionsMany_full m R hRf, hg, bind, Except.bind, filterMap_id_map_some, List.isEmpty_cons,
      Bool.false_eq_true, if_false, List.mapM_cons, List.mapM_nil, he, filterForLineage_heads L hrh R hsub, pure,
      Except.pure, List.flatten_cons, List.flatten_nil, List.append_nil, dedupe_of_nodup R hR.1]
  unfold stamp
  rw [hrevs]
  by_cases hq : m.realHeads = []
  · have hRe : R = [] := by
      apply List.eq_nil_iff_forall_not_mem.mpr
      intro x hx; obtain ⟨hh, hm, _⟩ := hcover x hx; rw [hq] at hm; simp at hm
    subst hRe
    rw [hq]
    refine ⟨[], by simp [stampLoop, stampDest, runSteps, bind, Except.bind, pure, Except.pure], ⟨List.nodup_nil, by simp⟩, hR⟩
  · obtain ⟨steps, tr, h1, h2, h3, h4⟩ := several L m.realHeads R R hR hUn
      (fun d hd => ⟨(hHf d hd).1, (hHf d hd).2.1⟩) hR.1 (fun x hx => hx) (fun _ _ x hx _ => hx)
    have hne : (m.realHeads.map some).isEmpty = false := by cases hc : m.realHeads <;> simp_all
    refine ⟨tr.getLastD R, by simp [hne, h1, h2, bind, Except.bind, pure, Except.pure], ⟨h3.nodup, ?_⟩, h4⟩
    intro x; rw [h3.iff x]
    constructor
    · rintro (⟨hxR, hn⟩ | hx)
      · obtain ⟨h', hm, hl'⟩ := hcover x hxR
        exact absurd hl' (hn h' hm)
      · exact hx
    · exact Or.inr

/-- **`stamp heads` in the words of the property**: the version table ends holding, each once,
exactly the revisions of the history that no revision file names as a prerequisite. -/
theorem stamp_heads_history {h : Hist} {o : LoadOpts} {m : LMap} (hl : load h o = .ok m)
    (hu : (h.map (·.id)).Nodup) (hd : ∀ r ∈ h, ∀ d ∈ r.down, d ∈ h.map (·.id))
    (hplain : FullIds m m.ids) (R : List Id) (hR : Antichain m R) (hsub : ∀ x ∈ R, x ∈ m.ids) :
    ∃ R', stamp m ["heads"] R = .ok R' ∧ R'.Nodup ∧ ∀ x, x ∈ R' ↔ x ∈ realHeadsOf h := by
  obtain ⟨R', h1, h2, _⟩ := stamp_heads hl hu hd hplain R hR hsub
  refine ⟨R', h1, h2.nodup, ?_⟩
  intro x
  rw [h2.iff x]
  exact (C15.heads_bases_history hl hu hd).2.1 x

/-! ### lineage in terms of the history as written -/

/-- "shares a lineage with `d`" in the loaded map is "ancestor or descendant of `d` through the
down-revision and depends-on links written in the files" — the relation the oracle `stampOk` and
the property text use.  With it `stamp_one` / `stamp_several` / `stamp_heads` read
`rows' = (rows \ lineage(dests)) ∪ dests` over the history as written. -/
theorem lineage_history {h : Hist} {o : LoadOpts} {m : LMap} (hl : load h o = .ok m)
    (hu : (h.map (·.id)).Nodup) (d x : Id) :
    Lineage m d x ↔ (IsAnc h [d] x ∨ IsDesc h [d] x) := by
  unfold Lineage IsAnc IsDesc
  simp only [List.mem_singleton, exists_eq_left]
  rw [reach_allDown_iff_parents hl hu d x, reach_allDown_iff_parents hl hu x d, C02.reach_children_iff h d x]

/-! ### the oracle `Spec.Rev.stampOk`, evaluated on the implementation's rows, decides the statement -/

/-- **What a `true` verdict of the stamp oracle means** (for at least one destination): the rows
after the command are duplicate-free and are exactly the old rows outside every destination's
lineage (ancestors and descendants through down-revisions and dependencies, as written in the
history) plus the destinations. -/
theorem stampOk_sound (h : Hist) (hd : ∀ c ∈ ids h, ∀ p ∈ parents h c, p ∈ ids h)
    (rows dests rows' : List Id) (hne : dests ≠ []) (hok : stampOk h rows dests rows' = true) :
    rows'.Nodup ∧ ∀ x, x ∈ rows' ↔
      (x ∈ rows ∧ ∀ d ∈ dests, ¬ (IsAnc h [d] x ∨ IsDesc h [d] x)) ∨ x ∈ dests := by
  unfold stampOk at hok
  have he : dests.isEmpty = false := by cases dests <;> simp_all
  simp only [he, Bool.false_eq_true, if_false, Bool.and_eq_true] at hok
  obtain ⟨⟨h1, h2⟩, _⟩ := hok
  refine ⟨(nodupB_iff _).mp h1, ?_⟩
  have hlin : ∀ d x, lineage h d x = true ↔ (IsAnc h [d] x ∨ IsDesc h [d] x) := by
    intro d x
    unfold lineage
    rw [Bool.or_eq_true, decide_eq_true_eq, decide_eq_true_eq, Lemmas.Rev.mem_ancSet_iff, mem_descSet_iff h hd]
  have hkeep : ∀ x, x ∈ rows.filter (fun x => !(dests.any (fun d => lineage h d x))) ↔
      x ∈ rows ∧ ∀ d ∈ dests, ¬ (IsAnc h [d] x ∨ IsDesc h [d] x) := by
    intro x
    rw [List.mem_filter]
    simp only [Bool.not_eq_true', List.any_eq_false]
    constructor
    · rintro ⟨hx, hall⟩; exact ⟨hx, fun d hdm hl => hall d hdm ((hlin d x).mpr hl)⟩
    · rintro ⟨hx, hall⟩; exact ⟨hx, fun d hdm hl => hall d hdm ((hlin d x).mp hl)⟩
  unfold sameSet at h2
  simp only [Bool.and_eq_true, List.all_eq_true, decide_eq_true_eq] at h2
  intro x
  constructor
  · intro hx
    rcases List.mem_append.mp (h2.1 x hx) with hk | hdm
    · exact Or.inl ((hkeep x).mp hk)
    · exact Or.inr (List.mem_filter.mp hdm).1
  · rintro (hk | hdm)
    · exact h2.2 x (List.mem_append_left _ ((hkeep x).mpr hk))
    · by_cases hin : x ∈ rows.filter (fun x => !(dests.any (fun d => lineage h d x)))
      · exact h2.2 x (List.mem_append_left _ hin)
      · exact h2.2 x (List.mem_append_right _ (List.mem_filter.mpr ⟨hdm, by simp only [decide_eq_true_eq]; exact hin⟩))

/-! ### non-vacuity: the history of the repaired defect F4 (`a, b; c <- a`, rows `{a, b}`) -/

def f4 : Hist := [⟨"a", [], [], []⟩, ⟨"b", [], [], []⟩, ⟨"c", ["a"], [], []⟩]

def rowsAre (r : Except Err (List Id)) (l : List Id) : Bool := match r with | .ok x => x == l | .error _ => false

example : rowsAre ((load f4).bind (fun m => stamp m ["heads"] ["a", "b"])) ["b", "c"] = true := by decide +kernel
example : rowsAre ((load f4).bind (fun m => stamp m ["c"] ["a", "b"])) ["b", "c"] = true := by decide +kernel
example : rowsAre ((load f4).bind (fun m => stamp m ["base"] ["c", "b"])) [] = true := by decide +kernel


/-! ### `stamp <branch>@head` -/
section
open C16

/-- `_resolve_revision_number("<branch>@head")`: the heads sharing the branch's lineage -/
theorem resolveNumber_branch_head (m : LMap) (n : Nat) (hsub : ∀ x ∈ m.heads, x ∈ m.ids) (L : String) (br : Id)
    (hb : BranchName m L br) :
    resolveRevisionNumber m (n + 6) (L ++ "@head") =
      match m.heads.filter (fun t => sharesLineage m t [br] false) with
      | [] => .ok ([], some L)
      | [x] => .ok ([x], some L)
      | _ => .error .multipleHeads := by
  have hb' := hb
  obtain ⟨hat, hne, h1, h2, h3, hlk⟩ := hb
  have hLe : L.isEmpty = false := by
    cases hq : L.isEmpty
    · rfl
    · exact absurd (String.isEmpty_iff.mp hq) hne
  have e : L ++ "@head" = L ++ "@" ++ "head" := by simp [String.append_assoc]
  have hsplit := splitFirstAt_at L "head" hat
  have hfk := filterKeys_name m n L br hb' m.heads hsub
  rw [e]
  unfold resolveRevisionNumber currentHead
  simp only [hsplit, hLe, hfk, bind, Except.bind, pure, Except.pure]
  cases hf : m.heads.filter (fun t => sharesLineage m t [br] false) with
  | nil => simp
  | cons x rest =>
    cases rest with
    | nil => simp
    | cons y r => simp [throw, throwThe, MonadExceptOf.throw]

theorem resolveShares_branch_head (m : LMap) (hsub : ∀ x ∈ m.heads, x ∈ m.ids) (L : String) (br x : Id)
    (hb : BranchName m L br) (hx : m.heads.filter (fun t => sharesLineage m t [br] false) = [x]) :
    resolveShares m 12 (L ++ "@head") = .ok [br, x] := by
  have hxh : x ∈ m.heads := by
    have : x ∈ m.heads.filter (fun t => sharesLineage m t [br] false) := by rw [hx]; exact List.mem_cons_self
    exact (List.mem_filter.mp this).1
  have hne : L.isEmpty = false := by
    cases hq : L.isEmpty
    · rfl
    · exact absurd (String.isEmpty_iff.mp hq) hb.2.1
  unfold resolveShares
  rw [resolveNumber_branch_head m 5 hsub L br hb, hx]
  simp only [bind, Except.bind, pure, Except.pure, hne, Bool.false_eq_true, if_false, List.cons_append, List.nil_append,
    List.mapM_cons, List.mapM_nil, revisionForIdent_id m 10 x (hsub x hxh)]
  have hL : revisionForIdent m 11 L none = .ok (some br) := by
    unfold revisionForIdent
    simp [hb.2.2.2.2.2, bind, Except.bind, pure, Except.pure]
  simp [hL, bind, Except.bind, pure, Except.pure]

theorem getRevisions_branch_head (m : LMap) (hsub : ∀ x ∈ m.heads, x ∈ m.ids) (hleg : ∀ i ∈ m.ids, negInt? i = none)
    (L : String) (br x : Id)
    (hb : BranchName m L br) (hx : m.heads.filter (fun t => sharesLineage m t [br] false) = [x]) :
    getRevisions m (L ++ "@head") = .ok [some x] := by
  have hxm : x ∈ m.heads.filter (fun t => sharesLineage m t [br] false) := by rw [hx]; exact List.mem_cons_self
  obtain ⟨hxh, hxs⟩ := List.mem_filter.mp hxm
  have hne : L.isEmpty = false := by
    cases hq : L.isEmpty
    · rfl
    · exact absurd (String.isEmpty_iff.mp hq) hb.2.1
  unfold getRevisions resolveFuel
  rw [resolveNumber_branch_head m 6 hsub L br hb, hx]
  have hrb : resolveBranch m 11 L = .ok (some br) := by unfold resolveBranch; simp [hb.2.2.2.2.2]
  have hrev : revisionForIdent m 12 x (some L) = .ok (some x) := by
    unfold revisionForIdent
    simp [hne, hrb, lookup_id m x (hsub x hxh), hxs, bind, Except.bind, pure, Except.pure]
  simp [bind, Except.bind, pure, Except.pure, hleg x (hsub x hxh), hrev]

/-- **`stamp <branch>@head`, the command**: when `<branch>` (a branch label, or a full revision
id) has exactly one head `x` in its `down_revision` lineage, `stamp <branch>@head` from an
antichain of rows ends exactly where `stamp x` ends: `(rows \ lineage(x)) ∪ {x}`, an antichain,
and no statement fails — although the first filter of `_stamp_revs` also picks up the rows that
share a lineage only with the revision *carrying* the label (the repaired F15). -/
theorem stamp_branch_head {m : LMap} (L : Loaded m) (hsub : ∀ x ∈ m.heads, x ∈ m.ids)
    (hleg : ∀ i ∈ m.ids, negInt? i = none)
    (R : List Id) (hR : Antichain m R) (hRf : FullIds m R)
    (B : String) (br x : Id) (hb : BranchName m B br) (hpx : C16.Plain x)
    (hx : m.heads.filter (fun t => sharesLineage m t [br] false) = [x]) :
    ∃ R', stamp m [B ++ "@head"] R = .ok R' ∧ RowSet R' (fun y => (y ∈ R ∧ ¬ Lineage m x y) ∨ y = x) ∧ Antichain m R' := by
  have hxh : x ∈ m.heads := by
    have : x ∈ m.heads.filter (fun t => sharesLineage m t [br] false) := by rw [hx]; exact List.mem_cons_self
    exact (List.mem_filter.mp this).1
  have hxi := hsub x hxh
  let rem := dedupe (R.filter (fun t => sharesLineage m t [br, x] true))
  have hmemrem : ∀ y, y ∈ rem ↔ y ∈ R ∧ sharesLineage m y [br, x] true = true := by
    intro y; simp [rem, mem_dedupe, List.mem_filter]
  obtain ⟨steps, tr, h1, h2, h3, h4⟩ := several L [x] R rem hR ⟨by simp, by simp⟩
    (by intro d hd; simp at hd; subst hd; exact ⟨hxi, hpx⟩)
    (dedupe_nodup _) (fun y hy => ((hmemrem y).mp hy).1)
    (by
      intro d hd y hy hl
      simp at hd; subst hd
      refine (hmemrem y).mpr ⟨hy, ?_⟩
      have := (sharesLineage_iff L d y).mpr hl
      unfold sharesLineage at this ⊢
      simp only [List.isEmpty_cons, Bool.false_eq_true, if_false, if_true, List.any_cons, List.any_nil, Bool.or_false] at this ⊢
      simp [this])
  refine ⟨tr.getLastD R, ?_, ⟨h3.nodup, ?_⟩, h4⟩
  · unfold stamp stampRevs
    have hne : (B ++ "@head").isEmpty = false := by
      cases hq : (B ++ "@head").isEmpty
      · rfl
      · have := String.isEmpty_iff.mp hq
        have h2 : (B ++ "@head").length = 0 := by rw [this]; rfl
        simp [String.length_append] at h2
    have hgm : getRevisionsMany m [B ++ "@head"] = .ok [some x] := by
      unfold getRevisionsMany
      simp [getRevisions_branch_head m hsub hleg B br x hb hx, bind, Except.bind, pure, Except.pure]
    have hff : filterForLineage m R (B ++ "@head") true = .ok (R.filter (fun t => sharesLineage m t [br, x] true)) := by
      exact C16.filterForLineage_of_shares m R _ true [br, x]
        (by unfold resolveFuel; exact resolveShares_branch_head m hsub B br x hb hx)
    simp only [getRevisionsMany_full m R hRf, bind, Except.bind, filterMap_id_map_some, List.isEmpty_cons,
      Bool.false_eq_true, if_false, List.mapM_cons, List.mapM_nil, hne, hff, pure, Except.pure, hgm,
      List.flatten_cons, List.flatten_nil, List.append_nil]
    have : stampLoop m rem [some x] = .ok steps := by simpa using h1
    simp only [rem] at this
    simp [this, h2]
  · intro y; rw [h3.iff y]; simp

end

/-- the history of the repaired F15: `lib`'s root `a` (label `lib`), `b <- a`, and `x` whose only link to the
    branch is `depends_on a`; rows `{a, x}`: `stamp lib@head` moves `a` to `b` and keeps `x` -/
def f15 : Hist := [⟨"a", [], [], ["lib"]⟩, ⟨"b", ["a"], [], []⟩, ⟨"x", [], ["a"], []⟩]

example : rowsAre ((load f15).bind (fun m => stamp m ["lib@head"] ["a", "x"])) ["x", "b"] = true := by decide +kernel
example : (match load f15 with
    | .ok m => decide (m.lookup "lib" = some "a") && (m.heads.filter (fun t => sharesLineage m t ["a"] false) == ["b"])
    | .error _ => false) = true := by decide +kernel

open C16 in
/-- **`stamp <unique prefix>` is `stamp <that revision>`**: the steps `_stamp_revs` computes for a
destination written as a unique prefix (same hypotheses as `upgrade_prefix_eq_full`) are those for the
revision it names, from every version table — so `C05.stamp_one` applies to it (seed C05-e wrote
destinations as partial ids). -/
theorem stamp_prefix_eq_full {h : Hist} {o : LoadOpts} {m : LMap} (hl : load h o = .ok m)
    (hu : (h.map (·.id)).Nodup) (hd : ∀ r ∈ h, ∀ d ∈ r.down, d ∈ h.map (·.id))
    (rows : List Id) (ident : String) (hp : Plain ident) (hk : m.lookup ident = none) (hne : ident.isEmpty = false)
    (x : Id) (hx : x ∈ m.ids) (hpx : Plain x) (hlen : x.length > 3) (hpre : startsWithL x ident = true)
    (huniq : ∀ y ∈ m.ids, y.length > 3 → startsWithL y ident = true → y = x) :
    stampRevs m [ident] rows = stampRevs m [x] rows := by
  have hxe : x.isEmpty = false := by
    cases hq : x.isEmpty
    · rfl
    · have := String.isEmpty_iff.mp hq; subst this; simp at hlen
  have hs1 : resolveShares m resolveFuel ident = .ok [x] := by
    unfold resolveFuel resolveShares
    simp [resolveNumber_plain m 10 ident hp, revisionForIdent_prefix hl hu hd ident hk x hx hlen hpre huniq 10,
      bind, Except.bind, pure, Except.pure]
  have hs2 : resolveShares m resolveFuel x = .ok [x] := by unfold resolveFuel; exact resolveShares_plain_id m x hx hpx
  have hg1 : getRevisionsMany m [ident] = .ok [some x] := by
    unfold getRevisionsMany
    simp [prefix_unique_resolves hl hu hd ident hp hk x hx hlen hpre huniq, bind, Except.bind, pure, Except.pure]
  have hg2 : getRevisionsMany m [x] = .ok [some x] := by
    unfold getRevisionsMany
    simp [(full_id m x hx hpx).1, bind, Except.bind, pure, Except.pure]
  unfold stampRevs
  simp only [List.isEmpty_cons, Bool.false_eq_true, if_false, List.mapM_cons, List.mapM_nil, hne, hxe,
    filterForLineage_of_shares m _ ident true [x] hs1, filterForLineage_of_shares m _ x true [x] hs2, hg1, hg2]


open C16 in
/-- **`upgrade <branch>@head` is `upgrade <the head of that branch>`**: when exactly one head shares the
branch's `down_revision` lineage, the upgrade plan for the spelling `<label or id>@head` is the plan for that
head written as its full id (C01.plan then says what it contains), from every version table. -/
theorem upgrade_branch_head_eq (m : LMap) (hsub : ∀ x ∈ m.heads, x ∈ m.ids) (hleg : ∀ i ∈ m.ids, negInt? i = none)
    (rows : List Id) (L : String) (br x : Id) (hb : BranchName m L br)
    (hx : m.heads.filter (fun t => sharesLineage m t [br] false) = [x]) (hpx : Plain x)
    (hm1 : matchRelative (L ++ "@head") = none) (hm2 : matchRelative x = none) :
    upgradeRevs m rows (L ++ "@head") = upgradeRevs m rows x := by
  have hxm : x ∈ m.heads.filter (fun t => sharesLineage m t [br] false) := by rw [hx]; exact List.mem_cons_self
  have hxi : x ∈ m.ids := hsub x (List.mem_filter.mp hxm).1
  apply upgradeRevs_congr
  unfold parseUpgradeTarget
  simp only [hm1, hm2, getRevisions_branch_head m hsub hleg L br x hb hx, (full_id m x hxi hpx).1]

example : matchRelative "lib@head" = none := by decide +kernel

open C16 in
/-- **`upgrade heads` on an empty version table runs every revision**: for every loaded history, the plan
`upgrade heads` computes from the empty table contains exactly the revisions of the history (each once,
every one after what it needs, by `C01.plan`) — no revision is skipped, whatever branches, merge points and
dependencies there are. -/
theorem upgrade_heads_from_empty_runs_all {h : Hist} {o : LoadOpts} {m : LMap} (hl : load h o = .ok m)
    (hu : (h.map (·.id)).Nodup) (hd : ∀ r ∈ h, ∀ d ∈ r.down, d ∈ h.map (·.id))
    (plan : List Id) (hp : upgradeRevs m [] "heads" = .ok plan) :
    plan.Nodup ∧ ∀ x, x ∈ plan ↔ x ∈ m.ids := by
  have L := loaded_of_load hl hu hd
  have hrh := (C15.heads_bases hl hu hd).2.1
  obtain ⟨targets, cur, ht, hc, U⟩ := C01.plan hl hu hd [] "heads" plan hp
  have hm : matchRelative "heads" = none := by decide +kernel
  have htg : targets = m.realHeads := by
    unfold parseUpgradeTarget at ht
    simp only [hm, symbolic_heads hl, bind, Except.bind] at ht
    have key : ∀ (F : Option Id → Except Err Id), (∀ i, F (some i) = .ok i) →
        ∀ l : List Id, (l.map some).mapM F = .ok l := by
      intro F hF l
      induction l with
      | nil => rfl
      | cons a r ih => simp only [List.map_cons, List.mapM_cons, hF a, ih, bind, Except.bind, pure, Except.pure]
    rw [key _ (fun i => rfl)] at ht
    exact (Except.ok.inj ht).symm
  have hcur : cur = [] := by
    unfold resolveRows getRevisionsMany at hc
    simp [bind, Except.bind, pure, Except.pure] at hc
    exact hc
  subst htg; subst hcur
  refine ⟨U.nodup, ?_⟩
  intro x
  rw [U.exact x]
  constructor
  · rintro ⟨⟨r, hr, hreach⟩, -⟩
    have hri : r ∈ m.ids := ((hrh r).mp hr).1
    clear hp ht hc U hr
    induction hreach with
    | refl _ => exact hri
    | step hs _ ih => exact ih (L.refs_closed _ _ hs)
  · intro hx
    refine ⟨?_, by rintro ⟨r, hr, _⟩; simp at hr⟩
    obtain ⟨hh, hmax, hreach⟩ := exists_max_above L m.ids x hx
    exact ⟨hh, (hrh hh).mpr ⟨hmax.1, hmax.2⟩, hreach⟩

/-- every revision reaches a revision without `down_revision` along its links -/
theorem reaches_root {m : LMap} (L : Loaded m) (x : Id) (hx : x ∈ m.ids) :
    ∃ r, r ∈ m.ids ∧ m.downOf r = [] ∧ Reach m.allDownOf x r := by
  obtain ⟨rank, hrank⟩ := L.ranked
  have key : ∀ n x, rank x = n → x ∈ m.ids → ∃ r, r ∈ m.ids ∧ m.downOf r = [] ∧ Reach m.allDownOf x r := by
    intro n
    induction n using Nat.strongRecOn with
    | _ n ih =>
      intro x hn hx
      cases hdn : m.downOf x with
      | nil => exact ⟨x, hx, hdn, Reach.refl _⟩
      | cons p rest =>
        have hp : p ∈ m.downOf x := by rw [hdn]; exact List.mem_cons_self
        have hpa : p ∈ m.allDownOf x := L.norm_sub_all x p (L.down_sub_norm x p hp)
        have hlt : rank p < n := by rw [← hn]; exact hrank x p hpa
        obtain ⟨r, hr, hrd, hreach⟩ := ih (rank p) hlt p rfl (L.refs_closed x p hpa)
        exact ⟨r, hr, hrd, Reach.step hpa hreach⟩
  exact key (rank x) x rfl hx

open C16 in
/-- **`downgrade base` removes every applied revision**: for every loaded history and every version table,
the plan `downgrade base` computes contains exactly the revisions the rows imply (the rows — revision ids, as the
table holds them — and everything they need), each once, none before an applied revision that needs it (`C02.plan`) — nothing applied is left behind. -/
theorem downgrade_base_removes_all {h : Hist} {o : LoadOpts} {m : LMap} (hl : load h o = .ok m)
    (hu : (h.map (·.id)).Nodup) (hd : ∀ r ∈ h, ∀ d ∈ r.down, d ∈ h.map (·.id))
    (rows : List Id) (plan : List Id) (hp : downgradeRevs m rows "base" = .ok plan) :
    ∃ cur, resolveRows m rows = .ok cur ∧ plan.Nodup ∧
      ((∀ c ∈ cur, c ∈ m.ids) → ∀ x, x ∈ plan ↔ Requires m cur x) := by
  have L := loaded_of_load hl hu hd
  obtain ⟨label, tgt, roots, cur, hpt, hroots, hcur, D, _⟩ := C02.plan hl hu hd rows "base" plan hp
  have hm : matchRelative "base" = none := by decide +kernel
  have hrp : rpartitionAt "base" = ("", "base") := by decide +kernel
  have hgr : getRevision m "base" = .ok none := by
    unfold getRevision resolveFuel resolveRevisionNumber
    simp [splitFirstAt_noat "base" (by decide), bind, Except.bind, pure, Except.pure]
  unfold parseDowngradeTarget at hpt
  simp only [hm, hrp, hgr, bind, Except.bind, pure, Except.pure] at hpt
  have hlt : label = none ∧ tgt = none := by
    have := Except.ok.inj hpt
    simp at this
    exact ⟨this.1.symm, this.2.symm⟩
  obtain ⟨e1, e2⟩ := hlt
  subst e1; subst e2
  unfold Model.Rev.downgradeRoots at hroots
  simp only [pure, Except.pure] at hroots
  have hr := (Except.ok.inj hroots).symm
  refine ⟨cur, hcur, D.nodup, ?_⟩
  intro hcurids x
  rw [D.exact x]
  constructor
  · exact fun hh => hh.2
  · intro hreq
    refine ⟨?_, hreq⟩
    -- `x` is a revision of the history, so it reaches a root
    obtain ⟨c, hc, hreach⟩ := hreq
    have hcur_ids : c ∈ m.ids := hcurids c hc
    have hxi : x ∈ m.ids := by
      clear hp hpt hroots D hc
      induction hreach with
      | refl _ => exact hcur_ids
      | step hs _ ih => exact ih (L.refs_closed _ _ hs)
    obtain ⟨r, hri, hrd, hrr⟩ := reaches_root L x hxi
    refine ⟨r, ?_, hrr⟩
    rw [hr]
    apply List.mem_map.mpr
    refine ⟨(r, r), List.mem_filter.mpr ⟨?_, by simp [hrd]⟩, rfl⟩
    unfold LMap.keys
    exact List.mem_append_left _ (List.mem_map.mpr ⟨r, hri, rfl⟩)

end C05
