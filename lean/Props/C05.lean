import Spec.Rev
import Model.Rev.Heads
/-! # C05 (theorems: work in progress) -/
namespace C05
end C05
