import Lemmas.Rev.HeadsFacts
import Props.C02
/-!
# C05 — stamp moves only the branches that share lineage with the target

About `Model.Rev.stampDest` (the body of the `for dest in dests` loop of
`ScriptDirectory._stamp_revs`: classification delete / no-op / downgrade / upgrade / new
branch) followed by `updateToStep` for the resulting `StampStep`
(`StampStep.should_*`, `merge_branch_idents`, `unmerge_branch_idents`).
-/
namespace C05
open Model.Rev Spec.Rev Lemmas.Rev C01 C02

/-- `x` shares lineage with `d`: ancestor or descendant through down-revisions and dependencies -/
def Lineage (m : LMap) (d x : Id) : Prop := Reach m.allDownOf d x ∨ Reach m.allDownOf x d

/-- no row is implied by another row -/
def Antichain (m : LMap) (R : List Id) : Prop :=
  R.Nodup ∧ ∀ x ∈ R, ∀ y ∈ R, x ≠ y → ¬ Reach m.allDownOf x y

theorem mem_desc_single {m : LMap} (L : Loaded m) (d x : Id) : x ∈ m.descendants [d] ↔ Reach m.allDownOf x d := by
  rw [mem_descendants_iff L]; simp [BuildsOn]

theorem mem_anc_single {m : LMap} (L : Loaded m) (d x : Id) : x ∈ m.ancestors [d] ↔ Reach m.allDownOf d x := by
  rw [mem_ancestors_iff]; simp [reach_norm_iff_all L]

/-- `filter_for_lineage(heads, dest, include_dependencies=True)` selects the rows in `dest`'s lineage -/
theorem sharesLineage_iff {m : LMap} (L : Loaded m) (d x : Id) :
    sharesLineage m x [d] true = true ↔ Lineage m d x := by
  unfold sharesLineage Lineage
  simp only [List.isEmpty_cons, Bool.false_eq_true, if_false, if_true, List.any_cons, List.any_nil, Bool.or_false,
    Bool.or_eq_true, decide_eq_true_eq]
  rw [mem_desc_single L, mem_anc_single L]

theorem runSteps_single (m : LMap) (R R' : List Id) (s : Step) (st : List Stmt)
    (h : updateToStep m R s = .ok (R', st)) : runSteps m R [s] = .ok [R'] := by
  simp [runSteps, h]

/-- rows after replacing the rows `fs` (all present) by `d` (absent), through a `StampStep` -/
theorem stamp_fold {m : LMap} (R : List Id) (hn : R.Nodup) (fs : List Id) (hf : fs.Nodup) (hne : fs ≠ [])
    (hs : ∀ f ∈ fs, f ∈ R) (d : Id) (hd : d ∉ R) (up : Bool) :
    ∃ R' st, updateToStep m R (.stamp fs [d] up false) = .ok (R', st) ∧
      RowSet R' (fun x => (x ∈ R ∧ x ∉ fs) ∨ x = d) := by
  have hrun : ∀ st R', stepStmts m R (.stamp fs [d] up false) = .ok st → applyStmts R st = .ok R' →
      updateToStep m R (.stamp fs [d] up false) = .ok (R', st) := by
    intro st R' h1 h2; unfold updateToStep; rw [h1]; simp only; rw [h2]
  have hany : fs.any (· ∉ R) = false := by
    simp only [List.any_eq_false, decide_eq_true_eq, Classical.not_not]; exact hs
  by_cases hlen : fs.length > 1
  · obtain ⟨R', hok, hsr⟩ := fold_ok R hn fs hf hne hs d hd
    have hst : stepStmts m R (.stamp fs [d] up false) =
        .ok (fs.dropLast.map .del ++ [.upd (fs.getLast hne) d]) := by
      unfold stepStmts
      simp only [Bool.and_false, Bool.false_eq_true, if_false, Bool.false_or, hany, Bool.and_false, Bool.false_and, hlen,
        decide_true, if_true]
      cases hrev : fs.reverse with
      | nil => simp at hrev; exact absurd hrev hne
      | cons last initRev =>
        obtain ⟨_, h1, h2⟩ := reverse_cons_split hrev
        simp only [h1, h2]
    exact ⟨R', _, hrun _ _ hst hok, hsr⟩
  · match fs, hne, hlen with
    | [f], _, _ =>
      have hfR : f ∈ R := hs f List.mem_cons_self
      obtain ⟨R', hok, hsr⟩ := upd_ok hn hfR hd
      have hst : stepStmts m R (.stamp [f] [d] up false) = .ok [.upd f d] := by
        unfold stepStmts
        simp only [Bool.and_false, Bool.false_eq_true, if_false, Bool.false_or, hany, Bool.false_and]
        simp
      refine ⟨R', _, hrun _ _ hst hok, hsr.nodup, ?_⟩
      intro x; rw [hsr.iff x]; simp
    | _ :: _ :: _, _, hl => simp at hl

/-- **C05, one destination.** From rows that form an antichain, stamping a revision `d` of the
history replaces every row in `d`'s lineage by `d` and leaves every other row untouched; every
statement hits exactly one row; the result is an antichain again. -/
theorem single {m : LMap} (L : Loaded m) (R : List Id) (hR : Antichain m R) (d : Id) :
    ∃ steps tr, stampDest m (R.filter (fun x => sharesLineage m x [d] true)) (some d) = .ok steps ∧
      runSteps m R steps = .ok tr ∧
      RowSet (tr.getLastD R) (fun x => (x ∈ R ∧ ¬ Lineage m d x) ∨ x = d) ∧
      Antichain m (tr.getLastD R) := by
  obtain ⟨rank, hrank⟩ := L.ranked
  have hanti : ∀ x y, x ∈ R → y ∈ R → Reach m.allDownOf x y → x = y := by
    intro x y hx hy hr
    apply Classical.byContradiction
    intro hne; exact hR.2 x hx y hy hne hr
  have hfmem : ∀ x, x ∈ R.filter (fun x => sharesLineage m x [d] true) ↔ x ∈ R ∧ Lineage m d x := by
    intro x; rw [List.mem_filter, sharesLineage_iff L]
  -- it is enough to produce the right row set; the antichain property follows
  suffices h : ∃ steps tr, stampDest m (R.filter (fun x => sharesLineage m x [d] true)) (some d) = .ok steps ∧
      runSteps m R steps = .ok tr ∧ RowSet (tr.getLastD R) (fun x => (x ∈ R ∧ ¬ Lineage m d x) ∨ x = d) by
    obtain ⟨steps, tr, h1, h2, hs⟩ := h
    refine ⟨steps, tr, h1, h2, hs, hs.nodup, ?_⟩
    intro x hx y hy hne hreach
    rcases (hs.iff x).mp hx with ⟨hxR, hxl⟩ | hxd <;> rcases (hs.iff y).mp hy with ⟨hyR, hyl⟩ | hyd
    · exact hR.2 x hxR y hyR hne hreach
    · subst hyd; exact hxl (Or.inr hreach)
    · subst hxd; exact hyl (Or.inl hreach)
    · exact hne (hxd.trans hyd.symm)
  by_cases hdf : d ∈ R.filter (fun x => sharesLineage m x [d] true)
  · -- already there: nothing to do
    have hdR : d ∈ R := ((hfmem d).mp hdf).1
    refine ⟨[], [], by simp [stampDest, hdf, pure, Except.pure], by simp [runSteps], hR.1, ?_⟩
    intro x
    simp only [List.getLastD_nil]
    constructor
    · intro hx
      by_cases e : x = d
      · exact Or.inr e
      · left; refine ⟨hx, ?_⟩
        rintro (h | h)
        · exact e (hanti d x hdR hx h).symm
        · exact e (hanti x d hx hdR h)
    · rintro (⟨hx, _⟩ | e)
      · exact hx
      · rw [e]; exact hdR
  · have hdR : d ∉ R := fun h => hdf ((hfmem d).mpr ⟨h, Or.inl (Reach.refl _)⟩)
    have hfn : (R.filter (fun x => sharesLineage m x [d] true)).Nodup := List.Pairwise.filter _ hR.1
    have hfsub : ∀ f ∈ R.filter (fun x => sharesLineage m x [d] true), f ∈ R := fun f hf => ((hfmem f).mp hf).1
    have hrows : ∀ R', RowSet R' (fun x => (x ∈ R ∧ x ∉ R.filter (fun x => sharesLineage m x [d] true)) ∨ x = d) →
        RowSet R' (fun x => (x ∈ R ∧ ¬ Lineage m d x) ∨ x = d) := by
      intro R' hs
      refine ⟨hs.nodup, ?_⟩
      intro x; rw [hs.iff x]
      constructor
      · rintro (⟨h1, h2⟩ | h)
        · exact Or.inl ⟨h1, fun hl => h2 ((hfmem x).mpr ⟨h1, hl⟩)⟩
        · exact Or.inr h
      · rintro (⟨h1, h2⟩ | h)
        · exact Or.inl ⟨h1, fun hf => h2 ((hfmem x).mp hf).2⟩
        · exact Or.inr h
    by_cases hdesc : (R.filter (fun x => sharesLineage m x [d] true)).any (· ∈ m.descendants [d]) = true
    · -- heads above the destination: a single downgrade-like step
      have hnoanc : (R.filter (fun x => sharesLineage m x [d] true)).any (· ∈ m.ancestors [d]) = false := by
        simp only [List.any_eq_false, decide_eq_true_eq]
        intro f' hf' hanc
        simp only [List.any_eq_true, decide_eq_true_eq] at hdesc
        obtain ⟨f, hf, hfd⟩ := hdesc
        have h1 : Reach m.allDownOf f d := (mem_desc_single L d f).mp hfd
        have h2 : Reach m.allDownOf d f' := (mem_anc_single L d f').mp hanc
        have := hanti f f' (hfsub f hf) (hfsub f' hf') (Reach.trans _ h1 h2)
        subst this
        -- f both above and below d: f = d, but d is not a row
        have hle1 := reach_rank_le' hrank h1
        have hle2 := reach_rank_le' hrank h2
        have : f = d := by
          apply Classical.byContradiction
          intro hne
          have := reach_rank_lt' hrank h1 hne
          omega
        exact hdR (this ▸ hfsub f hf)
      have hne : R.filter (fun x => sharesLineage m x [d] true) ≠ [] := by
        intro e; rw [e] at hdesc; simp at hdesc
      obtain ⟨R', st, hstep, hs⟩ := stamp_fold (m := m) R hR.1 _ hfn hne hfsub d hdR false
      refine ⟨[.stamp _ [d] false false], [R'], ?_, runSteps_single m R R' _ st hstep, ?_⟩
      · simp [stampDest, hdf, hdesc, hnoanc, pure, Except.pure]
      · simpa using hrows R' hs
    · by_cases hanc : (R.filter (fun x => sharesLineage m x [d] true)).any (· ∈ m.ancestors [d]) = true
      · have hne : R.filter (fun x => sharesLineage m x [d] true) ≠ [] := by
          intro e; rw [e] at hanc; simp at hanc
        obtain ⟨R', st, hstep, hs⟩ := stamp_fold (m := m) R hR.1 _ hfn hne hfsub d hdR true
        refine ⟨[.stamp _ [d] true false], [R'], ?_, runSteps_single m R R' _ st hstep, ?_⟩
        · simp [stampDest, hdf, hdesc, hanc, pure, Except.pure]
        · simpa using hrows R' hs
      · -- no row in the lineage: a new branch
        have hnil : R.filter (fun x => sharesLineage m x [d] true) = [] := by
          apply List.eq_nil_iff_forall_not_mem.mpr
          intro f hf
          have hl := ((hfmem f).mp hf).2
          rcases hl with h | h
          · apply hanc
            simp only [List.any_eq_true, decide_eq_true_eq]
            exact ⟨f, hf, (mem_anc_single L d f).mpr h⟩
          · apply hdesc
            simp only [List.any_eq_true, decide_eq_true_eq]
            exact ⟨f, hf, (mem_desc_single L d f).mpr h⟩
        obtain ⟨R', hok, hs⟩ := ins_ok hR.1 hdR
        have hst : stepStmts m R (.stamp [] [d] true true) = .ok [.ins d] := by
          unfold stepStmts; simp [hdR]
        have hstep : updateToStep m R (.stamp [] [d] true true) = .ok (R', [.ins d]) := by
          unfold updateToStep; rw [hst]; simp only; rw [hok]
        refine ⟨[.stamp [] [d] true true], [R'], ?_, runSteps_single m R R' _ _ hstep, ?_⟩
        · rw [hnil]; simp [stampDest, pure, Except.pure]
        · simp only [List.getLastD_cons, List.getLastD_nil]
          refine ⟨hs.nodup, ?_⟩
          intro x; rw [hs.iff x]
          constructor
          · rintro (h | h)
            · left; refine ⟨h, fun hl => ?_⟩
              have := (hfmem x).mpr ⟨h, hl⟩; rw [hnil] at this; simp at this
            · exact Or.inr h
          · rintro (⟨h, _⟩ | h)
            · exact Or.inl h
            · exact Or.inr h

/-- **Stamping `base`** deletes every selected head (for plain `base` all rows are selected):
each statement hits one row and the table ends without them. -/
theorem base {m : LMap} (R : List Id) (hn : R.Nodup) :
    ∃ steps tr, stampDest m R none = .ok steps ∧ runSteps m R steps = .ok tr ∧ tr.getLastD R = [] := by
  -- generalised: deleting a duplicate-free sub-list `fs` of the rows one by one
  have key : ∀ (fs R : List Id), R.Nodup → fs.Nodup → (∀ f ∈ fs, f ∈ R) →
      ∃ tr, runSteps m R (fs.map (fun h => Step.stamp [h] [] false true)) = .ok tr ∧
        RowSet (tr.getLastD R) (fun x => x ∈ R ∧ x ∉ fs) := by
    intro fs
    induction fs with
    | nil => intro R hn _ _; exact ⟨[], by simp [runSteps], hn, by intro x; simp⟩
    | cons f rest ih =>
      intro R hn hf hs
      have hf' := List.nodup_cons.mp hf
      obtain ⟨R1, h1, s1⟩ := del_ok hn (hs f List.mem_cons_self)
      have hst : stepStmts m R (.stamp [f] [] false true) = .ok [.del f] := by
        unfold stepStmts; simp
      have hstep : updateToStep m R (.stamp [f] [] false true) = .ok (R1, [.del f]) := by
        unfold updateToStep; rw [hst]; simp only; rw [h1]
      obtain ⟨tr, htr, hs2⟩ := ih R1 s1.nodup hf'.2 (fun g hg =>
        (s1.iff g).mpr ⟨hs g (List.mem_cons_of_mem _ hg), fun e => hf'.1 (e ▸ hg)⟩)
      refine ⟨R1 :: tr, by simp [runSteps, hstep, htr], ?_⟩
      have hlast : (R1 :: tr).getLastD R = tr.getLastD R1 := by
        cases tr <;> simp [List.getLastD]
      rw [hlast]
      refine ⟨hs2.nodup, ?_⟩
      intro x; rw [hs2.iff x, s1.iff x]
      simp only [List.mem_cons, not_or]
      constructor
      · rintro ⟨⟨h1, h2⟩, h3⟩; exact ⟨h1, h2, h3⟩
      · rintro ⟨h1, h2, h3⟩; exact ⟨⟨h1, h2⟩, h3⟩
  obtain ⟨tr, htr, hs⟩ := key R R hn hn (fun f hf => hf)
  refine ⟨_, tr, by simp [stampDest, pure, Except.pure], htr, ?_⟩
  apply List.eq_nil_iff_forall_not_mem.mpr
  intro x hx
  exact ((hs.iff x).mp hx).2 ((hs.iff x).mp hx).1

/-! ### non-vacuity: the history of the repaired defect F4 (`a, b; c <- a`, rows `{a, b}`) -/

def f4 : Hist := [⟨"a", [], [], []⟩, ⟨"b", [], [], []⟩, ⟨"c", ["a"], [], []⟩]

def rowsAre (r : Except Err (List Id)) (l : List Id) : Bool := match r with | .ok x => x == l | .error _ => false

example : rowsAre ((load f4).bind (fun m => stamp m ["heads"] ["a", "b"])) ["b", "c"] = true := by decide +kernel
example : rowsAre ((load f4).bind (fun m => stamp m ["c"] ["a", "b"])) ["b", "c"] = true := by decide +kernel
example : rowsAre ((load f4).bind (fun m => stamp m ["base"] ["c", "b"])) [] = true := by decide +kernel

end C05
