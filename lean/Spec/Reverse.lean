import Model.Reverse.Ops
/-!
# Specification of C09: the downgrade undoes the upgrade

* kinds and inverse kinds of op trees (flattened the way `OpContainer.as_diffs` flattens);
* `Op.view`: an op reduced to what `Operations.invoke` reads of it (`toimpl.py`);
* `Op.reversible`: the op can be reversed at all (stored `_reverse` present and consistent; an
  `AlterColumnOp` states the `existing_` value of every attribute it modifies);
* an abstract schema semantics `apply` and the accuracy conditions under which an op can be undone.
None of this looks at `Model.Reverse.Op.reverse`.
-/
namespace Spec.Reverse
open Model.Reverse

inductive Kind
  | createTable | dropTable | addColumn | dropColumn | createIndex | dropIndex
  | addConstraint | dropConstraint | alterColumn | createTableComment | dropTableComment
  deriving DecidableEq, Repr, Inhabited

/-- the kind of the op that undoes an op of kind `k`; `hasExisting` matters only for
`create_table_comment` (undone by another `create_table_comment` when there was a comment
before, by `drop_table_comment` otherwise) -/
def inverseKind (k : Kind) (hasExisting : Bool) : Kind :=
  match k with
  | .createTable => .dropTable
  | .dropTable => .createTable
  | .addColumn => .dropColumn
  | .dropColumn => .addColumn
  | .createIndex => .dropIndex
  | .dropIndex => .createIndex
  | .addConstraint => .dropConstraint
  | .dropConstraint => .addConstraint
  | .alterColumn => .alterColumn
  | .createTableComment => if hasExisting then .createTableComment else .dropTableComment
  | .dropTableComment => .createTableComment

/-- **C09.reverse_order**, as a checker on kind sequences: `kinds(downgrade_ops) ==
reversed(inverse kinds(upgrade_ops))` -/
def expectedDown (ups : List (Kind × Bool)) : List Kind :=
  (ups.map (fun p => inverseKind p.1 p.2)).reverse

def reverseOrderOk (ups : List (Kind × Bool)) (downs : List Kind) : Bool :=
  downs == expectedDown ups

mutual
/-- leaf ops of a tree in execution order, each with its kind and the "had a comment before" flag -/
def tags : Op → List (Kind × Bool)
  | .createTable _ _ => [(.createTable, false)]
  | .dropTable _ _ _ _ _ _ => [(.dropTable, false)]
  | .addColumn _ _ _ _ => [(.addColumn, false)]
  | .dropColumn _ _ _ _ _ => [(.dropColumn, false)]
  | .createIndex _ _ => [(.createIndex, false)]
  | .dropIndex _ _ _ _ _ _ => [(.dropIndex, false)]
  | .addConstraint _ => [(.addConstraint, false)]
  | .dropConstraint _ _ _ _ _ => [(.dropConstraint, false)]
  | .alterColumn _ => [(.alterColumn, false)]
  | .createTableComment _ _ _ e => [(.createTableComment, e.isSome)]
  | .dropTableComment _ _ _ => [(.dropTableComment, false)]
  | .modifyTable _ _ ops => tagsL ops
def tagsL : List Op → List (Kind × Bool)
  | [] => []
  | o :: r => tags o ++ tagsL r
end

def kindsL (ops : List Op) : List Kind := (tagsL ops).map (·.1)

/-! ## what `invoke` reads -/

def dropTableToTable (name : String) (schema : Option String) (comment : Option String)
    (extra : String) (rev : Option TableDef) : TableDef :=
  { name := name, schema := schema
    cols := match rev with | some r => r.cols | none => []
    cons := match rev with | some r => r.cons | none => []
    comment := comment, extra := extra
    ixs := match rev with | some r => r.ixs | none => [] }

/-- `DropColumnOp.to_column()` -/
def dropColumnToColumn (column : String) (rev : Option Col) : Col :=
  match rev with
  | some c => c
  | none => { name := column, ty := "NULLTYPE", nullable := true, default := none, comment := none }

mutual
/-- the op with everything `invoke` does not read normalised away -/
def view : Op → Op
  | .dropTable name schema ie comment extra rev =>
    .dropTable name schema ie comment extra (some (dropTableToTable name schema comment extra rev))
  | .dropColumn table schema column kw rev =>
    -- `column_name` is what the renderer and `op.drop_column()` use; `to_column()` is what `invoke` hands to the impl
    .dropColumn table schema column kw (some (dropColumnToColumn column rev))
  | .dropIndex name table schema ie kw rev =>
    let ix := dropIndexToIndex name table schema kw rev
    .dropIndex name table schema ie [("unique", if ix.unique then "True" else "False")] (some ix)
  | .dropConstraint name table schema ty _ => .dropConstraint name table schema ty none
  | .modifyTable table schema ops => .modifyTable table schema (viewL ops)
  | o => o
def viewL : List Op → List Op
  | [] => []
  | o :: r => view o :: viewL r
end

/-! ## the reverse names what the op made -/

/-- `r` has the shape of an undo of `o`: the inverse kind, the same table and schema, and the same
object - for a constraint also the same constraint *type*, which the DDL of `drop_constraint`
depends on (MySQL: DROP PRIMARY KEY / DROP FOREIGN KEY / DROP INDEX / DROP CHECK) -/
def undoesShape : Op → Op → Bool
  | .createTable t _, .dropTable n s _ _ _ _ => n == t.name && s == t.schema
  | .dropTable n s _ _ _ _, .createTable t _ => t.name == n && t.schema == s
  | .addColumn t s c _, .dropColumn t' s' c' _ _ => t' == t && s' == s && c' == c.name
  | .dropColumn t s _ _ rev, .addColumn t' s' c _ => t' == t && s' == s && rev == some c
  | .createIndex ix _, .dropIndex n t s _ _ _ => n == ix.name && t == ix.table && s == ix.schema
  | .dropIndex n t s _ _ _, .createIndex ix _ => ix.name == n && ix.table == t && ix.schema == s
  | .addConstraint c, .dropConstraint n t s ty _ =>
    n == c.name && t == c.table && s == c.schema && ty == some c.kind
  | .dropConstraint n t s _ rev, .addConstraint c =>
    c.name == n && c.table == t && c.schema == s && (rev.map (·.kind)) == some c.kind
  | .alterColumn a, .alterColumn b =>
    b.table == a.table && b.schema == a.schema &&
    b.column == (match a.modifyName with | some n => n | none => a.column)
  | .createTableComment t s _ e, .dropTableComment t' s' _ => t' == t && s' == s && e.isNone
  | .createTableComment t s _ e, .createTableComment t' s' c' _ => t' == t && s' == s && e.isSome && c' == e
  | .dropTableComment t s e, .createTableComment t' s' c' _ => t' == t && s' == s && c' == e
  | .modifyTable t s _, .modifyTable t' s' _ => t' == t && s' == s
  | _, _ => false

/-! ## reversible ops -/

def Alter.complete (a : Alter) : Bool :=
  (a.modifyType.isNone || a.existingType.isSome) &&
  (a.modifyNullable.isNone || a.existingNullable.isSome) &&
  (a.modifyDefault == .unset || a.existingDefault != .unset)

mutual
def reversible : Op → Bool
  | .dropColumn _ _ column _ rev =>
    match rev with
    | some c => c.name == column          -- the stored column is the one the op names
    | none => false
  | .dropConstraint _ _ _ ty rev =>
    match rev with
    | some r => ty == some r.kind
    | none => false
  | .alterColumn a => Alter.complete a
  | .modifyTable _ _ ops => reversibleL ops
  | _ => true
def reversibleL : List Op → Bool
  | [] => true
  | o :: r => reversible o && reversibleL r
end

/-- the op carries nothing that `reverse()` is known to lose (hypothesis of the `_partial`
theorems): F13 operation-level directives (`if_exists`, `if_not_exists`, `**kw` of add/drop
column) are rebuilt from the schema object and dropped; F15 the indexes that a directly built
`CreateTableOp` derives from `Column(index=True)` are not carried by `from_table`.  The remaining conjuncts are
representation conditions, not findings: a `CreatePrimaryKeyOp` carries dialect kwargs only (no
`deferrable`/`initially`: `create_primary_key` has no such parameter), index `kw` holds dialect
kwargs only, and `create_table_comment(comment=None)` is a `drop_table_comment` in disguise. -/
def consClean (c : ConsDef) : Bool := c.roundTrip == c

mutual
def clean : Op → Bool
  | .createTable t f => f.isNone && t.ixs.isEmpty          -- F15: index=True flags
  | .dropTable _ _ f _ _ rev => f.isNone && (match rev with | some r => r.ixs.isEmpty | none => true)
  | .addColumn _ _ _ kw => kw.isEmpty
  | .dropColumn _ _ _ kw _ => kw.isEmpty
  | .createIndex ix f => f.isNone && ix.kw.all (fun p => p.1 != "unique")   -- kw = dialect kwargs only
  | .dropIndex _ _ _ f _ _ => f.isNone
  | .addConstraint c => consClean c
  | .dropConstraint _ _ _ _ _ => true
  | .createTableComment _ _ c _ => c.isSome     -- `comment=None` is a drop_table_comment in disguise
  | .modifyTable _ _ ops => cleanL ops
  | _ => true
def cleanL : List Op → Bool
  | [] => true
  | o :: r => clean o && cleanL r
end

/-! ## abstract schema semantics (for C09.undo) -/

structure TState where
  cols : String → Option Col
  idxs : Option String → Option IndexDef
  cons : Option String → Option ConsDef
  comment : Option String
  extra : String

abbrev TKey := Option String × String
abbrev DB := TKey → Option TState

def upd {α β : Type} [DecidableEq α] (f : α → Option β) (k : α) (v : Option β) : α → Option β :=
  fun x => if x = k then v else f x

def colsOf : List Col → String → Option Col
  | [], _ => none
  | c :: r, n => if n = c.name then some c else colsOf r n

def consOf : List ConsDef → Option String → Option ConsDef
  | [], _ => none
  | c :: r, n => if n = c.name then some c else consOf r n

def ofTableDef (t : TableDef) : TState :=
  { cols := colsOf t.cols, idxs := fun _ => none, cons := consOf t.cons, comment := t.comment, extra := t.extra }

def triToOpt : Tri → Option String
  | .val s => some s
  | _ => none

/-- the attributes of the column after `alter_column` (the rename is done by `apply`) -/
def alterCol (a : Alter) (c : Col) : Col :=
  { c with
    ty := a.modifyType.getD c.ty
    nullable := a.modifyNullable.getD c.nullable
    default := if a.modifyDefault == .unset then c.default else triToOpt a.modifyDefault
    comment := if a.modifyComment == .unset then c.comment else triToOpt a.modifyComment }

def onTable (db : DB) (k : TKey) (f : TState → Option TState) : Option DB :=
  match db k with
  | none => none
  | some t => (f t).map (fun t' => upd db k (some t'))

/-- what executing a leaf op does to a schema; `none` = the op is not applicable -/
def apply (o : Op) (db : DB) : Option DB :=
  match o with
  | .createTable t _ =>
    if (db (t.schema, t.name)).isSome then none else some (upd db (t.schema, t.name) (some (ofTableDef t)))
  | .dropTable name schema _ _ _ _ =>
    if (db (schema, name)).isSome then some (upd db (schema, name) none) else none
  | .addColumn table schema col _ =>
    onTable db (schema, table) (fun t =>
      if (t.cols col.name).isSome then none else some { t with cols := upd t.cols col.name (some col) })
  | .dropColumn table schema column _ _ =>
    onTable db (schema, table) (fun t =>
      if (t.cols column).isSome then some { t with cols := upd t.cols column none } else none)
  | .createIndex ix _ =>
    onTable db (ix.schema, ix.table) (fun t =>
      if (t.idxs ix.name).isSome then none else some { t with idxs := upd t.idxs ix.name (some ix) })
  | .dropIndex name table schema _ _ _ =>
    onTable db (schema, table) (fun t =>
      if (t.idxs name).isSome then some { t with idxs := upd t.idxs name none } else none)
  | .addConstraint c =>
    onTable db (c.schema, c.table) (fun t =>
      if (t.cons c.name).isSome then none else some { t with cons := upd t.cons c.name (some c) })
  | .dropConstraint name table schema _ _ =>
    onTable db (schema, table) (fun t =>
      if (t.cons name).isSome then some { t with cons := upd t.cons name none } else none)
  | .alterColumn a =>
    onTable db (a.schema, a.table) (fun t =>
      match t.cols a.column with
      | some c =>
        match a.modifyName with
        | none => some { t with cols := upd t.cols a.column (some (alterCol a c)) }
        | some n =>
          if (t.cols n).isSome then none
          else some { t with cols := upd (upd t.cols a.column none) n (some { alterCol a c with name := n }) }
      | none => none)
  | .createTableComment table schema comment _ =>
    onTable db (schema, table) (fun t => some { t with comment := comment })
  | .dropTableComment table schema _ =>
    onTable db (schema, table) (fun t => some { t with comment := none })
  | .modifyTable _ _ _ => none      -- containers are executed by `applyAll` on the flattened list

/-- the stored `_reverse` / `existing_*` of the op describe the state it is applied to (what
autogenerate guarantees by construction: they are read from the reflected database) -/
def accurate (o : Op) (db : DB) : Prop :=
  match o with
  | .dropTable name schema _ comment extra rev =>
    ∃ t, db (schema, name) = some t ∧
      t = ofTableDef (dropTableToTable name schema comment extra rev)
  | .dropColumn table schema column _ rev =>
    ∃ t c, db (schema, table) = some t ∧ rev = some c ∧ c.name = column ∧ t.cols column = some c
  | .dropIndex name table schema _ kw rev =>
    ∃ t, db (schema, table) = some t ∧ t.idxs name = some (dropIndexToIndex name table schema kw rev)
  | .dropConstraint name table schema _ rev =>
    ∃ t r, db (schema, table) = some t ∧ rev = some r ∧
      t.cons name = some ({ r with name := name, table := table, schema := schema } : ConsDef).roundTrip
  | .alterColumn a =>
    ∃ t c, db (a.schema, a.table) = some t ∧ t.cols a.column = some c ∧
      (a.modifyType.isSome → a.existingType = some c.ty) ∧
      (a.modifyNullable.isSome → a.existingNullable = some c.nullable) ∧
      (a.modifyDefault ≠ .unset → a.existingDefault = (match c.default with | some s => Tri.val s | none => Tri.null)) ∧
      (a.modifyComment ≠ .unset → a.existingComment = c.comment) ∧
      (a.modifyName.isSome → c.name = a.column)
  | .createTableComment table schema _ existing =>
    ∃ t, db (schema, table) = some t ∧ t.comment = existing
  | .dropTableComment table schema existing =>
    ∃ t, db (schema, table) = some t ∧ t.comment = existing
  | _ => True

end Spec.Reverse
