import Model.Alter.Impl
/-!
# What "alter_column changes only what it was asked to change" means

Written against the statement vocabulary only (not against the algorithm):

* `ColState`  — the attributes of one column;
* `applyStmt` — what one emitted statement does to the column (vendor semantics):
  a per-attribute `ALTER` touches one attribute; MySQL `CHANGE`/`MODIFY` and MSSQL
  `ALTER COLUMN <type> [NULL|NOT NULL]` *restate* the column definition (everything they restate
  is reset to what the statement says); a statement that names a column other than the column's
  current name does nothing to it (so a rename emitted too early is visible);
  schema-type constraint statements do not touch the column attributes;
* `agrees`    — the initial column agrees with every stated `existing_*` value;
* `exactOk`   — the property for one request, one initial column and one output:
  every requested attribute ends at the requested value (unless the call raised), and every
  attribute that was not requested keeps its value whenever no emitted statement restates it or
  its existing value was stated (also for the statements emitted before an exception);
* `schemaOk`  — every statement carries the requested schema;
* `addressOk` — every statement names the column by the name it has at that point;
* `constraintOk` — the type-bound CHECK constraint is only dropped / added with a type change.

Readings (never stronger than the property text): an attribute neither requested nor stated is
unconstrained when a statement restates it; `autoincrement` is an attribute of the MySQL family
only (elsewhere the code warns and emits nothing); an empty comment is no comment; an identity
option the request leaves unspecified (`start=None`) is unconstrained.
-/
namespace Spec.Alter
open Model.Alter

structure ColState where
  name : String
  ty : String
  nullable : Bool
  default : Option DefVal
  comment : Option String
  autoinc : Bool
  deriving DecidableEq, Repr

/-- an empty comment is no comment -/
def normC : Option String → Option String
  | some c => if c = "" then none else some c
  | none => none

/-- the column a statement names -/
def Stmt.col : Stmt → Option String
  | .nullable _ c _ | .type_ _ c _ _ | .default _ c _ | .rename _ c _ | .comment _ c _
  | .mysqlChange _ c _ _ _ _ _ _ | .mysqlModify _ c _ _ _ _ _ | .mssqlAlter _ c _ _
  | .mssqlAddDefault _ c _ | .mssqlDropDefault _ _ c | .identityAdd _ c _ _ _ | .identityDrop _ c
  | .identityAlter _ c _ _ _ | .identitySet _ c _ _ _ => some c
  | .dropConstraint _ _ | .addConstraint _ _ _ => none

/-- the table reference a statement carries -/
def Stmt.tref : Stmt → TRef
  | .nullable t _ _ | .type_ t _ _ _ | .default t _ _ | .rename t _ _ | .comment t _ _
  | .mysqlChange t _ _ _ _ _ _ _ | .mysqlModify t _ _ _ _ _ _ | .mssqlAlter t _ _ _
  | .mssqlAddDefault t _ _ | .mssqlDropDefault t _ _ | .identityAdd t _ _ _ _ | .identityDrop t _
  | .identityAlter t _ _ _ _ | .identitySet t _ _ _ _ | .dropConstraint t _ | .addConstraint t _ _ => t

/-- effect of a statement on the column it names -/
def effect (s : ColState) : Stmt → ColState
  | .nullable _ _ n => { s with nullable := n }
  | .type_ _ _ ty _ => { s with ty := ty }
  | .default _ _ d => { s with default := d.map DefVal.plain }
  | .rename _ _ new => { s with name := new }
  | .comment _ _ c => { s with comment := normC c }
  | .mysqlChange _ _ new ty n ai d c =>
    { name := new, ty := ty, nullable := n, default := d.map DefVal.plain, comment := normC c, autoinc := ai }
  | .mysqlModify _ _ ty n ai d c =>
    { name := s.name, ty := ty, nullable := n, default := d.map DefVal.plain, comment := normC c, autoinc := ai }
  -- without NULL / NOT NULL the nullability is reset to the session default (nullable)
  | .mssqlAlter _ _ ty n => { s with ty := ty, nullable := n.getD true }
  | .mssqlAddDefault _ _ d => { s with default := some (.plain d) }
  -- the constraint is looked up by (object_id literal, col_name literal) and dropped on `t`: the batch only drops
  -- the column's default when the looked-up table is the altered one (the column literal is checked by `applyStmt`)
  | .mssqlDropDefault t obj _ => if obj = t then { s with default := none } else s
  | .identityAdd _ _ a st e => { s with default := some (.identity a st e) }
  | .identityDrop _ _ => { s with default := none }
  -- the options that are SET come first (they take precedence over the old values of the same attribute)
  | .identityAlter _ _ sa ss se =>
    match s.default with
    | some (.identity a st e) =>
      { s with default := some (.identity (sa.getD a) (match ss with | some v => some v | none => st) (se ++ e)) }
    | _ => s
  | .identitySet _ _ a st e => { s with default := some (.identity a st e) }
  | .dropConstraint _ _ => s
  | .addConstraint _ _ _ => s

def applyStmt (s : ColState) (st : Stmt) : ColState :=
  match Stmt.col st with
  | some c => if c = s.name then effect s st else s
  | none => s

def final (init : ColState) (stmts : List Stmt) : ColState := stmts.foldl applyStmt init

/-- a statement that restates the column definition (type, nullability, default, comment,
auto-increment for MySQL; type and nullability for MSSQL) -/
def restatesAll : Stmt → Bool
  | .mysqlChange .. | .mysqlModify .. => true
  | _ => false

def restatesTyNull : Stmt → Bool
  | .mysqlChange .. | .mysqlModify .. | .mssqlAlter .. => true
  | _ => false

/-- the initial column agrees with the stated `existing_*` values -/
def agrees (r : Req) (s : ColState) : Bool :=
  s.name == r.column &&
  (match r.exType with | some t => s.ty == t.name | none => true) &&
  (match r.exNullable with | some n => s.nullable == n | none => true) &&
  (match r.exDefault with | .unset => true | .drop => s.default == none | .set v => s.default == some v) &&
  (match r.exComment with | some c => s.comment == normC (some c) | none => true) &&
  (match r.exAutoinc with | some a => s.autoinc == a | none => true)

/-- the final default is the requested one (an unspecified identity `start` is unconstrained) -/
def defaultIs (fin : Option DefVal) : DefVal → Bool
  | .identity a st e =>
    match fin with
    | some (.identity a' st' e') => a' == a && (st.isNone || st' == st) && e.all (fun kv => e'.contains kv)
    | _ => false
  | v => fin == some v

/-- every requested attribute has the requested value -/
def requestedOk (d : Dialect) (r : Req) (fin : ColState) : Bool :=
  (match r.type_ with | some t => fin.ty == t.name | none => true) &&
  (match r.nullable with | some n => fin.nullable == n | none => true) &&
  (match r.serverDefault with | .unset => true | .drop => fin.default == none | .set v => defaultIs fin.default v) &&
  (match r.newName with | some n => fin.name == n | none => fin.name == r.column) &&
  (match r.comment with | .unset => true | .drop => fin.comment == none | .set c => fin.comment == normC (some c)) &&
  (!d.isMySQL || (match r.autoinc with | some a => fin.autoinc == a | none => true))

/-- every attribute that was not requested keeps its value, unless a statement restates it and
its existing value was not stated -/
def keepOk (r : Req) (init fin : ColState) (stmts : List Stmt) : Bool :=
  (r.type_.isSome || (stmts.any restatesTyNull && r.exType.isNone) || fin.ty == init.ty) &&
  (r.nullable.isSome || (stmts.any restatesTyNull && r.exNullable.isNone) || fin.nullable == init.nullable) &&
  (r.serverDefault.given || (stmts.any restatesAll && !r.exDefault.given) || fin.default == init.default) &&
  (r.comment.given || (stmts.any restatesAll && r.exComment.isNone) || fin.comment == init.comment) &&
  (r.autoinc.isSome || (stmts.any restatesAll && r.exAutoinc.isNone) || fin.autoinc == init.autoinc)

/-- the property for one request / initial column / output -/
def exactOk (d : Dialect) (r : Req) (init : ColState) (o : Out) : Bool :=
  keepOk r init (final init o.stmts) o.stmts &&
  (o.err.isSome || requestedOk d r (final init o.stmts))

/-- further table references inside a statement (the `object_id('...')` literal of the MSSQL
drop-default batch) -/
def Stmt.objRefs : Stmt → List TRef
  | .mssqlDropDefault _ obj _ => [obj]
  | _ => []

/-- every statement carries the requested table and schema, in every place it names the table -/
def schemaOk (r : Req) (o : Out) : Bool :=
  o.stmts.all (fun st => Stmt.tref st == tref r && (Stmt.objRefs st).all (· == tref r))

/-- the column a statement refers to, including the column inside an added CHECK constraint -/
def Stmt.colRef : Stmt → Option String
  | .addConstraint _ _ c => some c
  | st => Stmt.col st

/-- the column's name after a statement -/
def nextName (name : String) : Stmt → String
  | .rename _ _ new => new
  | .mysqlChange _ _ new _ _ _ _ _ => new
  | _ => name

/-- every statement that refers to a column refers to it by the name it has at that point of the
script (a statement emitted after the rename must use the new name) -/
def addressOk (name : String) : List Stmt → Bool
  | [] => true
  | st :: rest =>
    (match Stmt.colRef st with
     | some c => c == name
     | none => true) && addressOk (nextName name st) rest

/-- the schema-type CHECK constraint belongs to the column's type: it may be dropped only when a
type change is requested and it is the constraint of the stated existing type, and one may be added
only as the constraint of the requested new type.  In particular an `alter_column` without `type_`
emits no `DROP CONSTRAINT` / `ADD CONSTRAINT` statement at all. -/
def constraintStmtOk (r : Req) : Stmt → Bool
  | .dropConstraint _ n =>
    r.type_.isSome && (match r.exType with
      | some e => e.ck == some (some n)
      | none => false)
  | .addConstraint _ nm _ =>
    (match r.type_ with
     | some t => t.ck == some nm
     | none => false)
  | _ => true

def constraintOk (r : Req) (stmts : List Stmt) : Bool := stmts.all (constraintStmtOk r)

/-- dialects on which the type-bound CHECK of the old type is dropped with a type change (SQLite cannot
ALTER constraints; on the MySQL family type-bound CHECKs are left alone) -/
def dropsTypeCk (d : Dialect) : Bool := !(d == .sqlite || d.isMySQL)

/-- dialects on which the CHECK of the new type is added with a type change (all but SQLite) -/
def addsTypeCk (d : Dialect) : Bool := !(d == .sqlite)

def isDropOf (n : String) : Stmt → Bool
  | .dropConstraint _ n' => n' == n
  | _ => false

def isAddOf (nm : Option String) : Stmt → Bool
  | .addConstraint _ nm' _ => nm' == nm
  | _ => false

/-- a type change is complete: unless the call raised, the named CHECK constraint the stated
existing type owns on this dialect is dropped and the CHECK constraint the new type owns is added —
whichever way the constraint-owning schema type is reached (directly, as the impl of a
TypeDecorator, as the dialect's variant): `Ty.ck` is the constraint of the *effective* type -/
def constraintComplete (d : Dialect) (r : Req) (o : Out) : Bool :=
  o.err.isSome ||
  ((match r.type_, r.exType with
    | some _, some e =>
      (match e.ck with
       | some (some n) => !dropsTypeCk d || o.stmts.any (isDropOf n)
       | _ => true)
    | _, _ => true) &&
   (match r.type_ with
    | some t =>
      (match t.ck with
       | some nm => !addsTypeCk d || o.stmts.any (isAddOf nm)
       | none => true)
    | none => true))

/-- PostgreSQL identity transitions the dialect can express -/
def pgIdentityOk (r : Req) : Bool :=
  match r.serverDefault, r.exDefault with
  | .set (.identity _ _ _), .drop => true
  | .set (.identity _ _ _), .set (.identity _ _ _) => true
  | .drop, .set (.identity _ _ _) => true
  | .unset, .set (.identity _ _ _) => true
  | _, _ => false

/-- Oracle identity transitions the dialect can express -/
def oracleIdentityOk (r : Req) : Bool :=
  match r.serverDefault, r.exDefault with
  | .set (.identity _ _ _), .set (.computed _) => false
  | .set (.identity _ _ _), _ => true
  | .drop, .set (.identity _ _ _) => true
  | .unset, .set (.identity _ _ _) => true
  | _, _ => false

/-- **Expressible requests** (a sufficient condition, stated without looking at the algorithm): the
dialect has a statement for every requested change and was given what it documents as required, so
the call must not raise:
* server defaults are values / `None`, or an identity transition PostgreSQL resp. Oracle supports;
* a comment change only where column comments can be altered (PostgreSQL, Oracle, MySQL family);
* `postgresql_using` only together with `type_`;
* MySQL family: the type (new or existing) is stated; MSSQL: likewise when nullability changes;
* a schema-type CHECK constraint that has to be dropped has a name. -/
def mustSucceed (d : Dialect) (r : Req) : Bool :=
  (!isIdentity r.serverDefault r.exDefault && !isComputed r.serverDefault r.exDefault ||
    (d == .postgresql && pgIdentityOk r) || (d == .oracle && oracleIdentityOk r)) &&
  (!r.comment.given || d == .postgresql || d == .oracle || d.isMySQL) &&
  (d != .postgresql || r.usingE.isNone || r.type_.isSome) &&
  (!d.isMySQL || r.type_.isSome || r.exType.isSome) &&
  (d != .mssql || r.nullable.isNone || r.type_.isSome || r.exType.isSome) &&
  (r.type_.isNone || d == .sqlite || d.isMySQL ||
    (match r.exType with
     | some e => e.ck != some none
     | none => true))

/-- the domain the property text names: server defaults are values or `None` (no identity /
computed constructs among the requested or stated defaults) -/
def plainDefaults (r : Req) : Bool :=
  !isIdentity r.serverDefault r.exDefault && !isComputed r.serverDefault r.exDefault

end Spec.Alter
