import Model.Filter.Diff
/-!
# Specification of C20: filtered objects never appear in the output

Written against schemas, predicates and op *targets* only.  `A'` is the reflected side after
the name filter ("the database object of that name is treated as absent"), `B` the metadata.

Reading fixed in DESIGN 6/C20: an op targets the object it names (table for create/drop
table, column for add/drop/alter column, index / constraint for the rest) and, only for a
rejected table, everything inside it.

`include_object` is asked about *units of comparison*, following the documented calling
convention `(object, name, type_, reflected, compare_to)`:
* an object only in the metadata: `reflected = False, compare_to = None`;
* an object only in the database: `reflected = True, compare_to = None`;
* a matched pair (same name, same type, both sides): the metadata object with
  `reflected = False, compare_to = <the reflected object>` - an alter / drop+create of the pair
  targets that unit;
* foreign keys are matched by signature, not by name: a changed FK is two units (the reflected
  one, `reflected = True`, and the metadata one, `reflected = False`), `compare_to` being the
  same-named FK of the other side when there is one.
-/
namespace Spec.Filter
open Model.Filter

/-- does the name `n` resolve, in the named index/constraint name space of the *metadata* table with
key `k` in `l` (a dict keyed by name), to an index (resp. a unique constraint)? -/
def namedIs (l : List Tbl) (k : Key) (n : Option String) (wantIdx : Bool) : Bool :=
  match n with
  | none => false
  | some n =>
    match (namedConsOf (findTbl l k)).lookup n with
    | some c => c.isIdx == wantIdx
    | none => false

/-- does the reflected table with key `k` in `l` hold an index (resp. a unique constraint) named `n`?
(a reflected unique constraint and a reflected index may share a name) -/
def connHas (l : List Tbl) (k : Key) (n : Option String) (wantIdx : Bool) : Bool :=
  match n with
  | none => false
  | some n => (lookupTyped (findTbl l k) wantIdx n).isSome

def fkNamed (l : List Tbl) (k : Key) (n : Option String) : Bool :=
  match n, findTbl l k with
  | some n, some t => (fkNames t).contains n
  | _, _ => false

/-- descriptor of the table an op lives in: reflected-only, metadata-only, or a matched pair -/
def tableDescOf (A' B : List Tbl) (k : Key) : ObjDesc :=
  let inA := hasKey A' k
  let inB := hasKey B k
  ⟨some k.2, .table, inA && !inB, inA && inB, k.1, k.2⟩

/-- descriptor of the unit of comparison an op targets -/
def targetDescOf (A' B : List Tbl) (o : Op) : ObjDesc :=
  let k := o.key
  match o.kind with
  | .createTable | .dropTable | .tableComment => tableDescOf A' B k
  | .addColumn => ⟨o.name, .column, false, false, k.1, k.2⟩
  | .dropColumn => ⟨o.name, .column, true, false, k.1, k.2⟩
  | .alterColumn => ⟨o.name, .column, false, true, k.1, k.2⟩
  | .createIndex => ⟨o.name, .index, false, connHas A' k o.name true, k.1, k.2⟩
  | .dropIndex =>
    if namedIs B k o.name true then ⟨o.name, .index, false, true, k.1, k.2⟩
    else ⟨o.name, .index, true, false, k.1, k.2⟩
  | .addUq => ⟨o.name, .uniqueConstraint, false, connHas A' k o.name false, k.1, k.2⟩
  | .dropUq =>
    if namedIs B k o.name false then ⟨o.name, .uniqueConstraint, false, true, k.1, k.2⟩
    else ⟨o.name, .uniqueConstraint, true, false, k.1, k.2⟩
  | .addFk => ⟨o.name, .foreignKey, false, fkNamed A' k o.name, k.1, k.2⟩
  | .dropFk => ⟨o.name, .foreignKey, true, fkNamed B k o.name, k.1, k.2⟩

/-- the op's target is accepted by `include_object`, and so is the table it is inside -/
def objAccepts (objF : ObjDesc → Bool) (A' B : List Tbl) (o : Op) : Bool :=
  objF (targetDescOf A' B o) && objF (tableDescOf A' B o.key)

/-- **C20.object**: no op targets an object rejected by `include_object`, nor anything inside a
rejected table. -/
def objectOk (objF : ObjDesc → Bool) (A' B : List Tbl) (ops : List Op) : Bool :=
  ops.all (objAccepts objF A' B)

/-- the reflected names an op's target goes by: its schema, its table, itself -/
def nameAccepts (nameF : NameDesc → Bool) (o : Op) : Bool :=
  nameF ⟨o.schema, .schema, none, none⟩ &&
  nameF ⟨some o.table, .table, o.schema, none⟩ &&
  (o.kind.targetTy == .table || nameF ⟨o.name, o.kind.targetTy, o.schema, some o.table⟩)

/-- **C20.name**: no drop / alter op targets a reflected name rejected by `include_name`
(nor lives in a table or schema whose reflected name is rejected). -/
def nameOk (nameF : NameDesc → Bool) (ops : List Op) : Bool :=
  ops.all (fun o => !o.kind.touchesDb || nameAccepts nameF o)

/-- every reflected name of the table(s) with key `k` is accepted by `include_name`: the name
filter does not touch this table -/
def untouched (nameF : NameDesc → Bool) (A : List Tbl) (k : Key) : Bool :=
  A.all (fun t => !(t.key == k) ||
    (nameF ⟨t.schema, .schema, none, none⟩ &&
     nameF ⟨some t.name, .table, t.schema, none⟩ &&
     t.cols.all (fun c => nameF ⟨some c, .column, t.schema, some t.name⟩) &&
     t.uqs.all (fun u => nameF ⟨u.name, .uniqueConstraint, t.schema, some t.name⟩) &&
     t.idxs.all (fun i => nameF ⟨some i.name, .index, t.schema, some t.name⟩) &&
     t.fks.all (fun f => nameF ⟨f.name, .foreignKey, t.schema, some t.name⟩)))

/-- ops on objects that neither filter rejects (judged on the unfiltered schemas) -/
def acceptedByBoth (objF : ObjDesc → Bool) (nameF : NameDesc → Bool) (A B : List Tbl) (o : Op) : Bool :=
  untouched nameF A o.key && objAccepts objF A B o

def sameMultiset (xs ys : List Op) : Bool :=
  xs.all (fun x => xs.count x == ys.count x) && ys.all (fun y => xs.count y == ys.count y)

/-- **C20.conservative**: the ops on objects accepted by both filters are the same with and
without the filters (`A` = reflected tables of the inspected schemas, unfiltered). -/
def conservativeOk (objF : ObjDesc → Bool) (nameF : NameDesc → Bool) (A B : List Tbl)
    (filtered unfiltered : List Op) : Bool :=
  sameMultiset (filtered.filter (acceptedByBoth objF nameF A B))
    (unfiltered.filter (acceptedByBoth objF nameF A B))

end Spec.Filter
