import Model.Gen.Generate
import Model.Gen.Value
import Model.Gen.Path
import Model.Gen.Doc
/-!
# What C17 means

* the in-memory history after generating a revision is *the same history* as the one obtained
  by reloading: `SameView inc fresh` (sets compared as sets, sequences as sequences);
* the file's four identifier assignments denote the requested values: `Denotes text v`
  (the literal parser accepts the whole text and returns `v`);
* the file name is one `Script._from_filename` accepts: `isRevFile`;
* the docstring closes where the template closes it: `docOk`.
-/
namespace Spec.Gen
open Model.Rev Model.Gen

def setEq (a b : List String) : Bool := a.all (· ∈ b) && b.all (· ∈ a)

def pairSetEq (a b : List (String × String)) : Bool := a.all (· ∈ b) && b.all (· ∈ a)

/-- the names of the components in which two revision views differ -/
def revDiff (a b : RevView) : List String :=
  (if a.down == b.down then [] else ["down"]) ++
  (if a.rdeps == b.rdeps then [] else ["rdeps"]) ++
  (if setEq a.ndeps b.ndeps then [] else ["ndeps"]) ++
  (if setEq a.labels b.labels then [] else ["labels"]) ++
  (if setEq a.nextrev b.nextrev then [] else ["nextrev"]) ++
  (if setEq a.allNextrev b.allNextrev then [] else ["allNextrev"])

/-- the names of the components in which two views differ (`[]` = the same history) -/
def viewDiff (a b : View) : List String :=
  (if setEq (a.revs.map (·.id)) (b.revs.map (·.id)) && a.revs.length == b.revs.length then [] else ["ids"]) ++
  (a.revs.flatMap (fun x => match b.revs.find? (·.id == x.id) with
    | some y => revDiff x y
    | none => [])).eraseDups ++
  (if pairSetEq a.labelKeys b.labelKeys then [] else ["labelKeys"]) ++
  (if setEq a.heads b.heads then [] else ["heads"]) ++
  (if setEq a.realHeads b.realHeads then [] else ["realHeads"]) ++
  (if setEq a.bases b.bases then [] else ["bases"]) ++
  (if setEq a.realBases b.realBases then [] else ["realBases"])

def sameViewB (a b : View) : Bool := (viewDiff a b).isEmpty

def SameView (a b : View) : Prop := viewDiff a b = []

theorem sameViewB_iff (a b : View) : sameViewB a b = true ↔ SameView a b := by
  simp [sameViewB, SameView]

/-- the text is a literal of the value grammar denoting `v` -/
def Denotes (text : List Char) (v : PyVal) : Prop := parseVal text = some v

def denotesB (text : List Char) (v : PyVal) : Bool := parseVal text == some v

theorem denotesB_iff (text : List Char) (v : PyVal) : denotesB text v = true ↔ Denotes text v := by
  simp [denotesB, Denotes]

/-- the text is a literal that `Script.__init__` (`util.to_tuple`) reads as the sequence `xs` -/
def DenotesSeq (text : List Char) (xs : List (List Char)) : Prop := (parseVal text).map toTuple = some xs

def denotesSeqB (text : List Char) (xs : List (List Char)) : Bool := (parseVal text).map toTuple == some xs

theorem denotesSeqB_iff (text : List Char) (xs : List (List Char)) : denotesSeqB text xs = true ↔ DenotesSeq text xs := by
  simp [denotesSeqB, DenotesSeq]

/-- the revision a file with these four assignments loads as (`Script.__init__`) -/
structure FileVals where
  revision : PyVal
  downRevision : PyVal
  branchLabels : PyVal
  dependsOn : PyVal
  deriving Repr, DecidableEq

/-- what the template is given for a requested revision -/
def templateVals (id : List Char) (down deps labels : List (List Char)) : FileVals :=
  { revision := .str id, downRevision := asScalar down, branchLabels := labelsVal labels,
    dependsOn := asScalarList deps }

end Spec.Gen
