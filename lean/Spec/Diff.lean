import Model.Diff.Apply
import Model.Diff.TypesG
/-!
# What C06 / C07 mean, independent of the diff algorithm

* C06: the op list is empty (`quietOk`).
* C07: a catalogue of single changes (`Mutation`) with the op kinds and objects that must be
  reported (`expected`) and the objects a change touches (`touches`); `detectOk` is the
  decidable checker the driver evaluates on the implementation's own `as_diffs()` output.
-/
namespace Spec.Diff
open Model.Diff

inductive Kind
  | addTable | removeTable | addColumn | removeColumn | modifyType | modifyNullable | modifyDefault
  | addIndex | removeIndex | addUq | removeUq | addFk | removeFk
  | other   -- an op kind outside the model's vocabulary (e.g. a comment op), as reported by the implementation
  deriving DecidableEq, Repr, Inhabited

/-- what an op names -/
inductive Obj
  | table (t : String)
  | column (t c : String)
  | named (t n : String)                       -- index or unique constraint `n` of table `t`
  | fk (t : String) (cols : List String) (reftable : String) (refcols : List String)
  deriving DecidableEq, Repr, Inhabited

def Obj.tableName : Obj → String
  | .table t => t
  | .column t _ => t
  | .named t _ => t
  | .fk t _ _ _ => t

structure OpS where
  kind : Kind
  obj : Obj
  deriving DecidableEq, Repr, Inhabited

def summary : Op → OpS
  | .addTable t => ⟨.addTable, .table t.name⟩
  | .removeTable t => ⟨.removeTable, .table t⟩
  | .addColumn t c => ⟨.addColumn, .column t c.name⟩
  | .removeColumn t c => ⟨.removeColumn, .column t c⟩
  | .modifyType t c _ => ⟨.modifyType, .column t c⟩
  | .modifyNullable t c _ => ⟨.modifyNullable, .column t c⟩
  | .modifyDefault t c _ => ⟨.modifyDefault, .column t c⟩
  | .addIndex t ix => ⟨.addIndex, .named t ix.name⟩
  | .removeIndex t ix => ⟨.removeIndex, .named t ix.name⟩
  | .addUq t u => ⟨.addUq, .named t u.name⟩
  | .removeUq t u => ⟨.removeUq, .named t u.name⟩
  | .addFk t f => ⟨.addFk, .fk t f.cols f.reftable f.refcols⟩
  | .removeFk t f => ⟨.removeFk, .fk t f.cols f.reftable f.refcols⟩

/-- C06, first sentence / the second autogenerate of the second sentence -/
def quietOk (ops : List OpS) : Bool := ops.isEmpty

/-- the documented catalogue of detectable single changes -/
inductive Mutation
  | addTable (t : Table)
  | dropTable (t : String)
  | addColumn (t : String) (c : Col)
  | dropColumn (t c : String)
  | flipNullable (t c : String)
  | changeType (t c : String) (ty : MdTy)
  | changeDefault (t c : String) (d : Option Dflt)
  | addIndex (t : String) (ix : Ix)
  | dropIndex (t n : String)
  | changeIndex (t n : String) (cols : List String) (unique : Bool)
  | addUnique (t : String) (u : Uq)
  | dropUnique (t n : String)
  | changeUnique (t n : String) (cols : List String)
  | addFk (t : String) (f : Fk)
  | dropFk (t n : String)
  /-- "table removed" for a table other tables reference: the model drops the table together with the
      foreign keys of the remaining tables that point to it (`dropCols`: and their referencing columns) -/
  | dropTableRefs (t : String) (dropCols : Bool)
  deriving DecidableEq, Repr, Inhabited

def updT (s : Schema) (t : String) (f : Table → Table) : Schema :=
  s.map (fun x => if x.name == t then f x else x)

def updC (cols : List Col) (c : String) (f : Col → Col) : List Col :=
  cols.map (fun x => if x.name == c then f x else x)

/-- the changed model `m(A)` -/
def Mutation.apply : Mutation → Schema → Schema
  | .addTable t, s => s ++ [t]
  | .dropTable t, s => s.filter (fun x => x.name != t)
  | .addColumn t c, s => updT s t (fun x => { x with cols := x.cols ++ [c] })
  | .dropColumn t c, s => updT s t (fun x => { x with cols := x.cols.filter (fun k => k.name != c) })
  | .flipNullable t c, s => updT s t (fun x => { x with cols := updC x.cols c (fun k => { k with nullable := !k.nullable }) })
  | .changeType t c ty, s => updT s t (fun x => { x with cols := updC x.cols c (fun k => { k with ty := ty }) })
  | .changeDefault t c d, s => updT s t (fun x => { x with cols := updC x.cols c (fun k => { k with dflt := d }) })
  | .addIndex t ix, s => updT s t (fun x => { x with ixs := x.ixs ++ [ix] })
  | .dropIndex t n, s => updT s t (fun x => { x with ixs := x.ixs.filter (fun i => i.name != n) })
  | .changeIndex t n cols u, s =>
    updT s t (fun x => { x with ixs := x.ixs.map (fun i => if i.name == n then { i with cols := cols, unique := u } else i) })
  | .addUnique t u, s => updT s t (fun x => { x with uqs := x.uqs ++ [u] })
  | .dropUnique t n, s => updT s t (fun x => { x with uqs := x.uqs.filter (fun i => i.name != n) })
  | .changeUnique t n cols, s =>
    updT s t (fun x => { x with uqs := x.uqs.map (fun i => if i.name == n then { i with cols := cols } else i) })
  | .addFk t f, s => updT s t (fun x => { x with fks := x.fks ++ [f] })
  | .dropFk t n, s => updT s t (fun x => { x with fks := x.fks.filter (fun i => i.name != n) })
  | .dropTableRefs t dropCols, s =>
    (s.filter (fun x => x.name != t)).map (fun x =>
      let refs := x.fks.filter (fun f => f.reftable == t)
      { x with fks := x.fks.filter (fun f => f.reftable != t),
               cols := if dropCols then x.cols.filter (fun c => !(refs.any (fun f => f.cols.contains c.name))) else x.cols })

def findFk (s : Schema) (t n : String) : Option Fk :=
  (findTable s t).bind (fun x => x.fks.find? (fun f => f.name == n))

/-- the ops (kind + object) that must be reported for a change of base schema `a` -/
def expected (a : Schema) : Mutation → List OpS
  | .addTable t => [⟨.addTable, .table t.name⟩]
  | .dropTable t => [⟨.removeTable, .table t⟩]
  | .addColumn t c => [⟨.addColumn, .column t c.name⟩]
  | .dropColumn t c => [⟨.removeColumn, .column t c⟩]
  | .flipNullable t c => [⟨.modifyNullable, .column t c⟩]
  | .changeType t c _ => [⟨.modifyType, .column t c⟩]
  | .changeDefault t c _ => [⟨.modifyDefault, .column t c⟩]
  | .addIndex t ix => [⟨.addIndex, .named t ix.name⟩]
  | .dropIndex t n => [⟨.removeIndex, .named t n⟩]
  | .changeIndex t n _ _ => [⟨.removeIndex, .named t n⟩, ⟨.addIndex, .named t n⟩]
  | .addUnique t u => [⟨.addUq, .named t u.name⟩]
  | .dropUnique t n => [⟨.removeUq, .named t n⟩]
  | .changeUnique t n _ => [⟨.removeUq, .named t n⟩, ⟨.addUq, .named t n⟩]
  | .addFk t f => [⟨.addFk, .fk t f.cols f.reftable f.refcols⟩]
  | .dropFk t n =>
    match findFk a t n with
    | some f => [⟨.removeFk, .fk t f.cols f.reftable f.refcols⟩]
    | none => []
  | .dropTableRefs t _ =>
    ⟨.removeTable, .table t⟩ ::
      a.flatMap (fun x => if x.name == t then [] else
        (x.fks.filter (fun f => f.reftable == t)).map (fun f => ⟨.removeFk, .fk x.name f.cols f.reftable f.refcols⟩))

/-- the object a change is about; a table change touches everything inside the table -/
def touches (a : Schema) (m : Mutation) (o : Obj) : Bool :=
  match m with
  | .addTable t => o.tableName == t.name
  | .dropTable t => o.tableName == t
  | .addColumn t c => o == .column t c.name
  | .dropColumn t c => o == .column t c
  | .flipNullable t c => o == .column t c
  | .changeType t c _ => o == .column t c
  | .changeDefault t c _ => o == .column t c
  | .addIndex t ix => o == .named t ix.name
  | .dropIndex t n => o == .named t n
  | .changeIndex t n _ _ => o == .named t n
  | .addUnique t u => o == .named t u.name
  | .dropUnique t n => o == .named t n
  | .changeUnique t n _ => o == .named t n
  | .addFk t f => o == .fk t f.cols f.reftable f.refcols
  | .dropFk t n =>
    match findFk a t n with
    | some f => o == .fk t f.cols f.reftable f.refcols
    | none => false
  | .dropTableRefs t dropCols =>
    o.tableName == t ||
    (match o with
     | .fk _ _ rt _ => rt == t
     | .column t' c => dropCols && a.any (fun x => x.name == t' && x.fks.any (fun f => f.reftable == t && f.cols.contains c))
     | _ => false)

/-- C07 on one (base, change, reported ops) triple -/
def detectOk (a : Schema) (m : Mutation) (ops : List OpS) : Bool :=
  (expected a m).all (fun e => ops.contains e) && ops.all (fun o => touches a m o.obj)

/-- "the value of a default", independently of quoting: the string value, resp. the
expression with enclosing whitespace, one pair of parentheses and one pair of quotes removed.
Two defaults with different values are a *changed* default in the sense of C07. -/
def unquote (s : List Char) : List Char :=
  match s with
  | '\'' :: r => if r.getLast? == some '\'' && r.length ≥ 2 then r.dropLast else s
  | _ => s

def defaultValue : Option Dflt → Option (List Char)
  | none => none
  | some (.str v) => some v
  | some (.expr e) => some (unquote (sqliteStore e))

/-- the type family of C07 ("changed to a different type family"): the first word of the SQLite
DDL type, with DECIMAL = NUMERIC -/
def family (d : DTy) : W := if d.t0 == .decimal then .numeric else d.t0

end Spec.Diff

/-! ## The class of schemas the theorems quantify over -/
namespace Spec.Diff
open Model.Diff

/-- string default that the regex normalisation leaves alone: non-empty, no `'`, no newline,
not of the form `(...)` -/
def strPlain (v : List Char) : Bool :=
  !v.isEmpty && !v.contains '\'' && noNl v && (wrapped '(' ')' v).isNone

/-- expression default in the form SQLite stores it: no newline, no padding, and if it is
`(m)` then `m` is unpadded, non-empty and not again of the form `(...)` -/
def exprPlain (e : List Char) : Bool :=
  !e.isEmpty && noNl e && trim e == e &&
  (match parenInner e with
   | some m => !m.isEmpty && trim m == m && (wrapped '(' ')' m).isNone
   | none => true)

def dfltPlain : Option Dflt → Bool
  | none => true
  | some (.str v) => strPlain v
  | some (.expr e) => exprPlain e

/-- a column is inside the proved class for settings `cfg`: its type reflects by name (when
types are compared) and its default is plain (when defaults are compared) -/
def colOk (cfg : Cfg) (c : Col) : Bool :=
  (!cfg.compareType || known (declTy c.ty)) && (!cfg.compareDefault || dfltPlain c.dflt)

/-- names of the indexes and unique constraints of a table (one namespace in the comparison) -/
def namedNames (t : Table) : List String := (namedOf t.uqs t.ixs).map (·.name)

structure TableWF (t : Table) : Prop where
  cols_nodup : (t.cols.map (·.name)).Nodup
  named_nodup : (namedNames t).Nodup
  fk_nodup : (t.fks.map (fkSig t.name)).Nodup
  fk_names_nodup : (t.fks.map (·.name)).Nodup
  fk_cols_nodup : (t.fks.map (fun f => (f.cols, f.reftable, f.refcols))).Nodup
  uq_sig_nodup : (t.uqs.map uqSig).Nodup

structure WF (a : Schema) : Prop where
  tables_nodup : (a.map (·.name)).Nodup
  table_wf : ∀ t ∈ a, TableWF t

def SchemaOk (cfg : Cfg) (a : Schema) : Prop := ∀ t ∈ a, ∀ c ∈ t.cols, colOk cfg c = true

end Spec.Diff

/-! ## type family changes on any dialect -/
namespace Spec.Diff
open Model.Diff

/-- two tokenised types that *must* be reported as different whatever their arguments: the
first tokens differ and no synonym group of the dialect holds both first tokens or both full
term strings.  (The harness draws such pairs from different type families.) -/
def mustDiffer (syn : List (List String)) (i m : G.Params) : Bool :=
  i.token0 != m.token0 &&
  syn.all (fun b => !(G.inGroup b i.token0 && G.inGroup b m.token0)) &&
  syn.all (fun b => !(G.inGroup b (G.allTerms i) && G.inGroup b (G.allTerms m)))


/-- two tokenised types that must *not* be reported as different: a synonym group of the dialect
declares their names to be the same type - by full term string ("double precision" / "float") or
by first word - or the first words are equal, and the further words / arguments agree wherever
both sides state the same number of them. -/
def mustMatch (syn : List (List String)) (ext : List (Option String × Option String)) (i m : G.Params) : Bool :=
  (i.token0 == m.token0 ||
   syn.any (fun b => G.inGroup b (G.allTerms i) && G.inGroup b (G.allTerms m)) ||
   syn.any (fun b => G.inGroup b i.token0 && G.inGroup b m.token0)) &&
  G.argsMatch ext i m

end Spec.Diff

/-! ## class boundary of C06 pairs: primary-key membership -/
namespace Spec.Diff
open Model.Diff

/-- a column that survives from `a` to `b` (same table name, same column name) keeps its
primary-key membership.  Autogenerate documents that primary key changes are not detected, so
pairs violating this are outside C06 (the harness's `pair_wf` is this predicate). -/
def PkStable (a b : Schema) : Prop :=
  ∀ ta ∈ a, ∀ tb ∈ b, ta.name = tb.name → ∀ ca ∈ ta.cols, ∀ cb ∈ tb.cols, ca.name = cb.name → ca.pk = cb.pk

/-- decidable form evaluated by the driver -/
def pkStableB (a b : Schema) : Bool :=
  a.all (fun ta => b.all (fun tb => !(ta.name == tb.name) ||
    ta.cols.all (fun ca => tb.cols.all (fun cb => !(ca.name == cb.name) || ca.pk == cb.pk))))

theorem pkStableB_iff (a b : Schema) : pkStableB a b = true ↔ PkStable a b := by
  simp only [pkStableB, PkStable, List.all_eq_true, Bool.or_eq_true, Bool.not_eq_true', beq_eq_false_iff_ne,
    beq_iff_eq, ne_eq]
  constructor
  · intro h ta hta tb htb hn ca hca cb hcb hc
    rcases h ta hta tb htb with h1 | h1
    · exact absurd hn h1
    · rcases h1 ca hca cb hcb with h2 | h2
      · exact absurd hc h2
      · exact h2
  · intro h ta hta tb htb
    by_cases hn : ta.name = tb.name
    · right
      intro ca hca cb hcb
      by_cases hc : ca.name = cb.name
      · exact Or.inr (h ta hta tb htb hn ca hca cb hcb hc)
      · exact Or.inl hc
    · exact Or.inl hn

end Spec.Diff
