import Model.Rev.Basic
/-!
# Specifications of the revision engine (C01, C02, C03, C05, C15)

Written against the history as the files state it (`id`, `down_revision`, `depends_on`,
`branch_labels`) and plain graph notions; nothing here looks at how Alembic computes plans.
Every `Prop` has a `Bool` twin (proved equivalent in `Lemmas/Rev`), which the driver
evaluates on the implementation's own output.
-/
namespace Spec.Rev
open Model.Rev

/-- a dependency names a revision id or a branch label -/
def resolveDep (h : Hist) (d : String) : Option Id :=
  if h.any (·.id == d) then some d else (h.find? (fun r => d ∈ r.labels)).map (·.id)

def revOf (h : Hist) (i : Id) : Option Rev := h.find? (·.id == i)

/-- prerequisites of a revision: its down-revisions and its dependencies -/
def parents (h : Hist) (i : Id) : List Id :=
  match revOf h i with
  | none => []
  | some r => r.down ++ r.deps.filterMap (resolveDep h)

def downParents (h : Hist) (i : Id) : List Id := ((revOf h i).map (·.down)).getD []

def ids (h : Hist) : List Id := h.map (·.id)

/-- revisions that name `i` as a prerequisite -/
def children (h : Hist) (i : Id) : List Id := (ids h).filter (fun c => i ∈ parents h c)
def downChildren (h : Hist) (i : Id) : List Id := (ids h).filter (fun c => i ∈ downParents h c)

/-- reflexive-transitive reachability along `succ` -/
inductive Reach (succ : Id → List Id) : Id → Id → Prop
  | refl (a) : Reach succ a a
  | step {a b c} : b ∈ succ a → Reach succ b c → Reach succ a c

/-- `x` is one of `roots` or an ancestor (through down-revisions and dependencies) of one -/
def IsAnc (h : Hist) (roots : List Id) (x : Id) : Prop := ∃ r ∈ roots, Reach (parents h) r x
def IsDesc (h : Hist) (roots : List Id) (x : Id) : Prop := ∃ r ∈ roots, Reach (children h) r x

/-- decision procedure for `IsAnc` / `IsDesc` (the worklist closure proved correct in
    `Lemmas/Rev/Closure.lean`) -/
def closure (succ : Id → List Id) (nodes roots : List Id) : List Id := closureOf succ nodes roots

def ancSet (h : Hist) (roots : List Id) : List Id := closure (parents h) (ids h) roots
def descSet (h : Hist) (roots : List Id) : List Id := closure (children h) (ids h) roots
def downAncSet (h : Hist) (roots : List Id) : List Id := closure (downParents h) (ids h) roots
def downDescSet (h : Hist) (roots : List Id) : List Id := closure (downChildren h) (ids h) roots

def nodupB : List Id → Bool
  | [] => true
  | x :: r => !(x ∈ r) && nodupB r

def sameSet (a b : List Id) : Bool := a.all (· ∈ b) && b.all (· ∈ a)

/-! ## C01: the upgrade plan -/

/-- every element's prerequisites are applied already or earlier in the plan -/
def linearExt (h : Hist) (applied : List Id) : List Id → List Id → Bool
  | _, [] => true
  | done, x :: rest => (parents h x).all (fun p => p ∈ applied || p ∈ done) && linearExt h applied (x :: done) rest

/-- `plan` upgrades a database whose version table holds `rows` to `targets` -/
def upgradeOk (h : Hist) (rows targets plan : List Id) : Bool :=
  let applied := ancSet h rows
  let required := ancSet h targets
  nodupB plan &&
  plan.all (fun x => x ∈ required && !(x ∈ applied)) &&
  required.all (fun x => x ∈ applied || x ∈ plan) &&
  linearExt h applied [] plan

/-! ## C02: the downgrade plan -/

/-- nothing is removed while an applied revision that needs it remains -/
def childrenFirst (h : Hist) (applied : List Id) : List Id → List Id → Bool
  | _, [] => true
  | done, x :: rest =>
    (children h x).all (fun c => !(c ∈ applied) || c ∈ done) && childrenFirst h applied (x :: done) rest

/-- the revisions being removed first: the target's down-revision children (all revisions
    without a down-revision for `base`), restricted to the named branch when a branch is named
    and there are several of them -/
def downgradeRoots (h : Hist) (target : Option Id) (branch : Option Id) : List Id :=
  let roots := match target with
    | none => (ids h).filter (fun i => (downParents h i).isEmpty)
    | some t => downChildren h t
  match branch with
  | some b => if roots.length > 1 then roots.filter (· ∈ downAncSet h [b]) else roots
  | none => roots

def downgradeOk (h : Hist) (rows : List Id) (target : Option Id) (branch : Option Id) (plan : List Id) : Bool :=
  let applied := ancSet h rows
  let doomed := (descSet h (downgradeRoots h target branch)).filter (· ∈ applied)
  nodupB plan && sameSet plan doomed && childrenFirst h applied [] plan &&
  (match target with
   | none => true
   | some t => !(t ∈ plan) && (ancSet h [t]).all (fun a => !(a ∈ plan)))

/-! ## C03: the version table holds the heads of the applied set -/

/-- the applied revisions no other applied revision builds on -/
def maximal (h : Hist) (applied : List Id) : List Id :=
  applied.filter (fun r => !((children h r).any (· ∈ applied)))

def rowsOk (h : Hist) (applied rows : List Id) : Bool :=
  nodupB rows && sameSet rows (maximal h applied)

/-- no row is implied by another row -/
def antichain (h : Hist) (rows : List Id) : Bool :=
  nodupB rows && rows.all (fun r => !(rows.any (fun s => s != r && r ∈ ancSet h [s])))

/-! ## C05: stamp -/

/-- `x` shares lineage with `r`: ancestor or descendant, directly or through dependencies -/
def lineage (h : Hist) (r : Id) (x : Id) : Bool := x ∈ ancSet h [r] || x ∈ descSet h [r]

/-- rows after stamping the destinations `dests` (`[]` = base) -/
def stampOk (h : Hist) (rows dests rows' : List Id) : Bool :=
  if dests.isEmpty then rows'.isEmpty
  else
    let keep := rows.filter (fun x => !(dests.any (fun d => lineage h d x)))
    nodupB rows' && sameSet rows' (keep ++ dests.filter (· ∉ keep)) && antichain h rows'

/-! ## C15: cycles, heads and bases -/

/-- some revision is its own proper ancestor through down-revisions and dependencies -/
def hasCycle (h : Hist) : Bool := (ids h).any (fun i => (parents h i).any (fun p => i ∈ ancSet h [p]))
def hasDownCycle (h : Hist) : Bool := (ids h).any (fun i => (downParents h i).any (fun p => i ∈ downAncSet h [p]))

def headsOf (h : Hist) : List Id := (ids h).filter (fun i => (downChildren h i).isEmpty)
def realHeadsOf (h : Hist) : List Id := (ids h).filter (fun i => (children h i).isEmpty)
def basesOf (h : Hist) : List Id := (ids h).filter (fun i => (downParents h i).isEmpty)
def realBasesOf (h : Hist) : List Id := (ids h).filter (fun i => (parents h i).isEmpty)

end Spec.Rev

namespace Spec.Rev
open Model.Rev

/-! ## reference meaning of the absolute target forms (documentation) -/

/-- the revision a branch name denotes: the revision carrying the label, or a revision id, or
    (docs/build/branches.rst: `ae10@head`) the one revision whose id starts with the name;
    `none` when no or several ids start with it -/
def branchRev (h : Hist) (b : String) : Option Id :=
  match h.find? (fun r => b ∈ r.labels) with
  | some r => some r.id
  | none =>
    if b ∈ ids h then some b
    else if b == "" then none
    else match (ids h).filter (fun i => i.startsWith b) with
      | [r] => some r
      | _ => none

/-- same branch (down-revision lineage): ancestor or descendant through down-revisions -/
def downLineage (h : Hist) (r x : Id) : Bool := x ∈ downAncSet h [r] || x ∈ downDescSet h [r]

/-- `heads`, `head`, `base`, a full revision id, `<branch>@head(s)`, `<branch>@<id>`;
    `none` = this reference does not define the form (relative and partial identifiers) -/
def refTargets (h : Hist) (ident : String) : Option (List Id) :=
  match ident.splitOn "@" with
  | [x] =>
    if x == "heads" then some (realHeadsOf h)
    else if x == "base" then some []
    else if x == "head" then (match headsOf h with | [] => some [] | [a] => some [a] | _ => none)
    else if x ∈ ids h then some [x] else none
  | [b, x] =>
    match branchRev h b with
    | none => none
    | some br =>
      if x == "heads" then some ((headsOf h).filter (downLineage h br))
      else if x == "head" then
        (match (headsOf h).filter (downLineage h br) with | [] => some [] | [a] => some [a] | _ => none)
      else if x == "base" then some []
      else if x ∈ ids h && downLineage h br x then some [x] else none
  | _ => none

end Spec.Rev

namespace Spec.Rev
open Model.Rev

/-- a downgrade request must be refused: nothing would be removed although the database is
    not at the target -/
def mustRefuse (h : Hist) (rows : List Id) (target : Option Id) (branch : Option Id) : Bool :=
  match target with
  | none => false
  | some t =>
    let applied := ancSet h rows
    ((descSet h (downgradeRoots h target branch)).filter (· ∈ applied)).isEmpty && !(t ∈ rows)

/-- C03 along a plan: `applied` evolves by the steps; after each step the table must hold
    exactly the maximal applied revisions -/
def traceOk (h : Hist) : List Id → List (Id × Bool) → List (List Id) → Bool
  | _, [], [] => true
  | applied, (r, up) :: steps, rows :: rest =>
    let applied' := if up then (if r ∈ applied then applied else r :: applied) else applied.filter (· != r)
    rowsOk h applied' rows && traceOk h applied' steps rest
  | _, _, _ => false

end Spec.Rev

namespace Spec.Rev
open Model.Rev

/-! ## C16: what identifiers may resolve to -/

/-- `r` is the only revision whose id starts with `p` -/
def uniquePrefix (h : Hist) (p : String) (r : Id) : Bool :=
  r.startsWith p && (ids h).all (fun i => !(i.startsWith p) || i == r)

/-- a plain identifier (no `@`, no offset, not symbolic) may resolve to `r` only if it is `r`'s
    full id, the branch label `r` carries, or a prefix of `r`'s id and of no other revision id -/
def plainResolveOk (h : Hist) (ident : String) (r : Id) : Bool :=
  r ∈ ids h && (ident == r || ((revOf h r).map (fun x => decide (ident ∈ x.labels))).getD false || uniquePrefix h ident r)

/-- there is a chain of exactly `n` down-revision links from `r` down to `a` (`a = none`: base,
    i.e. the chain ends at a revision without down-revision after `n - 1` links) -/
def stepsDown (h : Hist) : Nat → Id → Option Id → Bool
  | 0, r, some a => r == a
  | 0, _, none => false
  | n + 1, r, a =>
    (match a with | none => n == 0 && (downParents h r).isEmpty | some _ => false) ||
    (downParents h r).any (fun p => stepsDown h n p a)

end Spec.Rev

namespace Spec.Rev
open Model.Rev

/-- `<branch>@<partial id>` may resolve to `r` only if `r` is on the branch, its id starts with
    the partial id, and no other revision of the branch (with an id of four or more characters:
    shorter ids are the separate known finding F13) does -/
def branchPrefixOk (h : Hist) (branch : String) (p : String) (r : Id) : Bool :=
  match branchRev h branch with
  | none => true
  | some br =>
    r ∈ ids h && downLineage h br r &&
    (p == r || ((revOf h r).map (fun x => decide (p ∈ x.labels))).getD false || (r.startsWith p &&
      (ids h).all (fun y => !(y.startsWith p) || y.length ≤ 3 || !(downLineage h br y) || y == r)))

end Spec.Rev

namespace Spec.Rev
open Model.Rev

/-- where a relative upgrade target without an explicit revision (`+N`, `label@+N`) starts
counting: the current rows (`none` = base when there is none); with a branch label the rows on
that branch and, when no row is on it, the tips of (applied revisions ∩ the branch's lineage).
`none` when the label names no branch. -/
def relUpStarts (h : Hist) (rows : List Id) (label : Option String) : Option (List (Option Id)) :=
  match label with
  | none => some (if rows.isEmpty then [none] else rows.map some)
  | some l =>
    match branchRev h l with
    | none => none
    | some br =>
      let onBranch := rows.filter (downLineage h br)
      if !onBranch.isEmpty then some (onBranch.map some)
      else
        let act := (ancSet h rows).filter (downLineage h br)
        let tips := act.filter (fun x => act.all (fun y => !(decide (x ∈ parents h y))))
        some (if tips.isEmpty then [none] else tips.map some)

/-- `+N` / `label@+N` may resolve to `r` only when there is exactly one place to start from and
`r` lies exactly `n` down-revision links above it -/
def relUpOk (h : Hist) (rows : List Id) (label : Option String) (n : Nat) (r : Id) : Option Bool :=
  match relUpStarts h rows label with
  | none => none
  | some [none] =>
    -- counting from the empty state: there must be exactly one root to start on - a revision without
    -- `down_revision` (one that carries `depends_on` counts), on the named branch when one is named
    -- (`C16.rel_up_empty` proves this of the model for the unlabelled form)
    let roots := match label with
      | none => basesOf h
      | some l => match branchRev h l with
        | some br => (basesOf h).filter (downLineage h br)
        | none => []
    some (roots.length == 1 && stepsDown h n r none)
  | some [s] => some (stepsDown h n r s)
  | some _ => some false

end Spec.Rev

namespace Spec.Rev
open Model.Rev

/-- `-N` / `label@-N` given to `get_revisions`: every answer lies exactly `n` down-revision
    links below a head of the history (a head carrying the label when one is named); `none` =
    the answer "base" -/
def belowHeadsOk (h : Hist) (label : Option String) (n : Nat) (results : List (Option Id)) : Bool :=
  let hs := realHeadsOf h
  results.all (fun r => hs.any (fun hd => stepsDown h n hd r))

end Spec.Rev
