import Model.Ident.Constructs
/-!
# What C14 means: a per-dialect SQL lexer and the token shape of every statement

Written against the emitted *text* only.  `lex k` is a one-pass state machine over the
characters (delimited identifier with doubled close delimiter, bare word, number, string literal
with doubled `'` (and backslash escapes on MySQL/MariaDB), punctuation).  `shape k c` is the token
shape the target database's grammar gives to the statement requested by `c`: fixed/opaque text,
*references* (a maximal dotted chain of identifier tokens that is exactly the schema's identifiers
- see `schemaPartsOf`: a plain dotted `str` is multi-part, any `quoted_name` is one identifier -
followed by the requested names), and string literals (exact content, or content that is itself SQL of a given shape).
`stmtOk` = "the emitted text tokenises into exactly that shape".
-/
namespace Spec.Ident
open Model.Ident

inductive Tok
  | word (w : Str)   -- bare word (keyword or unquoted identifier)
  | num (w : Str)
  | qid (n : Str)    -- delimited identifier, content unescaped
  | str (s : Str)    -- string literal, content unescaped
  | sym (c : Char)
  | bad              -- unterminated delimited identifier / string literal
  deriving DecidableEq, Repr

inductive St
  | none
  | word (a : Str)
  | num (a : Str)
  | qid (a : Str)    -- inside a delimited identifier
  | qidC (a : Str)   -- just saw the close delimiter (a second one would be an escaped delimiter)
  | str (a : Str)    -- inside a string literal
  | strQ (a : Str)   -- just saw `'` inside a literal
  | strB (a : Str)   -- just saw a backslash inside a literal (MySQL/MariaDB)
  deriving DecidableEq, Repr

def isSpace (c : Char) : Bool := isPySpace c

def isWordChar (c : Char) : Bool :=
  c.isAlphanum || c == '_' || c == '$' || c == '@' || c == '#' || (c.val ≥ 128 && !isSpace c)

/-- Oracle does not allow `_` as the first character of a bare identifier. -/
def isWordStart (k : Kind) (c : Char) : Bool :=
  c.isAlpha || (c == '_' && k != .oracle) || c == '@' || c == '#' || (c.val ≥ 128 && !isSpace c)

def backslashEscapes : Kind → Bool
  | .mysql => true
  | .mariadb => true
  | _ => false

/-- first character of a token -/
def stepNone (k : Kind) (c : Char) : St × List Tok :=
  if isWordStart k c then (.word [c], [])
  else if c.isDigit then (.num [c], [])
  else if isSpace c then (.none, [])
  else if c == openQ k then (.qid [], [])
  else if c == '\'' then (.str [], [])
  else (.none, [.sym c])

def step (k : Kind) : St → Char → St × List Tok
  | .none, c => stepNone k c
  | .word a, c =>
    if isWordChar c then (.word (a ++ [c]), [])
    else ((stepNone k c).1, .word a :: (stepNone k c).2)
  | .num a, c =>
    if isWordChar c then (.num (a ++ [c]), [])
    else ((stepNone k c).1, .num a :: (stepNone k c).2)
  | .qid a, c => if c == closeQ k then (.qidC a, []) else (.qid (a ++ [c]), [])
  | .qidC a, c =>
    if c == closeQ k then (.qid (a ++ [c]), [])
    else ((stepNone k c).1, .qid a :: (stepNone k c).2)
  | .str a, c =>
    if c == '\'' then (.strQ a, [])
    else if backslashEscapes k && c == '\\' then (.strB a, [])
    else (.str (a ++ [c]), [])
  | .strQ a, c =>
    if c == '\'' then (.str (a ++ [c]), [])
    else ((stepNone k c).1, .str a :: (stepNone k c).2)
  | .strB a, c => (.str (a ++ [c]), [])

/-- end of input -/
def flush : St → List Tok
  | .none => []
  | .word a => [.word a]
  | .num a => [.num a]
  | .qid _ => [.bad]
  | .qidC a => [.qid a]
  | .str _ => [.bad]
  | .strQ a => [.str a]
  | .strB _ => [.bad]

def lexFrom (k : Kind) : St → Str → List Tok
  | st, [] => flush st
  | st, c :: cs => (step k st c).2 ++ lexFrom k (step k st c).1 cs

/-- the dialect's lexer -/
def lex (k : Kind) (s : Str) : List Tok := lexFrom k .none s

/-! ## identifiers denoted by tokens -/

/-- A bare word is read back as the same name only if it is not a reserved word and case
    folding cannot change it (non-ASCII letters other than U+0130/U+212A are taken to denote
    themselves). -/
def bareSafe (reserved : Str → Bool) (w : Str) : Bool :=
  !reserved w && w.all (fun c => !(c.isUpper || c == '\u0130' || c == '\u212a'))

/-- the name an identifier token denotes -/
def denote (reserved : Str → Bool) : Tok → Option Str
  | .qid n => some n
  | .word w => if bareSafe reserved w then some w else none
  | _ => none

/-- a maximal dotted chain `i1 . i2 . … . im` of identifier tokens: the denoted names and the rest -/
def chain (reserved : Str → Bool) : List Tok → Option (List Str × List Tok)
  | [] => none
  | t :: rest =>
    match denote reserved t with
    | none => none
    | some d =>
      match rest with
      | .sym '.' :: rest' =>
        match chain reserved rest' with
        | some (ds, out) => some (d :: ds, out)
        | none => none
      | _ => some ([d], rest)

/-- **What the kind of a schema argument means.**  A plain `str` containing dots is a multi-part qualifier
    by design (`database.owner`): one identifier per dot-separated part.  Any `quoted_name` (whatever its
    `quote` flag; SQLAlchemy stores every `Table.schema` as `quoted_name(value, quote=None)`) is ONE identifier,
    dots included.  (`quote=False` is the caller's assertion that the text needs no quoting.) -/
def schemaPartsOf : Option Name → List Str
  | none => []
  | some n => if n.s.isEmpty then [] else if n.qn.isSome then [n.s] else splitDot n.s

/-- the chain `ds` is exactly the schema's identifiers followed by `names` -/
def refOk (parts : List Str) (names : List Str) (ds : List Str) : Bool := ds == parts ++ names

/-- weaker reading used only for statements compiled by SQLAlchemy's own constructs (`mentionsRef`): the chain
    ends with `names` and what precedes, joined by ".", spells the schema (present iff a schema was given) -/
def refOkJoin (schema : Option Str) (names : List Str) (ds : List Str) : Bool :=
  names.length ≤ ds.length &&
  ds.drop (ds.length - names.length) == names &&
  (match schema with
   | none => ds.length == names.length
   | some s => names.length < ds.length && joinDot (ds.take (ds.length - names.length)) == s)

inductive Item0
  | text (t : Str)                                -- exactly the tokens of this text
  | ref (schema : List Str) (names : List Str)    -- schema identifiers . name [. name …]
  deriving Repr

inductive Item
  | base (i : Item0)
  | strIs (s : Str)            -- a string literal with exactly this content
  | strSql (is : List Item0)   -- a string literal whose content is SQL of this shape
  deriving Repr

section
variable (k : Kind) (reserved : Str → Bool)

def dropPrefix? : List Tok → List Tok → Option (List Tok)
  | [], ts => some ts
  | _ :: _, [] => none
  | e :: es, t :: ts => if e == t then dropPrefix? es ts else none

def match0 : List Item0 → List Tok → Option (List Tok)
  | [], ts => some ts
  | .text t :: is, ts =>
    match dropPrefix? (lex k t) ts with
    | some out => match0 is out
    | none => none
  | .ref s ns :: is, ts =>
    match chain reserved ts with
    | some (ds, out) => if refOk s ns ds then match0 is out else none
    | none => none

def matchItems : List Item → List Tok → Option (List Tok)
  | [], ts => some ts
  | .base i :: is, ts =>
    match match0 k reserved [i] ts with
    | some out => matchItems is out
    | none => none
  | .strIs s :: is, .str c :: ts => if c == s then matchItems is ts else none
  | .strSql inner :: is, .str c :: ts =>
    if match0 k reserved inner (lex k c) == some [] then matchItems is ts else none
  | _ :: _, _ => none

/-- the compiled statement `s` tokenises into exactly `items` -/
def stmtOk (items : List Item) (s : Str) : Bool := matchItems k reserved items (lex k s) == some []

/-- the same for the text written in `--sql` mode (statement + command terminator) -/
def emittedOk (items : List Item) (s : Str) : Bool :=
  matchItems k reserved items (lex k s) == some (lex k (terminator k))

end

/-! ## the statement shapes -/

def schemaOf (g : Tgt) : Option Str :=
  match g.schema with
  | some n => if n.s.isEmpty then none else some n.s
  | none => none

def schemaParts (g : Tgt) : List Str := schemaPartsOf g.schema

def T (s : String) : Item := .base (.text s.toList)
def TX (s : Str) : Item := .base (.text s)
def tableRef (g : Tgt) : Item := .base (.ref (schemaParts g) [g.t.s])
def nameRef (n : Name) : Item := .base (.ref [] [n.s])
def optText (pre : String) : Option Str → List Item
  | some d => [T pre, TX d]
  | none => []

/-- `schema.table` as it must appear inside `object_id('…')` -/
def objectIdArg (g : Tgt) : Str :=
  match schemaOf g with
  | some s => s ++ '.' :: g.t.s
  | none => g.t.s

def mssqlDropTailShape (pfx : String) (g : Tgt) (col : Str) : List Item :=
  [T ("where " ++ pfx ++ "parent_object_id = object_id("), .strIs (objectIdArg g),
   T (") and col_name(" ++ pfx ++ "parent_object_id, " ++ pfx ++ "parent_column_id) ="), .strIs col,
   T "exec(", .strSql [.text "alter table".toList, .ref (schemaParts g) [g.t.s], .text "drop constraint".toList],
   T "+ @const_name)"]

/-- The token shape of the statement that `c` requests on dialect `k`, following the target
    database's grammar (`none`: Alembic has no such statement on that dialect). -/
def shape (k : Kind) : Construct → Option (List Item)
  | .renameTable g new =>
    match k with
    | .mssql => some [T "EXEC sp_rename", .strSql [.ref (schemaParts g) [g.t.s]], T ",", nameRef new]
    | .mysql | .mariadb =>   -- MySQL: an unqualified new name would move the table to the default database
      some [T "ALTER TABLE", tableRef g, T "RENAME TO", tableRef { g with t := new }]
    | _ => some [T "ALTER TABLE", tableRef g, T "RENAME TO", nameRef new]
  | .addColumn g col spec =>
    match k with
    | .mssql | .oracle => some [T "ALTER TABLE", tableRef g, T "ADD", nameRef col, TX spec]
    | _ => some [T "ALTER TABLE", tableRef g, T "ADD COLUMN", nameRef col, TX spec]
  | .dropColumn g col => some [T "ALTER TABLE", tableRef g, T "DROP COLUMN", nameRef col]
  | .columnNullable g col nullable ety =>
    match k with
    | .mysql | .mariadb => none
    | .mssql => some [T "ALTER TABLE", tableRef g, T "ALTER COLUMN", nameRef col, TX ety,
                      T (if nullable then "NULL" else "NOT NULL")]
    | .oracle => some [T "ALTER TABLE", tableRef g, T "MODIFY", nameRef col, T (if nullable then "NULL" else "NOT NULL")]
    | _ => some [T "ALTER TABLE", tableRef g, T "ALTER COLUMN", nameRef col,
                 T (if nullable then "DROP NOT NULL" else "SET NOT NULL")]
  | .columnType g col ty usng =>
    match k with
    | .mysql | .mariadb => none
    | .mssql => some [T "ALTER TABLE", tableRef g, T "ALTER COLUMN", nameRef col, TX ty]
    | .oracle => some [T "ALTER TABLE", tableRef g, T "MODIFY", nameRef col, TX ty]
    | .postgresql =>
      some ([T "ALTER TABLE", tableRef g, T "ALTER COLUMN", nameRef col, T "TYPE", TX ty] ++
            (match usng with
             | some u => if u.isEmpty then [] else [T "USING", TX u]
             | none => []))
    | .sqlite => some [T "ALTER TABLE", tableRef g, T "ALTER COLUMN", nameRef col, T "TYPE", TX ty]
  | .columnName g col new =>
    match k with
    | .mysql | .mariadb => none
    | .mssql => some [T "EXEC sp_rename", .strSql [.ref (schemaParts g) [g.t.s, col.s]], T ",", nameRef new,
                      T ",", .strIs "COLUMN".toList]
    | .postgresql => some [T "ALTER TABLE", tableRef g, T "RENAME", nameRef col, T "TO", nameRef new]
    | _ => some [T "ALTER TABLE", tableRef g, T "RENAME COLUMN", nameRef col, T "TO", nameRef new]
  | .columnDefault g col default =>
    match k with
    | .mysql | .mariadb => none
    | .mssql =>
      match default with
      | some d => some [T "ALTER TABLE", tableRef g, T "ADD DEFAULT", TX d, T "FOR", nameRef col]
      | none => none
    | .oracle => some ([T "ALTER TABLE", tableRef g, T "MODIFY", nameRef col, T "DEFAULT"] ++
                       [match default with | some d => TX d | none => T "NULL"])
    | _ => some ([T "ALTER TABLE", tableRef g, T "ALTER COLUMN", nameRef col] ++
                 (match default with | some d => [T "SET DEFAULT", TX d] | none => [T "DROP DEFAULT"]))
  | .columnComment g col comment =>
    match k with
    | .postgresql =>
      some [T "COMMENT ON COLUMN", .base (.ref (schemaParts g) [g.t.s, col.s]), T "IS",
            match comment with | some c => TX c | none => T "NULL"]
    | .oracle =>
      some [T "COMMENT ON COLUMN", .base (.ref (schemaParts g) [g.t.s, col.s]), T "IS",
            match comment with | some c => TX c | none => T "''"]
    | _ => none
  | .identity g col tail =>
    match k with
    | .postgresql => some [T "ALTER TABLE", tableRef g, T "ALTER COLUMN", nameRef col, TX tail]
    | .oracle => some [T "ALTER TABLE", tableRef g, T "MODIFY", nameRef col, TX tail]
    | _ => none
  | .mysqlAlterDefault g col default =>
    match k with
    | .mysql | .mariadb =>
      some ([T "ALTER TABLE", tableRef g, T "ALTER COLUMN", nameRef col] ++
            (match default with | some d => [T "SET DEFAULT", TX d] | none => [T "DROP DEFAULT"]))
    | _ => none
  | .mysqlModify g col cs =>
    match k with
    | .mysql | .mariadb =>
      some ([T "ALTER TABLE", tableRef g, T "MODIFY", nameRef col, TX cs.ty,
             T (if cs.nullable then "NULL" else "NOT NULL")] ++ (if cs.autoinc then [T "AUTO_INCREMENT"] else []) ++
            optText "DEFAULT" cs.default ++ optText "COMMENT" cs.comment)
    | _ => none
  | .mysqlChange g col new cs =>
    match k with
    | .mysql | .mariadb =>
      some ([T "ALTER TABLE", tableRef g, T "CHANGE", nameRef col, nameRef new, TX cs.ty,
             T (if cs.nullable then "NULL" else "NOT NULL")] ++ (if cs.autoinc then [T "AUTO_INCREMENT"] else []) ++
            optText "DEFAULT" cs.default ++ optText "COMMENT" cs.comment)
    | _ => none
  | .mysqlDropConstraint g cname kind =>
    match k, kind with
    | .mysql, .check => some [T "ALTER TABLE", tableRef g, T "DROP CHECK", nameRef cname]
    | .mariadb, .check => some [T "ALTER TABLE", tableRef g, T "DROP CONSTRAINT", nameRef cname]
    | .mysql, .fk | .mariadb, .fk => some [T "ALTER TABLE", tableRef g, T "DROP FOREIGN KEY", nameRef cname]
    | .mysql, .unique | .mariadb, .unique => some [T "ALTER TABLE", tableRef g, T "DROP INDEX", nameRef cname]
    | .mysql, .pk | .mariadb, .pk => some [T "ALTER TABLE", tableRef g, T "DROP PRIMARY KEY"]
    | _, _ => none
  | .mssqlDropConstraint g col type_ =>
    match k with
    | .mssql =>
      some ([T "declare @const_name varchar(256) select @const_name = QUOTENAME([name]) from", TX type_] ++
            mssqlDropTailShape "" g col)
    | _ => none
  | .mssqlDropFK g col =>
    match k with
    | .mssql =>
      some ([T ("declare @const_name varchar(256) select @const_name = QUOTENAME([name]) from " ++
                "sys.foreign_keys fk join sys.foreign_key_columns fkc on fk.object_id=fkc.constraint_object_id")] ++
            mssqlDropTailShape "fkc." g col)
    | _ => none

/-- the names a construct mentions as identifiers, in the object form the operation was given -/
def identNames : Construct → List Name
  | .renameTable g n => [g.t, n] ++ g.schema.toList
  | .addColumn g c _ => [g.t, c] ++ g.schema.toList
  | .dropColumn g c => [g.t, c] ++ g.schema.toList
  | .columnNullable g c _ _ => [g.t, c] ++ g.schema.toList
  | .columnType g c _ _ => [g.t, c] ++ g.schema.toList
  | .columnName g c n => [g.t, c, n] ++ g.schema.toList
  | .columnDefault g c _ => [g.t, c] ++ g.schema.toList
  | .columnComment g c _ => [g.t, c] ++ g.schema.toList
  | .identity g c _ => [g.t, c] ++ g.schema.toList
  | .mysqlAlterDefault g c _ => [g.t, c] ++ g.schema.toList
  | .mysqlModify g c _ => [g.t, c] ++ g.schema.toList
  | .mysqlChange g c n _ => [g.t, c, n] ++ g.schema.toList
  | .mysqlDropConstraint g n kind => (if kind == .pk then [g.t] else [g.t, n]) ++ g.schema.toList
  | .mssqlDropConstraint g _ _ => [g.t] ++ g.schema.toList
  | .mssqlDropFK g _ => [g.t] ++ g.schema.toList

/-- the tokens of a statement together with the tokens of the SQL inside its string literals -/
def toksDeep (k : Kind) (ts : List Tok) : List Tok :=
  ts ++ ts.flatMap (fun t => match t with | .str c => lex k c | _ => [])

/-- **`quoted_name(…, quote=True)` means: this exact spelling, delimited.**  (On a case-folding database the bare
    word `users` and the delimited `"users"` are different names.)  Every name the operation passed in that form
    must occur as a *delimited* identifier token. -/
def forcedQuoted (k : Kind) (c : Construct) (emitted : Str) : Bool :=
  (identNames c).all (fun n =>
    match n.qn with
    | some (some true) => n.s.isEmpty || (toksDeep k (lex k emitted)).contains (.qid n.s)
    | _ => true)

/-- C14 for one requested construct and the text Alembic wrote for it: the statement has exactly the requested
    shape (identifier chains per the object forms, see `schemaPartsOf`) and names forced to be quoted are delimited -/
def c14Ok (k : Kind) (reserved : Str → Bool) (c : Construct) (emitted : Str) : Bool :=
  match shape k c with
  | some items => emittedOk k reserved items emitted && forcedQuoted k c emitted
  | none => false

/-- Weaker oracle for statements compiled by SQLAlchemy's own constructs on behalf of an Alembic operation
    (CREATE INDEX, ADD CONSTRAINT, INSERT, SET IDENTITY_INSERT …): somewhere in the statement there is a
    maximal dotted chain of identifier tokens that names `schema . names` (schema present iff given),
    and the text is lexically complete.  `prevDot`: the previous token was a dot (not a chain start). -/
def mentionsFrom (reserved : Str → Bool) (schema : Option Str) (names : List Str) : Bool → List Tok → Bool
  | _, [] => false
  | prevDot, t :: rest =>
    (!prevDot &&
      (match chain reserved (t :: rest) with
       | some (ds, _) => refOkJoin schema names ds
       | none => false)) ||
    mentionsFrom reserved schema names (t == .sym '.') rest

def mentionsRef (k : Kind) (reserved : Str → Bool) (schema : Option Str) (names : List Str) (s : Str) : Bool :=
  !(lex k s).contains .bad && mentionsFrom reserved schema names false (lex k s)

/-- texts the theorems treat as opaque must be lexically complete: non-empty, no tab, no
    leading/trailing blank, and the lexer ends outside any literal / delimited identifier -/
def cleanSt : St → Bool
  | .none => true
  | .word _ => true
  | .num _ => true
  | .qidC _ => true
  | .strQ _ => true
  | _ => false

def runSt (k : Kind) : St → Str → St
  | st, [] => st
  | st, c :: cs => runSt k (step k st c).1 cs

def okText (k : Kind) (t : Str) : Bool :=
  !t.isEmpty && !t.contains '\t' && cleanSt (runSt k .none t) &&
  (match t with | c :: _ => !isSpace c | [] => false) &&
  (match t.reverse with | c :: _ => !isSpace c | [] => false) &&
  (match lex k t with | tok :: _ => tok != .sym '.' | [] => false)

end Spec.Ident
