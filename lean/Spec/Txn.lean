import Model.Txn.Offline
import Model.Txn.Configure
/-!
# Specification of correct transaction framing of an offline script (C18)

Written against the token vocabulary only; does not look at how the script was produced.
-/
namespace Spec.Txn
open Model.Txn

/-- Scan with the state "inside a BEGIN…COMMIT block".  `none` = ill-framed. -/
def frameStep : Bool → List Tok → Option Bool
  | b, [] => some b
  | false, .begin :: r => frameStep true r
  | true, .begin :: _ => none                 -- nested BEGIN
  | true, .commit :: r => frameStep false r
  | false, .commit :: _ => none               -- COMMIT without BEGIN
  | false, .auto _ :: r => frameStep false r  -- autocommit statements are outside any block
  | true, .auto _ :: _ => none
  | b, .dropVT :: r => frameStep b r          -- the final DROP is emitted after the per-step blocks
  | true, _ :: r => frameStep true r          -- createVT / running / stmt / version: inside a block
  | false, _ :: _ => none

/-- Every BEGIN is closed by exactly one COMMIT, no nesting, ordinary statements inside
    a block, autocommit statements outside. -/
def framed (l : List Tok) : Bool := frameStep false l == some false

def isMarker : Tok → Bool
  | .begin => true
  | .commit => true
  | _ => false

def noMarkers (l : List Tok) : Bool := l.all (fun t => !isMarker t)

def migIdx : Tok → Option Nat
  | .running i => some i
  | .stmt i => some i
  | .auto i => some i
  | .version i => some i
  | _ => none

/-- Scan that remembers which migration the current block belongs to (`none` = no
    migration-indexed token seen in this block yet); `none` result = two migrations in one block. -/
def blockStep : Option Nat → List Tok → Option (Option Nat)
  | cur, [] => some cur
  | _, .begin :: r => blockStep none r
  | cur, t :: r =>
    match migIdx t, cur with
    | some i, some j => if i == j then blockStep cur r else none
    | some i, none => blockStep (some i) r
    | none, _ => blockStep cur r

/-- No block contains tokens of two different migrations. -/
def oneMigPerBlock (l : List Tok) : Bool := (blockStep none l).isSome

def countBegin (l : List Tok) : Nat := (l.filter (· == Tok.begin)).length

def autoSections : List Seg → Nat
  | [] => 0
  | .auto _ :: r => autoSections r + 1
  | .plain _ :: r => autoSections r

def totalAuto : List Mig → Nat
  | [] => 0
  | m :: r => autoSections m.segs + totalAuto r

/-- The framing property of C18 for a script `out` produced for migrations `migs`. -/
def framingOk (c : Cfg) (migs : List Mig) (out : List Tok) : Bool :=
  if c.tddl then
    framed out &&
    (if c.perMig then
      -- one block per migration, split only at that migration's autocommit sections
      oneMigPerBlock out && countBegin out == migs.length + totalAuto migs
    else
      -- one enclosing block, split only at autocommit sections
      countBegin out == 1 + totalAuto migs)
  else
    noMarkers out

/-! ## balanced brackets: the begin / commit markers alone -/

/-- the subsequence of begin / commit markers of a script -/
def markers (l : List Tok) : List Tok := l.filter isMarker

/-- `k` blocks: `begin commit begin commit …` -/
def pairs : Nat → List Tok
  | 0 => []
  | k + 1 => Tok.begin :: Tok.commit :: pairs k

def countCommit (l : List Tok) : Nat := (l.filter (· == Tok.commit)).length

/-- every commit marker is preceded by its own begin marker and blocks never nest -/
def balanced (l : List Tok) : Prop := ∃ k, markers l = pairs k

def balancedB (l : List Tok) : Bool := markers l == pairs (countBegin l)

end Spec.Txn
