import Model.Py.Repr
/-!
# What a rendered string literal has to satisfy

The specification of "this text is a Python string literal denoting `s`" is the decoder
itself: `Denotes t s` holds when the literal parser accepts the whole of `t` and returns `s`.
The driver evaluates `denotesB` on the text the *implementation* produced (`repr()`, or a
renderer's output), and the parser is tied to the interpreter by the correspondence check
against `ast.literal_eval`.
-/
namespace Spec.Py
open Model.Py

def Denotes (t s : List Char) : Prop := pyParseStr t = some s

def denotesB (t s : List Char) : Bool := pyParseStr t == some s

theorem denotesB_iff (t s : List Char) : denotesB t s = true ↔ Denotes t s := by
  simp [denotesB, Denotes]

/-- names for which the naive `'%s'` embedding is harmless: no quote, no backslash, no line break, no NUL -/
def PlainName (s : List Char) : Prop := ∀ c ∈ s, plainChar c = true

def plainNameB (s : List Char) : Bool := plainStr s

theorem plainNameB_iff (s : List Char) : plainNameB s = true ↔ PlainName s := by
  simp [plainNameB, plainStr, PlainName]

end Spec.Py
