import Model.Offline.Run
/-!
# What "the offline script has the same effect as the online run" means (C12)

Written against database dumps only.  A dump is what the harness reads back from a SQLite
file: the whitespace-normalised `sqlite_master` rows (reading (ii) of DESIGN §6/C12), the
content of every table in `rowid` order, and the `alembic_version` rows (reading (i): the
rows are compared, the existence of an empty version table is not).
-/
namespace Spec.Offline

structure TableDump where
  name : String
  cols : List String
  rows : List (List String)
  deriving DecidableEq, Repr

structure Dump where
  /-- `(type, name, tbl_name, normalised sql)` of `sqlite_master`, version table excluded -/
  schema : List (List String)
  tables : List TableDump
  version : List String
  deriving DecidableEq, Repr

def sameSchema (a b : Dump) : Bool := a.schema.isPerm b.schema

def sameTable (x y : TableDump) : Bool := x.name == y.name && x.cols == y.cols && x.rows.isPerm y.rows

def findTable (d : Dump) (n : String) : Option TableDump := d.tables.find? (fun t => t.name == n)

/-- every table of `a` exists in `b` with the same columns and the same rows (as a multiset) -/
def tablesIn (a b : Dump) : Bool :=
  a.tables.all (fun t => match findTable b t.name with | some u => sameTable t u | none => false)

def sameData (a b : Dump) : Bool := tablesIn a b && tablesIn b a

def sameVersion (a b : Dump) : Bool := a.version.isPerm b.version

/-- the property: same schema, same inserted data, same version-table rows -/
def sameEffect (a b : Dump) : Bool := sameSchema a b && sameData a b && sameVersion a b

/-! ## the same notion on the abstract databases of the model -/
open Model.Offline

/-- same tables (columns and rows), same indexes, same uninterpreted statements, same version
    rows (an absent version table has no rows: reading (i)) -/
def sameDb (a b : DB) : Prop :=
  a.tables = b.tables ∧ a.indexes = b.indexes ∧ a.log = b.log ∧ a.version.getD [] = b.version.getD []

/-- outcome of a whole run: both raise, or both succeed with the same database -/
def sameOutcome : Option DB → Option DB → Prop
  | some a, some b => sameDb a b
  | none, none => True
  | _, _ => False

def sameDbB (a b : DB) : Bool :=
  a.tables == b.tables && a.indexes == b.indexes && a.log == b.log && a.version.getD [] == b.version.getD []

def sameOutcomeB : Option DB → Option DB → Bool
  | some a, some b => sameDbB a b
  | none, none => true
  | _, _ => false

theorem sameDbB_iff (a b : DB) : sameDbB a b = true ↔ sameDb a b := by
  simp [sameDbB, sameDb, and_assoc]

theorem sameOutcomeB_iff (a b : Option DB) : sameOutcomeB a b = true ↔ sameOutcome a b := by
  cases a <;> cases b <;> simp [sameOutcomeB, sameOutcome, sameDbB_iff]

end Spec.Offline
