import Model.Files.Walk
/-!
# Specification of C19: which files are revision files, which are in the configured
# locations, and what "loaded exactly once / duplicates reported" means

Written from the documented rules (changelog 0.8.9 "a file named `__init__.py` … is
ignored", 0.9.5 "files of the form `.#<name>.py` (Emacs lock files)", 0.9.6/0.6.4
"sourceless": `.pyc`/`.pyo` used only when the `.py` is not present; `__pycache__`
de-duplicated against the directory itself; `recursive_version_locations`), not from the
algorithm.  It only shares the vocabulary of the abstract filesystem (`FS`, `Dir`, `Forest`,
`Entry`), the plain string helpers and `Forest.preorder` ("all directories below").

Identity of files is the canonical (realpath) identity; a canonical file is judged by its own
real name and its own real directory.
-/
namespace Spec.Files
open Model.Files

/-- Emacs lock file `.#<name>` -/
def isLock (n : Name) : Bool := startsWith lockPrefix n

/-- the package marker: the module called exactly `__init__`
    (`__init__.py`, `__init__.pyc`, `__init__.cpython-312.pyc`, …) -/
def isInitModule (n : Name) : Bool := startsWith (initPrefix ++ ['.']) n

/-- The documented rule for a file *name* taken alone: every `.py` name (in sourceless mode also every
    `.pyc` / `.pyo` name) is the name of a revision file, except Emacs lock files `.#…` and the module
    `__init__`.  In particular names starting with `.`, `#`, `_`, a digit, … are revision file names. -/
def isRevName (sourceless : Bool) (n : Name) : Bool :=
  !isLock n && !isInitModule n &&
  (endsWith dotPy n || (sourceless && (endsWith dotPyc n || endsWith dotPyo n)))

/-- Is canonical file `n` a revision file under the documented rules?
    `.py` always; `.pyc` only in sourceless mode and when there is no `.py` next to it;
    `.pyo` only in sourceless mode and when there is neither `.py` nor `.pyc` next to it. -/
def isRevFile (fs : FS) (cfg : Cfg) (n : Nat) : Bool :=
  let f := fs.node n
  !isLock f.name && !isInitModule f.name &&
  (endsWith dotPy f.name ||
   (cfg.sourceless && endsWith dotPyc f.name && !fs.exists_ f.dir f.name.dropLast) ||
   (cfg.sourceless && endsWith dotPyo f.name && !fs.exists_ f.dir f.name.dropLast &&
      !fs.exists_ f.dir (f.name.dropLast ++ ['c'])))

/-- `d` lies (properly) below the forest `f` -/
inductive Forest.Has : Forest → Dir → Prop
  | here {n fs ch rest} : Forest.Has (.cons n fs ch rest) ⟨n, fs, ch⟩
  | inChildren {n fs ch rest d} : Forest.Has ch d → Forest.Has (.cons n fs ch rest) d
  | inRest {n fs ch rest d} : Forest.Has rest d → Forest.Has (.cons n fs ch rest) d

/-- The directories of a version location that the configuration says are searched:
    the location itself, and with `recursive_version_locations` every directory below it;
    directories that are byte-code caches (name ends in `__pycache__`) are never searched
    as directories. -/
inductive InScope (cfg : Cfg) (root : Dir) : Dir → Prop
  | root : isCacheDir root.name = false → InScope cfg root root
  | sub {d} : cfg.recursive = true → Forest.Has root.children d → isCacheDir d.name = false →
      InScope cfg root d

/-- A searched directory `d` offers canonical file `n`: through one of its own entries, or —
    in sourceless mode — through an entry of its `__pycache__` whose stem is not the stem of
    any of `d`'s own entries. -/
def Offers (cfg : Cfg) (d : Dir) (n : Nat) : Prop :=
  (∃ e ∈ d.files, e.node = n) ∨
  (cfg.sourceless = true ∧ ∃ c, d.sub? pycacheName = some c ∧
     ∃ e ∈ c.files, e.node = n ∧ ∀ f ∈ d.files, stem f.name ≠ stem e.name)

/-- canonical file `n` is present in the configured locations -/
def Reached (cfg : Cfg) (locs : List Dir) (n : Nat) : Prop :=
  ∃ root ∈ locs, ∃ d, InScope cfg root d ∧ Offers cfg d n

/-- **the files that must be loaded** -/
def Expected (fs : FS) (cfg : Cfg) (locs : List Dir) (n : Nat) : Prop :=
  Reached cfg locs n ∧ isRevFile fs cfg n = true

/-- the revision id a loadable file defines (`revision = …`, or the legacy "hex file name"
    rule for modules without the attribute); `none` = the file cannot be loaded -/
def definesId (fs : FS) (n : Nat) : Option Name :=
  match (fs.node n).content with
  | .rev id => some id
  | .noRev => legacyRev (fs.node n).name
  | .broken => none

/-- no version location is itself named like a byte-code cache (`…__pycache__`) -/
def RootsOk (locs : List Dir) : Prop := ∀ r ∈ locs, isCacheDir r.name = false

/-! ## computable twins (what the driver evaluates on the implementation's output) -/

def inScopeDirs (cfg : Cfg) (root : Dir) : List Dir :=
  (if isCacheDir root.name then [] else [root]) ++
  (if cfg.recursive then root.children.preorder.filter (fun d => !isCacheDir d.name) else [])

def offered (cfg : Cfg) (d : Dir) : List Nat :=
  d.files.map (·.node) ++
  (if cfg.sourceless then
    match d.sub? pycacheName with
    | none => []
    | some c => (c.files.filter (fun e => d.files.all (fun f => stem f.name != stem e.name))).map (·.node)
   else [])

def reachedNodes (cfg : Cfg) (locs : List Dir) : List Nat :=
  locs.flatMap (fun r => (inScopeDirs cfg r).flatMap (offered cfg))

def expectedNodes (fs : FS) (cfg : Cfg) (locs : List Dir) : List Nat :=
  ((reachedNodes cfg locs).filter (isRevFile fs cfg)).eraseDups

def rootsOk (locs : List Dir) : Bool := locs.all (fun r => !isCacheDir r.name)

/-- the ids defined by at least two *different* files among `nodes` -/
def clashingIds (fs : FS) (nodes : List Nat) : List Name :=
  (nodes.filterMap (fun n =>
    match definesId fs n with
    | some id => if nodes.any (fun m => m != n && definesId fs m == some id) then some id else none
    | none => none)).eraseDups

/-- no element occurs twice -/
def nodupB : List Nat → Bool
  | [] => true
  | x :: r => !r.contains x && nodupB r

def sameSet {α} [BEq α] (a b : List α) : Bool := a.all b.contains && b.all a.contains

/-- Verdict on a successful load reported by the implementation:
    `loaded` = (canonical file, revision id) of every script, `keys` = ids in the revision map,
    `dupWarn` = ids named by "present more than once" warnings. -/
structure Verdict where
  once : Bool        -- no canonical file loaded twice
  onlyExpected : Bool -- nothing but revision files of the configured locations
  allExpected : Bool  -- every revision file of the configured locations
  idsRight : Bool     -- each script carries the id its file defines
  keysRight : Bool    -- the map's ids are exactly the loaded ids
  dupReported : Bool  -- warnings name exactly the ids defined by two different files
deriving Repr

def judge (fs : FS) (cfg : Cfg) (locs : List Dir)
    (loaded : List (Nat × Name)) (keys dupWarn : List Name) : Verdict :=
  let nodes := loaded.map (·.1)
  let exp := expectedNodes fs cfg locs
  { once := nodupB nodes
    onlyExpected := nodes.all exp.contains
    allExpected := exp.all nodes.contains
    idsRight := loaded.all (fun (n, id) => definesId fs n == some id)
    keysRight := sameSet keys (loaded.map (·.2))
    dupReported := sameSet dupWarn (clashingIds fs nodes) }

def Verdict.holds (v : Verdict) : Bool :=
  v.once && v.onlyExpected && v.allExpected && v.idsRight && v.keysRight && v.dupReported

/-- Verdict on a load that raised: acceptable (a loud failure, nothing silently skipped)
    exactly when some file that must be loaded cannot be. -/
def errorJustified (fs : FS) (cfg : Cfg) (locs : List Dir) : Bool :=
  (expectedNodes fs cfg locs).any (fun n => (definesId fs n).isNone)

end Spec.Files
