import Model.Batch.Create
/-!
# What C10 / C11 mean, independent of how `ApplyBatchImpl` works

`specApply` is a reference interpreter: it applies each batch operation directly to an abstract
description of the table (no `column_transfers`, no constraint maps, no temp table) and records
what the property demands of the result:

* every column that no operation dropped survives, under its final name, with the definition the
  operations asked for, holding the values of its source column (converted if retyped);
* primary key, named constraints, foreign keys and indexes that no operation mentions (and that do not
  involve a dropped column) are required unchanged (up to column renames); requested additions are
  required, requested removals are required absent;
* surviving original columns keep their relative order; `insert_before`/`insert_after` are precedence
  requirements.

Unnamed UNIQUE / CHECK constraints are not in the property's list ("named constraint") and are not
demanded.  Column names in an operation resolve to the column's original name first, then to its
current name (an operation may follow a rename in the same batch).

`check10` / `check11` are the decidable checkers the driver runs on the implementation's own
before/after observation; they return the list of violated clauses (empty = holds).
-/
namespace Spec.Batch
open Model.Batch

structure SCol where
  col : ColDef
  /-- name in the original table (none for an added column) -/
  orig : Option String
  /-- (type token, type family) of every requested retype, oldest first -/
  retyped : List (String × String) := []
  deriving Repr

structure STable where
  cols : List SCol
  pk : Option Const
  pkTouched : Bool := false
  uniques : List Const
  checks : List Const
  fks : List Const
  indexes : List Index
  absentConsts : List String := []
  absentIndexes : List String := []
  /-- `(x, y)`: column `x` must come before column `y` -/
  precedes : List (String × String) := []
  /-- an added constraint / index named a column that does not exist: nothing is demanded of it -/
  unresolved : Bool := false
  /-- names of constraints / indexes that went away with a dropped column (dropping them afterwards is fine) -/
  implicitlyGone : List String := []
  /-- `partial_reordering` was given: the caller asked for an order, so "surviving columns keep their relative order"
      is not demanded; the consecutive pairs of the tuples are (as `precedes`) -/
  explicitOrder : Bool := false
  deriving Repr

def STable.ofSchema (s : Schema) (partialReordering : List (List String) := []) : STable :=
  { cols := s.cols.map (fun c => { col := c, orig := some c.name }),
    pk := s.pk, uniques := s.uniques, checks := s.checks, fks := s.fks, indexes := s.indexes,
    explicitOrder := !partialReordering.isEmpty,
    precedes := (partialReordering.map tuplePairs).flatten }

/-- current name of the column an operation calls `n`: original name first, then current name -/
def STable.resolve (t : STable) (n : String) : Option String :=
  match t.cols.find? (fun c => c.orig == some n) with
  | some c => some c.col.name
  | none => (t.cols.find? (fun c => c.col.name == n)).map (·.col.name)

def renameIn (old new : String) (l : List String) : List String := l.map (fun x => if x == old then new else x)

def STable.rename (t : STable) (old new : String) : STable :=
  let rc := fun (c : Const) => { c with cols := renameIn old new c.cols }
  { t with
    cols := t.cols.map (fun c => if c.col.name == old then { c with col := { c.col with name := new } } else c),
    pk := t.pk.map rc, uniques := t.uniques.map rc, checks := t.checks.map rc, fks := t.fks.map rc,
    indexes := t.indexes.map (fun i => { i with cols := renameIn old new i.cols }),
    precedes := t.precedes.map (fun p => ((if p.1 == old then new else p.1), (if p.2 == old then new else p.2))) }

def STable.mapCol (t : STable) (n : String) (f : SCol → SCol) : STable :=
  { t with cols := t.cols.map (fun c => if c.col.name == n then f c else c) }

inductive SErr where
  | undefined   -- the sequence names a column / constraint / index that does not exist
  | mustReject  -- add_column under the name of an existing column: no table satisfies both "added" and "untouched"
  deriving Repr, DecidableEq

def specOp (t : STable) : BatchOp → Except SErr STable
  | .addColumn c before after _ =>
    if t.cols.any (fun x => x.orig.isSome && (x.col.name == c.name || x.orig == some c.name)) then .error .mustReject
    else if t.cols.any (fun x => x.col.name == c.name) then .error .undefined
    else
      let t1 := { t with cols := t.cols ++ [{ col := { c with index := false }, orig := none }] }
      let t2 := match before.bind t.resolve with
        | some b => { t1 with precedes := t1.precedes ++ [(c.name, b)] }
        | none => t1
      let t3 := match after.bind t.resolve with
        | some a => { t2 with precedes := t2.precedes ++ [(a, c.name)] }
        | none => t2
      .ok (if c.index then { t3 with indexes := t3.indexes } else t3)
  | .dropColumn n =>
    match t.resolve n with
    | none => .error .undefined
    | some cur =>
      let keep := fun (c : Const) => !c.cols.contains cur
      .ok { t with
        cols := t.cols.filter (fun c => c.col.name != cur),
        pk := t.pk.map (fun p => { p with cols := p.cols.filter (· != cur) }),
        pkTouched := t.pkTouched || (match t.pk with
          | some p => p.cols.contains cur
          | none => false),
        uniques := t.uniques.filter keep,
        checks := t.checks.filter (fun c => !c.mentions.contains cur),
        fks := t.fks.filter keep,
        indexes := t.indexes.filter (fun i => !i.cols.contains cur && !i.whereMentions.contains cur),
        implicitlyGone := t.implicitlyGone ++
          ((t.uniques ++ t.fks).filter (fun c => c.cols.contains cur)).filterMap (·.name) ++
          (t.checks.filter (fun c => c.mentions.contains cur)).filterMap (·.name) ++
          (t.indexes.filter (fun i => i.cols.contains cur || i.whereMentions.contains cur)).map (·.name),
        precedes := t.precedes.filter (fun p => p.1 != cur && p.2 != cur) }
  | .alterColumn n newName newType nullable dflt =>
    match t.resolve n with
    | none => .error .undefined
    | some cur =>
      let t := match newType with
        | some (ty, aff) => t.mapCol cur (fun c => { c with col := { c.col with ty := ty, aff := aff }, retyped := c.retyped ++ [(ty, aff)] })
        | none => t
      let t := match nullable with
        | some b => t.mapCol cur (fun c => { c with col := { c.col with nullable := b } })
        | none => t
      let t := match dflt with
        | .keep => t
        | .drop => t.mapCol cur (fun c => { c with col := { c.col with default := none, dval := .null } })
        | .set d v => t.mapCol cur (fun c => { c with col := { c.col with default := some d, dval := v } })
      match newName with
      | some nn =>
        if nn == cur then .ok t
        else if t.cols.any (fun c => c.col.name == nn) then .error .undefined
        else .ok (t.rename cur nn)
      | none => .ok t
  | .addConstraint c =>
    match c.cols.mapM t.resolve with
    | none => .ok { t with unresolved := true }
    | some cols =>
      let c' := { c with cols := cols }
      match c.kind with
      | .pk => .ok { t with pk := some c', pkTouched := true }
      | .unique => .ok { t with uniques := t.uniques ++ [c'] }
      | .check => .ok { t with checks := t.checks ++ [c'] }
      | .fk => .ok { t with fks := t.fks ++ [c'] }
  | .dropConstraint n =>
    let named := fun (c : Const) => c.name == some n
    if (t.pk.any named) then .ok { t with pk := none, pkTouched := true, absentConsts := n :: t.absentConsts }
    else if t.uniques.any named || t.checks.any named || t.fks.any named then
      .ok { t with uniques := t.uniques.filter (!named ·), checks := t.checks.filter (!named ·),
                   fks := t.fks.filter (!named ·), absentConsts := n :: t.absentConsts }
    else if t.implicitlyGone.contains n then .ok { t with absentConsts := n :: t.absentConsts }
    else .error .undefined
  | .createIndex ix =>
    -- re-using the name of an index of the original table inside the same batch is outside the reference interpreter
    if t.indexes.any (·.name == ix.name) || t.implicitlyGone.contains ix.name || t.absentIndexes.contains ix.name then .error .undefined
    else match ix.cols.mapM t.resolve with
      | none => .ok { t with unresolved := true }
      | some cols => .ok { t with indexes := t.indexes ++ [{ ix with cols := cols }] }
  | .dropIndex n =>
    if t.indexes.any (·.name == n) then
      .ok { t with indexes := t.indexes.filter (·.name != n), absentIndexes := n :: t.absentIndexes }
    else if t.implicitlyGone.contains n then .ok { t with absentIndexes := n :: t.absentIndexes }
    else .error .undefined

  | .existingTypeConst n renames retypes drops =>
    -- the call names the schema type's CHECK through `existing_type`; when it renames, retypes or drops the column
    -- the constraint is mentioned by the operation (nothing is demanded of it); otherwise it is untouched
    if renames || retypes || drops then
      .ok { t with checks := t.checks.filter (fun c => c.name != some n), implicitlyGone := n :: t.implicitlyGone }
    else .ok t

  | .tableComment => .ok t

def specApply (t : STable) : List BatchOp → Except SErr STable
  | [] => .ok t
  | o :: r =>
    match specOp t o with
    | .error e => .error e
    | .ok t' => specApply t' r

/-! ## values -/

/-- The values a retyped cell may hold.  "Converted if its type was changed" is SQLite's conversion to the new type:
    * a change to another **type family** (the `aff` token: SQLAlchemy's `_type_affinity` of the old and the new type, part of
      the input, e.g. Numeric -> Integer, String -> Integer) must be SQLite's `CAST(old AS <new type>)`, stored into the new
      column — with its storage class: `3.7` becomes INTEGER `3`, not REAL `3.7` kept by a cast-free copy;
    * a change within one family (VARCHAR(20) -> TEXT, INTEGER -> BIGINT, FLOAT -> NUMERIC) or to JSON (text must be kept as it
      is) may also be the cast-free copy stored into the retyped column.
    Values are compared with their storage class (`int` / `real` / `text` / `blob`). -/
def allowedValues (ct : ConvTable) (c : SCol) (srcTy srcAff : String) (v : Value) : List Value :=
  if c.retyped.isEmpty && c.col.ty == srcTy then [v]
  else
    let chain := (c.retyped.foldl (fun (acc : List Value × String) (t : String × String) =>
        let casted := acc.1.map (convert ct t.1 true)
        if t.2 != acc.2 && t.2 != "JSON" then (casted, t.2)        -- another family: the CAST is mandatory
        else (acc.1 ++ casted, t.2)) ([v], srcAff)).1
    (if c.col.ty == srcTy then chain else []) ++ chain.map (convert ct c.col.ty false)

/-- columns whose values must be carried over: surviving original columns that are not generated (a generated
    column is recomputed by the database from the copied columns) -/
def carried (c : SCol) : Option String := if c.col.computed.isSome then none else c.orig

/-- for one original row: per carried column (in spec order) the allowed values -/
def expectedRow (ct : ConvTable) (before : Schema) (t : STable) (r : Row) : List (List Value) :=
  t.cols.filterMap (fun c => (carried c).map (fun o =>
    allowedValues ct c ((srcType before.cols o).getD "") (((before.cols.find? (·.name == o)).map (·.aff)).getD "")
      (cell before.cols r o)))

def actualRow (after : Schema) (t : STable) (r : Row) : Row :=
  t.cols.filterMap (fun c => (carried c).map (fun _ => cell after.cols r c.col.name))

def rowMatches (pat : List (List Value)) (r : Row) : Bool :=
  pat.length == r.length && (pat.zip r).all (fun p => p.1.contains p.2)

def removeFirstMatch (pat : List (List Value)) : List Row → Option (List Row)
  | [] => none
  | r :: rest => if rowMatches pat r then some rest else (removeFirstMatch pat rest).map (r :: ·)

/-- every expected row is matched by a distinct actual row (row-for-row, physical order free) -/
def rowsMatch : List (List (List Value)) → List Row → Bool
  | [], _ => true
  | p :: ps, rows =>
    match removeFirstMatch p rows with
    | some rest => rowsMatch ps rest
    | none => false

/-! ## schema -/

def constSame (a b : Const) : Bool := a.name == b.name && a.cols == b.cols && a.kind == b.kind

def hasConst (l : List Const) (c : Const) : Bool :=
  match c.kind with
  | .check => l.any (fun x => x.name == c.name && x.text == c.text)
  | .fk => l.any (fun x => x.name == c.name && x.cols == c.cols && x.rtable == c.rtable && x.rcols == c.rcols)
  | _ => l.any (fun x => x.name == c.name && x.cols == c.cols)

def colSame (want have_ : ColDef) : Bool :=
  want.ty == have_.ty && want.nullable == have_.nullable && want.default == have_.default &&
  want.computed == have_.computed && want.persisted == have_.persisted

/-- positions respect `x before y` -/
def precedesOk (names : List String) (p : String × String) : Bool :=
  match indexOf? p.1 names, indexOf? p.2 names with
  | some i, some j => i < j
  | _, _ => true

def isSubseq : List String → List String → Bool
  | [], _ => true
  | _ :: _, [] => false
  | x :: xs, y :: ys => if x == y then isSubseq xs ys else isSubseq (x :: xs) ys

def schemaReasons (t : STable) (after : Schema) : List String :=
  let names := after.cols.map (·.name)
  let want := t.cols.map (·.col.name)
  (if want.all names.contains && names.all want.contains then [] else
    ["schema: columns after the batch are " ++ toString names ++ ", expected " ++ toString want]) ++
  (t.cols.filterMap (fun c => match after.cols.find? (·.name == c.col.name) with
    | some h => if colSame c.col h then none else
        some ("schema: column " ++ c.col.name ++ " does not have the expected definition (type/nullable/default)")
    | none => none)) ++
  (if t.pkTouched then
     (match t.pk with
      | some p => if p.cols.isEmpty then [] else
          (match after.pk with
           | some q => if q.cols == p.cols && (p.name.isNone || q.name == p.name) then [] else ["schema: primary key is not the requested one"]
           | none => ["schema: requested primary key missing"])
      | none =>
        -- the named PRIMARY KEY was dropped by drop_constraint and no operation created another one: the new table
        -- must not have a primary key at all (a constraint named by drop_constraint is not in the new table)
        (match after.pk with
         | some q => if q.cols.isEmpty then [] else
             ["schema: dropped primary key still present: the table still has PRIMARY KEY " ++ toString q.cols]
         | none => []))
   else match t.pk, after.pk with
     | some p, some q => if p.cols == q.cols && p.name == q.name then [] else ["schema: untouched primary key changed"]
     | some p, none => if p.cols.isEmpty then [] else ["schema: untouched primary key lost"]
     | none, some _ => ["schema: primary key appeared"]
     | none, none => []) ++
  ((t.uniques.filter (·.name.isSome)).filterMap (fun c => if hasConst after.uniques c then none else
     some ("schema: named unique constraint " ++ c.name.getD "" ++ " missing or changed"))) ++
  ((t.checks.filter (·.name.isSome)).filterMap (fun c => if hasConst after.checks c then none else
     some ("schema: named check constraint " ++ c.name.getD "" ++ " missing or changed"))) ++
  (t.fks.filterMap (fun c => if hasConst after.fks c then none else
     some ("schema: foreign key " ++ c.name.getD "(unnamed)" ++ " on " ++ toString c.cols ++ " missing or changed"))) ++
  (t.indexes.filterMap (fun i => if after.indexes.any (fun x => x.name == i.name && x.cols == i.cols && x.unique == i.unique && x.where_ == i.where_) then none
     else some ("schema: index " ++ i.name ++ " missing or changed (columns / uniqueness / WHERE predicate)"))) ++
  (t.absentConsts.filterMap (fun n =>
     if (after.uniques ++ after.checks ++ after.fks ++ after.pk.toList).any (·.name == some n) then
       some ("schema: dropped constraint " ++ n ++ " still present") else none)) ++
  (t.absentIndexes.filterMap (fun n => if after.indexes.any (·.name == n) then some ("schema: dropped index " ++ n ++ " still present") else none))

def orderReasons (t : STable) (after : Schema) : List String :=
  let names := after.cols.map (·.name)
  let survivors := (t.cols.filter (·.orig.isSome)).map (·.col.name)
  (if t.explicitOrder || isSubseq survivors names then [] else ["order: surviving columns changed their relative order"]) ++
  (t.precedes.filterMap (fun p => if precedesOk names p then none else
     some ("order: " ++ p.1 ++ " should come before " ++ p.2)))

/-- C10 on one before/after observation of a batch that completed and recreated the table -/
def check10 (ct : ConvTable) (_table : String) (before : Tbl) (ops : List BatchOp) (after : Tbl)
    (tmpLike : List String) (partialReordering : List (List String) := []) : List String :=
  (if tmpLike.isEmpty then [] else ["no_tmp: temporary table left behind: " ++ toString tmpLike]) ++
  (if after.rows.length == before.rows.length then [] else ["rowcount: number of rows changed"]) ++
  (match specApply (STable.ofSchema before.schema partialReordering) ops with
   | .error .mustReject =>
     ["values: the batch adds a column under the name of an existing column and was accepted: the existing column's values are replaced"]
   | .error _ => []
   | .ok t =>
     (if rowsMatch (before.rows.map (expectedRow ct before.schema t)) (after.rows.map (actualRow after.schema t)) then []
      else ["values: a surviving column does not hold the original values row for row"]) ++
     schemaReasons t after.schema ++ orderReasons t after.schema)

/-! ## C11 -/

def sameSchema (a b : Schema) : Bool :=
  a.cols.map (fun c => (c.name, c.ty, c.nullable, c.default)) == b.cols.map (fun c => (c.name, c.ty, c.nullable, c.default)) &&
  (a.pk.map (fun p => (p.name, p.cols))) == (b.pk.map (fun p => (p.name, p.cols))) &&
  a.uniques.all (hasConst b.uniques) && b.uniques.all (hasConst a.uniques) &&
  a.checks.all (hasConst b.checks) && b.checks.all (hasConst a.checks) &&
  a.fks.all (hasConst b.fks) && b.fks.all (hasConst a.fks) &&
  a.indexes.all (fun i => b.indexes.any (fun x => x.name == i.name && x.cols == i.cols && x.unique == i.unique && x.where_ == i.where_)) &&
  b.indexes.all (fun i => a.indexes.any (fun x => x.name == i.name && x.cols == i.cols && x.unique == i.unique && x.where_ == i.where_))

/-- identical definition and rows (row order free) -/
def sameTbl (a b : Tbl) : Bool := sameSchema a.schema b.schema && a.rows.isPerm b.rows

/-- every original row is still retrievable: verbatim from a table with the original columns, or
    as its copy (surviving columns, converted where retyped) from a table with the new columns -/
def retrievableIn (ct : ConvTable) (before : Tbl) (spec : Option STable) (t : Tbl) : Bool :=
  (t.schema.cols.map (·.name) == before.schema.cols.map (·.name) && before.rows.all t.rows.contains) ||
  (match spec with
   | some s =>
     s.cols.all (fun c => c.orig.isNone || (colIndex t.schema.cols c.col.name).isSome) &&
     rowsMatch (before.rows.map (expectedRow ct before.schema s)) (t.rows.map (actualRow t.schema s))
   | none =>
     -- the operation sequence is outside the reference interpreter (it names things that do not exist):
     -- only the number of rows is judged
     t.rows.length == before.rows.length)

def check11 (ct : ConvTable) (before : Tbl) (ops : List BatchOp) (early : Bool) (after : Db) : List String :=
  let spec := (specApply (STable.ofSchema before.schema) ops).toOption
  (if (after.orig.any (retrievableIn ct before spec)) || (after.tmp.any (retrievableIn ct before spec)) then []
   else ["superset: original rows are not all retrievable under the original or the temporary name"]) ++
  (if early then
     (match after.orig with
      | some t => if sameTbl before t then [] else ["early: original table changed although the failure came before it was dropped"]
      | none => ["early: original table missing"]) ++
     (if after.tmp.isSome then ["early_tmp: temporary table left behind after a failure at or before DROP of the original"] else [])
   else [])

/-! ## the same notions on the model's exact states (what the theorems are stated against) -/

/-- the copy of `t0`'s rows through the `INSERT … SELECT` feeds -/
def copiedRows (ct : ConvTable) (t0 : Tbl) (feeds : List (ColDef × Option Expr)) : List Row :=
  t0.rows.map (project ct t0.schema.cols feeds)

/-- all rows of `t0` are retrievable from `db`: the original table is there untouched, or a table under the
    original or the temporary name holds exactly the copied rows -/
def Retrievable (ct : ConvTable) (t0 : Tbl) (feeds : List (ColDef × Option Expr)) (db : Db) : Prop :=
  db.orig = some t0 ∨ ∃ t, (db.orig = some t ∨ db.tmp = some t) ∧ t.rows = copiedRows ct t0 feeds

/-- row-wise reading of `rows(orig) ∪ rows(tmp) ⊇ original rows` (a copied row stands for its original) -/
def Superset (ct : ConvTable) (t0 : Tbl) (feeds : List (ColDef × Option Expr)) (db : Db) : Prop :=
  ∀ r ∈ t0.rows,
    (∃ t, db.orig = some t ∧ t.schema = t0.schema ∧ r ∈ t.rows) ∨
    (∃ t, (db.orig = some t ∨ db.tmp = some t) ∧ project ct t0.schema.cols feeds r ∈ t.rows)

theorem Retrievable.superset {ct : ConvTable} {t0 : Tbl} {feeds : List (ColDef × Option Expr)} {db : Db}
    (h : Retrievable ct t0 feeds db) : Superset ct t0 feeds db := by
  intro r hr
  rcases h with h | ⟨t, ht, hrows⟩
  · exact .inl ⟨t0, h, rfl, hr⟩
  · exact .inr ⟨t, ht, by rw [hrows]; exact List.mem_map_of_mem hr⟩

end Spec.Batch
