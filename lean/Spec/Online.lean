import Model.Online.Db
/-!
# What C04 means (written against states and statement payloads only)

`stateAt j` is the database after the version-table housekeeping and the first `j`
migrations of the plan have been applied *completely* (body and version update).
-/
namespace Spec.Online
open Model.Online

section
variable {α σ : Type} (ap : α → σ → σ)

def applyAll (l : List α) (x : σ) : σ := l.foldl (fun x a => ap a x) x

def segActs : Seg α → List α
  | .plain ss => ss.map (·.act)
  | .auto ss => ss.map (·.act)

def bodyActs : List (Seg α) → List α
  | [] => []
  | s :: r => segActs s ++ bodyActs r

/-- everything one migration step does: the body, then the version update -/
def migActs (m : Mig α) : List α := bodyActs m.segs ++ m.vstmts

def planActs : List (Mig α) → List α
  | [] => []
  | m :: r => migActs m ++ planActs r

/-- the first `j` migrations applied completely on top of `x` -/
def applied (plan : List (Mig α)) (j : Nat) (x : σ) : σ := applyAll ap (planActs (plan.take j)) x

/-- housekeeping (`pre`: creation of the version table when absent) + first `j` migrations -/
def stateAt (pre : List (Stmt α)) (plan : List (Mig α)) (j : Nat) (db : σ) : σ :=
  applied ap plan j (applyAll ap (pre.map (·.act)) db)

def isAutoSeg : Seg α → Bool
  | .auto _ => true
  | .plain _ => false

def isAutoAtom : Atom α → Bool
  | .enterAuto => true
  | .exitAuto => true
  | _ => false

/-- no autocommit block is entered in this program -/
def noAuto (p : List (Atom α)) : Bool := p.all (fun a => !isAutoAtom a)

end

/-! ## Decidable checker used on the implementation's observation (concrete `Db`) -/

/-- ancestors-or-self closure of the version rows through the history's parent map:
    the revisions a version table *names* (alembic: rows are the heads of the applied set) -/
def closeStep (parents : List (Nat × List Nat)) (s : List Nat) : List Nat :=
  (s ++ (parents.filter (fun p => s.contains p.1)).flatMap (·.2)).eraseDups

def closure (parents : List (Nat × List Nat)) : Nat → List Nat → List Nat
  | 0, s => s
  | n + 1, s => closure parents n (closeStep parents s)

def names (parents : List (Nat × List Nat)) (rows : List Nat) (r : Nat) : Bool :=
  (closure parents (parents.length + 1) rows).contains r

structure Verdict where
  /-- rows are those of a migration boundary `j ≤ k` (recorded = returned ∧ committed) -/
  boundary : Bool
  /-- upgrade: failed revision not named; downgrade: still named -/
  failedOk : Bool
  /-- real transactional DDL, one enclosing transaction (alembic's, or the caller's external
      transaction, which alembic must not commit): everything as before the command -/
  singleOk : Bool
  /-- real transactional DDL, per-migration transactions (`transaction_per_migration`, or
      `transactional_ddl` false): exactly the completed migrations applied + recorded -/
  perMigOk : Bool
  /-- `transactional_ddl` false: rows = completed migrations -/
  nonTxnOk : Bool
  deriving Repr

def Verdict.holds (v : Verdict) : Bool := v.boundary && v.failedOk && v.singleOk && v.perMigOk && v.nonTxnOk

def boundaryRows (pre : List (Stmt Act)) (plan : List (Mig Act)) (db : Db) (rows : List Nat) : Nat → Bool
  | 0 => (stateAt applyAct pre plan 0 db).rows == rows
  | j + 1 => (stateAt applyAct pre plan (j + 1) db).rows == rows || boundaryRows pre plan db rows j

/-- hypothesis of `C04.never_names_failed`, decidable form: at every migration boundary
    `j ≤ k` the table names `rev` iff the run is a downgrade -/
def namesHyp (parents : List (Nat × List Nat)) (pre : List (Stmt Act)) (plan : List (Mig Act)) (db : Db)
    (rev : Nat) (upgrade : Bool) : Nat → Bool
  | 0 => names parents (stateAt applyAct pre plan 0 db).rows rev == !upgrade
  | j + 1 => (names parents (stateAt applyAct pre plan (j + 1) db).rows rev == !upgrade) &&
      namesHyp parents pre plan db rev upgrade j

/-- statements of migration bodies and the housekeeping do not touch version rows -/
def objOnly : Act → Bool
  | .add _ => true
  | .del _ => true
  | .createVT => true
  | .read => true
  | _ => false

def wfPlan (pre : List (Stmt Act)) (plan : List (Mig Act)) : Bool :=
  pre.all (fun s => objOnly s.act) && plan.all (fun m => (bodyActs m.segs).all objOnly)

/-- `upgrade = true`: the run was an upgrade.  `final` is the observation of a fresh
    connection after migration `k` raised at atom position `pos`. -/
def check (c : Cfg) (upgrade : Bool) (parents : List (Nat × List Nat)) (pre : List (Stmt Act))
    (plan : List (Mig Act)) (k pos : Nat) (db final : Db) : Verdict :=
  let failing := match plan[k]? with
    | some m => (migAtoms m).take pos
    | none => []
  let failedRev := match plan[k]? with
    | some m => m.rev
    | none => 0
  let realTddl := c.mode == .transactional
  let before := ((plan.take k).map migAtoms).all noAuto && noAuto failing
  { boundary := boundaryRows pre plan db final.rows k
    failedOk := names parents final.rows failedRev == !upgrade
    singleOk := !(realTddl && (c.external || (c.tddl && !c.perMig)) && before) || final == db
    perMigOk := !(realTddl && (!c.tddl || c.perMig) && !c.external && noAuto failing) ||
      final == stateAt applyAct pre plan k db || final == applied applyAct plan k db
    nonTxnOk := !(!c.tddl && !c.external) || final.rows == (stateAt applyAct pre plan k db).rows }

end Spec.Online
