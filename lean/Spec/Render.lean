import Model.Render.Ops
import Model.Render.Eval
/-!
# What rendered migration code has to satisfy

* **syntax**: the text of each rendered statement is accepted by the expression parser and
  denotes the *intended* call: the normal form `canon` of the rendered AST (every name that
  the renderer embeds is read back as exactly that name, whatever characters it contains);
* **round trip**: evaluating the intended call (binding positional and keyword arguments the
  way `Operations.<directive>` does) gives back the operation, up to `normalize` (which only
  erases distinctions `invoke` cannot see: an empty schema / comment string vs `None`, …).

`textDenotes` is the decidable form the driver evaluates on the *implementation's own* text.
-/
namespace Spec.Render
open Model.Py Model.Render

/-- the text is a valid expression denoting the intended call -/
def Denotes (isP : Char → Bool) (t : List Char) (intended : PyAst) : Prop :=
  (parse t).map (pp isP) = some (pp isP (canon intended))

def denotesB (isP : Char → Bool) (t : List Char) (intended : PyAst) : Bool :=
  (parse t).map (pp isP) == some (pp isP (canon intended))

theorem denotesB_iff (isP : Char → Bool) (t : List Char) (e : PyAst) :
    denotesB isP t e = true ↔ Denotes isP t e := by
  simp [denotesB, Denotes]

/-- every rendered AST is read back from its own text as its normal form -/
def selfParseOk (isP : Char → Bool) (asts : List PyAst) : Bool :=
  asts.all fun a => denotesB isP (pp isP a) a

def dropPrefix (p : List Char) (t : List Char) : Option (List Char) :=
  if p.isPrefixOf t then some (t.drop p.length) else none

/-- one statement: an expression, or `with <expr> as batch_op:` -/
def parseStmt (t : List Char) : Option (PyAst × List Char) :=
  match dropPrefix (S "with ") t with
  | some t' =>
    match pExpr (3 * t.length) t' with
    | some (e, rest) => (dropPrefix (S " as batch_op:") rest).map fun r => (e, r)
    | none => none
  | none => pExpr (3 * t.length) t

/-- statements separated by newlines (a final blank line is allowed) -/
def parseStmts : Nat → List Char → Option (List PyAst)
  | 0, _ => none
  | f + 1, t =>
    match parseStmt t with
    | some (e, []) => some [e]
    | some (e, '\n' :: r) => if r.isEmpty then some [e] else (parseStmts f r).map (e :: ·)
    | _ => none

/-- the implementation's text is a sequence of valid statements denoting the intended calls -/
def textDenotes (isP : Char → Bool) (impl : List Char) (intended : List PyAst) : Bool :=
  if intended.isEmpty then impl.isEmpty
  else
    match parseStmts (intended.length + 1) impl with
    | some es => es.map (pp isP) == intended.map (fun a => pp isP (canon a))
    | none => false

/-! ## hypotheses on the opaque parts of an operation (decidable; evaluated by the driver) -/

def optOk : Option PyAst → Bool
  | some e => wf true e
  | none => true

def kwOk (l : Kw) : Bool := l.all fun p => validWord p.1 && wf true p.2

def colOk (col : Col) : Bool :=
  wf true col.type && optOk col.sdefault && optOk col.autoinc && kwOk col.kwargs

def consOk : Cons → Bool
  | .pk _ _ => true
  | .fk _ _ _ opts => kwOk opts
  | .uq _ _ d i kws => optOk d && optOk i && kwOk kws
  | .ck _ _ => true

def elemOk : IdxElem → Bool
  | .col _ => true
  | .expr e => wf true e

/-- the fragments rendered by SQLAlchemy are well-formed expressions and keyword names are words;
all *names* (tables, columns, schemas, constraints, comments) are unconstrained strings -/
def opOk : Op → Bool
  | .createTable _ _ cols cons _ kws _ => cols.all colOk && cons.all consOk && kwOk kws
  | .dropTable _ _ _ => true
  | .addColumn _ _ col => colOk col
  | .dropColumn _ _ _ => true
  | .alterColumn a =>
    optOk a.existingType && (match a.serverDefault with | some (some d) => wf true d | _ => true) &&
      optOk a.type_ && optOk a.autoinc && optOk a.existingServerDefault
  | .createIndex _ _ _ elems _ kws _ => elems.all elemOk && kwOk kws
  | .dropIndex _ _ _ kws _ => kwOk kws
  | .createUnique _ _ _ _ d i kws => optOk d && optOk i && kwOk kws
  | .createFK _ _ _ _ _ k =>
    optOk k.sourceSchema && optOk k.referentSchema && optOk k.onupdate && optOk k.ondelete &&
      optOk k.initially && optOk k.deferrable && optOk k.useAlter && optOk k.match_
  | .dropConstraint _ _ _ _ => true
  | .createTableComment _ _ _ _ => true
  | .dropTableComment _ _ _ => true

def ctxOk (c : Ctx) : Bool := c.opPrefix.all wordChar && c.saPrefix.all wordChar

/-! ## hypotheses of the evaluation round trip (decidable) -/

/-- no extra (dialect) keyword argument uses a name the directive itself binds -/
def kwFresh (kn : List Str) (l : Kw) : Bool := l.all fun p => !kn.contains p.1

def notStr : PyAst → Bool
  | .str _ => false
  | _ => true

/-- * dialect keyword arguments do not shadow the directive's own parameters;
* an index *expression* is not a bare string literal (it would be read back as a column name);
* a rendered server default is not the literal `None`;
* `create_table` (column and constraint lists) is outside `evalCall`. -/
def sdOk (a : Alter) : Bool :=
  match a.serverDefault with
  | some (some d) => !isPyNone d
  | _ => true

def evalOk : Op → Bool
  | .createTable _ _ _ _ _ _ _ => false
  | .addColumn _ _ col => kwFresh colKnown col.kwargs
  | .alterColumn a => sdOk a
  | .createIndex _ _ _ elems _ kws _ =>
    elems.all (fun e => match e with | .col _ => true | .expr e => notStr e) &&
      kwFresh [S "unique", S "schema", S "if_not_exists"] kws
  | .dropIndex _ _ _ kws _ => kwFresh [S "table_name", S "schema", S "if_exists"] kws
  | .createUnique _ _ _ _ _ _ kws => kwFresh [S "deferrable", S "initially", S "schema"] kws
  | _ => true

def consEvalOk : Cons → Bool
  | .fk _ _ _ opts => kwFresh [S "name"] opts
  | .uq _ _ _ _ kws => kwFresh [S "deferrable", S "initially", S "name"] kws
  | _ => true

/-- `evalOk` extended to `create_table`: the extra keyword arguments of every column, of every inline unique / foreign
key constraint and of the table itself do not shadow the parameters the constructor binds itself -/
def evalOkT : Op → Bool
  | .createTable _ _ cols cons _ kws _ =>
    cols.all (fun col => kwFresh colKnown col.kwargs) && cons.all consEvalOk && kwFresh tableKnown kws
  | o => evalOk o

/-! ## evaluation check on the implementation's text (decidable form run by the driver) -/

def tableOf : Op → Str
  | .createTable n _ _ _ _ _ _ => n
  | .dropTable n _ _ => n
  | .addColumn t _ _ => t
  | .dropColumn t _ _ => t
  | .alterColumn a => a.table
  | .createIndex _ t _ _ _ _ _ => t
  | .dropIndex _ t _ _ _ => t
  | .createUnique _ t _ _ _ _ _ => t
  | .createFK _ t _ _ _ _ => t
  | .dropConstraint _ t _ _ => t
  | .createTableComment t _ _ _ => t
  | .dropTableComment t _ _ => t

/-- parse the implementation's text of one operation, evaluate the call, and compare the operation it
builds with `normalize o` (operations are compared through their canonical rendering) -/
def evalAgrees (ec : ECtx) (parsed : PyAst) (o : Op) : Bool :=
  match evalCallT ec parsed with
  | some o' => pp ec.c.isP (canon (renderOp ec.c o')) == pp ec.c.isP (canon (renderOp ec.c (normalizeT ec o)))
  | none => false

def evalDenotes (ec : ECtx) (impl : List Char) (o : Op) : Bool :=
  match parse impl with
  | some e => evalAgrees ec e o
  | none => false

/-- the statements of one rendered top-level operation, evaluated one by one; `(holds, checked)`.
Operations outside `evalOkT` (shadowing keyword names, …) are skipped. -/
def evalTop (c : Ctx) (asBatch : Bool) (impl : List Char) (t : Top) : Bool × Nat :=
  match t with
  | .single o =>
    if evalOkT o then (evalDenotes { c := { c with batch := false }, table := [], schema := none } impl o, 1) else (true, 0)
  | .modify table schema ops =>
    if ops.isEmpty then (true, 0) else
    match parseStmts (ops.length + 2) impl with
    | none => (false, 0)
    | some asts =>
      let ec : ECtx := { c := { c with batch := asBatch }, table := table, schema := schema }
      let body := if asBatch then asts.drop 1 else asts
      if body.length != ops.length then (false, 0) else
      let rs := (body.zip ops).filter (fun p => evalOkT p.2)
      (rs.all (fun p => evalAgrees ec p.1 p.2), rs.length)

end Spec.Render
