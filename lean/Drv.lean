import Drv.Json
