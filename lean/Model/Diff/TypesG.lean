/-!
# `compare_type` for every dialect (C07, dialect-level stream)

Mirror of `DefaultImpl._tokenize_column_type`, `_column_types_match`, `_column_args_match`,
`compare_type` (alembic/ddl/impl.py) over the *text* the dialect's type compiler produces,
with the dialect's `type_synonyms` groups as a parameter ("both names in the **same** group").
`type_arg_extract` (MySQL `character set` / `collate`) is taken as data: the pairs of
`re.search(...).group(1)` results.
-/
namespace Model.Diff.G

structure Params where
  token0 : String
  tokens : List String
  args : List String
  kwargs : List (String × String)
  deriving DecidableEq, Repr, Inhabited

/-- `[\w\-_]` (ASCII type texts) -/
def isWordChar (c : Char) : Bool := c.isAlphanum || c == '_' || c == '-'

inductive Tok
  | word (s : List Char)
  | paren (inside : List Char)
  deriving Repr

/-- `\(.+?\)` tried right after a `(`: one character (not a newline), then lazily up to the
first `)`; `none` = no match at this position -/
def takeParen (r : List Char) : Option (List Char × List Char) :=
  match r with
  | c :: r' =>
    if c == '\n' then none
    else
      match r'.span (fun x => x != ')' && x != '\n') with
      | (mid, ')' :: rest) => some (c :: mid, rest)
      | _ => none
  | [] => none

/-- `re.findall(r"[\w\-_]+|\(.+?\)", definition)`; every step consumes at least one
character, so `fuel = length + 1` is enough -/
def scan : Nat → List Char → List Tok
  | 0, _ => []
  | _ + 1, [] => []
  | f + 1, c :: r =>
    if isWordChar c then
      let (w, rest) := (c :: r).span isWordChar
      Tok.word w :: scan f rest
    else if c == '(' then
      match takeParen r with
      | some (ins, rest) => Tok.paren ins :: scan f rest
      | none => scan f r
    else scan f r

/-- `re.findall("[^(),]+", paren_term)` -/
def isSep (c : Char) : Bool := c == '(' || c == ')' || c == ','

def splitAux : List Char → List Char → List (List Char)
  | acc, [] => [acc]
  | acc, c :: r => if isSep c then acc :: splitAux [] r else splitAux (acc ++ [c]) r

def splitArgs (s : List Char) : List (List Char) :=
  (splitAux [] s).filter (fun p => !p.isEmpty)

def isWs (c : Char) : Bool := c == ' ' || c == '\t' || c == '\n' || c == '\r'
def strip (s : List Char) : List Char := ((s.dropWhile isWs).reverse.dropWhile isWs).reverse

/-- `_tokenize_column_type` on the lower-cased compiled type text -/
def tokenize (definition : String) : Params :=
  let toks := scan (definition.length + 1) definition.toList
  let words := toks.filterMap (fun t => match t with | .word w => some (String.ofList w) | _ => none)
  let parenTerm := (toks.filterMap (fun t => match t with | .paren p => some p | _ => none)).getLast?
  let pieces := match parenTerm with
    | some p => splitArgs p
    | none => []
  let args := (pieces.filter (fun p => !p.contains '=')).map (fun p => String.ofList (strip p))
  let kwargs := (pieces.filter (fun p => p.contains '=')).map (fun p =>
    let k := p.takeWhile (fun c => c != '=')
    let v := (p.dropWhile (fun c => c != '=')).drop 1
    (String.ofList (strip k), String.ofList (strip v)))
  { token0 := words.headD "", tokens := words.drop 1, args := args, kwargs := kwargs }

def allTerms (p : Params) : String := " ".intercalate (p.token0 :: p.tokens)

/-- `x in {t.lower() for t in batch}` -/
def inGroup (batch : List String) (x : String) : Bool := (batch.map String.toLower).contains x

/-- `_column_types_match`: equal first token, or one synonym group holds both full term
strings, or one synonym group holds both first tokens -/
def typesMatch (syn : List (List String)) (i m : Params) : Bool :=
  i.token0 == m.token0 ||
  syn.any (fun b => (inGroup b (allTerms i) && inGroup b (allTerms m)) || (inGroup b i.token0 && inGroup b m.token0))

/-- `_column_args_match`; `ext` = for each `type_arg_extract` regex the two `group(1)`s -/
def argsMatch (ext : List (Option String × Option String)) (i m : Params) : Bool :=
  if m.tokens.length == i.tokens.length && m.tokens != i.tokens then false
  else if m.args.length == i.args.length && m.args != i.args then false
  else ext.all (fun p => match p with
    | (some a, some b) => a == b
    | _ => true)

/-- `compare_type`: `true` = the types differ -/
def compareType (syn : List (List String)) (ext : List (Option String × Option String)) (i m : Params) : Bool :=
  !(typesMatch syn i m) || !(argsMatch ext i m)

end Model.Diff.G
