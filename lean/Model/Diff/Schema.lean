import Model.Diff.Types
import Model.Diff.Defaults
/-!
# Abstract schemas, the SQLite database created from one, and its reflection (C06/C07)

* `Schema` - the metadata side (`MetaData` of `Table`s).
* `Db` - what the SQLite database holds after `MetaData.create_all` (`createAll`): declared
  type texts (tokenised), stored default texts, named constraints and indexes.
* `reflect` - what autogenerate sees through the inspector (`Inspector.reflect_table` with the
  `autogen_column_reflect` hook, `get_indexes`, `get_unique_constraints`, `get_foreign_keys`).
-/
namespace Model.Diff

structure Col where
  name : String
  ty : MdTy
  nullable : Bool
  dflt : Option Dflt := none
  pk : Bool := false
  deriving DecidableEq, Repr, Inhabited

structure Uq where
  name : String
  cols : List String
  deriving DecidableEq, Repr, Inhabited

structure Ix where
  name : String
  cols : List String
  unique : Bool
  deriving DecidableEq, Repr, Inhabited

structure Fk where
  name : String
  cols : List String
  reftable : String
  refcols : List String
  ondelete : Option String := none
  onupdate : Option String := none
  deferrable : Option Bool := none
  initially : Option String := none
  deriving DecidableEq, Repr, Inhabited

structure Table where
  name : String
  cols : List Col
  uqs : List Uq := []
  ixs : List Ix := []
  fks : List Fk := []
  deriving DecidableEq, Repr, Inhabited

abbrev Schema := List Table

/-- a column as stored in the database -/
structure DCol where
  name : String
  ty : DTy
  nullable : Bool
  dflt : Option (List Char) := none   -- stored default text (`PRAGMA table_info.dflt_value`)
  pk : Bool := false
  deriving DecidableEq, Repr, Inhabited

structure DTable where
  name : String
  cols : List DCol
  uqs : List Uq := []
  ixs : List Ix := []
  fks : List Fk := []
  deriving DecidableEq, Repr, Inhabited

abbrev Db := List DTable

def createCol (c : Col) : DCol :=
  { name := c.name, ty := declTy c.ty, nullable := c.nullable,
    dflt := c.dflt.map (fun d => sqliteStore (ddlDefault d)), pk := c.pk }

def createTable (t : Table) : DTable :=
  { name := t.name, cols := t.cols.map createCol, uqs := t.uqs, ixs := t.ixs, fks := t.fks }

/-- `MetaData.create_all` on an empty database -/
def createAll (s : Schema) : Db := s.map createTable

/-- a reflected column (`conn_col`) -/
structure RCol where
  name : String
  ty : DTy                      -- reflected type, recompiled
  nullable : Bool
  dflt : Option (List Char)     -- `conn_col.server_default.arg.text`
  deriving DecidableEq, Repr, Inhabited

structure RTable where
  name : String
  cols : List RCol
  uqs : List Uq
  ixs : List Ix
  fks : List Fk
  deriving DecidableEq, Repr, Inhabited

def reflectCol (c : DCol) : RCol :=
  { name := c.name, ty := reflTy c.ty, nullable := c.nullable, dflt := c.dflt.map autogenReflect }

def reflectTable (t : DTable) : RTable :=
  { name := t.name, cols := t.cols.map reflectCol, uqs := t.uqs, ixs := t.ixs, fks := t.fks }

def reflect (d : Db) : List RTable := d.map reflectTable

end Model.Diff
