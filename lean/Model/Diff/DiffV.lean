import Model.Diff.Diff
/-!
# The diff under user comparison callables (C06/C07 configuration axis)

`compare_type` / `compare_server_default` may be configured as callables
(`MigrationContext._compare_type`, `_compare_server_default` in alembic/runtime/migration.py):
the callable's verdict for a column is taken if it is `True` / `False`, and `None` defers to the
dialect's default comparison.  The verdicts are data here: a list of `(table, column, verdict)`
for the columns on which the callable answers; every other column defers.  `Cfg.compareType =
false` (resp. `compareDefault`) still switches the comparison off altogether.
-/
namespace Model.Diff

abbrev Verdicts := List (String × String × Bool)

structure Overrides where
  ty : Verdicts := []
  dflt : Verdicts := []
  deriving Repr, Inhabited

/-- `user_value if user_value is not None else <default comparison>` -/
def verdict (v : Verdicts) (t c : String) (dflt : Bool) : Bool :=
  match v.find? (fun e => e.1 == t && e.2.1 == c) with
  | some e => e.2.2
  | none => dflt

def compareColV (ov : Overrides) (cfg : Cfg) (t : String) (cc : RCol) (mc : Col) : List Op :=
  (if cfg.compareType && verdict ov.ty t mc.name (compareType cc.ty (ddlTy mc.ty))
    then [Op.modifyType t mc.name mc.ty] else []) ++
  (if cc.nullable != mc.nullable then [Op.modifyNullable t mc.name mc.nullable] else []) ++
  (if cfg.compareDefault &&
      (match cc.dflt, mc.dflt with
       | none, none => false          -- `_compare_server_default` returns before the callable is consulted
       | _, _ => verdict ov.dflt t mc.name (compareDefault cc.dflt mc.dflt))
    then [Op.modifyDefault t mc.name mc.dflt] else [])

def alteredColsV (ov : Overrides) (cfg : Cfg) (t : String) (cc : List RCol) (mc : List Col) : List Op :=
  mc.flatMap (fun c => match findRCol cc c.name with
    | some r => compareColV ov cfg t r c
    | none => [])

def compareTableV (ov : Overrides) (cfg : Cfg) (ct : RTable) (mt : Table) : List Op :=
  addedCols mt.name ct.cols mt.cols ++
  alteredColsV ov cfg mt.name ct.cols mt.cols ++
  compareIxUq mt.name false (namedOf ct.uqs ct.ixs) (namedOf mt.uqs mt.ixs) ++
  compareFks mt.name ct.fks mt.fks ++
  removedCols mt.name ct.cols mt.cols

def diffV (ov : Overrides) (cfg : Cfg) (conn : List RTable) (md : Schema) : List Op :=
  let cn := conn.map (·.name)
  let mn := md.map (·.name)
  (md.filter (fun t => !cn.contains t.name)).flatMap (fun t =>
      Op.addTable t :: compareIxUq t.name true [] (namedOf t.uqs t.ixs)) ++
  (conn.filter (fun t => !mn.contains t.name)).flatMap (fun t =>
      compareIxUq t.name true (namedOf [] t.ixs) [] ++ [Op.removeTable t.name]) ++
  (sortTablesByName (conn.filterMap (fun ct => (findTable md ct.name).map (fun mt => (ct, mt))))).flatMap
      (fun p => compareTableV ov cfg p.1 p.2)

end Model.Diff
