import Model.Diff.Apply
/-!
# Does a batch block recreate the table? (SQLite, C06)

Mirror of `SQLiteImpl.requires_recreate_in_batch` (alembic/ddl/sqlite.py) over the op vocabulary:
`add_column` needs the move-and-copy only when the new column's server default is a SQL element
(`text(...)`: `DefaultClause` whose `arg` is a `ClauseElement`); `create_index` / `drop_index` never;
every other operation always.  The block recreates iff **any** of its operations needs it.
(Persisted `Computed` columns - also a reason - are outside the model's column vocabulary.)
-/
namespace Model.Diff

def needsRecreate : Op → Bool
  | .addColumn _ c =>
    match c.dflt with
    | some (.expr _) => true
    | _ => false
  | .addIndex _ _ => false
  | .removeIndex _ _ => false
  | .addTable _ => false       -- not part of a batch block
  | .removeTable _ => false
  | _ => true

/-- `requires_recreate_in_batch` for the operations collected in one `batch_alter_table` block -/
def batchRecreates (ops : List Op) : Bool := ops.any needsRecreate

/-- the table an op of a batch block belongs to -/
def opTableName : Op → Option String
  | .addTable _ => none
  | .removeTable _ => none
  | .addColumn t _ => some t
  | .removeColumn t _ => some t
  | .modifyType t _ _ => some t
  | .modifyNullable t _ _ => some t
  | .modifyDefault t _ _ => some t
  | .addIndex t _ => some t
  | .removeIndex t _ => some t
  | .addUq t _ => some t
  | .removeUq t _ => some t
  | .addFk t _ => some t
  | .removeFk t _ => some t

/-- tables whose batch block (all ops of the upgrade on that table) recreates the table -/
def recreatedTables (ops : List Op) : List String :=
  ((ops.filterMap opTableName).eraseDups).filter (fun t =>
    batchRecreates (ops.filter (fun o => opTableName o == some t)))

end Model.Diff
