import Model.Diff.Schema
/-!
# The autogenerate diff (C06/C07)

Mirrors `_autogen_for_tables`, `_compare_tables`, `_compare_columns`, `_compare_nullable`,
`_compare_type`, `_compare_server_default`, `_compare_indexes_and_uniques`,
`_compare_foreign_keys` (alembic/autogenerate/compare.py) with the `_constraint_sig`
signatures of alembic/ddl/_autogen.py, for the SQLite dialect (unique constraints are
reflected, nothing is doubled, comments unsupported), no filters, default schema only,
every constraint named.

Order of the emitted ops = order of `upgrade_ops.as_diffs()`.  Where the implementation
iterates a Python `set` of strings / tuples (dropped tables, dropped columns, removed / added
foreign keys) the model uses the order of the reflected (resp. metadata) lists; the harness
compares those runs as multisets.
-/
namespace Model.Diff

structure Cfg where
  compareType : Bool := true
  compareDefault : Bool := true
  deriving DecidableEq, Repr, Inhabited

inductive Op
  | addTable (t : Table)
  | removeTable (t : String)
  | addColumn (t : String) (c : Col)
  | removeColumn (t c : String)
  | modifyType (t c : String) (to : MdTy)
  | modifyNullable (t c : String) (to : Bool)
  | modifyDefault (t c : String) (to : Option Dflt)
  | addIndex (t : String) (ix : Ix)
  | removeIndex (t : String) (ix : Ix)
  | addUq (t : String) (u : Uq)
  | removeUq (t : String) (u : Uq)
  | addFk (t : String) (f : Fk)
  | removeFk (t : String) (f : Fk)
  deriving DecidableEq, Repr, Inhabited

/-- `sorted(names)` -/
def sortNames (l : List String) : List String := l.mergeSort (fun a b => decide (a ≤ b))

def sortTablesByName (l : List (RTable × Table)) : List (RTable × Table) :=
  l.mergeSort (fun a b => decide (a.1.name ≤ b.1.name))

/-! ## columns -/

/-- the three column comparators; the ops of one `AlterColumnOp` in `to_diff_tuple` order -/
def compareCol (cfg : Cfg) (t : String) (cc : RCol) (mc : Col) : List Op :=
  (if cfg.compareType && compareType cc.ty (ddlTy mc.ty) then [Op.modifyType t mc.name mc.ty] else []) ++
  (if cc.nullable != mc.nullable then [Op.modifyNullable t mc.name mc.nullable] else []) ++
  (if cfg.compareDefault && compareDefault cc.dflt mc.dflt then [Op.modifyDefault t mc.name mc.dflt] else [])

def findRCol (cols : List RCol) (n : String) : Option RCol := cols.find? (fun c => c.name == n)

def addedCols (t : String) (cc : List RCol) (mc : List Col) : List Op :=
  (mc.filter (fun c => !(cc.map (·.name)).contains c.name)).map (Op.addColumn t)

def alteredCols (cfg : Cfg) (t : String) (cc : List RCol) (mc : List Col) : List Op :=
  mc.flatMap (fun c => match findRCol cc c.name with
    | some r => compareCol cfg t r c
    | none => [])

def removedCols (t : String) (cc : List RCol) (mc : List Col) : List Op :=
  (cc.filter (fun c => !(mc.map (·.name)).contains c.name)).map (fun c => Op.removeColumn t c.name)

/-! ## indexes and unique constraints -/

/-- a named index or unique constraint (`_ix_constraint_sig` / `_uq_constraint_sig`) -/
inductive Named
  | ix (i : Ix)
  | uq (u : Uq)
  deriving DecidableEq, Repr, Inhabited

def Named.name : Named → String
  | .ix i => i.name
  | .uq u => u.name

def namedOf (uqs : List Uq) (ixs : List Ix) : List Named := uqs.map .uq ++ ixs.map .ix

def findNamed (l : List Named) (n : String) : Option Named := l.find? (fun x => x.name == n)

def objAdded (t : String) (createOrDrop : Bool) : Named → List Op
  | .ix i => [Op.addIndex t i]
  | .uq u => if createOrDrop then [] else [Op.addUq t u]

def objRemoved (t : String) (createOrDrop : Bool) : Named → List Op
  | .ix i => [Op.removeIndex t i]
  | .uq u => if createOrDrop then [] else [Op.removeUq t u]

/-- `sorted(col names)` signature of a unique constraint -/
def uqSig (u : Uq) : List String := sortNames u.cols

/-- `compare_to_reflected` + `obj_changed` / type mismatch branch, for one existing name -/
def compareNamed (t : String) (conn md : Named) : List Op :=
  match conn, md with
  | .ix c, .ix m =>
    if c.unique != m.unique || c.cols != m.cols then [Op.removeIndex t c, Op.addIndex t m] else []
  | .uq c, .uq m =>
    if uqSig c != uqSig m then [Op.removeUq t c, Op.addUq t m] else []
  | c, m => objRemoved t false c ++ objAdded t false m

/-- `_compare_indexes_and_uniques`; `createOrDrop` = `is_create_table or is_drop_table` -/
def compareIxUq (t : String) (createOrDrop : Bool) (conn md : List Named) : List Op :=
  let cn := conn.map (·.name)
  let mn := md.map (·.name)
  (sortNames (cn.filter (fun n => !mn.contains n))).flatMap (fun n =>
      match findNamed conn n with
      | some c => objRemoved t createOrDrop c
      | none => []) ++
  (sortNames (mn.filter (fun n => cn.contains n))).flatMap (fun n =>
      match findNamed conn n, findNamed md n with
      | some c, some m => compareNamed t c m
      | _, _ => []) ++
  (sortNames (mn.filter (fun n => !cn.contains n))).flatMap (fun n =>
      match findNamed md n with
      | some m => objAdded t createOrDrop m
      | none => [])

/-! ## foreign keys -/

/-- option normalisation of `_fk_constraint_sig` (`no action` = unset; case-insensitive) -/
def normAct (a : Option String) : Option String :=
  match a with
  | none => none
  | some s => if s.toLower == "no action" then none else some s.toLower

/-- "convert initially + deferrable into one three-state value" (`_fk_constraint_sig`) -/
def deferState (f : Fk) : String :=
  if f.initially.map String.toLower == some "deferred" then "initially_deferrable"
  else if f.deferrable == some true then "deferrable" else "not deferrable"

/-- `_fk_constraint_sig.unnamed` (source table, columns, target table, columns, onupdate,
ondelete, deferrable/initially as one three-state value); SQLite reflects all of these options -/
def fkSig (t : String) (f : Fk) :
    String × List String × String × List String × Option String × Option String × String :=
  (t, f.cols, f.reftable, f.refcols, normAct f.onupdate, normAct f.ondelete, deferState f)

def compareFks (t : String) (conn md : List Fk) : List Op :=
  (conn.filter (fun c => !(md.map (fkSig t)).contains (fkSig t c))).map (Op.removeFk t) ++
  (md.filter (fun m => !(conn.map (fkSig t)).contains (fkSig t m))).map (Op.addFk t)

/-! ## tables -/

/-- an existing table: `_compare_columns` (enter), the table comparators, `_compare_columns` (exit) -/
def compareTable (cfg : Cfg) (ct : RTable) (mt : Table) : List Op :=
  addedCols mt.name ct.cols mt.cols ++
  alteredCols cfg mt.name ct.cols mt.cols ++
  compareIxUq mt.name false (namedOf ct.uqs ct.ixs) (namedOf mt.uqs mt.ixs) ++
  compareFks mt.name ct.fks mt.fks ++
  removedCols mt.name ct.cols mt.cols

def findTable (s : Schema) (n : String) : Option Table := s.find? (fun t => t.name == n)

/-- `_compare_tables`.  `md` is given in `MetaData.sorted_tables` order. -/
def diff (cfg : Cfg) (conn : List RTable) (md : Schema) : List Op :=
  let cn := conn.map (·.name)
  let mn := md.map (·.name)
  (md.filter (fun t => !cn.contains t.name)).flatMap (fun t =>
      Op.addTable t :: compareIxUq t.name true [] (namedOf t.uqs t.ixs)) ++
  (conn.filter (fun t => !mn.contains t.name)).flatMap (fun t =>
      compareIxUq t.name true (namedOf [] t.ixs) [] ++ [Op.removeTable t.name]) ++
  (sortTablesByName (conn.filterMap (fun ct => (findTable md ct.name).map (fun mt => (ct, mt))))).flatMap
      (fun p => compareTable cfg p.1 p.2)

end Model.Diff
