/-!
# Server defaults as autogenerate sees them on SQLite (C06/C07)

Mirrors `SQLiteImpl.compare_server_default`, `_guess_if_default_is_unparenthesized_sql_expr`,
`autogen_column_reflect` (alembic/ddl/sqlite.py), `_render_server_default_for_compare` and
`_compare_server_default` (alembic/autogenerate/compare.py).  The three regular expressions
are written out by hand over `List Char` (`.` does not match a newline; `$` also matches
just before one trailing newline).
`ddlDefault` / `sqliteStore` are my semantics of SQLAlchemy's `DEFAULT` rendering and of what
`PRAGMA table_info` gives back (validated entry by entry by the harness).
-/
namespace Model.Diff

inductive Dflt
  | str (v : List Char)    -- `server_default="..."`: rendered as a quoted SQL string literal
  | expr (e : List Char)   -- `server_default=text("...")`: rendered verbatim
  deriving DecidableEq, Repr, Inhabited

def noNl (m : List Char) : Bool := !m.contains '\n'

/-- `$`: the part of the subject a `^...$` pattern (whose last atom is not a newline) has to cover -/
def core (s : List Char) : List Char := if s.getLast? == some '\n' then s.dropLast else s
/-- ... and what `re.sub` leaves after the replaced match -/
def tailNl (s : List Char) : List Char := if s.getLast? == some '\n' then ['\n'] else []

/-- `x = o (.+) c` : the group -/
def wrapped (o c : Char) (x : List Char) : Option (List Char) :=
  match x with
  | h :: r =>
    if h == o && r.getLast? == some c && !r.dropLast.isEmpty && noNl r.dropLast then some r.dropLast
    else none
  | [] => none

/-- `re.sub(r"^\((.+)\)$", r"\1", s)` -/
def stripParens (s : List Char) : List Char :=
  match wrapped '(' ')' (core s) with
  | some m => m ++ tailNl s
  | none => s

/-- the optional `"` on both sides of ``^\"?'(.+)'\"?$`` -/
def dropLeadDq : List Char → List Char
  | '"' :: r => r
  | x => x

def dropTrailDq (x : List Char) : List Char := if x.getLast? == some '"' then x.dropLast else x

def dropDq (x : List Char) : List Char := dropTrailDq (dropLeadDq x)

/-- ``re.sub(r"^\"?'(.+)'\"?$", r"\1", s)`` -/
def stripQuotes (s : List Char) : List Char :=
  match wrapped '\'' '\'' (dropDq (core s)) with
  | some m => m ++ tailNl s
  | none => s

/-- both substitutions of `SQLiteImpl.compare_server_default` -/
def normDefault (s : List Char) : List Char := stripQuotes (stripParens s)

def isDigitOrDot (c : Char) : Bool := c.isDigit || c == '.'

def singleDigitOrDot : List Char → Bool
  | [c] => isDigitOrDot c
  | _ => false

/-- `_guess_if_default_is_unparenthesized_sql_expr`: the chain `if not expr / elif re.match(..) ...
/ else True`, each test returning False -/
def guessUnparen (e : List Char) : Bool :=
  !e.isEmpty && !singleDigitOrDot (core e) && !(wrapped '\'' '\'' (core e)).isSome &&
  !(wrapped '(' ')' (core e)).isSome

/-- `autogen_column_reflect`: the reflected default the comparison sees -/
def autogenReflect (stored : List Char) : List Char :=
  if guessUnparen stored then '(' :: stored ++ [')'] else stored

/-- doubling of `'` in a string literal -/
def dblQuotes : List Char → List Char
  | [] => []
  | c :: r => if c == '\'' then '\'' :: '\'' :: dblQuotes r else c :: dblQuotes r

/-- the text after `DEFAULT` in `CREATE TABLE` -/
def ddlDefault : Dflt → List Char
  | .str v => '\'' :: dblQuotes v ++ ['\'']
  | .expr e => e

def isWs (c : Char) : Bool := c == ' ' || c == '\t' || c == '\n' || c == '\r'
def trim (s : List Char) : List Char := ((s.dropWhile isWs).reverse.dropWhile isWs).reverse

/-- `e = ( m )` as SQLite's parser sees a parenthesised default expression -/
def parenInner (e : List Char) : Option (List Char) :=
  match e with
  | '(' :: r => if r.getLast? == some ')' then some r.dropLast else none
  | _ => none

/-- what SQLite stores and `PRAGMA table_info` returns for `DEFAULT <text>`: the expression
text trimmed, with one enclosing pair of parentheses removed -/
def sqliteStore (t : List Char) : List Char :=
  match parenInner (trim t) with
  | some m => trim m
  | none => trim t

/-- `_render_server_default_for_compare` -/
def renderMeta : Dflt → List Char
  | .str v => v
  | .expr e => e

/-- `_compare_server_default` + `SQLiteImpl.compare_server_default` (comparison switched on):
`insp` is the reflected text (after `autogen_column_reflect`), `true` = differs -/
def compareDefault (insp : Option (List Char)) (md : Option Dflt) : Bool :=
  match insp, md with
  | none, none => false
  | _, _ => insp.map normDefault != md.map (fun d => normDefault (renderMeta d))

/-- the reflected default of a column created with default `d` -/
def reflectDefault (d : Dflt) : List Char := autogenReflect (sqliteStore (ddlDefault d))

end Model.Diff
