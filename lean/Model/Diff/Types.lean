/-!
# Column types as autogenerate sees them on SQLite (C06/C07)

Mirrors
* SQLAlchemy's SQLite type compiler on the catalogue of metadata types (`ddlTy`),
* SQLite reflection of a declared type name (`reflTy`: lookup by name in `ischema_names`,
  otherwise the affinity rules of `SQLiteDialect._resolve_type_affinity`),
* `DefaultImpl._tokenize_column_type`, `_column_types_match`, `_column_args_match`,
  `compare_type` (alembic/ddl/impl.py) over the tokenised form.

The DDL text of a type is kept tokenised: first word, remaining words, numeric arguments.
-/
namespace Model.Diff

/-- lower-cased words that occur in the DDL type texts of the catalogue -/
inductive W
  | integer | bigint | smallint | varchar | text | boolean | float | double | numeric | decimal
  | datetime | date | time | blob | json | char | nvarchar | nchar | real | timestamp
  | clob | binary | varbinary | uuid | precision | collate | nocase | rtrim
  deriving DecidableEq, Repr, Inhabited

def W.toString : W → String
  | .integer => "INTEGER" | .bigint => "BIGINT" | .smallint => "SMALLINT" | .varchar => "VARCHAR"
  | .text => "TEXT" | .boolean => "BOOLEAN" | .float => "FLOAT" | .double => "DOUBLE"
  | .numeric => "NUMERIC" | .decimal => "DECIMAL" | .datetime => "DATETIME" | .date => "DATE"
  | .time => "TIME" | .blob => "BLOB" | .json => "JSON" | .char => "CHAR" | .nvarchar => "NVARCHAR"
  | .nchar => "NCHAR" | .real => "REAL" | .timestamp => "TIMESTAMP" | .clob => "CLOB"
  | .binary => "BINARY" | .varbinary => "VARBINARY" | .uuid => "UUID" | .precision => "PRECISION"
  | .collate => "COLLATE" | .nocase => "NOCASE" | .rtrim => "RTRIM"

/-- tokenised DDL type (`Params(token0, tokens, args, kwargs)`; kwargs never occur on SQLite) -/
structure DTy where
  t0 : W
  rest : List W := []
  args : List Nat := []
  deriving DecidableEq, Repr, Inhabited

/-- metadata type families of the catalogue (SQLAlchemy generic "CamelCase" types and the
    SQL-standard "UPPERCASE" types) -/
inductive Fam
  | Integer | BigInteger | SmallInteger | String | Unicode | Text | UnicodeText | Boolean
  | Float | Double | Numeric | DateTime | Date | Time | Interval | LargeBinary | JSON | Uuid | Enum
  | VARCHAR | CHAR | NVARCHAR | NCHAR | TEXT | NUMERIC | DECIMAL | FLOAT | REAL | TIMESTAMP | BLOB
  | CLOB | BINARY | VARBINARY | DOUBLE_PRECISION | UUID
  deriving DecidableEq, Repr, Inhabited

structure MdTy where
  fam : Fam
  args : List Nat := []
  coll : Option W := none   -- `collation=` of a string type (NOCASE / BINARY / RTRIM on SQLite)
  deriving DecidableEq, Repr, Inhabited

/-- SQLite type compiler (`dialect.type_compiler.process(type)`), tokenised.  Length /
precision / scale arguments are rendered for string and numeric types and dropped for
FLOAT/DOUBLE/BLOB; `Enum` renders `VARCHAR(maxlen)`, `Uuid` renders `CHAR(32)`. -/
def declTy (t : MdTy) : DTy :=
  match t.fam with
  | .Integer => ⟨.integer, [], []⟩
  | .BigInteger => ⟨.bigint, [], []⟩
  | .SmallInteger => ⟨.smallint, [], []⟩
  | .String | .Unicode | .VARCHAR | .Enum => ⟨.varchar, [], t.args.take 1⟩
  | .Text | .UnicodeText | .TEXT => ⟨.text, [], []⟩
  | .Boolean => ⟨.boolean, [], []⟩
  | .Float | .FLOAT => ⟨.float, [], []⟩
  | .Double => ⟨.double, [], []⟩
  | .Numeric | .NUMERIC => ⟨.numeric, [], t.args.take 2⟩
  | .DECIMAL => ⟨.decimal, [], t.args.take 2⟩
  | .DateTime | .Interval => ⟨.datetime, [], []⟩
  | .Date => ⟨.date, [], []⟩
  | .Time => ⟨.time, [], []⟩
  | .LargeBinary | .BLOB => ⟨.blob, [], []⟩
  | .JSON => ⟨.json, [], []⟩
  | .Uuid => ⟨.char, [], [32]⟩
  | .CHAR => ⟨.char, [], t.args.take 1⟩
  | .NVARCHAR => ⟨.nvarchar, [], t.args.take 1⟩
  | .NCHAR => ⟨.nchar, [], t.args.take 1⟩
  | .REAL => ⟨.real, [], []⟩
  | .TIMESTAMP => ⟨.timestamp, [], []⟩
  | .CLOB => ⟨.clob, [], []⟩
  | .BINARY => ⟨.binary, [], t.args.take 1⟩
  | .VARBINARY => ⟨.varbinary, [], t.args.take 1⟩
  | .DOUBLE_PRECISION => ⟨.double, [.precision], []⟩
  | .UUID => ⟨.uuid, [], []⟩

/-- the text `type_compiler.process(type)` gives (the metadata side of `compare_type`): the
declared type followed by `COLLATE "<name>"` when the string type has a collation.  The
collation is a column constraint in SQLite, not part of the declared type, so the database
column (`declTy`) and hence the reflected type never carry it. -/
def ddlTy (t : MdTy) : DTy :=
  let d := declTy t
  { d with rest := d.rest ++ (match t.coll with
      | some c => [W.collate, c]
      | none => []) }

/-- names present in `SQLiteDialect.ischema_names` (those the catalogue can emit) -/
def knownName : W → Bool
  | .clob | .binary | .varbinary | .uuid | .precision | .collate | .nocase | .rtrim => false
  | _ => true

/-- a declared type reflects by name iff it is a single known word -/
def known (d : DTy) : Bool := d.rest.isEmpty && knownName d.t0

/-- `_resolve_type_affinity` for names not in `ischema_names` (substring rules: INT, then
CHAR/CLOB/TEXT, then BLOB, then REAL/FLOA/DOUB, else NUMERIC); the arguments survive iff
the affinity class takes them. -/
def affinity (d : DTy) : DTy :=
  match d.t0 with
  | .clob => ⟨.text, [], d.args.take 1⟩
  | .double => ⟨.real, [], []⟩
  | _ => ⟨.numeric, [], d.args.take 2⟩

/-- the type the inspector reports for a column declared with DDL type `d`, recompiled -/
def reflTy (d : DTy) : DTy := if known d then d else affinity d

/-! ## compare_type -/

/-- `type_synonyms = ({"NUMERIC", "DECIMAL"},)` -/
def inSyn (w : W) : Bool := w == .numeric || w == .decimal

/-- `_column_types_match`: equal first token, or both sides inside one synonym batch
(either as the full term string - only single-word terms are in the batch - or by token0). -/
def typesMatch (insp md : DTy) : Bool :=
  insp.t0 == md.t0 ||
  ((insp.rest.isEmpty && md.rest.isEmpty && inSyn insp.t0 && inSyn md.t0) ||
   (inSyn insp.t0 && inSyn md.t0))

/-- `_column_args_match` (SQLite has no `type_arg_extract`): extra words / arguments are
compared only when both sides have the same number of them. -/
def argsMatch (insp md : DTy) : Bool :=
  !(md.rest.length == insp.rest.length && md.rest != insp.rest) &&
  !(md.args.length == insp.args.length && md.args != insp.args)

/-- `DefaultImpl.compare_type`: `true` = the types differ -/
def compareType (insp md : DTy) : Bool :=
  !(typesMatch insp md) || !(argsMatch insp md)

/-! ## text forms (driver / correspondence only) -/

def DTy.render (d : DTy) : String :=
  let pre := d.rest.takeWhile (fun w => w != W.collate)
  let post := (d.rest.dropWhile (fun w => w != W.collate)).drop 1
  let words := " ".intercalate ((d.t0 :: pre).map W.toString)
  let withArgs := match d.args with
    | [] => words
    | as => words ++ "(" ++ ", ".intercalate (as.map toString) ++ ")"
  match post with
  | [] => withArgs
  | cs => withArgs ++ " COLLATE \"" ++ " ".intercalate (cs.map W.toString) ++ "\""

def W.ofString : String → Option W
  | "NOCASE" => some .nocase | "BINARY" => some .binary | "RTRIM" => some .rtrim
  | _ => none

def Fam.ofString : _root_.String → Option Fam
  | "Integer" => some .Integer | "BigInteger" => some .BigInteger | "SmallInteger" => some .SmallInteger
  | "String" => some .String | "Unicode" => some .Unicode | "Text" => some .Text
  | "UnicodeText" => some .UnicodeText | "Boolean" => some .Boolean | "Float" => some .Float
  | "Double" => some .Double | "Numeric" => some .Numeric | "DateTime" => some .DateTime
  | "Date" => some .Date | "Time" => some .Time | "Interval" => some .Interval
  | "LargeBinary" => some .LargeBinary | "JSON" => some .JSON | "Uuid" => some .Uuid
  | "Enum" => some .Enum | "VARCHAR" => some .VARCHAR | "CHAR" => some .CHAR
  | "NVARCHAR" => some .NVARCHAR | "NCHAR" => some .NCHAR | "TEXT" => some .TEXT
  | "NUMERIC" => some .NUMERIC | "DECIMAL" => some .DECIMAL | "FLOAT" => some .FLOAT
  | "REAL" => some .REAL | "TIMESTAMP" => some .TIMESTAMP | "BLOB" => some .BLOB
  | "CLOB" => some .CLOB | "BINARY" => some .BINARY | "VARBINARY" => some .VARBINARY
  | "DOUBLE_PRECISION" => some .DOUBLE_PRECISION | "UUID" => some .UUID
  | _ => none

end Model.Diff
