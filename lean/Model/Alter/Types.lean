/-!
# `alter_column`: request record, constructs and abstract statements

Vocabulary shared by the mirror of `alembic/operations/toimpl.py: alter_column` and of the
seven `alter_column` implementations in `alembic/ddl/{impl,sqlite,postgresql,mysql,mssql,oracle}.py`.

* types are opaque tokens (`name` = the text SQLAlchemy's type compiler gives for the dialect)
  plus the two flags the code inspects: `dt` (`_type_affinity is DateTime`) and `ck` (the
  SQLAlchemy "schema type" CHECK constraint that `toimpl._count_constraint` counts for this
  dialect: `none` = no constraint, `some none` = unnamed constraint, `some (some n)` = named);
* server defaults are `plain` (text as rendered by SQLAlchemy) | `identity` | `computed`;
* Python's tri-state arguments (`False` = not passed, `None`, value) are `Tri`.
-/
namespace Model.Alter

inductive Dialect where
  | default | sqlite | postgresql | mysql | mariadb | mssql | oracle
  deriving DecidableEq, Repr

def Dialect.isMySQL : Dialect → Bool
  | .mysql | .mariadb => true
  | _ => false

/-- exception classes raised by the anchored code -/
inductive Err where
  | commandError            -- util.CommandError
  | notImplemented          -- NotImplementedError (MySQL individual constructs)
  | compileError            -- sqlalchemy.exc.CompileError (computed / identity / unnamed DROP CONSTRAINT)
  | unsupportedCompilation  -- sqlalchemy.exc.UnsupportedCompilationError (no visitor, e.g. ColumnComment)
  | assertion               -- AssertionError (`format_server_default` on a non-DefaultClause)
  | attributeError          -- AttributeError (identity option read from a non-Identity)
  deriving DecidableEq, Repr

structure Ty where
  name : String
  dt : Bool
  ck : Option (Option String)
  deriving DecidableEq, Repr

inductive DefVal where
  | plain (s : String)
  /-- `extra`: the further identity options that are set, as (attribute name, value) pairs sorted by attribute name
  (`nominvalue`, `nomaxvalue`, `cycle`, `cache`, `minvalue`, `maxvalue`, `increment`) -/
  | identity (always : Bool) (start : Option Nat) (extra : List (String × String))
  | computed (s : String)
  deriving DecidableEq, Repr

def DefVal.isIdentity : DefVal → Bool
  | .identity _ _ _ => true
  | _ => false

def DefVal.isComputed : DefVal → Bool
  | .computed _ => true
  | _ => false

/-- `False` (argument not passed) | `None` | a value -/
inductive Tri (α : Type) where
  | unset
  | drop
  | set (a : α)
  deriving DecidableEq, Repr

/-- `x is not False` -/
def Tri.given {α : Type} : Tri α → Bool
  | .unset => false
  | _ => true

/-- the value when it is a real value (neither `False` nor `None`) -/
def Tri.val? {α : Type} : Tri α → Option α
  | .set a => some a
  | _ => none

/-- everything `op.alter_column(table, column, **kw)` is given -/
structure Req where
  table : String
  column : String
  schema : Option String
  type_ : Option Ty
  nullable : Option Bool
  serverDefault : Tri DefVal
  newName : Option String
  comment : Tri String
  autoinc : Option Bool
  exType : Option Ty
  exNullable : Option Bool
  exDefault : Tri DefVal
  exComment : Option String
  exAutoinc : Option Bool
  usingE : Option String
  deriving DecidableEq, Repr

/-- the DDL constructs (`alembic/ddl/base.py` classes and the dialect specific ones) -/
inductive Construct where
  | columnNullable (n : Bool) (exType : Option Ty)
  | columnDefault (d : Option DefVal)
  | computedDefault
  | identityDefault (d : Option DefVal) (ex : Tri DefVal)
  | columnType (t : Ty)
  | columnComment (c : Option String)
  | columnName (n : String)
  | pgColumnType (t : Ty) (usingE : Option String)
  | mysqlChange (newName : String) (ty : Option Ty) (nullable : Bool) (default : Tri DefVal)
      (autoinc : Option Bool) (comment : Option String)
  | mysqlModify (ty : Option Ty) (nullable : Bool) (default : Tri DefVal)
      (autoinc : Option Bool) (comment : Option String)
  | mysqlAlterDefault (d : Option DefVal)
  | execDropDefault
  | dropConstraint (name : Option String)
  | addConstraint (name : Option String)
  deriving DecidableEq, Repr

/-- table reference as it appears in the statement text -/
structure TRef where
  schema : Option String
  table : String
  deriving DecidableEq, Repr

/-- the emitted statements, one constructor per statement shape -/
inductive Stmt where
  /-- `ALTER COLUMN c SET|DROP NOT NULL`, Oracle `MODIFY c NULL|NOT NULL` -/
  | nullable (t : TRef) (col : String) (n : Bool)
  /-- `ALTER COLUMN c TYPE ty [USING e]`, Oracle `MODIFY c ty` -/
  | type_ (t : TRef) (col : String) (ty : String) (usingE : Option String)
  /-- `ALTER COLUMN c SET DEFAULT d | DROP DEFAULT`, Oracle `MODIFY c DEFAULT d|NULL` -/
  | default (t : TRef) (col : String) (d : Option String)
  /-- `RENAME c TO n`, `RENAME COLUMN c TO n`, `EXEC sp_rename 't.c', n, 'COLUMN'` -/
  | rename (t : TRef) (col : String) (new : String)
  /-- `COMMENT ON COLUMN t.c IS 'x'|NULL` -/
  | comment (t : TRef) (col : String) (c : Option String)
  /-- MySQL `CHANGE c n <colspec>` -/
  | mysqlChange (t : TRef) (col : String) (new : String) (ty : String) (nullable : Bool) (autoinc : Bool)
      (default : Option String) (comment : Option String)
  /-- MySQL `MODIFY c <colspec>` -/
  | mysqlModify (t : TRef) (col : String) (ty : String) (nullable : Bool) (autoinc : Bool)
      (default : Option String) (comment : Option String)
  /-- MSSQL `ALTER COLUMN c ty [NULL|NOT NULL]` -/
  | mssqlAlter (t : TRef) (col : String) (ty : String) (n : Option Bool)
  /-- MSSQL `ADD DEFAULT d FOR c` -/
  | mssqlAddDefault (t : TRef) (col : String) (d : String)
  /-- MSSQL batch
  `declare @const_name ... from sys.default_constraints where parent_object_id = object_id('<obj>')`
  `and col_name(parent_object_id, parent_column_id) = '<col>'`
  `exec('alter table <t> drop constraint ' + @const_name)`:
  `obj` is the table the `object_id(...)` string literal denotes, `col` the string the `col_name()`
  literal denotes (literal escaping undone: it must be the bare column name), `t` the table of the
  inner `alter table` -/
  | mssqlDropDefault (t : TRef) (obj : TRef) (col : String)
  /-- PG `ALTER COLUMN c ADD GENERATED ... AS IDENTITY (...)` -/
  | identityAdd (t : TRef) (col : String) (always : Bool) (start : Option Nat) (extra : List (String × String))
  /-- `ALTER COLUMN c DROP IDENTITY`, Oracle `MODIFY c DROP IDENTITY` -/
  | identityDrop (t : TRef) (col : String)
  /-- PG `ALTER COLUMN c [SET GENERATED ALWAYS|BY DEFAULT ][SET START WITH n ]` -/
  | identityAlter (t : TRef) (col : String) (setAlways : Option Bool) (setStart : Option Nat)
      (setExtra : List (String × String))
  /-- Oracle `MODIFY c GENERATED ALWAYS|BY DEFAULT AS IDENTITY [(START WITH n)]` -/
  | identitySet (t : TRef) (col : String) (always : Bool) (start : Option Nat) (extra : List (String × String))
  /-- `ALTER TABLE t DROP CONSTRAINT n` (schema-type constraint of the existing type) -/
  | dropConstraint (t : TRef) (name : String)
  /-- `ALTER TABLE t ADD [CONSTRAINT n] CHECK (c ...)` (schema-type constraint of the new type) -/
  | addConstraint (t : TRef) (name : Option String) (col : String)
  deriving DecidableEq, Repr

/-- what reaches the output buffer, and the exception that ended the call (if any) -/
structure Out where
  stmts : List Stmt
  err : Option Err
  deriving DecidableEq, Repr

def Out.ok : Out := ⟨[], none⟩
def Out.fail (e : Err) : Out := ⟨[], some e⟩

/-- sequencing: `b` runs only when `a` did not raise; output accumulates -/
def Out.andThen (a : Out) (b : Out) : Out :=
  match a.err with
  | some _ => a
  | none => ⟨a.stmts ++ b.stmts, b.err⟩

end Model.Alter
