import Model.Alter.Types
/-!
# Mirror of the `alter_column` implementations

* `compile`            — the `@compiles` visitors (`ddl/base.py`, `ddl/mysql.py`, `ddl/mssql.py`,
                         `ddl/postgresql.py`, `ddl/oracle.py`, `ddl/sqlite.py`) and the constructor
                         check of `MySQLChangeColumn`; `impl._exec` compiles each construct when it
                         is emitted, so a failing compile ends the call after the earlier statements
                         have been written;
* `defaultConstructs`  — `DefaultImpl.alter_column` (`ddl/impl.py`): nullable, default, type,
                         comment, "do the new name last ;)";
* `pgAlter`            — `PostgresqlImpl.alter_column`;
* `mysqlAlter`         — `MySQLImpl.alter_column` (MariaDB inherits it);
* `mssqlAlter`         — `MSSQLImpl.alter_column`;
* `alterColumn`        — `operations/toimpl.py: alter_column` (drop of the existing schema-type
                         constraint, the dialect's alter, add of the new schema-type constraint).

Warnings (`util.warn`) are nothing.
-/
namespace Model.Alter

/-- `sqla_compat._server_default_is_identity(server_default, existing_server_default)` -/
def isIdentity (sd ex : Tri DefVal) : Bool :=
  (match sd with | .set v => v.isIdentity | _ => false) ||
  (match ex with | .set v => v.isIdentity | _ => false)

/-- `sqla_compat._server_default_is_computed(server_default, existing_server_default)` -/
def isComputed (sd ex : Tri DefVal) : Bool :=
  (match sd with | .set v => v.isComputed | _ => false) ||
  (match ex with | .set v => v.isComputed | _ => false)

/-- `format_table_name`: `if schema:` -/
def tref (r : Req) : TRef :=
  ⟨match r.schema with
    | some s => if s = "" then none else some s
    | none => none,
   r.table⟩

/-- `format_server_default`: only a `DefaultClause` has a default string (`assert default_str is not None`) -/
def renderDefault : DefVal → Except Err String
  | .plain s => .ok s
  | _ => .error .assertion

/-- identity options as `_compare_identity_default` reads them (`always` as a bool, `start`);
anything that is not an `Identity` has none -/
def identOpts : Option DefVal → Bool × Option Nat × List (String × String)
  | some (.identity a s e) => (a, s, e)
  | _ => (false, none, [])

/-- the column specification of `_mysql_colspec` -/
def mysqlColspec (default : Tri DefVal) (autoinc : Option Bool) (comment : Option String) :
    Except Err (Bool × Option String × Option String) :=
  let ai := autoinc == some true                       -- `if autoincrement:`
  let cm := match comment with                         -- `if comment:`
    | some c => if c = "" then none else some c
    | none => none
  match default with                                   -- `is not False and is not None`
  | .set dv =>
    match renderDefault dv with
    | .ok s => .ok (ai, some s, cm)
    | .error e => .error e
  | _ => .ok (ai, none, cm)

/-- compile one construct for a dialect (`impl._exec` in `as_sql` mode) -/
def compile (d : Dialect) (t : TRef) (c : String) : Construct → Except Err Stmt
  | .columnNullable n ex =>
    if d.isMySQL then .error .notImplemented
    else if d = .mssql then
      match ex with
      | some ty => .ok (.mssqlAlter t c ty.name (some n))
      | none => .error .attributeError
    else .ok (.nullable t c n)
  | .columnDefault dv =>
    if d.isMySQL then .error .notImplemented
    else if d = .mssql then
      match dv with
      | some v =>
        match renderDefault v with
        | .ok s => .ok (.mssqlAddDefault t c s)
        | .error e => .error e
      | none => .error .assertion
    else
      match dv with
      | some v =>
        match renderDefault v with
        | .ok s => .ok (.default t c (some s))
        | .error e => .error e
      | none => .ok (.default t c none)
  | .computedDefault => .error .compileError
  | .identityDefault sd ex =>
    match d with
    | .postgresql =>
      match sd with
      | none => .ok (.identityDrop t c)
      | some dv =>
        match ex with
        | .drop =>
          match dv with
          | .identity a s e => .ok (.identityAdd t c a s e)
          | _ => .error .attributeError
        | _ =>
          let m := identOpts (some dv)
          let i := identOpts ex.val?
          let diffAlways := m.1 != i.1
          let diffStart := match m.2.1 with
            | some v => i.2.1 != some v
            | none => false
          -- every further option the request sets to a value the existing identity does not have
          let diffExtra := m.2.2.filter (fun kv => !(i.2.2.contains kv))
          if diffAlways && !dv.isIdentity then .error .attributeError
          else .ok (.identityAlter t c (if diffAlways then some m.1 else none) (if diffStart then m.2.1 else none)
            diffExtra)
    | .oracle =>
      match sd with
      | none => .ok (.identityDrop t c)
      | some (.identity a s e) => .ok (.identitySet t c a s e)
      | some _ => .error .attributeError
    | _ => .error .compileError
  | .columnType ty =>
    if d.isMySQL then .error .notImplemented
    else if d = .mssql then .ok (.mssqlAlter t c ty.name none)
    else .ok (.type_ t c ty.name none)
  | .columnComment cm =>
    match d with
    | .postgresql => .ok (.comment t c cm)
    -- Oracle: `None` is rendered as `''`
    | .oracle => .ok (.comment t c (some (cm.getD "")))
    | _ => .error .unsupportedCompilation
  | .columnName n =>
    if d.isMySQL then .error .notImplemented
    else .ok (.rename t c n)
  | .pgColumnType ty usingE =>
    .ok (.type_ t c ty.name (match usingE with
      | some u => if u = "" then none else some u
      | none => none))
  | .mysqlChange new ty nullable default autoinc comment =>
    match ty with
    | none => .error .commandError
    | some ty =>
      match mysqlColspec default autoinc comment with
      | .ok (ai, ds, cm) => .ok (.mysqlChange t c new ty.name nullable ai ds cm)
      | .error e => .error e
  | .mysqlModify ty nullable default autoinc comment =>
    match ty with
    | none => .error .commandError
    | some ty =>
      match mysqlColspec default autoinc comment with
      | .ok (ai, ds, cm) => .ok (.mysqlModify t c ty.name nullable ai ds cm)
      | .error e => .error e
  | .mysqlAlterDefault dv =>
    match dv with
    | some v =>
      match renderDefault v with
      | .ok s => .ok (.default t c (some s))
      | .error e => .error e
    | none => .ok (.default t c none)
  | .execDropDefault => .ok (.mssqlDropDefault t t c)
  | .dropConstraint nm =>
    match nm with
    | some n => .ok (.dropConstraint t n)
    | none => .error .compileError
  | .addConstraint nm => .ok (.addConstraint t nm c)

/-- `self._exec(construct)` for each construct in turn; the first failing one ends the call -/
def emitAll (d : Dialect) (t : TRef) (c : String) : List Construct → Out
  | [] => Out.ok
  | k :: ks =>
    match compile d t c k with
    | .ok s => let r := emitAll d t c ks; ⟨s :: r.stmts, r.err⟩
    | .error e => Out.fail e

/-- `DefaultImpl.alter_column` -/
def defaultConstructs (r : Req) : List Construct :=
  (match r.nullable with
    | some n => [.columnNullable n r.exType]
    | none => []) ++
  (match r.serverDefault with
    | .unset => []
    | sd =>
      if isComputed sd r.exDefault then [.computedDefault]
      else if isIdentity sd r.exDefault then [.identityDefault sd.val? r.exDefault]
      else [.columnDefault sd.val?]) ++
  (match r.type_ with
    | some t => [.columnType t]
    | none => []) ++
  (match r.comment with
    | .unset => []
    | c => [.columnComment c.val?]) ++
  (match r.newName with
    | some n => [.columnName n]
    | none => [])

def defaultAlter (d : Dialect) (r : Req) : Out :=
  emitAll d (tref r) r.column (defaultConstructs r)

/-- `PostgresqlImpl.alter_column` -/
def pgAlter (r : Req) : Out :=
  if r.usingE.isSome && r.type_.isNone then Out.fail .commandError
  else
    emitAll .postgresql (tref r) r.column
      ((match r.type_ with
        | some t => [.pgColumnType t r.usingE]
        | none => []) ++ defaultConstructs { r with type_ := none })

/-- `MySQLImpl._is_mysql_allowed_functional_default` -/
def functionalDefault (ty : Option Ty) (sd : Tri DefVal) : Bool :=
  match ty with
  | some t => t.dt && sd != .drop
  | none => false

/-- `MySQLImpl.alter_column` -/
def mysqlAlter (d : Dialect) (r : Req) : Out :=
  let pre :=
    if isIdentity r.serverDefault r.exDefault || isComputed r.serverDefault r.exDefault then
      emitAll d (tref r) r.column (defaultConstructs { r with newName := none, comment := .unset })
    else Out.ok
  let ty := match r.type_ with
    | some t => some t
    | none => r.exType
  let nullable := match r.nullable with
    | some n => n
    | none => r.exNullable.getD true
  let default := if r.serverDefault.given then r.serverDefault else r.exDefault
  let autoinc := match r.autoinc with
    | some a => some a
    | none => r.exAutoinc
  let comment := match r.comment with
    | .unset => r.exComment
    | c => c.val?
  let main :=
    if r.newName.isSome || functionalDefault ty r.serverDefault then
      emitAll d (tref r) r.column [.mysqlChange (r.newName.getD r.column) ty nullable default autoinc comment]
    else if r.nullable.isSome || r.type_.isSome || r.autoinc.isSome || r.comment.given then
      emitAll d (tref r) r.column [.mysqlModify ty nullable default autoinc comment]
    else if r.serverDefault.given then
      emitAll d (tref r) r.column [.mysqlAlterDefault r.serverDefault.val?]
    else Out.ok
  pre.andThen main

/-- the first part of `MSSQLImpl.alter_column`: fold a type change into the NULL/NOT NULL alter.
Returns `(nullable, type_, existing_type)` as passed on to `DefaultImpl.alter_column`. -/
def mssqlFold (r : Req) : Except Err (Option Bool × Option Ty × Option Ty) :=
  match r.nullable with
  | some n =>
    match r.type_ with
    | some t => .ok (some n, none, some t)
    | none =>
      match r.exType with
      | none => .error .commandError
      | some e => .ok (some n, none, some e)
  | none =>
    match r.exNullable, r.type_ with
    | some en, some t => .ok (some en, none, some t)
    | _, _ => .ok (none, r.type_, r.exType)

/-- `MSSQLImpl.alter_column` -/
def mssqlAlter (r : Req) : Out :=
  match mssqlFold r with
  | .error e => Out.fail e
  | .ok (nullable, type_, exType) =>
    let used := isIdentity r.serverDefault r.exDefault || isComputed r.serverDefault r.exDefault
    let r1 : Req := { r with
      nullable := nullable, type_ := type_, exType := exType, newName := none,
      serverDefault := if used then r.serverDefault else .unset,
      exDefault := if used then r.exDefault else .drop }
    (emitAll .mssql (tref r) r.column (defaultConstructs r1)).andThen
      ((if r.serverDefault.given && !used then
          (if r.exDefault.given || r.serverDefault == .drop then
             emitAll .mssql (tref r) r.column [.execDropDefault]
           else Out.ok).andThen
          (match r.serverDefault with
            | .set dv => emitAll .mssql (tref r) r.column [.columnDefault (some dv)]
            | _ => Out.ok)
        else Out.ok).andThen
       (match r.newName with
         | some n => emitAll .mssql (tref r) r.column [.columnName n]
         | none => Out.ok))

/-- `operations.impl.alter_column(...)` by dialect -/
def implAlter (d : Dialect) (r : Req) : Out :=
  match d with
  | .default | .sqlite | .oracle => defaultAlter d r
  | .postgresql => pgAlter r
  | .mysql | .mariadb => mysqlAlter d r
  | .mssql => mssqlAlter r

/-- `impl.drop_constraint(constraint)` for the schema-type constraint of the existing type:
SQLite skips constraints that have a `_create_rule`, MySQL skips type-bound CHECK constraints -/
def dropTypeConstraint (d : Dialect) (t : TRef) (c : String) (ty : Ty) : Out :=
  match ty.ck with
  | none => Out.ok
  | some nm =>
    match d with
    | .sqlite | .mysql | .mariadb => Out.ok
    | _ => emitAll d t c [.dropConstraint nm]

/-- `impl.add_constraint(constraint)` for the schema-type constraint of the new type
(SQLite: warning only) -/
def addTypeConstraint (d : Dialect) (t : TRef) (c : String) (ty : Ty) : Out :=
  match ty.ck with
  | none => Out.ok
  | some nm =>
    match d with
    | .sqlite => Out.ok
    | _ => emitAll d t c [.addConstraint nm]

/-- `new_column_name or column_name`: the name the new type's constraint is built on (the
constraint is added after the dialect's alter may have renamed the column) -/
def newColumn (r : Req) : String :=
  match r.newName with
  | some n => if n = "" then r.column else n
  | none => r.column

/-- `alembic/operations/toimpl.py: alter_column` -/
def alterColumn (d : Dialect) (r : Req) : Out :=
  (match r.exType, r.type_ with
    | some et, some _ => dropTypeConstraint d (tref r) r.column et
    | _, _ => Out.ok).andThen
  ((implAlter d r).andThen
   (match r.type_ with
    | some t => addTypeConstraint d (tref r) (newColumn r) t
    | none => Out.ok))

end Model.Alter
