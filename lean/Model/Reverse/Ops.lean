/-!
# The op vocabulary of `alembic/operations/ops.py` with `reverse()` (C09)

Ops carry the fields their `__init__` stores.  Schema objects (`Table`, `Index`, `Column`,
`Constraint`) are plain records of the attributes that the `from_*` / `to_*` pairs carry;
their SQL compilation is not modelled (it is compared on the implementation side).
`reverse : Op → Option Op` mirrors each class's `reverse()` as it is, `none` = `ValueError`
("operation is not reversible" / "original constraint is not present").
-/
namespace Model.Reverse

structure Col where
  name : String
  ty : String
  nullable : Bool
  default : Option String
  comment : Option String
  deriving DecidableEq, Repr, Inhabited

inductive ConsKind
  | unique | foreignKey | check | primaryKey
  deriving DecidableEq, Repr, Inhabited

/-- the fields of `CreateUniqueConstraintOp` / `CreateForeignKeyOp` / `CreateCheckConstraintOp` /
`CreatePrimaryKeyOp`; `body` = columns / referent / sqltext / remaining kw (opaque) -/
structure ConsDef where
  kind : ConsKind
  name : Option String
  table : String
  schema : Option String
  body : String
  deferrable : Option Bool
  initially : Option String
  /-- foreign keys: `referent_schema` (the schema of the referred table; `schema` is `source_schema`).
  `CreateForeignKeyOp.from_constraint` reads both back from `_fk_spec` and always passes both. -/
  refSchema : Option String := none
  deriving DecidableEq, Repr, Inhabited

/-- `from_constraint(to_constraint(c))`: unique, foreign key and check constraint ops carry
`deferrable` / `initially` whenever they are not `None`; `CreatePrimaryKeyOp.from_constraint` reads
only the dialect kwargs -/
def ConsDef.roundTrip (c : ConsDef) : ConsDef :=
  match c.kind with
  | .primaryKey => { c with deferrable := none, initially := none }
  | _ => c

structure IndexDef where
  name : Option String
  table : String
  schema : Option String
  cols : List String
  unique : Bool
  kw : List (String × String)
  deriving DecidableEq, Repr, Inhabited

structure TableDef where
  name : String
  schema : Option String
  cols : List Col
  cons : List ConsDef
  comment : Option String
  /-- the table-level options, opaque: canonical encoding of `(table.kwargs, prefixes, info)` with every
  value kept as given, falsy ones included (`sqlite_with_rowid=False`, `mysql_engine=''`, `info={}`).
  `CreateTableOp.from_table` / `DropTableOp.from_table` / `to_table` pass them through unchanged. -/
  extra : String
  /-- the indexes `to_table()` derives from `Column(index=True)` flags (opaque canonical strings).
  `impl.create_table` emits a CREATE INDEX for each; a `CreateTableOp` built by `from_table` has none:
  it carries `list(table.c) + list(table.constraints)` with `_constraints_included=True`, which makes
  `schemaobj.table()` clear the `unique` / `index` flags of the copied columns. -/
  ixs : List String
  deriving DecidableEq, Repr, Inhabited

/-- `False` (not given) / `None` / a value: `server_default`, `modify_comment` -/
inductive Tri
  | unset | null | val (s : String)
  deriving DecidableEq, Repr, Inhabited

structure Alter where
  table : String
  column : String
  schema : Option String
  existingType : Option String
  existingNullable : Option Bool
  existingDefault : Tri
  existingComment : Option String
  modifyType : Option String
  modifyNullable : Option Bool
  modifyDefault : Tri
  modifyComment : Tri
  modifyName : Option String
  kw : List (String × String)       -- no `existing_*` / `modify_*` keys (assumption)
  deriving DecidableEq, Repr, Inhabited

inductive Op
  | createTable (t : TableDef) (ifNotExists : Option Bool)
  | dropTable (name : String) (schema : Option String) (ifExists : Option Bool)
      (comment : Option String) (extra : String) (rev : Option TableDef)
  | addColumn (table : String) (schema : Option String) (col : Col) (kw : List (String × String))
  | dropColumn (table : String) (schema : Option String) (column : String)
      (kw : List (String × String)) (rev : Option Col)
  | createIndex (ix : IndexDef) (ifNotExists : Option Bool)
  | dropIndex (name : Option String) (table : String) (schema : Option String) (ifExists : Option Bool)
      (kw : List (String × String)) (rev : Option IndexDef)
  | addConstraint (c : ConsDef)
  | dropConstraint (name : Option String) (table : String) (schema : Option String)
      (ty : Option ConsKind) (rev : Option ConsDef)
  | alterColumn (a : Alter)
  | createTableComment (table : String) (schema : Option String) (comment : Option String)
      (existing : Option String)
  | dropTableComment (table : String) (schema : Option String) (existing : Option String)
  | modifyTable (table : String) (schema : Option String) (ops : List Op)
  deriving Repr, Inhabited

/-- `AlterColumnOp.reverse`: existing_/modify_ swap for every attribute whose `modify_` is set; the
reverse of a rename operates on the new name and renames back -/
def Alter.reverse (a : Alter) : Alter :=
  let (eT, mT) := match a.modifyType with
    | some m => (some m, a.existingType)
    | none => (a.existingType, none)
  let (eN, mN) := match a.modifyNullable with
    | some m => (some m, a.existingNullable)
    | none => (a.existingNullable, none)
  let (eD, mD) := match a.modifyDefault with
    | .unset => (a.existingDefault, Tri.unset)
    | m => (m, a.existingDefault)
  let (eC, mC) := match a.modifyComment with
    | .unset => (a.existingComment, Tri.unset)
    | .null => (none, match a.existingComment with | some s => Tri.val s | none => Tri.null)
    | .val s => (some s, match a.existingComment with | some s => Tri.val s | none => Tri.null)
  { a with
    existingType := eT, modifyType := mT
    existingNullable := eN, modifyNullable := mN
    existingDefault := eD, modifyDefault := mD
    existingComment := eC, modifyComment := mC
    column := match a.modifyName with | some n => n | none => a.column
    modifyName := match a.modifyName with | some _ => some a.column | none => none }

/-- `DropIndexOp.from_index(index)`: `unique=index.unique` and the index kwargs go into `kw` -/
def dropIndexOf (ix : IndexDef) : Op :=
  .dropIndex ix.name ix.table ix.schema none
    (("unique", if ix.unique then "True" else "False") :: ix.kw) (some ix)

/-- `DropIndexOp.to_index()`: name/table/schema of the drop op, columns of `_reverse` (or the
dummy `["x"]`), `**self.kw` (which holds `unique`) -/
def dropIndexToIndex (name : Option String) (table : String) (schema : Option String)
    (kw : List (String × String)) (rev : Option IndexDef) : IndexDef :=
  { name := name, table := table, schema := schema
    cols := match rev with | some r => r.cols | none => ["x"]
    unique := kw.lookup "unique" == some "True"
    kw := kw.filter (fun p => p.1 != "unique") }

mutual
/-- `op.reverse()` -/
def Op.reverse : Op → Option Op
  | .createTable t _ =>
    -- DropTableOp.from_table(self.to_table())
    -- (`_reverse = CreateTableOp.from_table(table)`: columns and constraints, no indexes)
    some (.dropTable t.name t.schema none t.comment t.extra (some { t with ixs := [] }))
  | .dropTable name schema _ comment extra rev =>
    -- CreateTableOp.from_table(self.to_table())
    some (.createTable
      { name := name, schema := schema
        cols := match rev with | some r => r.cols | none => []
        cons := match rev with | some r => r.cons | none => []
        comment := comment, extra := extra, ixs := [] } none)
  | .addColumn table schema col _ =>
    some (.dropColumn table schema col.name [] (some col))
  | .dropColumn table schema _ _ rev =>
    match rev with
    | some col => some (.addColumn table schema col [])
    | none => none
  | .createIndex ix _ => some (dropIndexOf ix)
  | .dropIndex name table schema _ kw rev =>
    some (.createIndex (dropIndexToIndex name table schema kw rev) none)
  | .addConstraint c =>
    -- DropConstraintOp.from_constraint(self.to_constraint())
    let c' := c.roundTrip
    some (.dropConstraint c'.name c'.table c'.schema (some c'.kind) (some c'))
  | .dropConstraint name table schema _ rev =>
    match rev with
    | some r => some (.addConstraint ({ r with name := name, table := table, schema := schema }).roundTrip)
    | none => none
  | .alterColumn a => some (.alterColumn a.reverse)
  | .createTableComment table schema comment existing =>
    match existing with
    | none => some (.dropTableComment table schema comment)
    | some e => some (.createTableComment table schema (some e) comment)
  | .dropTableComment table schema existing =>
    some (.createTableComment table schema existing none)
  | .modifyTable table schema ops =>
    match reverseEach ops with
    | some rs => some (.modifyTable table schema rs.reverse)
    | none => none

/-- `[op.reverse() for op in ops]` (an exception in any element propagates) -/
def reverseEach : List Op → Option (List Op)
  | [] => some []
  | o :: rest =>
    match Op.reverse o, reverseEach rest with
    | some r, some rs => some (r :: rs)
    | _, _ => none
end

/-- `UpgradeOps.reverse_into(downgrade_ops)` / `UpgradeOps.reverse()` / `DowngradeOps.reverse()`:
`list(reversed([op.reverse() for op in self.ops]))` -/
def reverseInto (ops : List Op) : Option (List Op) :=
  (reverseEach ops).map List.reverse

/-- `_populate_migration_script` (autogenerate/compare.py): after `_produce_net_changes` has filled
`upgrade_ops`, `upgrade_ops.reverse_into(downgrade_ops)` -/
def populate (upgradeOps : List Op) : Option (List Op) := reverseInto upgradeOps

end Model.Reverse
