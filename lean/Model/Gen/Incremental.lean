import Model.Rev.Resolve
/-!
# `RevisionMap.add_revision`: incremental update of an already loaded map

Mirror of `alembic/script/revision.py: RevisionMap.add_revision` in the order the Python
performs it:

1. `map_[revision.revision] = revision`
2. `_map_branch_labels([revision], map_)`
3. `_add_depends_on([revision], map_)`
4. `bases` / `_real_bases`
5. `add_nextrev` on every down revision (`KeyError` when one is missing)
6. `_normalize_depends_on([revision], map_)`
7. every revision's `branch_labels` is reset to its own labels and `_add_branches` is run over
   all labelled revisions, on the updated graph (since the fix of F5; before, only
   `_add_branches([revision])` ran, and it ran before `add_nextrev`)
8. `_real_heads`, `heads`

The lead's `LMap` computes `nextrev`/`_all_nextrev` from the list of revisions.
-/
namespace Model.Gen
open Model.Rev

/-- the keys of the map (revision ids, then branch labels) -/
def hasKey (m : LMap) (k : String) : Bool := k ∈ m.ids || m.labelKeys.any (·.1 == k)

/-- step 3: `_map_branch_labels([revision], map_)`; the map already contains the new id -/
def addLabelKeys (ids : List Id) (rid : Id) : List String → List (String × Id) → Except Err (List (String × Id))
  | [], acc => .ok acc
  | l :: ls, acc =>
    if l ∈ ids ∨ acc.any (·.1 == l) then .error .revisionError
    else addLabelKeys ids rid ls (acc ++ [(l, rid)])

/-- steps 4-9 once the guards have passed and the label keys are known -/
def addCore (m : LMap) (r : Rev) (labelKeys' : List (String × Id)) : LMap :=
  let ids' := m.ids ++ [r.id]
  -- 4. `_add_depends_on`
  let rd := resolveDeps ids' labelKeys' r.deps
  let new0 : LRev := { id := r.id, down := r.down, rdeps := rd, ndeps := [], origLabels := r.labels,
                       labels := r.labels }
  -- 6. `add_nextrev`: children sets are computed from the list of revisions
  let m1 : LMap := { m with revs := m.revs ++ [new0], labelKeys := labelKeys' }
  -- 7. `_normalize_depends_on`
  let new1 : LRev := { new0 with ndeps := normalizeOne m1 new0 }
  let m2 : LMap := { m1 with revs := m.revs ++ [new1] }
  -- 8. every `branch_labels` reset to the revision's own labels, then `_add_branches` over all
  --    labelled revisions on the updated graph: exactly what the initial load does
  let m3 := addBranches m2
  -- 5. bases, 9. heads
  let isRealHead := (m2.allNextrev r.id).isEmpty
  let isHead := (m2.nextrev r.id).isEmpty
  { m3 with
    bases := if r.down.isEmpty then m.bases ++ [r.id] else m.bases
    realBases := if r.down.isEmpty ∧ r.deps.isEmpty then m.realBases ++ [r.id] else m.realBases
    realHeads := if isRealHead then (m.realHeads.filter (fun h => !(h ∈ new1.allDown || h == r.id))) ++ [r.id] else m.realHeads
    heads := if isHead then (m.heads.filter (fun h => !(h ∈ r.down || h == r.id))) ++ [r.id] else m.heads }

/-- `add_revision(revision)` for a revision whose id is not yet in the map
    (`_replace=False`; a repeated id only warns in Python and is outside this model: `assertion`) -/
def addRevision (m : LMap) (r : Rev) : Except Err LMap := do
  checkRev r                                   -- `Revision.__init__` (ran when the Script was built)
  if hasKey m r.id then throw .assertion
  let ids' := m.ids ++ [r.id]
  -- 3. `_map_branch_labels`
  let labelKeys' ← addLabelKeys ids' r.id r.labels m.labelKeys
  -- 4./6. `map_[dep]`, `map_[downrev]`: KeyError for a name that is not a key
  if (r.down ++ r.deps).any (fun d => (lookupKey ids' labelKeys' d).isNone) then throw .keyError
  pure (addCore m r labelKeys')

/-! ## the observable view of a map -/

structure RevView where
  id : Id
  down : List Id
  rdeps : List Id
  ndeps : List Id
  labels : List String
  nextrev : List Id
  allNextrev : List Id
  deriving Repr, DecidableEq, Inhabited

structure View where
  revs : List RevView
  labelKeys : List (String × Id)
  heads : List Id
  realHeads : List Id
  bases : List Id
  realBases : List Id
  deriving Repr, DecidableEq, Inhabited

def revView (m : LMap) (r : LRev) : RevView :=
  { id := r.id, down := r.down, rdeps := r.rdeps, ndeps := r.ndeps, labels := r.labels,
    nextrev := m.nextrev r.id, allNextrev := m.allNextrev r.id }

def view (m : LMap) : View :=
  { revs := m.revs.map (revView m), labelKeys := m.labelKeys, heads := m.heads, realHeads := m.realHeads,
    bases := m.bases, realBases := m.realBases }

/-- the view without the `branch_labels` sets (what F5 leaves intact) -/
def View.noLabels (v : View) : View := { v with revs := v.revs.map (fun r => { r with labels := [] }) }

end Model.Gen
