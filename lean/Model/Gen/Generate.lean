import Model.Gen.Incremental
/-!
# `ScriptDirectory.generate_revision`: argument resolution

Mirror of `alembic/script/base.py: ScriptDirectory.generate_revision` up to the template
call (what is written into the file) followed by `Script._from_path` + `add_revision`.
`RevisionError`s raised inside `_catch_revision_errors` surface as `CommandError`; the model
keeps the underlying class (the harness unwraps `__cause__` the same way).
-/
namespace Model.Gen
open Model.Rev

structure GenArgs where
  revid : String
  /-- the `head` argument through `util.to_tuple` (default `["head"]`) -/
  heads : List String
  splice : Bool
  /-- `branch_labels` through `util.to_tuple` -/
  labels : List String
  /-- `depends_on` through `util.to_list` -/
  deps : List String
  /-- `version_path` as `os.path.normpath(os.path.abspath(.))`, `none` when not given -/
  versionPath : Option String := none
  /-- `_version_locations`, each through `os.path.normpath` -/
  locations : List String := []
  /-- `command.revision(sql=True)` while `revision_environment` is not configured (command layer) -/
  sqlNoEnv : Bool := false
  /-- the configured `timezone` names a zone `zoneinfo` knows (as written or upper-cased), or none is configured -/
  tzOk : Bool := true
  /-- every character the template is handed (message, id, down revisions, labels, dependencies) can be written in the
      configured `output_encoding` (`str.encode` succeeds; always so with the default utf-8 and no lone surrogate) -/
  encodable : Bool := true
  /-- a file with the name the template gives this call (`_rev_path`) is already in the version path: the
      name joins the id and the message slug (or leaves the id out), so two different revisions can map to one name -/
  fileTaken : Bool := false
  /-- the path `_rev_path` gives this call (version path + file name), when the caller of the model knows it
      (`none`: the name contains date tokens of the real clock) -/
  file : Option String := none
  deriving Repr, Inhabited

def hasDup : List (Option Id) → Bool
  | [] => false
  | x :: r => x ∈ r || hasDup r

/-- one element of the `resolved_depends_on` comprehension: the label is kept when it is a
    branch label of the revision it resolves to, otherwise the (full) revision id is written -/
def resolveDependsOn (m : LMap) (dep : String) : Except Err String := do
  match ← getRevision m dep with
  | none => throw .assertion                      -- `not_none(...)`
  | some i => pure (if dep ∈ m.labelsOf i then dep else i)

/-- head resolution, duplicate-head check, version-path check, splice check, `depends_on`
    resolution: the down revisions and the dependencies as they will be written -/
def resolveArgs (m : LMap) (a : GenArgs) : Except Err (List Id × List String) := do
  if a.sqlNoEnv then throw .commandError                              -- "Using --sql with the revision command when revision_environment is not configured ..."
  if a.revid.toList.any (· ∈ illegalChars) then throw .revisionError  -- `verify_rev_id` (CommandError from RevisionError)
  let heads ← getRevisionsMany m a.heads
  if hasDup heads then throw .commandError                           -- "Duplicate head revisions specified"
  if !a.tzOk then throw .commandError                                -- `_generate_create_date`: "Can't locate timezone"
  -- the version path: taken from the first head when several locations are configured and none
  -- is given ("please specify --version-path" when there is no head); a given path has to BE one
  -- of the configured locations (also with `recursive_version_locations`)
  match a.versionPath with
  | none =>
    if a.locations.length > 1 ∧ heads.all (·.isNone) then throw .commandError
  | some p =>
    if p ∉ a.locations then throw .commandError                      -- "Path ... is not represented in current version locations"
  if !a.splice then
    if heads.any (fun h => match h with | some i => !(m.nextrev i).isEmpty | none => false) then
      throw .commandError                                            -- "is not a head revision"
  let deps ← a.deps.mapM (resolveDependsOn m)
  pure (heads.filterMap id, deps)

/-- the keys of `_revision_map`: revision ids and branch labels -/
def keysOf (m : LMap) : List String := m.ids ++ m.labelKeys.map (·.1)

/-- the loop over `util.to_tuple(branch_labels)` added by the fix of F14: each label must not be
    a key of the map, the new revision id, or an earlier label of the same call -/
def labelsFree (taken : List String) : List String → Bool
  | [] => true
  | l :: ls => !(l ∈ taken) && labelsFree (l :: taken) ls

/-- the four identifier values handed to the template.  A revision id that is already a key of
    the map (a revision id or a branch label; since the fix of F16) and a taken branch label
    (since the fix of F14) are refused here, in this order, BEFORE anything is written; so are a file name
    that is already taken (since the fix of F17) and a text the configured `output_encoding` cannot represent. -/
def generateRevision (m : LMap) (a : GenArgs) : Except Err Rev :=
  match resolveArgs m a with
  | .error e => .error e
  | .ok (down, deps) =>
    if a.revid ∈ keysOf m then .error .commandError                   -- "Revision identifier ... is already present in the revision history"
    else if labelsFree (a.revid :: keysOf m) a.labels then
      if a.fileTaken then .error .commandError                        -- "Revision file ... already exists" (since the fix of F17)
      -- `util.template_to_file`: the text is rendered and encoded BEFORE the destination is opened
      else if a.encodable then .ok { id := a.revid, down := down, deps := deps, labels := a.labels }
      else .error .commandError                                       -- "Template rendering failed."
    else .error .commandError                                         -- "Branch name ... already used by revision ..."

/-- `generate_revision` = write the file, load it (`Script._from_path`), `add_revision` -/
def genCall (m : LMap) (a : GenArgs) : Except Err (Rev × LMap) := do
  let r ← generateRevision m a
  let m' ← addRevision m r
  pure (r, m')

/-- the state after a call: the files on disk (the history, in load order) and the in-memory map.
    A refused call writes nothing and does not touch the map. -/
def stepCall (st : Hist × LMap) (a : GenArgs) : Hist × LMap :=
  match genCall st.2 a with
  | .ok (r, m') => (st.1 ++ [r], m')
  | .error _ => st

/-! ## the directory with its files: a sequence of calls -/

/-- the revision files on disk (history in load order), the in-memory map, and the paths present in the
    version locations -/
structure DirState where
  hist : Hist
  map : LMap
  files : List String

/-- the call as `generate_revision` sees it in a directory holding `files`: its own path may be taken -/
def GenArgs.inDir (a : GenArgs) (files : List String) : GenArgs :=
  { a with fileTaken := a.fileTaken || (match a.file with | some f => decide (f ∈ files) | none => false) }

/-- one call against the directory: an accepted call adds its revision and its file; a refused call
    writes nothing, replaces nothing and does not touch the map -/
def stepCallF (st : DirState) (a : GenArgs) : DirState :=
  match genCall st.map (a.inDir st.files) with
  | .ok (r, m') =>
    { hist := st.hist ++ [r], map := m', files := match a.file with | some f => st.files ++ [f] | none => st.files }
  | .error _ => st

def runCallsF (st : DirState) (calls : List GenArgs) : DirState := calls.foldl stepCallF st

end Model.Gen
